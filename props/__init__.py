"""Registry: property id -> check function(ctx, replay_path_or_None)."""
import importlib, pkgutil, os

REGISTRY = {}
for m in pkgutil.iter_modules([os.path.dirname(__file__)]):
    mod = importlib.import_module("props." + m.name)
    REGISTRY.update(getattr(mod, "CHECKS", {}))
