"""C09, C16 -- dasp_graph: which nodes a process call runs and what they are handed (spec/Graph.tla);
what the built-in nodes and wrappers compute (spec/Nodes.tla)."""
import os
from lib import kit


def _chunks(path, lines_per_chunk):
    """Cut a trace at `reset` lines into files of about lines_per_chunk lines."""
    k, n, out = 0, 0, None
    with open(path) as f:
        for line in f:
            if out is None or (n >= lines_per_chunk and '"ev":"reset"' in line):
                if out:
                    out.close()
                    yield name
                name = "%s.chunk%d" % (path, k)
                out, k, n = open(name, "w"), k + 1, 0
            out.write(line)
            n += 1
    if out:
        out.close()
        yield name


def _run(ctx, hx, stim_files, trace_module, comp, max_lines, jobs, chunk_lines=160000, cap=40, replay_mode=None):
    """Execute + validate.  A defect that hits many executions (sources()/sinks() on every StableGraph with
    a vacant slot) produces hundreds of thousands of rejected events, each carrying its whole execution: the
    trace is validated chunk by chunk and at most `cap` rejections per event name are kept in full (all are
    counted in the evidence: coverage.rejected_by_event)."""
    rej, heap = [], []
    seen = ctx.extra.setdefault("rejected_by_event", {})
    for name, prof, hxp, sf in kit.profile_runs(ctx, "hx_graph", stim_files, replay_mode):
        tr = os.path.join(ctx.work, "%s_trace_%s_%s.ndjson" % (comp, name, prof))
        rej += ctx.run_stimuli(hxp, sf, tr, comp)
        ctx.count_distinct(tr)
        for piece in _chunks(tr, chunk_lines):
            res = ctx.validate(trace_module, piece, comp=comp, max_lines=max_lines, jobs=jobs)
            for kind, src, dst in (("func", res["rejected"], rej), ("heap", res["heap"], heap)):
                for r in src:
                    key = "%s/%s/%s" % (comp, kind, r["event"].get("ev"))
                    seen[key] = seen.get(key, 0) + 1
                    if seen[key] <= cap:
                        dst.append(r)
            os.remove(piece)
        os.remove(tr)
    return rej, heap


def pipeline_graph(ctx, replay=None):
    """C09 component; returns (functional rejections, heap rejections)."""
    tier = ctx.tier
    hx = ctx.cargo_build("hx_graph")
    if replay:
        stim_files = [("replay", replay)]
    else:
        stim = os.path.join(ctx.work, "graph_stim.ndjson")
        ctx.mc("MC_Graph", "MC_Graph_%s.cfg" % tier, workers=4 if tier == "quick" else 8, env={"STIM_OUT": stim},
               need_actions=["Step", "Again"], heap="12g")
        ctx.exhaustive = True
        ctx.extra["mc_constants"] = {
            "shapes <<nodes, max multiplicity, process calls on one processor>>":
                [[2, 2, 2], [3, 1, 2]] if tier == "quick" else [[3, 2, 2], [4, 1, 1]],
            "live sets": "every non-empty subset of the index range (vacant slots)", "output node": "every live node"}
        rnd = os.path.join(ctx.work, "graph_rand.ndjson")
        ctx.harness(hx, ["gen", str(ctx.seed), tier, rnd, "graph"])
        stim_files = [("tlc", stim), ("random", rnd)]
    return _run(ctx, hx, stim_files, "Trace_Graph", "graph", 20000, 8, replay_mode=replay)


def pipeline_nodes(ctx, replay=None):
    """C16 component; returns (functional rejections, heap rejections)."""
    tier = ctx.tier
    hx = ctx.cargo_build("hx_graph")
    if replay:
        stim_files = [("replay", replay)]
    else:
        stim = os.path.join(ctx.work, "nodes_stim.ndjson")
        ctx.mc("MC_Nodes", "MC_Nodes_%s.cfg" % tier, workers=4, env={"STIM_OUT": stim}, need_actions=["Call"])
        ctx.exhaustive = True
        ctx.extra["mc_constants"] = {"L": 3 if tier == "quick" else 4, "MaxIn": 3, "MaxBuf": 3,
                                     "NCalls": 3 if tier == "quick" else 4,
                                     "executed at": "Buffer::LEN = 64 with seeded integer contents"}
        rnd = os.path.join(ctx.work, "nodes_rand.ndjson")
        ctx.harness(hx, ["gen", str(ctx.seed), tier, rnd, "node"])
        stim_files = [("tlc", stim), ("random", rnd)]
    return _run(ctx, hx, stim_files, "Trace_Nodes", "node", 1500, 8, replay_mode=replay)


def _comp_of(replay):
    with open(replay) as f:
        head = f.read(400)
    return "node" if '"comp": "node"' in head or '"comp":"node"' in head else "graph"


def c09(ctx, replay):
    ctx.assumptions += [
        "graphs: exhaustively every multigraph on <= 2 nodes (multiplicity <= 2) and every simple digraph with self-loops on 3 nodes "
        "(quick) / every multigraph on 3 nodes and every simple digraph on 4 nodes (thorough), each built as Graph, StableGraph and "
        "StableGraph with vacant slots; randomly to 12 nodes / 40 edges with random removals",
        "node weights NodeData<Probe>, NodeData<BoxedNode>, NodeData<BoxedNodeSend>; every node has >= 1 buffer (an input without "
        "buffers has no storage to be identified by)",
        "probe contents are small integers (|v| < 2^20 by construction of the stimuli), so f32 sums are exact",
        "the neighbour order petgraph uses is not part of the property and is not compared with anything",
    ]
    if replay and _comp_of(replay) != "graph":
        raise kit.ToolError("replay file is not a graph execution")
    rej, _ = pipeline_graph(ctx, replay)
    ctx.add_rejections(rej)


def c16(ctx, replay):
    ctx.assumptions += [
        "buffer contents are integers in [-9, 9] (sums stay exact in f32); the specification works on integers",
        "nested graphs are acyclic apart from self-loops, and their order-sensitive inner nodes (Pass, Delay, GraphNode) have "
        "at most one feeder, so the result does not depend on petgraph's edge order",
        "Delay rings and boxed signals are the crates.io 0.11.0 dasp_ring_buffer / dasp_signal types dasp_graph is built "
        "against at the pinned commit (DESIGN.md section 2)",
        "BoxedNodeSend cannot wrap `Box<dyn Signal>` / GraphNode<_, BoxedNode> (not Send): those combinations do not exist",
    ]
    if replay and _comp_of(replay) != "node":
        raise kit.ToolError("replay file is not a node execution")
    rej, _ = pipeline_nodes(ctx, replay)
    ctx.add_rejections(rej)


CHECKS = {"C09": c09, "C16": c16}
