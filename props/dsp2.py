"""C17 oscillators / noise (spec/Osc.tla), C18 sinc interpolation (spec/Sinc.tla),
C20 window shape and windower schedule (spec/Window.tla).  Family `dsp2`, harness hx_dsp2."""
import os
from lib import kit

FAMS = {
    # pid: (MC module, actions that must be taken, trace module, generator family, component label)
    "C17": ("MC_Osc", ["StepOsc", "StepNoise"], "Trace_Osc", "osc", "osc"),
    "C18": ("MC_Sinc", ["Push", "PushZero", "Reset", "Conv", "ConvZero"], "Trace_Sinc", "sinc", "sinc"),
    "C20": ("MC_Window", ["NextChunk", "NthChunk", "SetBin", "SetHop", "SetFrames"], "Trace_Window", "window", "window"),
}
MC_CONSTANTS = {
    "C17": {"quick": {"rates": [1, 2, 4, 8, 16], "hz": "0..40 per frame, histories of any length (VIEW)", "stimulus_frames": 24},
            "thorough": {"rates": [1, 2, 4, 8, 16], "hz": "0..40 per frame, histories of any length (VIEW)", "stimulus_frames": 64}},
    "C18": {"quick": {"depth": "1..3 (every history of pushes / exact-zero pushes / resets) + 36 (straight histories, one reset)",
                      "history": "3*depth+2", "resets": 2, "zero_frames": 7, "grid_stimuli_depths": [35, 36, 37, 50, 64],
                      "near_grid_depths": [4, 5, 8]},
            "thorough": {"depth": "1..4 + 36, 50, 64", "history": "3*depth+2", "resets": 3, "zero_frames": 9,
                         "grid_stimuli_depths": [33, 35, 36, 37, 48, 50, 64, 96, 128],
                         "near_grid_depths": [4, 5, 6, 7, 8, 16, 36]}},
    "C20": {"quick": {"L": "0..10", "b": "2..5", "h": "1..12", "nth": "0..3", "field_assignments": 1,
                      "value_patterns": "L in {b, b+1, 2b, 10}, h in {1, 2, b}"},
            "thorough": {"L": "0..12", "b": "2..6", "h": "1..14", "nth": "0..4", "field_assignments": 2,
                         "value_patterns": "L in {b, b+1, 2b, 12}, h in {1, 2, b}"}},
}


def _lines(path):
    n = 0
    with open(path) as f:
        for _ in f:
            n += 1
    return n


def pipeline(ctx, pid, replay=None):
    """Model-check, execute TLC's and random stimuli on the real crates, let TLC judge the traces.
    Returns (functional rejections, heap rejections)."""
    mc_mod, actions, trace_mod, fam, comp = FAMS[pid]
    tier = ctx.tier
    hx = ctx.cargo_build("hx_dsp2")   # debug build: also the stimulus generator
    rej, heap = [], []
    if replay:
        stim_files = [("replay", replay)]
    else:
        stim = os.path.join(ctx.work, "%s_stim.ndjson" % fam)
        ctx.mc(mc_mod, "%s_%s.cfg" % (mc_mod, tier), workers=4, env={"STIM_OUT": stim}, need_actions=actions)
        ctx.exhaustive = True
        ctx.extra["mc_constants"] = MC_CONSTANTS[pid][tier]
        rnd = os.path.join(ctx.work, "%s_rand.ndjson" % fam)
        ctx.harness(hx, ["gen", str(ctx.seed), tier, rnd, fam])
        stim_files = [("tlc", stim), ("random", rnd)]
    jobs = 6
    # both build profiles of the harness (debug: overflow checks and debug assertions on; release: optimised, wrapping):
    # the specification expects the same outcome in both, so the trace carries no profile; every rejection does
    for name, prof, hxp, sf in kit.profile_runs(ctx, "hx_dsp2", stim_files, replay):
        tr = os.path.join(ctx.work, "%s_trace_%s_%s.ndjson" % (fam, name, prof))
        r = ctx.run_stimuli(hxp, sf, tr, comp)
        ctx.count_distinct(tr)
        n = _lines(tr)
        res = ctx.validate(trace_mod, tr, comp=comp, max_lines=max(1500, n // jobs + 1), jobs=jobs, timeout=1500)
        for x in r + res["rejected"] + res["heap"]:
            x["profile"] = prof
        rej += r + res["rejected"]
        heap += res["heap"]
        os.remove(tr)
    # which kinds of event were rejected (evidence: e.g. C20 fails on `size_hint` lines only)
    by = {}
    for r in rej:
        key = "%s.%s" % (r["exec"][0].get("comp", "?"), r["event"].get("ev", "?"))
        by[key] = by.get(key, 0) + 1
    ctx.extra["rejections_by_event"] = by
    if by:
        kit.log("[dsp2] rejected events by kind: %s" % by)
    return rej, heap


def c17(ctx, replay):
    ctx.assumptions += [
        "rate > 0 and hz >= 0 finite with hz/rate finite (the statement's domain); -0.0 and NaN frequencies are not driven",
        "the oscillators' phase is private: it is observed through a Phase built from an identical step source "
        "(Phase::next_phase) and the increment through Step::step, in lock step with the oscillators",
        "sine is pinned at phases k/24 (algebraic special values, 1e-12) and by range, half-cycle sign and half-period "
        "antisymmetry elsewhere; its accuracy at other phases is not decided",
        "model checking: rates 1,2,4,8,16 with integer hz 0..40 chosen per frame, unbounded histories; random: rates "
        "44100/48000/96000 (and 3,5,6,7,12,24,48 for special points) with arbitrary finite non-negative hz",
        "noise: u64 is modelled as Z_4 in MC_Osc; the harness drives seeds 0, 1, 2^32-1, 2^32, 2^63, u64::MAX-1, u64::MAX and random ones, "
        "and fixed counters at which each u64 operation of the hash chain (<< 13, x*x, *P1, +P2, *x, +P3) crosses 2^64 - "
        "started at the counter and up to 5 frames before it - plus counters whose 31 output bits are all set; the spec "
        "verifies on exact naturals that each labelled counter does cross where it says (Osc.tla NoiseCross), the value "
        "of the hash is not judged",
        "both build profiles of the harness are executed (debug: overflow checks and debug assertions on; release: "
        "optimised, wrapping); the expected outcome is the same in both, every rejection carries its profile",
        "hz mode: the instrumented frequency signals optionally report is_exhausted() after k pulls while they keep "
        "yielding their programmed (non-zero) frequencies, as from_iter(dev).offset_amp(base) does",
        "a clone of an oscillator / noise source taken mid-run continues as the original does: `peek` reads the next m <= 8 "
        "frames of a clone of every oscillator through the provided Signal::take on the concrete type and the original's "
        "following frames must reproduce them bit for bit; other provided Signal adaptors are not driven on these types",
    ]
    rej, _ = pipeline(ctx, "C17", replay)
    ctx.add_rejections(rej)


def c18(ctx, replay):
    ctx.assumptions += [
        "zero-initialised ring of length 2*depth over Vec storage; depth 1..32 and a sample of large depths (quick: 35, 36, "
        "37, 41, 50, 64, 100; thorough: 33..41, 48, 50, 64, 72, 96, 100, 128); frame types [f64|f32|i8|i16|i32|u8|u16|u32; 1|2] "
        "(32-bit frames carry values with more than 24 significant bits); integer samples are read as amplitudes "
        "(distance from the format's equilibrium)",
        "on the grid (x = 0, every ratio-1 converter output) the property's tolerance 1e-12 * peak is applied to every "
        "format: for the integer formats it is less than one LSB, i.e. the delayed source must come out bit for bit",
        "fractional positions j/16 for Interpolator::interpolate called directly, and exactly given binary64 positions: "
        "1 - 2^-k for every k = 1..53 (down to the largest double below 1), 2^-k for k = 1..55 and on to the smallest "
        "subnormal, a few ulp below 1 / subnormal steps above 0, random full-precision positions in [0, 1); through the "
        "Converter also the positions of ratios 1/2, 3/10, 3/2, 7/16, 2, 5/4, 441/480, 160/147 and - over constant sources, "
        "for the constant clause - of ratios whose accumulated phase comes within a few ulp of an integer by itself "
        "(1/10, 3/10, 7/10, 9/10, 1/7, 2/3, 1/6, 7/5, 49/100 from below; 11/10, 13/10, 1/9, 1/100 from above; up to 420 / 1200 "
        "outputs); the kernel's shape is not specified by the property and not judged",
        "both build profiles of the harness are executed (same expectation in both)",
        "linearity inputs are chosen so that a+b and 2^k*a are exact in the frame format (checked by the trace spec); one "
        "input is dense (never silent, no two frames equal), the other is dense too or has structure: runs of exact zeros "
        "of every length 0..2*depth+1 (depth <= 6; thresholds depth-1, depth, depth+1, 2*depth, 2*depth+1 and random lengths "
        "beyond) after 0, 1..3 or 2*depth non-silent frames, leading zeros, silence throughout, b = -a (the sum falls "
        "silent), runs of equal frames, alternating extremes, a = b; linearity is not judged for the 8-bit formats (the "
        "per-tap truncation allowance 2*depth LSB exceeds every amplitude that cannot overflow)",
        "superposition tolerance 4*depth*eps*peak is statistical head-room (observed <= 1e-15), not a worst-case rounding bound",
        "integer frames stay below 1/8 full scale wherever a fractional position is interpolated, so that no tap sum "
        "overflows; on the grid (ratio-1 converter runs, TLC's histories) integer frames go up to full scale incl. MIN and MAX",
        "the converter is read by next() and, at the end of an execution, by consuming it through the provided Signal::take; "
        "Sinc is not Clone and has no public state",
    ]
    rej, _ = pipeline(ctx, "C18", replay)
    ctx.add_rejections(rej)


def c20(ctx, replay):
    ctx.assumptions += [
        "bin >= 2, hop >= 1 (the statement's domain); window lengths n >= 2; frame formats f64, f32, i16, u8, u16 (mono / stereo)",
        "frame values: dense (no frame silent, no two equal) and with structure - exact silence (equilibrium in every "
        "channel; 128 / 32768 for u8 / u16) at every frame index, i.e. every position of every chunk, in one channel only, "
        "runs of silence of 2, bin-1, bin, bin+1 frames and the whole array, every second frame silent, runs of one "
        "repeated frame, a constant array; both build profiles of the harness are executed (same expectation in both)",
        "Hann is pinned at phases k/24 (n-1 divides 24) and by range, symmetry, end/centre values and monotonicity elsewhere "
        "(1e-12 for f64 windows, 2^-22 for f32 windows); stand-alone windows up to n = 4096",
        "chunk frames are compared bit for bit with mul_amp(frame, w) where w is the value observed from a stand-alone Window "
        "of the frame type's Float companion (no cosine is evaluated by the specification)",
        "only the first `bin` frames of a chunk are taken (Windowed is an infinite iterator)",
        "a windower value is advanced by next, nth(k), by_ref().skip(k).next(), by_ref().step_by(s), by_ref().take(m), "
        "find / position / any / all (predicates that fire at a chosen call), consumed by count / last / fold / for_each, "
        "cloned at any point (up to three values per execution, all continued) and built by Windower::new or the named "
        "constructors; collect / partition / min / max and the adaptors built on try_fold are compositions of these",
        "the public fields bin, hop, frames may be assigned between calls (bin >= 2, hop >= 1, frames = any sub-slice of "
        "the execution's frame array): afterwards the value is a fresh windower over the remaining slice with the current "
        "field values; model checking allows 1 (quick) / 2 (thorough) assignments per behaviour, random runs up to 3",
        "a chunk's frames are read by next, by_ref().take, nth(0), from a clone of the chunk taken half-way, or in part by "
        "nth(1) / step_by(2) / skip(1); the stand-alone Window is also advanced by nth / step_by / by_ref().take on fresh "
        "and cloned instances and after its public phase field is re-assigned (values compared with the first pass to "
        "1e-12 / 2^-22); its size hint must not promise fewer values than the window has left",
        "window functions evaluated directly (dasp_window::Window::window) on f64, f32 and i16 phases: Hann on [0, 1] "
        "(+- 3 ulp), Rectangle on [-2, 3]; an i16 amplitude of 1 is full scale (32767)",
    ]
    rej, _ = pipeline(ctx, "C20", replay)
    if ctx.tier == "thorough" and not replay:
        from props.stream import apalache
        apalache(ctx, "WindowerAbs", implied=["HintOK"])   # chunk schedule + size hint for ANY L, bin >= 1, hop >= 1
        ctx.assumptions.append("Apalache inductive invariant of WindowerAbs: the windower's schedule (chunk k at k*hop iff k*hop + bin <= L) and "
                               "its size hint, for any slice length, bin >= 1, hop >= 1 and any number of calls (fields not re-assigned)")
    ctx.add_rejections(rej)


CHECKS = {"C17": c17, "C18": c18, "C20": c20}
