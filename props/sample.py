"""C01, C02, C15 -- dasp_sample: sample-format conversions and the custom-width integer types
(spec/SampleFormats.tla, spec/SampleTypes.tla; model checking spec/MC_Sample.tla; judge spec/Trace_Sample.tla).

Per property: (1) TLC checks the property's corollaries on the defining formulas (MC_Sample, restricted to
the property by PROP) and writes the boundary cases as stimuli; (2) hx_sample `gen` adds the seeded sweeps
(exhaustive 8-bit, strided / exhaustive 16-bit and 11-bit, random wide values and floats); (3) hx_sample `run`
executes both files on /repo's code -- every conversion through all three API routes, C15 in a build with
and a build without debug assertions; (4) TLC judges every logged line bit for bit (Trace_Sample, batch mode).
"""
import concurrent.futures as cf
import json, os, re
from lib import kit

KINDS = {  # kinds of cases MC_Sample must have visited (vacuity guard, see mc())
    "C01": {"isrc", "ii", "iii", "via", "ksrc", "kk", "kkk", "nsrc", "nn"},
    "C02": {"isrc", "if", "ifi", "via", "fsrc", "fi", "ffsrc", "ff"},
    "C15": {"tsrc", "top", "tcmp", "twid", "rsrc", "gsrc", "gop", "esrc", "eop"},
}


def mc(ctx, prop, stim):
    """Exhaustive TLC run of MC_Sample for one property.  Not ctx.mc: `-coverage 1` makes TLC build a cost
    model that inlines every operator at every call site, which for the Big / Dyadic call graph takes
    gigabytes and minutes before the first state.  Vacuity is guarded by the model itself instead: it prints
    every kind of case it examines and all expected kinds must show up."""
    cfg = "MC_Sample_%s.cfg" % ctx.tier
    rc, out, dt = kit.tlc("MC_Sample", cfg, ctx.work, workers=4, env={"PROP": prop, "STIM_OUT": stim},
                          timeout=1500, coverage=False, heap="6g")
    st = kit.parse_states(out)
    if rc != 0 or st is None or "Error:" in out or "STIMULI" not in out:
        raise kit.ToolError("TLC model checking of MC_Sample/%s (PROP=%s) failed (rc=%s):\n%s" %
                            (cfg, prop, rc, "\n".join(out.splitlines()[-40:])))
    kinds = set(re.findall(r'<<"KIND", "(\w+)">>', out))
    if not KINDS[prop] <= kinds:
        raise kit.ToolError("vacuity: MC_Sample never examined cases of kind %s" % sorted(KINDS[prop] - kinds))
    ctx.states += st[1]
    ctx.transitions += st[0]
    ctx.mc_runs.append({"module": "MC_Sample", "cfg": cfg, "prop": prop, "generated": st[0], "distinct": st[1],
                        "wall_s": round(dt, 1), "kinds": sorted(kinds)})
    kit.log("[mc] MC_Sample %s PROP=%s: %d generated, %d distinct, %.1fs" % (cfg, prop, st[0], st[1], dt))


def split_by_bytes(path, workdir, target):
    """Cut a trace at reset lines into pieces of about `target` bytes (an execution is never cut)."""
    pieces, cur, size, n = [], [], 0, 0
    base = os.path.join(workdir, os.path.basename(path))

    def flush():
        nonlocal cur, size, n
        if cur:
            p = "%s.part%d" % (base, len(pieces))
            with open(p, "w") as f:
                f.writelines(cur)
            pieces.append((p, n))
        cur, size, n = [], 0, 0
    with open(path) as f:
        for line in f:
            if '"ev":"reset"' in line and size >= target:
                flush()
            cur.append(line)
            size += len(line)
            n += 1
    flush()
    return pieces


def judge(ctx, trace, comp, jobs=8):
    """Batch validation of a trace by Trace_Sample in parallel JVMs.  Like ctx.validate(batch=True), but it
    cuts by bytes (the 11-bit sweep events are 10 kB each), checks that TLC judged every line of every piece,
    and also collects the HEAPSET / OUTSIDE sets.  A rejected line becomes a two-line execution
    [reset header, the event]: every event is a call of a pure function, so that is a complete replay."""
    total = os.path.getsize(trace)
    pieces = split_by_bytes(trace, ctx.work, min(max(total // jobs + 1, 1 << 20), 24 << 20))

    def sets(out, tag):
        r = []
        for m in re.findall(r'<<\s*"%s",\s*\{([^}]*)\}' % tag, out):
            r += [int(x) for x in re.split(r"[\s,]+", m) if x]
        return sorted(set(r))

    def one(piece):
        path, nlines = piece
        rc, out, dt = kit.tlc("Trace_Sample", "Trace_Sample.cfg", ctx.work, workers=1, env={"TRACE": path},
                              timeout=1700, heap="5g")
        m = re.search(r'<<"JUDGED", (\d+)>>', out)
        n = re.search(r'<<"COUNTS", (\d+), (\d+), (\d+)>>', out)
        got = (sets(out, "BAD"), sets(out, "HEAPSET"), sets(out, "OUTSIDE"))
        # every line judged, and every member of the three sets actually read back from TLC's output
        if (rc != 0 or "Error:" in out or not m or int(m.group(1)) != nlines or not n
                or [int(x) for x in n.groups()] != [len(x) for x in got]):
            raise kit.ToolError("trace validation Trace_Sample on %s failed (rc=%s):\n%s" %
                                (path, rc, "\n".join(out.splitlines()[-40:])))
        return (path, nlines) + got

    with cf.ThreadPoolExecutor(max_workers=jobs) as ex:
        outs = list(ex.map(one, pieces))
    res = {"lines": 0, "execs": 0, "rejected": [], "heap": [], "outside": 0}
    for path, nlines, bad, heap, outside in outs:
        res["lines"] += nlines
        res["outside"] += len(outside)
        lines = None
        if bad or heap:
            lines = open(path).read().splitlines()
        for kind, idxs in (("func", bad), ("heap", heap)):
            for l in idxs:
                ev = json.loads(lines[l - 1])
                a = l - 1
                while a > 0 and '"ev":"reset"' not in lines[a]:
                    a -= 1
                reset = json.loads(lines[a])
                execu = [reset] if ev.get("ev") == "reset" else [reset, ev]
                (res["rejected"] if kind == "func" else res["heap"]).append(
                    {"comp": comp, "kind": kind, "event": ev, "exec": execu, "pos": len(execu) - 1})
        with open(path) as f:
            res["execs"] += sum(1 for x in f if '"ev":"reset"' in x)
        os.remove(path)
    ctx.events += res["lines"]
    ctx.traces += res["execs"] - len({json.dumps(r["exec"][0], sort_keys=True) for r in res["rejected"]})
    kit.log("[trace] Trace_Sample %s: %d lines, %d executions, %d rejected, %d heap, %d outside the domain, %d JVMs" %
            (os.path.basename(trace), res["lines"], res["execs"], len(res["rejected"]), len(res["heap"]),
             res["outside"], len(pieces)))
    return res


def pipeline(ctx, prop, replay=None, profiles=("debug", "release"), thin_release=True):
    """Runs one property in the given build profiles of the harness (dev: debug assertions and overflow checks on;
    release: both off, optimised); returns (functional rejections, heap rejections).  Every event carries o.debug of
    the binary that produced it.  C01 / C02 demand the same result in both profiles (no conversion may panic or wrap
    in either); C15's expected outcome depends on the profile and the judge takes it from the event."""
    # VERIF_SAMPLE_WORKSPACE: a scratch copy of the harness workspace whose path dependency points at a mutated
    # copy of dasp_sample (sharpness experiments, see notes/sample.md); default = the real harness on /repo
    ws = os.environ.get("VERIF_SAMPLE_WORKSPACE", kit.HARNESS)
    if ws != kit.HARNESS:
        ctx.notes.append("harness workspace overridden: " + ws)
    if getattr(ctx, "light", 0) and not replay:
        profiles = ("debug",)       # C07's quick tier only watches the heap counters (as kit.profile_runs)
    bins = [(p, ctx.cargo_build("hx_sample", release=(p == "release"), workspace=ws)) for p in profiles]
    rnd_rel = None
    if replay:
        stim_files = [("replay", replay)]
    else:
        stim = os.path.join(ctx.work, "sample_%s_mc.ndjson" % prop)
        mc(ctx, prop, stim)
        ctx.exhaustive = True   # the MC configuration has no state constraint; its value sets are finite by construction
        ctx.extra["mc_constants"] = {
            "Tier": ctx.tier, "PROP": prop,
            "integer boundary set": "per width b: 0, +-1..3, MIN..MIN+2, MAX-2..MAX, 0101.. patterns, and for k in KSet(b): "
                                    "+-2^k, +-(2^k+-1), +-(2^(b-1)-2^k) and neighbours; KSet = all k (thorough) / k near 0, b and multiples of 8 (quick)",
            "scaled-down widths": "integer formats of 2,3,4,6 bits and custom types of 3,4,5 bits exhaustively; "
                                  "I11/U11: every second operand for every (thorough) / every 8th (quick) first operand",
        }
        rnd = os.path.join(ctx.work, "sample_%s_gen.ndjson" % prop)
        ctx.harness(bins[0][1], ["gen", str(ctx.seed), ctx.tier, rnd, prop.lower()])
        stim_files = [("tlc", stim), ("gen", rnd)]
        if thin_release and ctx.tier == "thorough" and len(bins) > 1:
            # thorough tier of C01 / C02 (2.5 M random events): the release build gets the enumerated stimuli in full
            # and the quick-sized random set (the result may not depend on the profile; budget of the tier)
            rnd_rel = os.path.join(ctx.work, "sample_%s_genq.ndjson" % prop)
            ctx.harness(bins[0][1], ["gen", str(ctx.seed), "quick", rnd_rel, prop.lower()])
    rej, heap, seen = [], [], set()
    for name, sf in stim_files:
        for prof, hx in bins:
            tr = os.path.join(ctx.work, "sample_%s_%s_%s.ndjson" % (prop, name, prof))
            f = sf
            if thin_release and prof == "release" and name == "tlc" and ctx.tier == "quick":
                f = kit.thin_stimuli(sf, 1500)      # same rule as kit.profile_runs: enumerated stimuli thinned, random ones in full
            if prof == "release" and name == "gen" and rnd_rel:
                f = rnd_rel
            rej += ctx.run_stimuli(hx, f, tr, "sample")
            ctx.count_distinct(tr)
            res = judge(ctx, tr, "sample")
            if res["outside"] and not replay:
                raise kit.ToolError("%d generated stimuli lie outside the property's domain (not judged)" % res["outside"])
            for r in res["rejected"]:
                # one replay per distinct failing stimulus (the two build profiles share their stimuli)
                key = json.dumps([r["event"].get("ev"), r["event"].get("a")], sort_keys=True)
                r["profile"] = prof
                if key not in seen or name == "replay":
                    seen.add(key)
                    rej.append(r)
                else:
                    ctx.notes.append("also rejected in the %s build: %s" % (prof, key[:300]))
            heap += res["heap"]
            os.remove(tr)
    return rej, heap


def c01(ctx, replay):
    ctx.assumptions += [
        "132 ordered pairs of integer formats, each through five entry points: Sample::to_sample, Sample::from_sample, conv::<src>::to_<dst>, FromSample::from_sample_, ToSample::to_sample_; plus Sample::to_signed_sample (the pair format -> its Signed companion, identity for the signed formats) and Sample::add_amp (there, native addition, and back) with gains that keep the sum in range",
        "the associated constants are judged: Sample::EQUILIBRIUM (and IDENTITY) of every format, types::{i24,u24,i48,u48}::{MIN,MAX}; X::EQUILIBRIUM converted to every other format is that format's EQUILIBRIUM",
        "every result whose Rust type has a checked constructor (I24, U24, I48, U48) is accepted by it: T::new(result.inner()) == Some(result)",
        "both build profiles of the harness are executed (release: quick tier random stimuli in full and enumerated ones thinned, thorough tier enumerated ones in full and the quick-sized random set); the expected result of a conversion is the same in both: a value, never a panic",
        "sources of 8 bits exhaustively; 16 bits strided (quick) / exhaustively (thorough); 24..64 bits: boundary-structured values from the model plus seeded uniform / exponent-uniform / sign-change / shift-boundary values",
        "two-step conversions (path independence, widen-then-narrow) for every (src, mid, dst) triple on sampled values",
    ]
    rej, _ = pipeline(ctx, "C01", replay)
    ctx.add_rejections(rej)


def c02(ctx, replay):
    ctx.assumptions += [
        "float sources of float->int conversions lie in the documented domain [-1.0, 1.0); float<->float covers all finite values, infinities and NaN (any NaN accepted for NaN)",
        "integer sources as for C01; floats: boundary-structured values from the model (powers of two, 1 - 2^-k, target grid points and their neighbours, subnormals) plus seeded random bit patterns, grid points +-1 ulp, f64->f32 ties / subnormal results / overflow",
        "results are compared bit for bit as IEEE fields",
        "entry points: the five conversion routes of C01, Sample::to_float_sample of every format, to_signed_sample / to_float_sample of the floats (identity), Sample::mul_amp of the integer formats (there, one float multiplication, and back) with gains whose product stays inside [-1, 1); EQUILIBRIUM / IDENTITY constants of all 14 formats and EQUILIBRIUM through every pair with a float end",
        "both build profiles of the harness are executed (release: quick tier random stimuli in full and enumerated ones thinned, thorough tier enumerated ones in full and the quick-sized random set); the expected result is the same in both",
    ]
    rej, _ = pipeline(ctx, "C02", replay)
    ctx.add_rejections(rej)


def c15(ctx, replay):
    ctx.assumptions += [
        "two builds of the same harness: dev profile (debug assertions and overflow checks on) and the workspace's release profile (both off); every event carries cfg!(debug_assertions)",
        "operands are in range (constructed unchecked from in-range values); I11/U11 pairs strided (quick) / exhaustive (thorough); 20/24/48-bit types: boundary pairs from the model plus seeded random and near-overflow pairs",
        "negation is judged for the signed types that implement it (I11, I24, I48); I20 has no Neg impl; of U11's Neg (the statement speaks of signed negation only) just the range invariant is demanded: it panics or returns a value inside [MIN, MAX]",
    ]
    rej, _ = pipeline(ctx, "C15", replay, profiles=("debug", "release"), thin_release=False)
    ctx.add_rejections(rej)


CHECKS = {"C01": c01, "C02": c02, "C15": c15}
