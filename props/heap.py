"""C07 -- no heap allocation in steady state (spec/Heap.tla).

Every trace specification carries the heap conjunct described in Heap.tla; this check runs the
pipelines of ALL component families (their TLC-enumerated and seeded random stimuli, executed on the
real code) plus the bus lock-step model MC_Heap, and reports the events whose ONLY failure is that
conjunct (TLC prints them as <<"HEAP", line>>).  Functional rejections belong to the component's own
property and are not reported here.  The families run concurrently."""
import concurrent.futures as cf
import os
from lib import kit
from props import ring, stream

SOURCES = [
    ("ring", lambda c: ring.pipeline(c)),
    ("fork", lambda c: stream.pipeline(c, "fork")),
    ("buffered", lambda c: stream.pipeline(c, "buffered")),
    # bus: the lock-step clause -- MC_Heap explores it on the model and emits the schedules
    ("bus-lockstep", lambda c: stream.pipeline(c, "bus", mc=dict(mc="MC_Heap", actions=["Pull", "DropAt", "AttachAt"]))),
]
REPLAY = {
    "bounded": lambda c, r: ring.pipeline(c, replay=r),
    "fixed": lambda c, r: ring.pipeline(c, replay=r),
    "fork": lambda c, r: stream.pipeline(c, "fork", replay=r),
    "buffered": lambda c, r: stream.pipeline(c, "buffered", replay=r),
    "bus": lambda c, r: stream.pipeline(c, "bus", replay=r),
}


def _optional(modname, adder):
    """Families built by other modules register themselves here when present."""
    try:
        mod = __import__("props." + modname, fromlist=["x"])
    except Exception as x:  # a family that cannot be imported is a tool error at run time, not silence
        SOURCES.append((modname, lambda c, x=x: (_ for _ in ()).throw(kit.ToolError("props.%s: %s" % (modname, x)))))
        return
    adder(mod)


def _graph(m):
    SOURCES.append(("graph", lambda c: m.pipeline_graph(c)))
    SOURCES.append(("nodes", lambda c: m.pipeline_nodes(c)))
    REPLAY["graph"] = lambda c, r: m.pipeline_graph(c, replay=r)
    REPLAY["node"] = lambda c, r: m.pipeline_nodes(c, replay=r)


def _dsp2(m):
    for pid, label in (("C17", "osc"), ("C18", "sinc"), ("C20", "window")):
        SOURCES.append((label, lambda c, pid=pid: m.pipeline(c, pid)))
    for comp, pid in (("osc", "C17"), ("noise", "C17"), ("sinc", "C18"), ("sinc_conv", "C18"), ("sinc_lin", "C18"),
                      ("sinc_clin", "C18"), ("window", "C20"), ("windower", "C20"), ("winfn", "C20")):
        REPLAY[comp] = lambda c, r, pid=pid: m.pipeline(c, pid, replay=r)


def _conv(m):
    SOURCES.append(("converter", lambda c: m.pipeline(c)))
    REPLAY["conv"] = lambda c, r: m.pipeline(c, replay=r)


def _sample(m):
    for pid in ("C01", "C02", "C15"):
        SOURCES.append(("sample-" + pid, lambda c, pid=pid: m.pipeline(c, pid)))
    # a replay file of the sample family is executed whatever property produced it; C15's pipeline runs both profiles
    REPLAY["sample"] = lambda c, r: m.pipeline(c, "C15", replay=r, profiles=("debug", "release"))


def _signal(m):
    SOURCES.append(("signal", lambda c: m.pipeline(c, prop="all")))
    REPLAY["signal"] = lambda c, r: m.pipeline(c, replay=r, prop="all")


def _dsp1(m):
    SOURCES.append(("rms", lambda c: m.rms_pipeline(c)))
    SOURCES.append(("envelope", lambda c: m.env_pipeline(c)))
    REPLAY["rms"] = lambda c, r: m.rms_pipeline(c, replay=r)
    for comp in ("rect", "env"):
        REPLAY[comp] = lambda c, r: m.env_pipeline(c, replay=r)


def _frame(m):
    SOURCES.append(("frame", lambda c: m.pipeline(c, "frame")))
    SOURCES.append(("slice", lambda c: m.pipeline(c, "slice")))
    REPLAY["frame"] = lambda c, r: m.pipeline(c, "frame", replay=r)
    REPLAY["slice"] = lambda c, r: m.pipeline(c, "slice", replay=r)


_optional("graph", _graph)
_optional("frame", _frame)
_optional("sample", _sample)
_optional("signal", _signal)
_optional("dsp1", _dsp1)
_optional("conv", _conv)
_optional("dsp2", _dsp2)


def c07(ctx, replay):
    ctx.assumptions += [
        "heap activity is observed by a counting #[global_allocator] strictly inside each call (driver-side buffers are allocated before the window)",
        "absence of allocation is established on the executions run (all operation kinds of every component, TLC-enumerated and random values/lengths/orders), not proved value-independent",
        "exempt by the property: constructors, Fork::by_rc, boxed-slice conversions (own rule), every Bus action (but lock-step backlog <= 1 and footprint stable after round 1); "
        "Processor::process is judged from the second call on the same (graph, output)",
    ]
    if replay:
        comp = kit.load_stimuli(replay)[0][0].get("comp")
        if comp not in REPLAY:
            raise kit.ToolError("no component '%s' for replay" % comp)
        _, heap = REPLAY[comp](ctx, replay)
        ctx.add_rejections(heap)
        return
    ignored = {}
    if ctx.tier == "quick":
        # every family's own check judges all of its TLC-enumerated stimuli; here they are re-run only for the heap
        # counters, so large stimulus sets are thinned to an evenly spaced 2000 executions (thorough: everything)
        ctx.light = 2000
        ctx.notes.append("quick tier: stimulus files with more than 2000 executions are thinned to ~2000 evenly spaced ones")

    def one(src):
        label, fn = src
        c = ctx.child(label)
        rej, heap = fn(c)
        return label, c, rej, heap
    sources = SOURCES
    only = os.environ.get("VERIF_C07_ONLY")     # tools/run_equiv_c07.py: just the families a patch can reach
    if only:
        sources = [s for s in SOURCES if s[0] in only.split(",")]
        ctx.notes.append("VERIF_C07_ONLY: restricted to " + ",".join(s[0] for s in sources))
    with cf.ThreadPoolExecutor(max_workers=7) as ex:
        results = list(ex.map(one, sources))
    for label, c, rej, heap in results:
        ctx.merge(c)
        if rej:
            ignored[label] = len(rej)
        ctx.add_rejections(heap)
    ctx.exhaustive = True
    ctx.extra["functional_rejections_left_to_other_properties"] = ignored


CHECKS = {"C07": c07}
