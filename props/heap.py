"""C07 -- no heap allocation in steady state (spec/Heap.tla).

Every trace specification carries the heap conjunct of Heap.tla; this check runs the components of
all families on their seeded random stimuli (plus the bus lock-step model MC_Heap) and reports the
events whose ONLY failure is that conjunct (TLC prints them as <<"HEAP", line>>).  Functional
rejections belong to the component's own property and are not reported here."""
from lib import kit
from props import ring, stream

# (label, callable(ctx) -> (functional rejections, heap rejections))
SOURCES = [
    ("ring", lambda ctx: ring.pipeline(ctx, parts=("random",))),
    ("fork", lambda ctx: stream.pipeline(ctx, "fork", parts=("random",))),
    ("buffered", lambda ctx: stream.pipeline(ctx, "buffered", parts=("random",))),
    # bus: the lock-step clause -- MC_Heap explores it on the model and emits the schedules
    ("bus-lockstep", lambda ctx: stream.pipeline(ctx, "bus", mc=dict(mc="MC_Heap", actions=["Pull"]))),
]


def c07(ctx, replay):
    ctx.assumptions += [
        "heap activity is observed by a counting #[global_allocator] strictly inside each call (driver-side buffers are allocated before the window)",
        "absence of allocation is established on the executions run (all operation kinds of every component, random values/lengths/orders), not proved value-independent",
        "exempt by the property: constructors, Fork::by_rc, boxed-slice conversions (own rule), every Bus action (but lock-step backlog <= 1 and footprint stable after round 1)",
    ]
    if replay:
        # a replay file names its component in the reset line
        comp = kit.load_stimuli(replay)[0][0].get("comp")
        for label, fn in REPLAY.get(comp, []):
            _, heap = fn(ctx, replay)
            ctx.add_rejections(heap)
        return
    ignored = 0
    for label, fn in SOURCES:
        rej, heap = fn(ctx)
        ignored += len(rej)
        ctx.add_rejections(heap)
    ctx.extra["functional_rejections_left_to_other_properties"] = ignored


REPLAY = {
    "bounded": [("ring", lambda ctx, r: ring.pipeline(ctx, replay=r))],
    "fixed": [("ring", lambda ctx, r: ring.pipeline(ctx, replay=r))],
    "fork": [("fork", lambda ctx, r: stream.pipeline(ctx, "fork", replay=r))],
    "buffered": [("buffered", lambda ctx, r: stream.pipeline(ctx, "buffered", replay=r))],
    "bus": [("bus", lambda ctx, r: stream.pipeline(ctx, "bus", replay=r))],
}
CHECKS = {"C07": c07}
