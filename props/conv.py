"""C08 -- rate converter (Converter / MulHz over Floor and Linear): spec/Converter.tla,
spec/MC_Converter.tla, spec/MC_ConverterFix.tla, spec/Trace_Converter.tla, harness/hx_conv."""
import os
from lib import kit


def pipeline(ctx, replay=None):
    """MC + stimuli + execution + trace validation; returns (functional rejections, heap rejections)."""
    tier = ctx.tier
    hx = ctx.cargo_build("hx_conv")
    rej, heap = [], []
    if replay:
        # (file, lines per JVM): a replay may be a long run
        files = [("replay", replay, 1)]
    else:
        stim = os.path.join(ctx.work, "conv_stim.ndjson")
        ctx.mc("MC_Converter", "MC_Converter_%s.cfg" % tier, workers=4, env={"STIM_OUT": stim},
               need_actions=["NextSame", "NextSet", "MulNext", "MulEnded"], timeout=2400)
        # the fixed-point accumulator used for trace validation against the Dyadic reference, on rounding inputs
        ctx.mc("MC_ConverterFix", "MC_ConverterFix_%s.cfg" % tier, workers=4, need_actions=["Next"], timeout=1200)
        ctx.exhaustive = True
        ctx.extra["mc_constants"] = {
            "ratios/16": [4, 8, 12, 16, 20, 24, 32, 48, 17],
            "source_lengths": "0..3" if tier == "quick" else "0..8",
            "outputs_per_history": "until the position passes length+3 frames (up to 24 at ratio 1/4, %s)"
                                   % ("lengths 0..3" if tier == "quick" else "44 for length 8"),
            "modes": ["converter with per-frame set_ratio", "mul_hz with lazily chosen control list"],
        }
        short = os.path.join(ctx.work, "conv_rand_short.ndjson")
        long_ = os.path.join(ctx.work, "conv_rand_long.ndjson")
        ctx.harness(hx, ["gen", str(ctx.seed), tier + "-short", short])
        ctx.harness(hx, ["gen", str(ctx.seed), tier + "-long", long_])
        files = [("tlc", stim, 6000 if tier == "quick" else 30000), ("random", short, 800 if tier == "quick" else 12000), ("long", long_, 1)]
    per = {f[0]: f[2] for f in files}
    for name, prof, hxp, sf in kit.profile_runs(ctx, "hx_conv", files, replay, keep_quick=600):
        if prof == "release" and name == "long" and tier == "quick":
            continue                    # the long runs are executed by the release build in the thorough tier only
        tr = os.path.join(ctx.work, "conv_trace_%s_%s.ndjson" % (name, prof))
        r = ctx.run_stimuli(hxp, sf, tr, "conv")
        ctx.count_distinct(tr)
        res = ctx.validate("Trace_Converter", tr, comp="conv", max_lines=per[name], jobs=8, timeout=2400)
        for x in r + res["rejected"] + res["heap"]:
            x["profile"] = prof
        rej += r + res["rejected"]
        heap += res["heap"]
        os.remove(tr)
    return rej, heap


def c08(ctx, replay):
    ctx.assumptions += [
        "ratios are 0 (ended mul_hz control) or lie in [2^-31, 2^23); stimuli use (0, 1024]",
        "sources are signal::from_iter over a repeated pattern, wrapped in a pull counter; interpolators are primed "
        "from the source as in the crate documentation (Floor 1 frame, Linear 2 frames)",
        "for ratios that are not exact in the accumulator the position is the f64-accumulated one "
        "(every addition correctly rounded); it is literally the real sum of the ratios while nothing has rounded",
        "linear blend: exact where no evaluation order can round; otherwise |out - blend| <= 4 ulp of the format at "
        "scale 2*max(|l|,|r|) (floats) resp. < 1 LSB + 2^-20 (integer formats), and inside the hull up to that slack",
        "both build profiles of the harness are executed (release: thinned in the quick tier)",
        "frame formats f64, f32, i16, u8, mono (bare sample) and stereo ([S; 2]); finite float samples only",
    ]
    rej, _ = pipeline(ctx, replay)
    if ctx.tier == "thorough" and not replay:
        from props.stream import apalache
        apalache(ctx, "ConverterAbs", implied=["PulledIsFloor"])   # accumulator loop for ANY unit, ratio sequence, length
        ctx.assumptions.append("Apalache inductive invariant of ConverterAbs: the accumulator loop of Converter::next in fixed point with any unit, "
                               "any per-frame ratio sequence (>= 0) and any number of outputs: position = sum of ratios, one pull per loop "
                               "iteration, interpolation at floor(P_n) with fraction in [0, 1)")
    ctx.add_rejections(rej)


CHECKS = {"C08": c08}
