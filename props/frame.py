"""C03 -- sample and frame amplitude arithmetic, channel by channel (spec/SampleFormats.tla, spec/Frames.tla)
C10 -- sample<->frame slice views, boxed conversions, in-place slice operations (spec/Slices.tla).

One model (spec/MC_Frame.tla), one harness (harness/hx_frame), one batch trace spec (spec/Trace_Frame.tla);
the environment variable PART / the harness's component filter restrict a run to the property being checked."""
import os, re
from lib import kit

_ACTION = re.compile(r'<<\s*"ACTION",\s*"(\w+)",\s*(\d+)\s*>>')


def _mc(ctx, part, stim):
    """Exhaustive TLC run of MC_Frame WITHOUT -coverage (it slows this limb-arithmetic model down 10-25 times).
    Vacuity is guarded inside the model instead: POSTCONDITION AllTaken requires the number of distinct states to be
    exactly #cases + #(case, operation, argument) triples and prints the per-action counts, which are recorded as
    the run's `actions`.  Everything else as in kit.Ctx.mc."""
    cfg = "MC_Frame_%s.cfg" % ctx.tier
    rc, out, dt = kit.tlc("MC_Frame", cfg, ctx.work, workers=4, env={"STIM_OUT": stim, "PART": part},
                          timeout=1800, coverage=False, heap="6g")
    st = kit.parse_states(out)
    acts = {k: int(v) for k, v in _ACTION.findall(out)}
    if rc != 0 or st is None or "Error:" in out or not acts:
        raise kit.ToolError("TLC model checking of MC_Frame/%s (PART=%s) failed (rc=%s):\n%s" %
                            (cfg, part, rc, "\n".join(out.splitlines()[-40:])))
    need = ["StepLaws", "StepAdd", "StepMul"] if part == "frame" else ["StepView", "StepWrite", "StepBox"]
    for a in need:
        if acts.get(a, 0) == 0:
            raise kit.ToolError("vacuity: action %s of MC_Frame never taken" % a)
    ctx.states += st[1]
    ctx.transitions += st[0]
    ctx.mc_runs.append({"module": "MC_Frame", "cfg": cfg, "part": part, "generated": st[0], "distinct": st[1],
                        "wall_s": round(dt, 1), "actions": acts,
                        "note": "run without -coverage; action counts = exact-count POSTCONDITION AllTaken"})
    m = re.search(r'<<"STIMULI", (\d+), (\d+)>>', out)
    if m:
        ctx.extra["tlc_stimuli"] = {"executions": int(m.group(1)), "events": int(m.group(2))}
    kit.log("[mc] MC_Frame %s PART=%s: %d generated, %d distinct, %.1fs" % (cfg, part, st[0], st[1], dt))
    ctx.exhaustive = True
    ctx.extra["mc_constants"] = {"KStep": 8 if ctx.tier == "quick" else 1, "MaxW": 32, "MaxL": 4}


def _pieces(path, max_bytes=96 << 20):
    """The harness (hx_common::drive) holds a whole stimuli file in memory as JSON values -- about 35 times its size; the
    thorough slice file is 0.7 GB.  Files in the one-execution-per-line form are therefore cut at line boundaries into
    pieces of at most max_bytes, executed and judged one after the other (executions are independent of each other)."""
    if os.path.getsize(path) <= max_bytes:
        yield path
        return
    with open(path) as f:
        first = f.readline()
        if not first.lstrip().startswith("["):
            yield path
            return
        f.seek(0)
        k, size, out = 0, 0, None
        for line in f:
            if out is None or size + len(line) > max_bytes:
                if out is not None:
                    out.close()
                    yield out.name
                out, size, k = open("%s.piece%d" % (path, k), "w"), 0, k + 1
            out.write(line)
            size += len(line)
        if out is not None:
            out.close()
            yield out.name


def pipeline(ctx, part, replay=None):
    """part = 'frame' (C03) or 'slice' (C10).  Returns (functional rejections, heap rejections)."""
    hx = ctx.cargo_build("hx_frame")
    rej, heap = [], []
    if replay:
        stim_files = [("replay", replay, [])]       # a replay file is executed whatever its component
    else:
        stim = os.path.join(ctx.work, "frame_stim.ndjson")
        _mc(ctx, part, stim)
        rnd = os.path.join(ctx.work, "frame_rand.ndjson")
        os.environ["HX_PART"] = part                # the generator writes only this property's stimuli
        ctx.harness(hx, ["gen", str(ctx.seed), ctx.tier, rnd])
        stim_files = [("tlc", stim, [part]), ("random", rnd, [part])]
    # both build profiles (kit.profile_runs): debug = debug assertions + overflow checks on; release = both off, optimised
    # (release: a replay as it is, the random stimuli in full, the TLC-enumerated executions thinned in the quick tier)
    extras = {item[0]: item[2] for item in stim_files}
    for name, prof, hxp, sf in kit.profile_runs(ctx, "hx_frame", stim_files, replay):
        if prof == "release" and not replay and ctx.tier != "quick":
            sf = kit.thin_stimuli(sf, 5000)         # thorough tier: at most ~5 000 evenly spaced executions per file in release
        for ci, piece in enumerate(_pieces(sf)):
            tr = os.path.join(ctx.work, "frame_trace_%s_%s_%d.ndjson" % (name, prof, ci))
            r = ctx.run_stimuli(hxp, piece, tr, part, extra_args=extras[name])
            ctx.count_distinct(tr)
            res = ctx.validate("Trace_Frame", tr, comp=part, max_lines=5000, jobs=8, batch=True)
            for x in r + res["rejected"] + res["heap"]:
                x["profile"] = prof
            rej += r + res["rejected"]
            heap += res["heap"]
            os.remove(tr)
            if piece != sf:
                os.remove(piece)
    return rej, heap


_COMMON = [
    "stimuli: TLC-enumerated boundary cases (every state of MC_Frame; every op x width 0..4 x rotations of six boundary values; "
    "the channel iterators after every prefix of next()/next_back() calls x every positional call (nth, skip, step_by, last, count, "
    "collect, rev, nth_back) x every argument up to one past the end; "
    "every (N, L<=2N+1); every pair of lengths 0..4) plus seeded random cases on every width 1..32 and the bare sample on all 14 formats",
    "the identity operations (gain exactly 1.0 / the all-ones frame, offset 0 / the zero frame, in-place add of the zero slice and "
    "add-with-gain 1.0) are driven on the EXTREME values of every format: MAX - d and MIN + d for d in 0..3 and around the float "
    "precision 2^(bits-p-2) of the companion (i32 u32: 64, i64 u64: 512), floats +-largest finite -- TLC-enumerated (sample level: "
    "every such value x every gain / offset of the model; frames of widths 0..4; slices of 1..2 frames) and seeded random on every width",
    "offsets / gains are chosen so that the mathematical result stays representable; events outside that domain carry no claim "
    "(Trace_Frame counts them and fails the run as vacuous when they exceed half of the arithmetic events) -- EXCEPT the gain 1.0, "
    "which the property claims on every value: where the float image of the sample is +1.0 (top 64 values of i32 u32, top 512 of "
    "i64 u64) the result must be a value of the format within 2^(bits-p-2) of the original (Frames.tla MulAmpOk / AddMulOk)",
]


def c03(ctx, replay):
    ctx.assumptions += _COMMON + [
        "values of 24..64-bit formats are boundary-structured + random, not exhaustive",
        "both build profiles of the harness are executed (debug: debug assertions and overflow checks on; release: off, optimised): "
        "inside the property's domain the expected result is the same in both; an out-of-domain offset (overflow panic in debug, "
        "wrap-around in release) is accepted as 'no claim' in either",
        "offsets that LAND exactly on MIN, MIN + 1, MAX, MAX - 1 of every integer format (samples, frames of every width, in-place add)",
        "channels() / channels_ref() are cloned mid-iteration (clone-and-continue; cycle(), which clones) after every prefix of "
        "next()/next_back() calls, the exhausted iterator included",
    ]
    ctx.rule = ("one event = one call of a sample / frame operation; an execution (reset + its events) counts as distinct "
                "non-trivial when its text is new; every event returns a value, so every execution is non-trivial")
    rej, _ = pipeline(ctx, "frame", replay)
    ctx.add_rejections(rej)


def c10(ctx, replay):
    ctx.assumptions += _COMMON + [
        "'same memory' is observed as equality of the data pointers and as write-through in both directions; "
        "'releases the allocation' as the counting allocator's frees / live-bytes delta inside the call",
        "memory safety beyond that (reads outside the slice without observable effect) is out of reach of trace validation",
        "both build profiles of the harness are executed; a length mismatch (a shorter than b AND a longer than b, the empty b "
        "included) must be refused by a panic that leaves a untouched in the release build too (release executes an evenly spaced "
        "subset of the executions: ~1 500 per file in the quick tier, ~5 000 in the thorough tier); a crash of the harness process "
        "(out-of-bounds read) is attributed to the stimulus that caused it and reported as a rejection",
    ]
    ctx.rule = ("one event = one slice conversion (with its inverse and a write-through probe) or one in-place operation; "
                "an execution (reset + its events) counts as distinct non-trivial when its text is new")
    rej, _ = pipeline(ctx, "slice", replay)
    ctx.add_rejections(rej)


CHECKS = {"C03": c03, "C10": c10}
