"""C11 -- windowed RMS (spec/Rms.tla), std and no_std builds;
C19 -- rectifiers and envelope follower (spec/Envelope.tla)."""
import json, os, re, shutil
from lib import kit


def _first_event(path):
    with open(path) as f:
        for line in f:
            line = line.strip()
            if line:
                v = json.loads(line)
                return v[0] if isinstance(v, list) else v
    raise kit.ToolError("empty replay file %s" % path)


def _nostd_configured():
    """The no_std harness is only meaningful if no dasp crate in its dependency graph has `std` on."""
    rc, out, _ = kit.run(["cargo", "tree", "--offline", "-e", "features", "-p", "hx_rms_nostd",
                          "--prefix", "none", "-f", "{p} [{f}]"], cwd=kit.HARNESS_NOSTD, timeout=300)
    if rc != 0:
        raise kit.ToolError("cargo tree in harness_nostd failed:\n" + out[-2000:])
    dasp = [l for l in out.splitlines() if l.startswith("dasp_")]
    if not dasp or any("std" in l.split("[", 1)[1] for l in dasp):
        raise kit.ToolError("harness_nostd is not no_std-configured:\n" + "\n".join(dasp))


_ACT = re.compile(r"^<(\w+) line \d+, col \d+ to line \d+, col \d+ of module \w+(?: \([\d ]+\))?>: (\d+):(\d+)", re.M)


def _need_actions(out, module, names):
    """Vacuity guard.  TLC prints `<Name line .. of module M (l c l c)>: distinct:generated` for actions whose
    body sits under a quantifier; kit's pattern only knows the form without the parenthesis."""
    taken = {}
    for name, _, gen in _ACT.findall(out):
        taken[name] = taken.get(name, 0) + int(gen)
    for n in names:
        if taken.get(n, 0) == 0:
            raise kit.ToolError("vacuity: action %s of %s never taken" % (n, module))


def _profile_runs(ctx, pkg, stim_files, replay, workspace=None, keep_quick=400, keep_thorough=2500):
    """kit.profile_runs: the debug AND the release build of a harness crate; the debug build runs everything, the
    release build a replay as it is, the random stimuli in full and the TLC-enumerated ones thinned (quick: ~400
    executions; here also in the thorough tier, to ~2500 -- judging a float-heavy trace costs 1-2 ms per channel step
    and the debug build has judged every one of them already); C07's quick tier stays with debug.
    harness_nostd is a workspace of its own, which the shared helper has no parameter for: same logic here for that one."""
    if workspace is None:
        runs = list(kit.profile_runs(ctx, pkg, stim_files, replay, keep_quick=keep_quick))
    else:
        bins = [("debug", ctx.cargo_build(pkg, workspace=workspace))]
        if not getattr(ctx, "light", 0):
            bins.append(("release", ctx.cargo_build(pkg, release=True, workspace=workspace)))
        runs = []
        for name, sf in stim_files:
            for prof, b in bins:
                f = sf
                if prof == "release" and not replay and ctx.tier == "quick":
                    f = kit.thin_stimuli(sf, keep_quick)
                runs.append((name, prof, b, f))
    for name, prof, b, f in runs:
        if prof == "release" and not replay and ctx.tier != "quick" and name == "tlc":
            f = kit.thin_stimuli(f, keep_thorough)
        yield name, prof, b, f


def _judge(ctx, runs, name, module, max_lines, jobs=8, comp_of=None):
    """runs = [(binary, stimuli file, component label, build profile)].  Every run's trace is appended to ONE file
    that is judged by a single ctx.validate call (pieces are cut at reset lines and spread over `jobs` JVMs, which
    uses the cores far better than one validate per run).  Every header carries the profile of the binary that
    wrote it (cfg.profile); every rejection gets r["profile"]."""
    alltr = os.path.join(ctx.work, "%s_trace.ndjson" % name)
    rej = []
    with open(alltr, "w") as out:
        for k, (hx, stim, comp, prof) in enumerate(runs):
            tr = os.path.join(ctx.work, "%s_%d.ndjson" % (name, k))
            crashed = ctx.run_stimuli(hx, stim, tr, comp)
            for r in crashed:
                r["profile"] = prof
            rej += crashed
            with open(tr) as f:
                shutil.copyfileobj(f, out)
            os.remove(tr)
    ctx.count_distinct(alltr)
    res = ctx.validate(module, alltr, comp=runs[0][2], max_lines=max_lines, jobs=jobs)
    os.remove(alltr)
    for r in res["rejected"] + res["heap"]:
        if comp_of:
            r["comp"] = comp_of(r["exec"][0])
        r["profile"] = r["exec"][0].get("cfg", {}).get("profile")
    return rej + res["rejected"], res["heap"]


def _rms_comp(reset):
    return "rms_nostd" if reset.get("cfg", {}).get("build") == "no_std" else "rms"


def rms_pipeline(ctx, replay=None):
    """C11; returns (functional rejections, heap rejections)."""
    tier = ctx.tier
    hx_std = ctx.cargo_build("hx_dsp1")
    ctx.cargo_build("hx_rms_nostd", workspace=kit.HARNESS_NOSTD)
    _nostd_configured()
    rej, heap = [], []
    if replay:
        first = _first_event(replay)
        if first.get("comp") != "rms":
            raise kit.ToolError("not a C11 replay file (comp=%s)" % first.get("comp"))
        nostd = first.get("cfg", {}).get("build") == "no_std"
        pkg, ws, comp = ("hx_rms_nostd", kit.HARNESS_NOSTD, "rms_nostd") if nostd else ("hx_dsp1", None, "rms")
        runs = [(b, f, comp, prof) for _, prof, b, f in _profile_runs(ctx, pkg, [("replay", replay)], replay, workspace=ws)]
        return _judge(ctx, runs, "replay", "Trace_Rms", 4000, comp_of=_rms_comp)
    stim = os.path.join(ctx.work, "rms_stim.ndjson")
    out = ctx.mc("MC_Rms", "MC_Rms_%s.cfg" % tier, workers=4, env={"STIM_OUT": stim})
    _need_actions(out, "MC_Rms", ["StepNext", "StepNextSq", "StepSig", "StepSigSq", "StepCurrent", "StepReset", "StepClone", "StepFmt"])
    ctx.exhaustive = True
    ctx.extra["mc_constants"] = {"MaxWin": 3 if tier == "quick" else 4, "inputs": "k/4, k in -2..2", "channels": 1,
                                 "CloneFuel": "2 steps over both instances after a clone (inputs -1/4, 2/4)"}
    rnd = os.path.join(ctx.work, "rms_rand.ndjson")
    ctx.harness(hx_std, ["gen", str(ctx.seed), tier, rnd, "rms"])
    files = [("tlc", stim), ("random", rnd)]
    runs = [(b, f, "rms", prof) for _, prof, b, f in _profile_runs(ctx, "hx_dsp1", files, None)]
    runs += [(b, f, "rms_nostd", prof) for _, prof, b, f in _profile_runs(ctx, "hx_rms_nostd", files, None, workspace=kit.HARNESS_NOSTD)]
    return _judge(ctx, runs, "rms", "Trace_Rms", 2500, comp_of=_rms_comp)


def env_pipeline(ctx, replay=None):
    """C19; returns (functional rejections, heap rejections)."""
    tier = ctx.tier
    hx = ctx.cargo_build("hx_dsp1")
    if replay:
        first = _first_event(replay)
        if first.get("comp") not in ("env", "rect"):
            raise kit.ToolError("not a C19 replay file (comp=%s)" % first.get("comp"))
        runs = [(b, f, "envelope", prof) for _, prof, b, f in _profile_runs(ctx, "hx_dsp1", [("replay", replay)], replay)]
        return _judge(ctx, runs, "replay", "Trace_Envelope", 4000)
    stim = os.path.join(ctx.work, "env_stim.ndjson")
    out = ctx.mc("MC_Envelope", "MC_Envelope_%s.cfg" % tier, workers=4, env={"STIM_OUT": stim})
    _need_actions(out, "MC_Envelope", ["StepIn", "StepSetA", "StepSetR", "StepClone", "StepFmt"])
    ctx.exhaustive = True
    ctx.extra["mc_constants"] = {"MaxLen": 3 if tier == "quick" else 4, "StimLen": 2 if tier == "quick" else 3, "CloneLen": 3,
                                 "gains": "0, 1/2, 3/4", "inputs": "k/4, k in -2..2, three rectifiers"}
    rnd = os.path.join(ctx.work, "env_rand.ndjson")
    ctx.harness(hx, ["gen", str(ctx.seed), tier, rnd, "env"])
    runs = [(b, f, "envelope", prof) for _, prof, b, f in _profile_runs(ctx, "hx_dsp1", [("tlc", stim), ("random", rnd)], None)]
    return _judge(ctx, runs, "env", "Trace_Envelope", 2000)


def _breakdown(ctx, rej):
    """Evidence: which configurations were rejected (component, format, build / detection, event)."""
    by = {}
    for r in rej:
        cfg = r["exec"][0].get("cfg", {}) if r.get("exec") else {}
        k = "%s fmt=%s %s %s ev=%s" % (r["comp"], cfg.get("fmt"), cfg.get("build") or cfg.get("det") or "-",
                                       r.get("profile") or "-", r["event"].get("ev"))
        by[k] = by.get(k, 0) + 1
    ctx.extra["rejections_by_configuration"] = by
    for k in sorted(by):
        kit.log("  rejected: %5d x %s" % (by[k], k))


def c11(ctx, replay):
    ctx.assumptions += [
        "inputs are finite and N*x^2 stays two binary orders below the largest finite value of the float the detector computes "
        "in (|x| < 2^E with 2E + bitlen(N) + 1 <= bias: for N <= 64 |x| < 2^59 in f32, < 2^507 in f64) -- beyond that the squares or "
        "their window sum overflow and there is no real RMS; no lower end: subnormal inputs, subnormal and vanishing squares are judged",
        "value regions: TLC histories placed at 2^sc (f64: sc 508 .. -540, f32: 61 .. -73, incl. mean squares around f32::MAX and the "
        "smallest f32 subnormal for f64 frames) and random full-mantissa executions in 18 regions of the two formats, std and no_std",
        "no_std square root: 7% relative plus an absolute term of 8*sqrt(smallest normal) of the format the root is taken in "
        "(2^-60 for f32, 2^-508 for f64)",
        "both build profiles (debug, release) of hx_dsp1 and hx_rms_nostd are executed and judged by the same clauses (release: "
        "random histories in full, enumerated ones thinned to ~400 (quick) / ~2500 (thorough)); the header carries the profile",
        "Debug rendering (rms_fmt) of the bare detector into a heap-free sink is an operation: Ok, no-op on the state, heap silent",
        "window lengths 1..3 (quick) / 1..4 (thorough) exhaustively on the exact domain k/4; random histories of 50*N "
        "frames for N up to 64, 1-4 channels, formats f32 f64 i8 i16 i32 u16, full-precision and exact-domain values",
        "the floating point bound is rigorous for running-sum (either order, with or without the clamp) and for "
        "recomputing implementations, not for arbitrary ones (DESIGN section 9)",
        "clones: the detector (and the adaptor, over a queue-fed source) is cloned after every number 0..2N+1 of frames "
        "(TLC stimuli) and at random positions (up to 3 instances); every instance is then continued on its own and judged "
        "against its own history; moves through a Box and into_parts of the adaptor leave the state alone",
        "ring storages handed to Rms::new: Vec, Box<[T]>, &mut [T] (not cloneable) and [T; n] for n <= 4; the adaptor over Vec / Box",
        "no_std: dasp_sample, dasp_frame, dasp_ring_buffer, dasp_rms built with default-features = false "
        "(harness_nostd); the signal adaptor is exercised in the std build only (dasp_signal's no_std build needs nightly)",
    ]
    ctx.trusted.append("cargo feature resolution of /verif/harness_nostd (checked with `cargo tree -e features`)")
    rej, _ = rms_pipeline(ctx, replay)
    _breakdown(ctx, rej)
    ctx.add_rejections(rej)


def c19(ctx, replay):
    ctx.assumptions += [
        "full-wave rectification is judged where the negated amplitude is representable (the property's own domain)",
        "detector inputs are finite; i16 inputs exclude -32768 (its negation overflows inside the detector's "
        "difference, outside the domain in which the recurrence's exact result is what the code computes)",
        "gain = exp(-1/frames) is pinned by g^n * e = 1 within (n+2)*2^-22 against a verified rational enclosure of e "
        "for frames in {1/4, 1/2, 1, 2, 5, 64}; other time constants are not exercised",
        "model checking uses rational stand-in gains 0, 1/2, 3/4 and histories up to 3 (quick) / 4 (thorough) operations "
        "(up to 3 when they contain a clone; at most one clone per history)",
        "clones: Detector::clone / DetectEnvelope::clone at every position of two-frame runs (TLC stimuli) and at random positions "
        "(up to 3 instances); both copies are continued with different frames and setters and each is judged against its own "
        "history; adaptors are cloned over a queue-fed source signal only (a cloned from_iter source would replay the original's frames)",
        "constructor entry points Detector::peak* / ::rms, Detector::new(Peak::*() / Peak::from(rectifier) / Rms::new(..)), "
        "::peak_from_rectifier; RMS detection over Vec and Box<[T]> ring storage; rectifiers as free functions and as Rectifier impls",
        "a zero time is handed over as +0.0 or as IEEE -0.0 (flags nza/nzr/nz); both are the time 0 to the model",
        "both build profiles (debug, release) of hx_dsp1 are executed and judged by the same clauses (release: random runs in full, "
        "enumerated ones thinned to ~400 (quick) / ~2500 (thorough)); the header carries the profile",
        "Debug rendering (env_fmt) of a bare Detector (peak and RMS detection) into a heap-free sink is an operation: Ok, no-op on "
        "the state, heap silent; DetectEnvelope and the signal::rms adaptor implement no Debug",
        "adaptor runs over a finite source read past its end (cfg.srclen): the later inputs are the equilibrium frames "
        "such a signal yields (that it does is C04/C05's matter); the recurrence is required to keep running on them",
    ]
    rej, _ = env_pipeline(ctx, replay)
    _breakdown(ctx, rej)
    ctx.add_rejections(rej)


CHECKS = {"C11": c11, "C19": c19}
