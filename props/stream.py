"""C12 fork, C14 buffered, C13 bus -- the "one source, shared stream" components of dasp_signal
(spec/Fork.tla, spec/Buffered.tla, spec/Bus.tla; harness/hx_stream)."""
import os
from lib import kit

COMPS = {
    "fork":     dict(mc="MC_Fork", trace="Trace_Fork", actions=["Step", "Resplit"]),
    "buffered": dict(mc="MC_Buffered", trace="Trace_Buffered", actions=["StepNext", "StepFrames", "StepExh"]),
    "bus":      dict(mc="MC_Bus", trace="Trace_Bus", actions=["Send", "NextFrame", "Drop"]),
}


def pipeline(ctx, comp, replay=None, parts=("tlc", "random"), mc=None, env=None):
    """MC + stimuli + execution + trace validation for one component; returns (rejections, heap).
    env: extra IOEnv entries for the trace specification (C05 judges the bus with BUS_PROP=C05)."""
    c = COMPS[comp]
    hx = ctx.cargo_build("hx_stream")
    rej, heap = [], []
    if replay:
        files = [("replay", replay)]
    else:
        stim = os.path.join(ctx.work, comp + "_stim.ndjson")
        if "tlc" in parts:
            m = mc or c
            ctx.mc(m["mc"], "%s_%s.cfg" % (m["mc"], ctx.tier), workers=4, stim_out=stim,
                   need_actions=m["actions"], timeout=2400)
            ctx.exhaustive = True
        allr = os.path.join(ctx.work, "stream_rand.ndjson")
        if not os.path.exists(allr):
            ctx.harness(hx, ["gen", str(ctx.seed), ctx.tier, allr])
        rnd = os.path.join(ctx.work, comp + "_rand.ndjson")
        with open(rnd, "w") as f:
            f.writelines(l for l in open(allr) if '"comp":"%s"' % comp in l)
        files = [x for x in [("tlc", stim), ("random", rnd)] if x[0] in parts]
        _census(ctx, comp, rnd)
    for name, prof, hxp, sf in kit.profile_runs(ctx, "hx_stream", files, replay):
        tr = os.path.join(ctx.work, "%s_trace_%s_%s.ndjson" % (comp, name, prof))
        r = ctx.run_stimuli(hxp, sf, tr, comp)
        ctx.count_distinct(tr)
        res = ctx.validate(c["trace"], tr, comp=comp, max_lines=40000, jobs=8, env=env)
        for x in r + res["rejected"] + res["heap"]:
            x["profile"] = prof
        rej += r + res["rejected"]
        heap += res["heap"]
        os.remove(tr)
    return rej, heap


def _census(ctx, comp, rnd):
    """Vacuity guard: the random stimuli must contain the scenario kinds the later rounds added (a generator change
    that silently stops producing one of them is a tool error, not a quieter check)."""
    import json
    have = set()
    for line in open(rnd):
        ex = json.loads(line)
        evs = [e["ev"] for e in ex[1:]]
        if comp == "fork":
            cap, pa, pb = ex[0]["cfg"]["cap"], 0, 0
            alive = {"A": True, "B": True}
            for e in ex[1:]:
                if e["ev"] == "next":
                    pa, pb = (pa + 1, pb) if e["a"]["branch"] == "A" else (pa, pb + 1)
                    if abs(pa - pb) > cap and all(alive.values()):
                        have.add("overrun with both branches alive")
                elif e["ev"] == "drop":
                    alive[e["a"]["branch"]] = False
                    have.add("drop")
                    lead = (pa - pb) if e["a"]["branch"] == "A" else (pb - pa)
                    if lead > 0:
                        have.add("leader dropped while the other lags (%s)" % ("rc" if ex[0]["cfg"]["variant"] == "rc" else "ref"))
                elif e["ev"] == "resplit":
                    alive = {"A": True, "B": True}
                    have.add("resplit to " + e["a"]["to"])
            if ex[0]["cfg"].get("srclen", -1) >= 0:
                have.add("finite source")
        elif comp == "bus":
            have |= {k for k in ("drop_bus", "send", "drop") if k in evs}
            run = best = 0
            for e in ex[1:]:
                run = run + 1 if e["ev"] == "next" and e["a"]["key"] == 0 else 0
                best = max(best, run)
            if best > 4096:
                have.add("lag beyond 4096")
        elif comp == "buffered":
            have |= {k for k in ("clone", "nf_fold", "nf_for_each", "nf_count", "nf_last", "next_frames") if k in evs}
    want = {"fork": {"overrun with both branches alive", "drop", "resplit to ref", "resplit to rc", "resplit to clone", "finite source",
                     "leader dropped while the other lags (rc)", "leader dropped while the other lags (ref)"},
            "bus": {"drop_bus", "send", "drop", "lag beyond 4096"},
            "buffered": {"clone", "nf_fold", "nf_for_each", "nf_count", "nf_last", "next_frames"}}[comp]
    if want - have:
        raise kit.ToolError("random %s stimuli lack: %s" % (comp, ", ".join(sorted(want - have))))
    ctx.extra.setdefault("random_scenarios_present", {})[comp] = sorted(have)


def apalache(ctx, module, inv="IndInv", implied=(), inits=("Init",)):
    """Thorough tier: inductive invariant of the integer abstraction for unbounded histories and any capacity.
    `implied`: state predicates that must follow from the inductive invariant (IndInit => P)."""
    obligations = [(["--init=" + i, "--length=0"], i + " => IndInv", inv) for i in inits]
    obligations += [(["--init=IndInit", "--length=1"], "IndInv /\\ Next => IndInv'", inv)]
    obligations += [(["--init=IndInit", "--length=0"], "IndInv => " + p, p) for p in implied]
    for args, what, goal in obligations:
        out_dir = os.path.join(ctx.work, "apalache")
        cmd = ["apalache-mc", "check", "--cinit=ConstInit", "--inv=" + goal, "--out-dir=" + out_dir] + args + [module + ".tla"]
        rc, out, dt = kit.run(cmd, cwd=kit.SPEC, timeout=900)
        ok = rc == 0 and "The outcome is: NoError" in out
        ctx.apalache.append({"module": module, "obligation": what, "ok": ok, "wall_s": round(dt, 1)})
        kit.log("[apalache] %s %s: %s %.1fs" % (module, what, "ok" if ok else "FAILED", dt))
        if not ok:
            raise kit.ToolError("Apalache could not establish %s for %s:\n%s" % (what, module, out[-2000:]))


def c12(ctx, replay):
    ctx.assumptions += [
        "environment assumption of C12: neither branch leads by more than the ring buffer's capacity (schedules outside it are not judged)",
        "frames are i32 (the fork is generic over the frame type and never inspects frames); source frame k is the number k",
        "exhaustive: every schedule of length 9 (quick) / 11 (thorough) with at most one re-split, capacity 1..3 / 1..4, every start offset, by_ref and by_rc; random schedules up to capacity 16",
    ]
    rej, _ = pipeline(ctx, "fork", replay)
    if ctx.tier == "thorough" and not replay:
        apalache(ctx, "ForkAbs")
    ctx.add_rejections(rej)


def c14(ctx, replay):
    ctx.assumptions += [
        "source = instrumented user signal: frame k is the number k, equilibrium after srclen frames, exhausted once srclen frames were pulled",
        "exhaustive: every call sequence of length 3 (quick) / 4 (thorough) over {next, next_frames(0|1|cap|cap+1), is_exhausted} from every valid pre-fill/start, capacity 1..3 / 1..4; random histories up to capacity 32",
    ]
    rej, _ = pipeline(ctx, "buffered", replay)
    if ctx.tier == "thorough" and not replay:
        apalache(ctx, "BufferedAbs")
    ctx.add_rejections(rej)


def c13(ctx, replay):
    ctx.assumptions += [
        "backlog length is read through the cfg(rustaudio_dasp_verif) hook Bus::verif_backlog_len",
        "outputs are identified by their order of creation; exhaustive: every operation sequence of length 8 (quick) / 10 (thorough) with at most 3 live outputs; random histories with up to 6 live outputs",
    ]
    rej, _ = pipeline(ctx, "bus", replay)
    if ctx.tier == "thorough" and not replay:
        apalache(ctx, "BusAbs")
    ctx.add_rejections(rej)


CHECKS = {"C12": c12, "C13": c13, "C14": c14}
