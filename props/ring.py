"""C06 -- bounded and fixed ring buffers (spec/RingBuffer.tla)."""
import os
from lib import kit


def pipeline(ctx, replay=None, parts=("tlc", "random")):
    """Runs the ring-buffer component; returns (functional rejections, heap rejections)."""
    tier = ctx.tier
    hx = ctx.cargo_build("hx_ring")
    rej, heap = [], []
    if replay:
        stim_files = [("replay", replay)]
    else:
        stim = os.path.join(ctx.work, "ring_stim.ndjson")
        cfg = "MC_RingBuffer_%s.cfg" % tier
        if "tlc" in parts:
            ctx.mc("MC_RingBuffer", cfg, workers=4, env={"STIM_OUT": stim}, need_actions=["StepB", "StepF"])
            ctx.exhaustive = True
            ctx.extra["mc_constants"] = {"MaxCap": 3 if tier == "quick" else 4, "Vals": [1, 2]}
        rnd = os.path.join(ctx.work, "ring_rand.ndjson")
        ctx.harness(hx, ["gen", str(ctx.seed), tier, rnd])
        stim_files = [x for x in [("tlc", stim), ("random", rnd)] if x[0] in parts]
    for name, prof, hxp, sf in kit.profile_runs(ctx, "hx_ring", stim_files, replay):
        tr = os.path.join(ctx.work, "ring_trace_%s_%s.ndjson" % (name, prof))
        r = ctx.run_stimuli(hxp, sf, tr, "ring")
        ctx.count_distinct(tr)
        res = ctx.validate("Trace_RingBuffer", tr, comp="ring", max_lines=30000, jobs=8)
        for x in r + res["rejected"] + res["heap"]:
            x["profile"] = prof
        rej += r + res["rejected"]
        heap += res["heap"]
        os.remove(tr)
    return rej, heap


def c06(ctx, replay):
    ctx.assumptions += [
        "element type i32 stands for every Copy element type (the code is generic and never inspects elements)",
        "capacities 1..3 (quick) / 1..4 (thorough) exhaustively from every valid (start,len)/first; random histories up to capacity 64",
        "both build profiles of the harness are executed (release: random histories in full, enumerated ones thinned in the quick tier)",
        "memory safety is observed through guard words around the backing slice and a sentinel in dead slots, not proved",
    ]
    rej, _ = pipeline(ctx, replay)
    if ctx.tier == "thorough" and not replay:
        from props.stream import apalache
        apalache(ctx, "RingIdxAbs", inits=("Init", "InitRaw"))       # index arithmetic for ANY capacity, unbounded histories
        ctx.assumptions.append("Apalache inductive invariant of RingIdxAbs: slot arithmetic of Bounded/Fixed for any capacity and history length "
                               "(one arbitrary element followed symbolically, from any valid raw parts, through push / pop / set_first)")
    ctx.add_rejections(rej)


CHECKS = {"C06": c06}
