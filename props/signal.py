"""C04 / C05 -- dasp_signal sources, pointwise adaptors, iterator consumers (spec/Signals.tla).

One pipeline serves both properties: TLC model-checks the adaptor-term semantics (layer 2 =
transcription of each `impl Signal`, against layer 1 = the denotation the properties state) on
every small term and writes one stimulus per (term, sources, call sequence or consumer); the
harness executes them -- and seeded random deeper terms -- on the real adaptor structs;
Trace_Signals.tla judges every logged call by layer 1.  The trace spec splits its conjuncts in
two groups (C04: frames / pulls / inspect / resume; C05: exhaustion flags / collected lengths /
silence after the end) and IOEnv.SIG_PROP selects the group that may reject, so each property
reports exactly its own rejections (an event failing both is reported under both)."""
import os
from lib import kit


def _mc(ctx, module, cfg, env, timeout=1500):
    """ctx.mc without `-coverage 1`: TLC's coverage walker expands the definition DAG of
    Signals -> SampleFormats -> Dyadic -> Big as a tree and does not terminate in reasonable time.
    Vacuity is asserted inside the model instead (MC_Signals!NonVacuous: every adaptor kind at the
    root and below it, every leaf kind, finite / infinite / borrowed / liftable scenarios)."""
    rc, out, dt = kit.tlc(module, cfg, ctx.work, workers=4, env=env, timeout=timeout, coverage=False, heap="6g")
    st = kit.parse_states(out)
    if rc != 0 or st is None or "Error:" in out:
        raise kit.ToolError("TLC model checking of %s/%s failed (rc=%s):\n%s" %
                            (module, cfg, rc, "\n".join(out.splitlines()[-40:])))
    ctx.states += st[1]
    ctx.transitions += st[0]
    ctx.mc_runs.append({"module": module, "cfg": cfg, "generated": st[0], "distinct": st[1], "wall_s": round(dt, 1),
                        "invariants": ["PointwiseOK", "OnePull", "ResumeAt", "ExhExact", "SilentAfter", "SrcFrames",
                                       "CollectLen", "TakeN", "Interleaved", "IterNth"],
                        "assumes": ["NativeOK", "NonVacuous"]})
    kit.log("[mc] %s %s: %d generated, %d distinct, %.1fs" % (module, cfg, st[0], st[1], dt))
    return out


def _vacuity(stim):
    """every event kind and consumer occurs among the TLC stimuli (a count, not an oracle)"""
    need = ['"ev":"next"', '"ev":"is_exhausted"', '"ev":"drop"', '"ev":"resume"', '"consumer":"take"',
            '"consumer":"ue"', '"consumer":"il"', '"consumer":"lift"', '"consumer":"il_clone"', '"consumer":"ue_clone"',
            '"consumer":"take_clone"', '"ev":"clone"', '"fmt":"i32"', '"fmt":"i64"', '"byref":true', '"k":"byref"', '"k":"srcs"',
            # statically typed receiver chains (every stimulus names its depth), the far end of delay's range
            '"st":0', '"st":1', '"st":2', '"k":"delaymax"',
            # programs of Iterator methods on the consumers
            '"ev":"drive"', '"op":"nth"', '"op":"skip"', '"op":"step_by"', '"op":"hint"', '"op":"count"', '"op":"last"',
            '"op":"fold"', '"op":"for_each"', '"op":"vec"', '"op":"find"', '"op":"position"', '"op":"any"', '"op":"all"',
            '"op":"drain"']
    seen = set()
    with open(stim) as f:
        for line in f:
            for n in need:
                if n not in seen and n in line:
                    seen.add(n)
            if len(seen) == len(need):
                break
    missing = [n for n in need if n not in seen]
    if missing:
        raise kit.ToolError("vacuity: no stimulus contains %s" % missing)


def pipeline(ctx, replay=None, prop="all"):
    """Runs the signal component; returns (functional rejections for `prop`, heap rejections)."""
    tier = ctx.tier
    hx = ctx.cargo_build("hx_signal")
    rej, heap = [], []
    if replay:
        stim_files = [("replay", replay)]
    else:
        stim = os.path.join(ctx.work, "signal_stim.ndjson")
        out = _mc(ctx, "MC_Signals", "MC_Signals_%s.cfg" % tier, {"STIM_OUT": stim})
        if '"STIMULI"' not in out:
            raise kit.ToolError("MC_Signals did not write stimuli")
        _vacuity(stim)
        ctx.exhaustive = True
        ctx.extra["mc_constants"] = {
            "sources": "4 sources of 0,1,2,3 frames (interleaved ones with a partial trailing frame)",
            "sorts": "i16 stereo, u8 mono, f64 stereo (operands of add/mul at i8, f32 where the types say so); "
                     "every depth-1 adaptor variant also in i32 stereo and i64 mono (values wider than the float mantissa)",
            "terms": "all depth<=1 terms (every closure / gain / delay variant, every leaf kind) in 3 sorts; "
                     "depth-2 terms (one variant per adaptor kind over from_iter leaves) in "
                     + ("i16 stereo over sources {2,4}" if tier == "quick" else "i16 stereo over sources {1,3,4}, u8 mono and f64 stereo over sources {2,4}")
                     + "; combiner on combiner; delay(usize::MAX - m) alone, under / over delay(0..2), on itself",
            "dispatch": "every i16-stereo scenario is also executed with its receiver chain statically typed (st = 1, 2): "
                        "every ordered pair (adaptor method, receiver adaptor type) and every (method, source type)",
        }
        rnd = os.path.join(ctx.work, "signal_rand.ndjson")
        ctx.harness(hx, ["gen", str(ctx.seed), tier, rnd])
        stim_files = [("tlc", stim), ("random", rnd)]
    # both build profiles (the specification expects the same in each: Trace_Signals header)
    for name, prof, hxp, sf in kit.profile_runs(ctx, "hx_signal", stim_files, replay, keep_quick=800):
        tr = os.path.join(ctx.work, "signal_trace_%s_%s.ndjson" % (name, prof))
        r = ctx.run_stimuli(hxp, sf, tr, "signal")
        ctx.count_distinct(tr)
        # random executions are deeper (slower per event): smaller pieces, more JVMs
        max_lines = 3000 if name == "random" else (12000 if tier == "quick" else 40000)
        res = ctx.validate("Trace_Signals", tr, comp="signal", max_lines=max_lines, jobs=8, env={"SIG_PROP": prop})
        for x in r + res["rejected"] + res["heap"]:
            x["profile"] = prof
        rej += r + res["rejected"]
        heap += res["heap"]
        os.remove(tr)
    return rej, heap


ASSUME_COMMON = [
    "frame sorts: i16, u8 (unsigned re-centring), f64, i32, u32, i64 (samples needing more bits than f32 / f64 hold), with "
    "operands of add_amp / mul_amp at i8 / i16 / i32 / i64 / f32 / f64 as the associated types dictate; 1-4 channels "
    "(mono = the bare sample type); other sample formats share the generic code",
    "Clone of the signal / of take, until_exhausted and the interleaved-sample iterator is taken mid-stream on terms without "
    "a borrowed (by_ref) leaf; clone and original share the pull instrumentation",
    "stimuli stay inside the domain on which C03 defines the frame arithmetic (no integer overflow, float->int within "
    "[-1,1)); an execution leaving it is skipped (UNDEF), not judged",
    "map / zip_map closures come from a fixed menu (id, rev, inv, from_signed, from_float; first, second, interleave, addamp)",
    "exhaustive: terms to depth 2 over sources of 0..3 frames; random: depth <= 5, sources <= 40 frames",
    "rate conversion (MulHz), fork, bus, buffered are other families' components; oscillators / noise / phase and step "
    "signals occur as OPAQUE sources only (f64 mono): what they yield is taken from an identically built twin recorded at "
    "reset, the adaptors over them are judged as over any source",
    "static dispatch: terms are built node-by-node behind boxes (every method called on the box type) and, for i16 stereo "
    "and f64 mono, also with the receiver chain (root and first operands, 1 or 2 levels; second operands of combiners are "
    "arguments and stay boxed) as one concretely typed stack, each call site spelled with the receiver's type constructor "
    "so that inherent methods and trait-method overrides of concrete adaptor / source types are reached; take / "
    "until_exhausted / into_interleaved_samples / by_ref are called on the concrete type for 1-level stacks; a bare source "
    "inside the static region has no pull counter (its frames are judged, its pulls are not); static stacks are not cloned",
    "delay counts: 0..7 and usize::MAX - {0,1,2} (`delaymax`: more silence than any execution observes)",
    "the iterators take / until_exhausted / interleaved samples are driven through `next` and through the provided Iterator "
    "methods nth, size_hint, count, last, fold, for_each, collect, find / position / any / all (counting predicates), "
    "ExactSizeIterator::len, and the std adaptors skip / step_by, each judged as the corresponding number of `next` calls "
    "(min / max / sum / comparison methods and the unstable ones are not called); on boxed terms only (a generic impl cannot "
    "be specialised per signal type); nth(1), nth(2) from every position on the model",
    "both build profiles of the harness are executed (release: replay and random stimuli in full, enumerated ones thinned "
    "in the quick tier); the expected outcome is the same in both",
]


def c04(ctx, replay):
    ctx.assumptions += ASSUME_COMMON + [
        "pull counts are next() calls observed by an instrumented wrapper around each source signal; calls of the "
        "underlying iterator (the from_iter look-ahead) are logged but not judged",
    ]
    rej, _ = pipeline(ctx, replay, prop="C04")
    ctx.add_rejections(rej)


def _is_bus(replay):
    with open(replay) as f:
        return '"comp":"bus"' in f.readline().replace(" ", "")


def c05(ctx, replay):
    ctx.assumptions += ASSUME_COMMON + [
        "until_exhausted / lift / interleaved consumers are only applied to terms with at least one finite source",
        "gen, gen_mut and equilibrium never report exhaustion (by design; not demanded)",
        "exhaustion reporting of bus outputs (dasp_signal::bus, a Signal over a shared finite source): C13's pipeline "
        "(spec/Bus.tla, harness/hx_stream; its bounds) is run with IOEnv.BUS_PROP=C05, i.e. Trace_Bus.tla rejects only on "
        "its conjunct `is_exhausted = nothing pending for THIS output and the source has ended`",
    ]
    rej = []
    if not replay or not _is_bus(replay):
        rej += pipeline(ctx, replay, prop="C05")[0]
    if not replay or _is_bus(replay):
        from props import stream
        # debug build only (C13 runs the bus in both profiles): ctx.light makes kit.profile_runs leave the release
        # build out; a value larger than any stimuli file thins nothing
        light = getattr(ctx, "light", 0)
        ctx.light = light or 10 ** 9
        try:
            rej += stream.pipeline(ctx, "bus", replay, env={"BUS_PROP": "C05"})[0]
        finally:
            ctx.light = light
    ctx.add_rejections(rej)


CHECKS = {"C04": c04, "C05": c05}
