//! hx_rms_nostd: the RMS runs of property C11 against dasp built WITHOUT its `std` feature
//! (dasp_sample's sample_sqrt is then the exponent-halving bit trick of ops.rs).  Same driver
//! and trace format as hx_dsp1 (the sources are shared by path); the header says
//! `"build":"no_std"`, which makes Trace_Rms.tla apply the no_std square-root predicate.
//! Executions that go through dasp_signal (via = "signal") are skipped: dasp_signal's no_std
//! build needs nightly intrinsics.  Only f32 and f64 frame formats are run here.
#[path = "../../../harness/hx_dsp1/src/fmt.rs"]
mod fmt;
#[path = "../../../harness/hx_dsp1/src/rms_driver.rs"]
mod rms_driver;

use hx_common::*;
use rms_driver::rms_direct_any;

#[global_allocator]
static A: CountingAlloc = CountingAlloc;

fn main() {
    let c = cli();
    silence_panics();
    match c.mode.as_str() {
        "run" => {
            let n = drive(&c.a1, &c.a2, |out, ex| {
                let cfg = &ex[0]["cfg"];
                if ex[0]["comp"] != "rms" || cfg["via"].as_str().unwrap_or("direct") == "signal" {
                    return;
                }
                let fmt = cfg["fmt"].as_str().unwrap().to_string();
                // the two no_std square roots are reached through f32 and f64 frames (integer frames use
                // their float companion, i.e. the f32 path again): run those, skip the rest
                if fmt != "f32" && fmt != "f64" {
                    return;
                }
                let ch = cfg["ch"].as_u64().unwrap();
                rms_dispatch!(rms_direct_any, fmt.as_str(), ch, (out, &ex[0], &ex[1..], "no_std"))
            });
            eprintln!("hx_rms_nostd: {} events", n);
        }
        _ => {
            eprintln!("usage: hx_rms_nostd run <stimuli> <trace>");
            std::process::exit(2);
        }
    }
}
