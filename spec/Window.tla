------------------------------- MODULE Window -------------------------------
(***************************************************************************)
(* dasp_window (Hann, Rectangle) and dasp_signal::window (Window iterator, *)
(* Windower, Windowed) -- property C20.                                    *)
(*                                                                         *)
(* Layer 1 (property):                                                     *)
(*   Hann(p) = 1/2 (1 - cos 2 pi p), Rect(p) = 1                           *)
(*   a window of n >= 2 frames samples the phases i/(n-1), i = 0..n-1      *)
(*   Windower(L, b, h): chunk k starts at offset k*h while k*h + b <= L;   *)
(*     Count = floor((L-b)/h) + 1 if L >= b else 0; the first b frames of  *)
(*     chunk k are frames k*h .. k*h+b-1, each scaled (mul_amp) by the     *)
(*     window value of its position                                        *)
(*   a size hint (lo, hi) is consistent iff lo <= remaining <= hi          *)
(*     (hi may be absent)                                                  *)
(*   the chunks are a sequence: however the iterator is advanced (next,    *)
(*     nth(j), skip(j), step_by(s)) the j-th of the remaining chunks is    *)
(*     chunk k+j, and reaching it consumes j+1 chunks (all, if fewer)      *)
(*   likewise count() = the chunks still to come, last() = chunk Count-1,  *)
(*     fold / for_each / find / position / any / all walk the same         *)
(*     sequence; a clone taken after k chunks continues with chunk k;      *)
(*     bin, hop, frames are public fields: after an assignment the         *)
(*     windower is a fresh windower over the remaining slice with the      *)
(*     current field values                                                *)
(*   the window FUNCTIONS themselves: Hann(p) in [0, 1] with the special   *)
(*     values at p = k/24 (Hann(0) = Hann(1) = 0, Hann(1/2) = 1);          *)
(*     Rect(p) = 1 for EVERY p, also outside [0, 1]                        *)
(* The cosine is never computed: Hann is pinned at the phases k/24 through *)
(* the sine table of Osc.tla (c = 1 - 2w must be cos(15 k degrees)), and   *)
(* elsewhere by range, symmetry, end / centre values and monotonicity.     *)
(*                                                                         *)
(* Layer 2 (implementation shaped): the Windower keeps the remaining slice *)
(* [off, off+rem): next() yields a chunk iff b <= rem and then drops h     *)
(* frames (all of them when h >= rem).  The Window iterator is an          *)
(* oscillator phase (Osc.tla) with rate n-1 and frequency 1.               *)
(***************************************************************************)
EXTENDS Osc, FiniteSets

---------------------------------------------------------------------------
(* layer 1: chunk schedule *)
Count(L, b, h) == IF L >= b THEN ((L - b) \div h) + 1 ELSE 0
ChunkOffset(k, h) == k * h
HasChunk(L, b, h, k) == k * h + b <= L
Remaining(L, b, h, k) == Count(L, b, h) - k                 \* after k chunks have been yielded (k <= Count)
HintConsistent(lo, hiSome, hi, remaining) == lo <= remaining /\ (hiSome => remaining <= hi)

\* Iterator::nth(j) after k chunks: chunk k + j if there is one; afterwards k + j + 1 chunks are gone
\* (every chunk when fewer remain).  skip(j).next() is nth(j); step_by(s) yields chunks k, k+s, k+2s, ...
Min2(x, y) == IF x <= y THEN x ELSE y
NthHas(L, b, h, k, j) == HasChunk(L, b, h, k + j)
NthAfter(L, b, h, k, j) == Min2(k + j + 1, Count(L, b, h))
\* step_by(s) asked for m >= 1 items: how many it yields, and the chunks consumed afterwards
StepGot(L, b, h, k, s, m) == Cardinality({ i \in 0..(m - 1) : HasChunk(L, b, h, k + i * s) })
StepAfter(L, b, h, k, s, m) == IF StepGot(L, b, h, k, s, m) = m THEN k + (m - 1) * s + 1 ELSE Count(L, b, h)

\* The windower's fields bin, hop and frames are PUBLIC: a caller may assign them between calls, and every
\* call reads them afresh ("the size of each chunk to be yielded", "the step size over frames", "the
\* beginning of the remaining slice").  Layer-1 state of one windower value:
\*   v = [base, len, b, h, k]   "a Windower over frames base+1 .. base+len of the caller's array, bin b,
\*                               hop h, that has yielded k chunks"
\* An assignment re-bases it: the frames the k chunks consumed are gone, what is left is a fresh windower
\* over the remaining slice with the new field value.  A clone is the same value (v copied).
VNew(L, b, h) == [base |-> 0, len |-> L, b |-> b, h |-> h, k |-> 0]
VConsumed(v) == Min2(v.k * v.h, v.len)                    \* frames dropped from the front so far
VRebase(v) == [v EXCEPT !.base = v.base + VConsumed(v), !.len = v.len - VConsumed(v), !.k = 0]
VSetBin(v, nb) == [VRebase(v) EXCEPT !.b = nb]
VSetHop(v, nh) == [VRebase(v) EXCEPT !.h = nh]
VSetFrames(v, o, n) == [v EXCEPT !.base = o, !.len = n, !.k = 0]   \* frames := array[o+1 .. o+n]
VCount(v) == Count(v.len, v.b, v.h)
VRemaining(v) == VCount(v) - v.k
VNthHas(v, j) == NthHas(v.len, v.b, v.h, v.k, j)
VNthAfter(v, j) == [v EXCEPT !.k = NthAfter(v.len, v.b, v.h, v.k, j)]
VStepGot(v, s, m) == StepGot(v.len, v.b, v.h, v.k, s, m)
VStepAfter(v, s, m) == [v EXCEPT !.k = StepAfter(v.len, v.b, v.h, v.k, s, m)]
VChunkStart(v, idx) == v.base + ChunkOffset(idx, v.h)     \* 0-based position of chunk idx in the caller's array
\* the provided Iterator methods that consume the windower: count() = the chunks still to come, last() = the
\* final chunk of the schedule (chunk Count-1, NOT "the last b frames"), fold / for_each = every remaining chunk
VLastHas(v) == VRemaining(v) > 0
VLastIdx(v) == VCount(v) - 1

---------------------------------------------------------------------------
(* a chunk (`Windowed`): layer 1 - item p (0-based) of the chunk that starts at frame `at` is frame at + p scaled  *)
(* by the window value OF POSITION p, whatever the VALUES of the frames are (silence, repeated frames, ...).       *)
(* Layer 2 - as coded: a signal cursor and a window cursor, both advanced by every next().  `frames` is any        *)
(* sequence of frame values; sc = TRUE stands for a value-dependent early return that leaves the window cursor     *)
(* where it is (the coded iterator has none: sc = FALSE); WdLockStep is what makes layer 2 refine layer 1.         *)
WdNew(at) == [sig |-> at, win |-> 0]
WdSilent(f) == \A c \in 1..Len(f) : f[c] = 0
\* sc = TRUE: the hypothetical "a silent frame needs no window value" shortcut
WdNextWith(wd, f, sc) == [sig |-> wd.sig + 1, win |-> IF sc /\ WdSilent(f) THEN wd.win ELSE wd.win + 1]
WdNext(wd, f) == WdNextWith(wd, f, FALSE)
\* the (frame index, window position) pairs of the first n items of the chunk at `at` over `frames` (1-based seq)
RECURSIVE WdPairsR(_, _, _, _, _)
WdPairsR(frames, wd, n, acc, sc) ==
  IF n = 0 THEN acc
  ELSE WdPairsR(frames, WdNextWith(wd, frames[wd.sig + 1], sc), n - 1, Append(acc, << wd.sig, wd.win >>), sc)
WdPairs(frames, at, n) == WdPairsR(frames, WdNew(at), n, << >>, FALSE)
WdLockStep(frames, at, n) == WdPairs(frames, at, n) = [p \in 1..n |-> << at + p - 1, p - 1 >>]

---------------------------------------------------------------------------
(* layer 2: the Windower as coded: w = [off, rem] *)
WNew(L) == [off |-> 0, rem |-> L]
WNext(w, b, h) ==
  IF b <= w.rem
    THEN [some |-> TRUE, at |-> w.off,
          w |-> IF h < w.rem THEN [off |-> w.off + h, rem |-> w.rem - h]
                             ELSE [off |-> w.off + w.rem, rem |-> 0]]
    ELSE [some |-> FALSE, at |-> w.off, w |-> w]
\* nth(j) as the Iterator trait defines it: j times next() (stopping at the first None), then next();
\* cnt = chunks consumed on the way
RECURSIVE WNthR(_, _, _, _, _)
WNthR(w, b, h, j, c) ==
  LET r == WNext(w, b, h) IN
  IF ~r.some THEN [some |-> FALSE, at |-> r.at, w |-> r.w, cnt |-> c]
  ELSE IF j = 0 THEN [some |-> TRUE, at |-> r.at, w |-> r.w, cnt |-> c + 1]
  ELSE WNthR(r.w, b, h, j - 1, c + 1)
WNth(w, b, h, j) == WNthR(w, b, h, j, 0)
\* count() / last() as the Iterator trait defines them: next() until None; cnt = how many, at = offset of the last one
RECURSIVE WDrainR(_, _, _, _, _)
WDrainR(w, b, h, c, at) ==
  LET r == WNext(w, b, h) IN
  IF ~r.some THEN [cnt |-> c, some |-> c > 0, at |-> at, w |-> r.w]
  ELSE WDrainR(r.w, b, h, c + 1, r.at)
WDrain(w, b, h) == WDrainR(w, b, h, 0, 0)
\* an exact size hint on that representation
WHint(w, b, h) == IF b <= w.rem THEN ((w.rem - b) \div h) + 1 ELSE 0
\* size_hint as coded at the pinned commit (DESIGN section 7 #6): `bin < len`, no `+ 1`
WHintPinned(w, b, h) == IF b < w.rem THEN (w.rem - b) \div h ELSE 0

---------------------------------------------------------------------------
(* layer 1: window functions at the special phases k/24 *)
\* Hann(k/24) = (1 - cos(15 k deg)) / 2, i.e. 4 Hann = 2 - 2 cos; as class: c = 1 - 2w = cos
\* table-level facts (checked by MC_Window): symmetric, 0 at the ends, 1 at the centre, monotone
HannCosSign(k) == CosSign(k)
HannC4(k) == C4(k)
\* cos(15 k deg) <= cos(15 j deg) for 0 <= j <= k <= 12, on the table: compare sign * sqrt(C4 / 4)
\* by squares within a sign class
CosLe(k, j) == \* cos(15k) <= cos(15j)
  LET sk == CosSign(k) sj == CosSign(j)
      lt(x, y) == \* x < y or x = y in Z[sqrt3], for the table's values (all in [0,4])
        1000 * (y[1] - x[1]) + (IF y[2] - x[2] >= 0 THEN 1732 ELSE 1733) * (y[2] - x[2]) >= 0
  IN IF sk # sj THEN sk < sj
     ELSE IF sk >= 0 THEN lt(C4(k), C4(j)) ELSE lt(C4(j), C4(k))
HannTableOK ==
  /\ \A k \in 0..24 : C4(k) = C4(24 - k) /\ CosSign(k) = CosSign(24 - k)       \* symmetric about 1/2
  /\ C4(0) = << 4, 0 >> /\ CosSign(0) = 1 /\ C4(24) = << 4, 0 >> /\ CosSign(24) = 1   \* Hann = 0 at both ends
  /\ C4(12) = << 4, 0 >> /\ CosSign(12) = -1                                   \* Hann = 1 at the centre
  /\ \A k \in 0..11 : CosLe(k + 1, k)                                          \* non-decreasing to the centre
  /\ \A k \in 0..24 : ZGeInt(C4(k), 0) /\ ZLeInt(C4(k), 4)                     \* Hann in [0, 1]

\* w (a dyadic) is Hann(k/24) to 1e-12:  1 - 2w is cos(15 k deg)
IsHann24T(w, k, T) == IsCos24T(DSub(DOne, DScale2(w, 1)), k, T)
IsHann24(w, k) == IsHann24T(w, k, DE12)

---------------------------------------------------------------------------
(* layer 1: the window functions evaluated directly at a phase p (a dyadic).  w = the value as an       *)
(* amplitude (floats: the number; integer formats: sample / 2^(bits-1)), lsb = one unit of the output   *)
(* format (0 for floats).  num/den = the rational the phase was derived from (den = 0: none): when      *)
(* 24 num/den is an integer k and p really is within `close`/24 of k/24, the special value is demanded  *)
(* to 1/T (+ the slope pi of Hann times the distance is inside 1/T for the (close, T) pairs used).      *)
RectFnOK(w, lsb) == DLe(w, DOne) /\ DLe(DSub(DOne, w), lsb)               \* 1 everywhere (nearest value below 1)
HannFnOK(p, w, num, den, close, T) ==
  /\ DLe(DZero, w) /\ DLe(w, DOne)
  /\ (den > 0 /\ Mod(24 * num, den) = 0 =>
        LET k == (24 * num) \div den IN
        DLe(DAbs(DSub(DMul(DFromInt(24), p), DFromInt(k))), close) => IsHann24T(w, k, T))
=============================================================================
