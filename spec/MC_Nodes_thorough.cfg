SPECIFICATION Spec
CONSTANTS
  L = 4
  MaxIn = 3
  MaxBuf = 3
  NCalls = 4
  MaxPick = 3
INVARIANTS Refines Shapes SumSilence SumBufEqual Untouched DelayStreams SignalStreams
CHECK_DEADLOCK FALSE
