---------------------------- MODULE Trace_Signals ----------------------------
(***************************************************************************)
(* Trace validation for dasp_signal's sources, pointwise adaptors and      *)
(* iterator consumers (harness/hx_signal).  An execution starts with a     *)
(* `reset` line carrying the adaptor term and its sources; every following *)
(* line is one public call at its return.  A line is accepted iff it is    *)
(* what LAYER 1 of Signals.tla (the denotation) says:                      *)
(*   next          frame = Den(n+1), pulls per source = Pulls, inspect log *)
(*                 = InspDen (C04); exhaustion flags before / after, and   *)
(*                 the frame of a bare source once it has ended (C05)      *)
(*   is_exhausted  ret = (n >= DLen) (C05); no pull (C04)                  *)
(*   collect       the whole yielded list: length, two further None, size  *)
(*                 hint of take, channel order of interleaved samples      *)
(*                 (C05); the frames and the pulls (C04)                   *)
(*   collect *_clone  the iterator is cloned after k items; the clone and   *)
(*                 the original each yield exactly the remaining items     *)
(*                 (lengths, the further None: C05; frames, pulls: C04)    *)
(*   clone         the signal is replaced by its clone: nothing changes    *)
(*   drive         a program of Iterator methods (nth, size_hint, len,     *)
(*                 count, last, fold, for_each, find, position, any, all,  *)
(*                 collect, skip, step_by) on take / until_exhausted /     *)
(*                 interleaved samples: each call = that many `next` calls *)
(*                 (what it returns, the remaining count: C05; the item    *)
(*                 values and the pulls after every call: C04)             *)
(*   drop / resume a borrowed source continues at Pulls + 1 (C04), with    *)
(*                 exact exhaustion flags and silence after its end (C05)  *)
(* State per execution = (term and sources = the reset line, n outputs so  *)
(* far, direct calls per borrowed source, whether the term is gone).       *)
(* cfg.st > 0: the receiver chain of the term was built st levels deep as  *)
(* one concretely typed stack (static dispatch; Signals!RawSrcs).  The     *)
(* judgement is the same denotation; only the pull counter of a bare       *)
(* source inside that region is known to stay 0.  An opaque source's       *)
(* frames are those its twin delivered (reset line, o.twin).               *)
(*                                                                         *)
(* Both build profiles of the harness (debug; release = optimised, no     *)
(* debug assertions, wrapping overflow) are judged by the same clauses:    *)
(* nothing here depends on the profile (an execution whose arithmetic      *)
(* leaves the domain of C03 is UNDEF in either).                           *)
(*                                                                         *)
(* IOEnv.SIG_PROP = "C04" | "C05" selects which group of conjuncts may     *)
(* reject (default: both).  Output lines:                                  *)
(*   <<"REJECT", l, tag>>  tag = "C04" | "C05" | "C04+C05"; the rest of    *)
(*                         that execution is skipped                       *)
(*   <<"HEAP", l, ev>>     accepted, but the call touched the heap (C07)   *)
(*   <<"DESYNC", l>>       only a conjunct of the property NOT selected    *)
(*                         failed and the position of the real signal is   *)
(*                         no longer known: rest of the execution skipped  *)
(*   <<"UNDEF", l>>        the stimulus left the domain on which C03       *)
(*                         defines the frame arithmetic (integer overflow, *)
(*                         float -> int outside [-1,1)): not judged        *)
(***************************************************************************)
EXTENDS Signals, Json, IOUtils

Rec == ndJsonDeserialize(IOEnv.TRACE)
Prop == IF "SIG_PROP" \in DOMAIN IOEnv THEN IOEnv.SIG_PROP ELSE "all"
Need04 == Prop \in {"all", "C04"}
Need05 == Prop \in {"all", "C05"}

VARIABLES l,      \* next line
          r0,     \* line of the reset of the current execution
          n,      \* outputs of the root so far
          rs,     \* direct next() calls per source since the term was dropped
          gone,   \* the term has been dropped / consumed
          skip    \* rest of this execution is ignored
vars == << l, r0, n, rs, gone, skip >>

Ev == Rec[l]
C == Rec[r0].cfg
NSrc == Len(C.srcs)
\* an opaque source holds what its twin delivered
X == [ch |-> C.ch,
      srcs |-> [j \in 1..NSrc |-> IF C.srcs[j].kind = "opaque"
                                    THEN [fmt |-> C.srcs[j].fmt, kind |-> "opaque", xs |-> Rec[r0].o.twin[j]]
                                    ELSE C.srcs[j]]]
T == C.term
F == C.fmt
St == IF "st" \in DOMAIN C THEN C.st ELSE 0          \* depth of the statically typed receiver chain
Raw == RawSrcs(T, St)                                 \* sources nothing counts the pulls of
\* frames of the twin that were recorded: an execution must not pull an opaque source further
TwinOK(m) == \A j \in 1..NSrc : C.srcs[j].kind = "opaque" => m <= Len(Rec[r0].o.twin[j])

ObsPulls(j, m) == IF j \in Raw THEN 0 ELSE Pulls(T, j, m)
ExpPulls(m, r) == [j \in 1..NSrc |-> ObsPulls(j, m) + r[j]]
Some(v) == [k |-> "some", v |-> v]
\* inspect-closure calls while the root delivers outputs base+1 .. base+m
RECURSIVE InspCount(_, _)
InspCount(base, m) == IF m = 0 THEN 0 ELSE Cardinality(InspDen(X, T, F, "r", base + m)) + InspCount(base, m - 1)

---------------------------------------------------------------------------
(* one judgement per event kind: [ok04, ok05, undef, sync, n, rs, gone] *)

JNext ==
  LET m == n + 1
      d == Den(X, T, F, m)
      frameOK == Ev.o.ok /\ Ev.r = Some(d)
      insp == InspDen(X, T, F, "r", m)
  IN [ok04  |-> /\ frameOK
                /\ Ev.o.pulls = ExpPulls(m, rs)
                /\ {Ev.o.insp[i] : i \in 1..Len(Ev.o.insp)} = insp      \* every closure saw its frame ...
                /\ Len(Ev.o.insp) = Cardinality(insp),                   \* ... exactly once
      ok05  |-> /\ Ev.o.exh_before = ExhDen(X, T, n)
                /\ Ev.o.exh_after = ExhDen(X, T, m)
                /\ (T.k \in LeafSrc /\ m > DLen(X, T) => frameOK),      \* an ended source yields equilibrium
      undef |-> ~TwinOK(m) \/ (~frameOK /\ ~DenDefined(X, T, F, m)),
      sync |-> TRUE, n |-> m, rs |-> rs, gone |-> FALSE]

JIsExh ==
  [ok04 |-> Ev.o.pulls = ExpPulls(n, rs),
   ok05 |-> Ev.o.ok /\ Ev.r = [k |-> "val", v |-> ExhDen(X, T, n)],
   undef |-> FALSE, sync |-> TRUE, n |-> n, rs |-> rs, gone |-> FALSE]

\* `root = root.clone()`: the clone stands exactly where the original stood (state unchanged); a term
\* with a borrowed leaf cannot be cloned (`&mut S` is not Clone): not judged
JClone ==
  [ok04 |-> Ev.o.ok /\ Ev.r = [k |-> "unit"] /\ Ev.o.pulls = ExpPulls(n, rs), ok05 |-> TRUE,
   undef |-> ByRefsOf(T) # {} \/ St > 0 \/ Raw # {}, sync |-> TRUE, n |-> n, rs |-> rs, gone |-> FALSE]

JDrop ==
  [ok04 |-> Ev.o.pulls = ExpPulls(n, rs), ok05 |-> TRUE, undef |-> FALSE, sync |-> TRUE, n |-> n, rs |-> rs, gone |-> TRUE]

JCollect ==
  LET a == Ev.a
      isClone == a.consumer \in {"take_clone", "ue_clone", "il_clone"}
      c == CASE a.consumer = "take_clone" -> "take" [] a.consumer = "ue_clone" -> "ue"
             [] a.consumer = "il_clone" -> "il" [] OTHER -> a.consumer
      finite == DLen(X, T) < Inf
      wellformed == /\ c \in {"take", "ue", "il", "lift"}
                    /\ (c # "take" => finite)
                    /\ (c = "lift" => n = 0 /\ ~Rec[r0].o.built /\ a.j \in SrcsOf(T))
                    /\ (isClone => ~a.byref /\ ByRefsOf(T) = {} /\ St = 0 /\ Raw = {})  \* `&mut S` is not Clone; static stacks / opaque sources are not cloned
      cnt == IF c = "take" THEN a.n ELSE UeCount(X, T, n)                \* frames the root delivers
      exp == IF c = "il" THEN IlItems(X, T, F, n) ELSE DenRange(X, T, F, n, cnt)
      \* *_clone: got = the k items before the clone was taken, then what the CLONE yielded -- judged
      \* exactly like the list of the plain consumer; o.tail = what the original yielded after that
      got == Ev.r.v
      isItems == Ev.o.ok /\ Ev.r.k = "items"
      lenOK == isItems /\ Len(got) = Len(exp)
      common == IF isItems THEN MinI(Len(got), Len(exp)) ELSE 0
      prefixOK == IF lenOK THEN got = exp ELSE \A i \in 1..common : got[i] = exp[i]
      \* interleaved samples, frame by frame: a chunk that is a permutation of the expected frame is a
      \* channel-order error (C05), any other difference is a wrong frame (C04)
      frames == DenRange(X, T, F, n, cnt)
      chunk(i) == [k \in 1..X.ch |-> got[(i - 1) * X.ch + k]]
      sameBag(x, y) == \A i \in 1..Len(x) : Cardinality({k \in 1..Len(x) : x[k] = x[i]}) = Cardinality({k \in 1..Len(y) : y[k] = x[i]})
      ilValueOK == (c = "il" /\ lenOK /\ got # exp) => \A i \in 1..cnt : chunk(i) # frames[i] => sameBag(chunk(i), frames[i])
      ilOrderOK == (c = "il" /\ lenOK /\ got # exp) => \A i \in 1..cnt : chunk(i) # frames[i] => ~sameBag(chunk(i), frames[i])
      \* the clone point: hk items were pulled before it (fewer than asked for only if the stream ended),
      \* = fk frames of the root
      hk == IF isClone /\ isItems THEN Ev.o.head ELSE 0
      fk == IF ~isClone THEN cnt ELSE MinI(cnt, IF c = "il" THEN IlFramesFor(hk, X.ch) ELSE hk)
      headOK == hk <= Len(got) /\ hk <= a.k /\ (hk < a.k => Len(got) = hk)
      cloneTail == CloneTail(got, hk)
      tailLenOK == Len(Ev.o.tail) = Len(cloneTail)                       \* the original yields as many ...
      tailSame == tailLenOK => Ev.o.tail = cloneTail                     \* ... and the same items as its clone
      \* original and clone share the instrumentation: both sets of pulls / closure calls are counted
      expPulls == [j \in 1..NSrc |-> 2 * ObsPulls(j, n + cnt) - ObsPulls(j, n + fk) + rs[j]]
      inspCalls == 2 * InspCount(n, cnt) - InspCount(n, fk)
  IN IF ~wellformed \/ ~TwinOK(n + cnt) \/ (finite /\ a.cap < Len(exp))
       THEN [ok04 |-> TRUE, ok05 |-> TRUE, undef |-> TRUE, sync |-> TRUE, n |-> n, rs |-> rs, gone |-> TRUE]
     ELSE
       [ok04  |-> /\ isItems
                  /\ (c # "il" => prefixOK) /\ ilValueOK                 \* the frames themselves
                  /\ (isClone /\ c # "il" => tailSame)
                  /\ (lenOK /\ (isClone => headOK /\ tailLenOK) => Ev.o.pulls = expPulls /\ Ev.o.insp_calls = inspCalls),
        ok05  |-> /\ lenOK                                               \* exactly Len / n / frames x channels items
                  /\ Ev.o.after = << FALSE, FALSE >> /\ ~Ev.o.capped     \* then None for good
                  /\ (c = "take" => Ev.o.hint = << a.n, a.n, a.n >>)     \* ExactSizeIterator
                  /\ ilOrderOK                                          \* channel order
                  /\ (isClone => /\ headOK /\ tailLenOK                 \* exactly the remaining items, both
                                 /\ Ev.o.after2 = << FALSE, FALSE >>
                                 /\ (c = "il" => tailSame)
                                 /\ (c = "take" => Ev.o.chint = << a.n - hk, a.n - hk, a.n - hk >>)),
        undef |-> ~(isItems /\ prefixOK) /\ \E i \in 1..cnt : ~DenDefined(X, T, F, n + i),
        sync  |-> lenOK,                     \* otherwise the position of the real signal is unknown
        n |-> n + cnt, rs |-> rs, gone |-> ~a.byref]

\* `drive`: the consumer's iterator is driven by a program of Iterator methods (Signals!ItRet): every
\* call returns what that many `next` calls would have -- Some / None, counts, len, size_hint, list
\* lengths, an item that belongs at ANOTHER position of the stream: C05; the item / frame values and the
\* pulls after every call: C04.  Same expectation in both build profiles.
JDrive ==
  LET a == Ev.a
      c == a.consumer
      ops == a.ops
      NO == Len(ops)
      finite == DLen(X, T) < Inf
      wellformed == /\ c \in {"take", "ue", "il"} /\ (c # "take" => finite) /\ St = 0 /\ Raw = {}
                    /\ \A i \in 1..NO : /\ (ops[i].op \in ItByValue => i = NO)
                                        /\ (ops[i].op \in {"find", "position", "any", "all", "step_by"} => ops[i].k >= 1)
                                        /\ (ops[i].op = "len" => c = "take")
      cnt == IF c = "take" THEN a.n ELSE UeCount(X, T, n)                \* frames the root can deliver
      items == IF c = "il" THEN IlItems(X, T, F, n) ELSE DenRange(X, T, F, n, cnt)
      L == Len(items)
      Pos[i \in 0..NO] == IF i = 0 THEN 0 ELSE ItPos(L, Pos[i - 1], ops[i].op, ops[i].k)
      fin == ItFrames(c, Pos[NO], X.ch)                                  \* root frames pulled in the end
      shaped == Ev.o.ok /\ Ev.r.k = "items" /\ Len(Ev.r.v) = NO /\ Len(Ev.o.steps) = NO
      elsewhere(x, e) == x # e /\ \E i \in 1..L : items[i] = x        \* a real item, at the wrong place
      ok05at(i) ==
        LET op == ops[i].op  p == Pos[i - 1]  res == Ev.r.v[i]  e == ItRet(items, p, op, ops[i].k)
        IN CASE op \in ItSingle -> res.k = e.k /\ (e.k = "some" => ~elsewhere(res.v, e.v))
             [] op \in ItLists  -> /\ res.k = "items" /\ Len(res.v) = Len(e.v) /\ res.after = << FALSE, FALSE >>
                                   /\ \A m \in 1..Len(e.v) : ~elsewhere(res.v[m], e.v[m])
             [] op = "hint"     -> res.k = "hint" /\ ItHintOK(c = "take", L - p, res.lo, res.hi)
             [] OTHER           -> res = e
      ok04at(i) ==
        LET op == ops[i].op  p == Pos[i - 1]  res == Ev.r.v[i]  e == ItRet(items, p, op, ops[i].k)
        IN CASE op \in ItSingle -> (res.k = "some" /\ e.k = "some") => res.v = e.v
             [] op \in ItLists  -> res.k = "items" => \A m \in 1..MinI(Len(res.v), Len(e.v)) : res.v[m] = e.v[m]
             [] OTHER           -> TRUE
      all05 == shaped /\ \A i \in 1..NO : ok05at(i)
      vals04 == shaped /\ \A i \in 1..NO : ok04at(i)
  IN IF ~wellformed \/ ~TwinOK(n + cnt) \/ a.cap < L
       THEN [ok04 |-> TRUE, ok05 |-> TRUE, undef |-> TRUE, sync |-> TRUE, n |-> n, rs |-> rs, gone |-> TRUE]
     ELSE
       [ok04  |-> /\ vals04
                  /\ (all05 => /\ \A i \in 1..NO : Ev.o.steps[i] = ExpPulls(n + ItFrames(c, Pos[i], X.ch), rs)
                               /\ Ev.o.pulls = ExpPulls(n + fin, rs)
                               /\ Ev.o.insp_calls = InspCount(n, fin)),
        ok05  |-> all05,
        undef |-> ~vals04 /\ \E i \in 1..cnt : ~DenDefined(X, T, F, n + i),
        sync  |-> all05,                     \* otherwise the position of the real signal is unknown
        n |-> n + fin, rs |-> rs, gone |-> ~a.byref]

JResume ==
  LET j == Ev.a.src
      f == C.srcs[j].fmt
      k == Pulls(T, j, n) + rs[j] + 1                                    \* index of the frame now delivered
      rs1 == [rs EXCEPT ![j] = @ + 1]
      frameOK == Ev.o.ok /\ Ev.r = Some(SrcDen(X, j, f, k))
  IN [ok04 |-> j \in ByRefsOf(T) /\ frameOK /\ Ev.o.pulls = ExpPulls(n, rs1),
      ok05 |-> /\ Ev.o.exh_before = (k - 1 >= SrcLen(X, j))
               /\ Ev.o.exh_after = (k >= SrcLen(X, j))
               /\ (k > SrcLen(X, j) => frameOK),
      undef |-> FALSE, sync |-> TRUE, n |-> n, rs |-> rs1, gone |-> TRUE]

Known == \/ (~gone /\ Ev.ev \in {"next", "is_exhausted", "drop", "collect", "clone", "drive"})
         \/ (gone /\ Ev.ev = "resume")
Judge == CASE Ev.ev = "next" -> JNext
           [] Ev.ev = "is_exhausted" -> JIsExh
           [] Ev.ev = "drop" -> JDrop
           [] Ev.ev = "clone" -> JClone
           [] Ev.ev = "collect" -> JCollect
           [] Ev.ev = "drive" -> JDrive
           [] Ev.ev = "resume" -> JResume

\* reset: the term was built (or is built later by `lift`), nothing has been pulled yet
Reset04 == Ev.r = [k |-> "unit"] /\ Ev.o.ok /\ Ev.o.pulls = [j \in 1..Len(Ev.cfg.srcs) |-> 0]
Reset05 == Ev.o.built => Ev.o.exh = ExhDen([ch |-> Ev.cfg.ch, srcs |-> Ev.cfg.srcs], Ev.cfg.term, 0)

Tag(b04, b05) == IF b04 /\ b05 THEN "C04+C05" ELSE IF b04 THEN "C04" ELSE "C05"
HeapOK == Ev.r.k = "panic" \/ Ev.h = << 0, 0, 0 >>

---------------------------------------------------------------------------
Consume == l <= Len(Rec) /\ l' = l + 1

TReset ==
  /\ Consume /\ Ev.ev = "reset"
  /\ LET b04 == Need04 /\ ~Reset04
         b05 == Need05 /\ ~Reset05
     IN IF b04 \/ b05
          THEN PrintT(<< "REJECT", l, Tag(b04, b05) >>) /\ skip' = TRUE /\ UNCHANGED << r0, n, rs, gone >>
          ELSE /\ r0' = l /\ n' = 0 /\ rs' = [j \in 1..Len(Ev.cfg.srcs) |-> 0] /\ gone' = FALSE /\ skip' = FALSE
TOp ==
  /\ Consume /\ Ev.ev # "reset" /\ ~skip
  /\ IF ~Known
       THEN PrintT(<< "REJECT", l, "C04+C05" >>) /\ skip' = TRUE /\ UNCHANGED << r0, n, rs, gone >>
       ELSE LET j == Judge
                b04 == Need04 /\ ~j.ok04
                b05 == Need05 /\ ~j.ok05
            IN IF j.undef
                 THEN PrintT(<< "UNDEF", l >>) /\ skip' = TRUE /\ UNCHANGED << r0, n, rs, gone >>
               ELSE IF b04 \/ b05
                 THEN PrintT(<< "REJECT", l, Tag(b04, b05) >>) /\ skip' = TRUE /\ UNCHANGED << r0, n, rs, gone >>
               ELSE IF ~j.sync      \* failed only a conjunct of the property not selected, and lost the position
                 THEN PrintT(<< "DESYNC", l >>) /\ skip' = TRUE /\ UNCHANGED << r0, n, rs, gone >>
               ELSE /\ n' = j.n /\ rs' = j.rs /\ gone' = j.gone /\ UNCHANGED << r0, skip >>
                    /\ (IF HeapOK THEN TRUE ELSE PrintT(<< "HEAP", l, Ev.ev >>))
TSkip == Consume /\ Ev.ev # "reset" /\ skip /\ UNCHANGED << r0, n, rs, gone, skip >>

TraceInit == l = 1 /\ r0 = 1 /\ n = 0 /\ rs = << >> /\ gone = FALSE /\ skip = TRUE
TraceNext == TReset \/ TOp \/ TSkip
TraceSpec == TraceInit /\ [][TraceNext]_vars

\* every line was consumed (a shorter behaviour means the trace spec got stuck: tool error)
AllConsumed == IF TLCGet("stats").diameter - 1 = Len(Rec) THEN TRUE
               ELSE PrintT(<< "STUCK", TLCGet("stats").diameter, Len(Rec) >>) /\ FALSE
=============================================================================
