SPECIFICATION Spec
CONSTANTS
  MaxLive = 3
  MaxKeys = 6
  MaxPulled = 99
  SeqLen = 10
INVARIANTS GapFree SameKeys Pending PullOnce Backlog Content Emit
CHECK_DEADLOCK FALSE
