--------------------------- MODULE Trace_Envelope ---------------------------
(***************************************************************************)
(* Trace validation for dasp_peak's rectifiers and dasp_envelope::Detector *)
(* (also through dasp_signal's detect_envelope adaptor), property C19.     *)
(*                                                                         *)
(* comp "rect": {"cfg":{fmt,ch}}; events  rect{a:{kind,x}} -> r.v          *)
(*   accepted iff every channel equals Rect(kind, fmt, x) exactly          *)
(*   (whenever the negated amplitude is representable: the property's      *)
(*   domain; outside it nothing is required).                              *)
(*   a.by = "fn" (free functions) | "trait" (the Rectifier impls).         *)
(*   cfg.profile (both components) = build profile of the harness binary   *)
(*   (debug | release): the SAME clauses are demanded in both -- inside    *)
(*   the property's domain no outcome may depend on debug assertions or    *)
(*   overflow checks.                                                      *)
(* comp "env": {"cfg":{fmt,ch,det,n,attack,release,nza,nzr,via,srclen,     *)
(*                     src,ctor,store}, "o":{ga,gr}}                       *)
(*   det in full|pos|neg (peak) or rms (window n); times in quarter frames *)
(*   ctor = constructor entry point (named | new | rect | from), store =   *)
(*   ring storage of an RMS detector, src = source signal of an adaptor    *)
(*   run: all denote the same detector (EnvNew).                           *)
(*   An execution owns a growing list of detector INSTANCES (`ins`); every *)
(*   event names the one it acts on (a.i).  Instance 0 is built by the     *)
(*   header: the bare Detector (via "direct") or the detect_envelope       *)
(*   adaptor (via "signal").  Events of a bare detector are env_*, those   *)
(*   of an adaptor env_sig_*:                                              *)
(*     env_next{a:{i,x}, o:{det}} -> r.v ;                                 *)
(*     env_set{a:{i,which,tq,nz}, o:{hint}}                                *)
(*     env_clone{a:{i,j}}: instance j (= the number of instances so far)   *)
(*       is a Clone of i and starts with EXACTLY i's abstract state        *)
(*       (EnvClone: envelope, both gains, RMS window); afterwards an event *)
(*       changes its own instance only and every instance is judged        *)
(*       against its own history.                                          *)
(*     env_move / env_wrap / env_sig_parts {a:{i}}: the instance is moved  *)
(*       in memory / the bare detector is put on the adaptor / the adaptor *)
(*       is taken apart (into_parts) and its detector goes on: the         *)
(*       abstract state is untouched.                                      *)
(*     env_fmt {a:{i}}, o:{len}: the bare detector rendered with {:?}      *)
(*       (derived Debug; with RMS detection it renders the Rms and its     *)
(*       window) into a sink without heap memory.  An operation like any   *)
(*       other: returns Ok, no-op on the abstract state (every later       *)
(*       output is judged against the same envelope, gains and window),    *)
(*       heap untouched.  The text is not judged.  (DetectEnvelope has no  *)
(*       Debug impl: there is no env_sig_fmt.)                             *)
(*   nza / nzr / nz = 1: the zero time was handed over as IEEE negative    *)
(*   zero (-0.0 = 0, -0.0 >= 0: inside "attack and release times >= 0").   *)
(*   It is the time 0 to the model: gain 0, envelope = detected value.     *)
(*   srclen >= 0 (adaptor runs): the source signal ends after srclen       *)
(*   frames; the later env_sig_next calls read past its end and their      *)
(*   logged input x is the equilibrium frame such a signal yields.  The    *)
(*   model needs no case for it: the recurrence keeps running on that      *)
(*   input (the release tail), which is what the property demands of every *)
(*   input history.  srclen = -1: the source is never read past its end.   *)
(*   ga / gr / hint are the harness's own exp(-1/frames) in f32: a HINT    *)
(*   that is used as the gain only after GainOK has verified it.           *)
(*   Accepted iff the logged detected value is the rectified input (or an  *)
(*   acceptable RMS of the inputs so far), and each output obeys the       *)
(*   recurrence on (previous output, detected value, gain) within the      *)
(*   bound of Envelope.tla, without overshoot, exactly when the time is 0. *)
(***************************************************************************)
EXTENDS Envelope, TLC, Json, IOUtils

Rec == ndJsonDeserialize(IOEnv.TRACE)

VARIABLES l,      \* next line
          cf,     \* header of the current execution
          ins,    \* detector instances: sequence of
                  \*   [g |-> [a, r] attack / release gain (dyadics),
                  \*    prev |-> previous envelope output per channel (dyadics),
                  \*    rs |-> RMS detection: per channel [win, sum, bud, ex]; << >> otherwise,
                  \*    via |-> "direct" | "signal"]
          skip
vars == << l, cf, ins, skip >>
Ev == Rec[l]
NoCfg == [comp |-> "none"]

AllFormats == IntFormats \cup FloatFormats
\* a logged sample of format f: well formed, in range, finite
SampleOK(f, j) == IF IsFloat(f) THEN IsFields(j) /\ FIsFinite(FmtOf(f), j)
                  ELSE IsSJson(j) /\ InRange(f, SFromJson(j))
FrameOK(f, ch, x) == Len(x) = ch /\ \A i \in 1..ch : SampleOK(f, x[i])
AsD(f, j) == IF IsFloat(f) THEN Dec(FmtOf(f), j) ELSE DFromS(SFromJson(j))

---------------------------------------------------------------------------
(* rectifiers *)
RectAccept(c) ==
  LET k == Ev.a.kind x == Ev.a.x of == RectFmt(k, c.fmt) IN
  /\ k \in {"full", "pos", "neg"} /\ Ev.a.by \in {"fn", "trait"} /\ FrameOK(c.fmt, c.ch, x)
  /\ IF \A i \in 1..c.ch : RectDefined(k, c.fmt, SampleFromJson(c.fmt, x[i]))
       THEN /\ Ev.r.k = "val" /\ FrameOK(of, c.ch, Ev.r.v)
            /\ \A i \in 1..c.ch : SameSample(of, SampleFromJson(of, Ev.r.v[i]),
                                             Rect(k, c.fmt, SampleFromJson(c.fmt, x[i])))
       ELSE TRUE            \* -amp not representable: outside the property's domain

---------------------------------------------------------------------------
(* detector *)
OutFmt(c) == IF c.det = "rms" THEN FloatOf(c.fmt) ELSE RectFmt(c.det, c.fmt)
HintOK(tq, h) == IsFields(h) /\ FIsFinite(F32, h) /\ GainOK(tq, Dec(F32, h))
EnvResetOK(c) ==
  /\ c.fmt \in AllFormats /\ c.ch >= 1 /\ c.det \in {"full", "pos", "neg", "rms"}
  /\ c.via \in {"direct", "signal"} /\ (c.det = "rms" => c.n >= 1)
  /\ c.attack >= 0 /\ c.release >= 0
  /\ c.nza \in {0, 1} /\ c.nzr \in {0, 1} /\ (c.nza = 1 => c.attack = 0) /\ (c.nzr = 1 => c.release = 0)
  /\ c.srclen >= -1 /\ (c.srclen >= 0 => c.via = "signal" /\ c.src = "iter")
  /\ c.src \in {"iter", "gen"} /\ c.ctor \in {"named", "new", "rect", "from"} /\ c.store \in {"vec", "box"}
  /\ c.profile \in {"debug", "release"}
  /\ Ev.r.k = "unit" /\ Ev.o.ok
  /\ HintOK(c.attack, Ev.o.ga) /\ HintOK(c.release, Ev.o.gr)

\* the instance the event acts on
IdxOK == Ev.a.i >= 0 /\ Ev.a.i < Len(ins)
Me == ins[Ev.a.i + 1]
\* RMS detection: state after feeding the frame
RmsAfter(c, x) == [i \in 1..c.ch |-> TPush(FmtOf(FloatOf(c.fmt)), ConvSlack(c.fmt), Me.rs[i], AmpD(c.fmt, SampleFromJson(c.fmt, x[i])))]
DetOK(c, x, d, rsn) ==
  IF c.det = "rms"
    THEN \A i \in 1..c.ch : AcceptRootStd(FmtOf(FloatOf(c.fmt)), ConvSlack(c.fmt), rsn[i], d[i])
    ELSE \A i \in 1..c.ch : /\ RectDefined(c.det, c.fmt, SampleFromJson(c.fmt, x[i]))
                            /\ SameSample(OutFmt(c), SampleFromJson(OutFmt(c), d[i]),
                                          Rect(c.det, c.fmt, SampleFromJson(c.fmt, x[i])))
OutOK(c, d, out) ==
  LET of == OutFmt(c) IN
  \A i \in 1..c.ch :
    IF IsFloat(of) THEN EnvAcceptF(FmtOf(of), Me.prev[i], AsD(of, d[i]), Me.g.a, Me.g.r, AsD(of, out[i]))
                   ELSE EnvAcceptI(Me.prev[i], AsD(of, d[i]), Me.g.a, Me.g.r, AsD(of, out[i]))
NextOK(c, rsn) ==
  LET x == Ev.a.x d == Ev.o.det of == OutFmt(c) IN
  /\ FrameOK(c.fmt, c.ch, x) /\ FrameOK(of, c.ch, d)
  /\ Ev.r.k = "val" /\ FrameOK(of, c.ch, Ev.r.v)
  /\ DetOK(c, x, d, rsn)
  /\ OutOK(c, d, Ev.r.v)
SetOK == /\ Ev.a.which \in {"attack", "release"} /\ Ev.a.tq >= 0
         /\ Ev.a.nz \in {0, 1} /\ (Ev.a.nz = 1 => Ev.a.tq = 0)      \* -0.0 is the time 0
         /\ Ev.r.k = "unit" /\ HintOK(Ev.a.tq, Ev.o.hint)
\* the new instance gets the next free index.  An adaptor over dasp's from_iter would, cloned, replay the remaining
\* frames of the original: adaptors are cloned over the queue source only (the logged inputs are then the real ones)
CloneOK == /\ Ev.a.j = Len(ins) /\ Ev.r.k = "unit"
           /\ (Me.via = "signal" => cf.src = "gen")
\* the copy: EnvClone of the follower state, RmsClone of the detection's window (Envelope.tla / Rms.tla)
CloneOf(me) ==
  LET c == EnvClone([env |-> me.prev, gA |-> me.g.a, gR |-> me.g.r]) IN
  [g |-> [a |-> c.gA, r |-> c.gR], prev |-> c.env, rs |-> [i \in DOMAIN me.rs |-> RmsClone(me.rs[i])], via |-> me.via]

Named(base) == Ev.ev = (IF Me.via = "signal" THEN "env_sig_" ELSE "env_") \o base
IsNext  == Named("next")
IsSet   == Named("set")
IsClone == Named("clone")
IsMove  == Named("move")
IsWrap  == Ev.ev = "env_wrap" /\ Me.via = "direct"
IsParts == Ev.ev = "env_sig_parts" /\ Me.via = "signal"
IsFmt   == Ev.ev = "env_fmt" /\ Me.via = "direct"
FmtOK   == Ev.r.k = "unit" /\ Ev.o.len >= 0
HeapOK == Ev.h = << 0, 0, 0 >>

---------------------------------------------------------------------------
Consume == l <= Len(Rec) /\ l' = l + 1
Reject == PrintT(<< "REJECT", l, Ev.ev >>) /\ skip' = TRUE
TReset ==
  /\ Consume /\ Ev.ev = "reset"
  /\ LET c == Ev.cfg IN
     CASE Ev.comp = "rect" ->
            IF c.fmt \in AllFormats /\ c.ch >= 1 /\ c.profile \in {"debug", "release"} /\ Ev.r.k = "unit"
              THEN cf' = [comp |-> "rect", fmt |-> c.fmt, ch |-> c.ch] /\ skip' = FALSE /\ ins' = << >>
              ELSE Reject /\ cf' = NoCfg /\ ins' = << >>
       [] Ev.comp = "env" ->
            IF EnvResetOK(c)
              THEN /\ cf' = [comp |-> "env", fmt |-> c.fmt, ch |-> c.ch, det |-> c.det, n |-> c.n, src |-> c.src] /\ skip' = FALSE
                   /\ ins' = << [g |-> [a |-> Dec(F32, Ev.o.ga), r |-> Dec(F32, Ev.o.gr)],
                                 prev |-> [i \in 1..c.ch |-> DZero],                  \* last_env_frame = EQUILIBRIUM
                                 rs |-> IF c.det = "rms" THEN [i \in 1..c.ch |-> TInit(c.n)] ELSE << >>,
                                 via |-> c.via] >>
              ELSE Reject /\ cf' = NoCfg /\ ins' = << >>
       [] OTHER -> Reject /\ cf' = NoCfg /\ ins' = << >>
TRect ==
  /\ Consume /\ Ev.ev # "reset" /\ ~skip /\ cf.comp = "rect"
  /\ IF Ev.ev = "rect" /\ RectAccept(cf)
       THEN /\ UNCHANGED << cf, ins, skip >>
            /\ (IF Ev.r.k = "panic" \/ HeapOK THEN TRUE ELSE PrintT(<< "HEAP", l, Ev.ev >>))
       ELSE Reject /\ UNCHANGED << cf, ins >>
Upd(me2) == ins' = [ins EXCEPT ![Ev.a.i + 1] = me2]                 \* an event changes its own instance only
TEnv ==
  /\ Consume /\ Ev.ev # "reset" /\ ~skip /\ cf.comp = "env"
  /\ IF ~IdxOK THEN Reject /\ UNCHANGED << cf, ins >>
     ELSE IF IsNext
       THEN LET rsn == IF cf.det = "rms" THEN RmsAfter(cf, Ev.a.x) ELSE << >> IN
            IF NextOK(cf, rsn)
              THEN /\ Upd([Me EXCEPT !.prev = [i \in 1..cf.ch |-> AsD(OutFmt(cf), Ev.r.v[i])], !.rs = rsn])
                   /\ UNCHANGED << cf, skip >>
                   /\ (IF HeapOK THEN TRUE ELSE PrintT(<< "HEAP", l, Ev.ev >>))
              ELSE Reject /\ UNCHANGED << cf, ins >>
     ELSE IF IsSet /\ SetOK
       THEN /\ Upd(IF Ev.a.which = "attack" THEN [Me EXCEPT !.g.a = Dec(F32, Ev.o.hint)]
                                            ELSE [Me EXCEPT !.g.r = Dec(F32, Ev.o.hint)])   \* a setter changes the gain only
            /\ UNCHANGED << cf, skip >>
            /\ (IF HeapOK THEN TRUE ELSE PrintT(<< "HEAP", l, Ev.ev >>))
     \* {:?} of the detector: no-op on the abstract state, a steady-state call like the others
     ELSE IF IsFmt /\ FmtOK
       THEN /\ UNCHANGED << cf, ins, skip >>
            /\ (IF HeapOK THEN TRUE ELSE PrintT(<< "HEAP", l, Ev.ev >>))
     \* clones, moves and (un)wrapping are not steady-state calls: no heap conjunct
     ELSE IF IsClone /\ CloneOK
       THEN ins' = Append(ins, CloneOf(Me)) /\ UNCHANGED << cf, skip >>      \* the original is untouched
     ELSE IF (IsMove \/ IsWrap \/ IsParts) /\ Ev.r.k = "unit"
       THEN /\ Upd([Me EXCEPT !.via = IF IsWrap THEN "signal" ELSE IF IsParts THEN "direct" ELSE @])
            /\ UNCHANGED << cf, skip >>
       ELSE Reject /\ UNCHANGED << cf, ins >>
TNone == Consume /\ Ev.ev # "reset" /\ ~skip /\ cf.comp = "none" /\ Reject /\ UNCHANGED << cf, ins >>
TSkip == Consume /\ Ev.ev # "reset" /\ skip /\ UNCHANGED << cf, ins, skip >>

TraceInit == l = 1 /\ cf = NoCfg /\ ins = << >> /\ skip = TRUE
TraceNext == TReset \/ TRect \/ TEnv \/ TNone \/ TSkip
TraceSpec == TraceInit /\ [][TraceNext]_vars

AllConsumed == IF TLCGet("stats").diameter - 1 = Len(Rec) THEN TRUE
               ELSE PrintT(<< "STUCK", TLCGet("stats").diameter, Len(Rec) >>) /\ FALSE
=============================================================================
