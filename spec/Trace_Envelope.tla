--------------------------- MODULE Trace_Envelope ---------------------------
(***************************************************************************)
(* Trace validation for dasp_peak's rectifiers and dasp_envelope::Detector *)
(* (also through dasp_signal's detect_envelope adaptor), property C19.     *)
(*                                                                         *)
(* comp "rect": {"cfg":{fmt,ch}}; events  rect{a:{kind,x}} -> r.v          *)
(*   accepted iff every channel equals Rect(kind, fmt, x) exactly          *)
(*   (whenever the negated amplitude is representable: the property's      *)
(*   domain; outside it nothing is required).                              *)
(* comp "env": {"cfg":{fmt,ch,det,n,attack,release,nza,nzr,via,srclen},    *)
(*              "o":{ga,gr}}                                               *)
(*   det in full|pos|neg (peak) or rms (window n); times in quarter frames *)
(*   events env_next{a:{x}, o:{det}} -> r.v ;                              *)
(*          env_set{a:{which,tq,nz}, o:{hint}}                             *)
(*   (env_sig_* = the same through the signal adaptor).                    *)
(*   nza / nzr / nz = 1: the zero time was handed over as IEEE negative    *)
(*   zero (-0.0 = 0, -0.0 >= 0: inside "attack and release times >= 0").   *)
(*   It is the time 0 to the model: gain 0, envelope = detected value.     *)
(*   srclen >= 0 (adaptor runs): the source signal ends after srclen       *)
(*   frames; the later env_sig_next calls read past its end and their      *)
(*   logged input x is the equilibrium frame such a signal yields.  The    *)
(*   model needs no case for it: the recurrence keeps running on that      *)
(*   input (the release tail), which is what the property demands of every *)
(*   input history.  srclen = -1: the source is never read past its end.   *)
(*   ga / gr / hint are the harness's own exp(-1/frames) in f32: a HINT    *)
(*   that is used as the gain only after GainOK has verified it.           *)
(*   Accepted iff the logged detected value is the rectified input (or an  *)
(*   acceptable RMS of the inputs so far), and each output obeys the       *)
(*   recurrence on (previous output, detected value, gain) within the      *)
(*   bound of Envelope.tla, without overshoot, exactly when the time is 0. *)
(***************************************************************************)
EXTENDS Envelope, TLC, Json, IOUtils

Rec == ndJsonDeserialize(IOEnv.TRACE)

VARIABLES l,      \* next line
          cf,     \* header of the current execution
          g,      \* [a, r]: attack / release gain (dyadics)
          prev,   \* previous envelope output per channel (dyadics)
          rs,     \* RMS detection: per channel [win, sum, bud]; << >> otherwise
          skip
vars == << l, cf, g, prev, rs, skip >>
Ev == Rec[l]
NoCfg == [comp |-> "none"]

AllFormats == IntFormats \cup FloatFormats
\* a logged sample of format f: well formed, in range, finite
SampleOK(f, j) == IF IsFloat(f) THEN IsFields(j) /\ FIsFinite(FmtOf(f), j)
                  ELSE IsSJson(j) /\ InRange(f, SFromJson(j))
FrameOK(f, ch, x) == Len(x) = ch /\ \A i \in 1..ch : SampleOK(f, x[i])
AsD(f, j) == IF IsFloat(f) THEN Dec(FmtOf(f), j) ELSE DFromS(SFromJson(j))

---------------------------------------------------------------------------
(* rectifiers *)
RectAccept(c) ==
  LET k == Ev.a.kind x == Ev.a.x of == RectFmt(k, c.fmt) IN
  /\ k \in {"full", "pos", "neg"} /\ FrameOK(c.fmt, c.ch, x)
  /\ IF \A i \in 1..c.ch : RectDefined(k, c.fmt, SampleFromJson(c.fmt, x[i]))
       THEN /\ Ev.r.k = "val" /\ FrameOK(of, c.ch, Ev.r.v)
            /\ \A i \in 1..c.ch : SameSample(of, SampleFromJson(of, Ev.r.v[i]),
                                             Rect(k, c.fmt, SampleFromJson(c.fmt, x[i])))
       ELSE TRUE            \* -amp not representable: outside the property's domain

---------------------------------------------------------------------------
(* detector *)
OutFmt(c) == IF c.det = "rms" THEN FloatOf(c.fmt) ELSE RectFmt(c.det, c.fmt)
HintOK(tq, h) == IsFields(h) /\ FIsFinite(F32, h) /\ GainOK(tq, Dec(F32, h))
EnvResetOK(c) ==
  /\ c.fmt \in AllFormats /\ c.ch >= 1 /\ c.det \in {"full", "pos", "neg", "rms"}
  /\ c.via \in {"direct", "signal"} /\ (c.det = "rms" => c.n >= 1)
  /\ c.attack >= 0 /\ c.release >= 0
  /\ c.nza \in {0, 1} /\ c.nzr \in {0, 1} /\ (c.nza = 1 => c.attack = 0) /\ (c.nzr = 1 => c.release = 0)
  /\ c.srclen >= -1 /\ (c.srclen >= 0 => c.via = "signal")
  /\ Ev.r.k = "unit" /\ Ev.o.ok
  /\ HintOK(c.attack, Ev.o.ga) /\ HintOK(c.release, Ev.o.gr)

\* RMS detection: state after feeding the frame
RmsAfter(c, x) == [i \in 1..c.ch |-> TPush(FmtOf(FloatOf(c.fmt)), ConvSlack(c.fmt), rs[i], AmpD(c.fmt, SampleFromJson(c.fmt, x[i])))]
DetOK(c, x, d, rsn) ==
  IF c.det = "rms"
    THEN \A i \in 1..c.ch : AcceptRootStd(FmtOf(FloatOf(c.fmt)), ConvSlack(c.fmt), rsn[i], d[i])
    ELSE \A i \in 1..c.ch : /\ RectDefined(c.det, c.fmt, SampleFromJson(c.fmt, x[i]))
                            /\ SameSample(OutFmt(c), SampleFromJson(OutFmt(c), d[i]),
                                          Rect(c.det, c.fmt, SampleFromJson(c.fmt, x[i])))
OutOK(c, d, out) ==
  LET of == OutFmt(c) IN
  \A i \in 1..c.ch :
    IF IsFloat(of) THEN EnvAcceptF(FmtOf(of), prev[i], AsD(of, d[i]), g.a, g.r, AsD(of, out[i]))
                   ELSE EnvAcceptI(prev[i], AsD(of, d[i]), g.a, g.r, AsD(of, out[i]))
NextOK(c, rsn) ==
  LET x == Ev.a.x d == Ev.o.det of == OutFmt(c) IN
  /\ FrameOK(c.fmt, c.ch, x) /\ FrameOK(of, c.ch, d)
  /\ Ev.r.k = "val" /\ FrameOK(of, c.ch, Ev.r.v)
  /\ DetOK(c, x, d, rsn)
  /\ OutOK(c, d, Ev.r.v)
SetOK == /\ Ev.a.which \in {"attack", "release"} /\ Ev.a.tq >= 0
         /\ Ev.a.nz \in {0, 1} /\ (Ev.a.nz = 1 => Ev.a.tq = 0)      \* -0.0 is the time 0
         /\ Ev.r.k = "unit" /\ HintOK(Ev.a.tq, Ev.o.hint)

IsNext == Ev.ev = (IF cf.via = "signal" THEN "env_sig_next" ELSE "env_next")
IsSet  == Ev.ev = (IF cf.via = "signal" THEN "env_sig_set" ELSE "env_set")
HeapOK == Ev.h = << 0, 0, 0 >>

---------------------------------------------------------------------------
Consume == l <= Len(Rec) /\ l' = l + 1
Reject == PrintT(<< "REJECT", l, Ev.ev >>) /\ skip' = TRUE
TReset ==
  /\ Consume /\ Ev.ev = "reset"
  /\ LET c == Ev.cfg IN
     CASE Ev.comp = "rect" ->
            IF c.fmt \in AllFormats /\ c.ch >= 1 /\ Ev.r.k = "unit"
              THEN cf' = [comp |-> "rect", fmt |-> c.fmt, ch |-> c.ch] /\ skip' = FALSE /\ UNCHANGED << g, prev, rs >>
              ELSE Reject /\ cf' = NoCfg /\ UNCHANGED << g, prev, rs >>
       [] Ev.comp = "env" ->
            IF EnvResetOK(c)
              THEN /\ cf' = [comp |-> "env", fmt |-> c.fmt, ch |-> c.ch, det |-> c.det, n |-> c.n, via |-> c.via] /\ skip' = FALSE
                   /\ g' = [a |-> Dec(F32, Ev.o.ga), r |-> Dec(F32, Ev.o.gr)]
                   /\ prev' = [i \in 1..c.ch |-> DZero]                  \* last_env_frame = EQUILIBRIUM
                   /\ rs' = IF c.det = "rms" THEN [i \in 1..c.ch |-> TInit(c.n)] ELSE << >>
              ELSE Reject /\ cf' = NoCfg /\ UNCHANGED << g, prev, rs >>
       [] OTHER -> Reject /\ cf' = NoCfg /\ UNCHANGED << g, prev, rs >>
TRect ==
  /\ Consume /\ Ev.ev # "reset" /\ ~skip /\ cf.comp = "rect"
  /\ IF Ev.ev = "rect" /\ RectAccept(cf)
       THEN /\ UNCHANGED << cf, g, prev, rs, skip >>
            /\ (IF Ev.r.k = "panic" \/ HeapOK THEN TRUE ELSE PrintT(<< "HEAP", l, Ev.ev >>))
       ELSE Reject /\ UNCHANGED << cf, g, prev, rs >>
TEnv ==
  /\ Consume /\ Ev.ev # "reset" /\ ~skip /\ cf.comp = "env"
  /\ IF IsNext
       THEN LET rsn == IF cf.det = "rms" THEN RmsAfter(cf, Ev.a.x) ELSE << >> IN
            IF NextOK(cf, rsn)
              THEN /\ prev' = [i \in 1..cf.ch |-> AsD(OutFmt(cf), Ev.r.v[i])]
                   /\ rs' = rsn /\ UNCHANGED << cf, g, skip >>
                   /\ (IF HeapOK THEN TRUE ELSE PrintT(<< "HEAP", l, Ev.ev >>))
              ELSE Reject /\ UNCHANGED << cf, g, prev, rs >>
     ELSE IF IsSet /\ SetOK
       THEN /\ g' = IF Ev.a.which = "attack" THEN [g EXCEPT !.a = Dec(F32, Ev.o.hint)]
                                             ELSE [g EXCEPT !.r = Dec(F32, Ev.o.hint)]
            /\ UNCHANGED << cf, prev, rs, skip >>                         \* a setter changes the gain only
            /\ (IF HeapOK THEN TRUE ELSE PrintT(<< "HEAP", l, Ev.ev >>))
       ELSE Reject /\ UNCHANGED << cf, g, prev, rs >>
TNone == Consume /\ Ev.ev # "reset" /\ ~skip /\ cf.comp = "none" /\ Reject /\ UNCHANGED << cf, g, prev, rs >>
TSkip == Consume /\ Ev.ev # "reset" /\ skip /\ UNCHANGED << cf, g, prev, rs, skip >>

TraceInit == l = 1 /\ cf = NoCfg /\ g = [a |-> DZero, r |-> DZero] /\ prev = << >> /\ rs = << >> /\ skip = TRUE
TraceNext == TReset \/ TRect \/ TEnv \/ TNone \/ TSkip
TraceSpec == TraceInit /\ [][TraceNext]_vars

AllConsumed == IF TLCGet("stats").diameter - 1 = Len(Rec) THEN TRUE
               ELSE PrintT(<< "STUCK", TLCGet("stats").diameter, Len(Rec) >>) /\ FALSE
=============================================================================
