------------------------------- MODULE MC_Bus -------------------------------
(* Every sequence of send / next(output) / drop(output) on a bus with at    *)
(* most MaxLive simultaneously live outputs, MaxKeys outputs in total and   *)
(* MaxPulled source frames: SharedNode as coded (layer 2) satisfies C13     *)
(* (layer 1).                                                               *)
EXTENDS Bus, TLC, Json, IOUtils, SequencesExt

CONSTANTS MaxLive, MaxKeys, MaxPulled, SeqLen
VARIABLES n, a, nextKey, last,
          hist     \* the operation sequence so far as stimulus events (history: the state graph is the tree of sequences)
vars == << n, a, nextKey, last, hist >>

Init == /\ n = NInit /\ a = AInit /\ nextKey = 0 /\ last = [op |-> "init", f2 |-> 0, f1 |-> 0]
        /\ hist = << [ev |-> "reset", comp |-> "bus", cfg |-> [srclen |-> -1]] >>
More == Len(hist) <= SeqLen
Send == /\ More /\ nextKey < MaxKeys /\ Cardinality(ALive(a)) < MaxLive
        /\ hist' = Append(hist, [ev |-> "send", a |-> [key |-> nextKey]])
        /\ n' = NSend(n, nextKey) /\ a' = ASend(a, nextKey) /\ nextKey' = nextKey + 1
        /\ last' = [op |-> "send", f2 |-> 0, f1 |-> 0]
NextFrame == \E k \in ALive(a) :
        /\ More /\ hist' = Append(hist, [ev |-> "next", a |-> [key |-> k]])
        /\ LET r2 == NNextFrame(n, k) r1 == ANextFrame(a, k) IN
           /\ n' = r2.n /\ a' = r1.a /\ last' = [op |-> "next", f2 |-> r2.frame, f1 |-> r1.frame]
        /\ UNCHANGED nextKey
Drop == \E k \in ALive(a) :
        /\ More /\ hist' = Append(hist, [ev |-> "drop", a |-> [key |-> k]])
        /\ n' = NDrop(n, k) /\ a' = ADrop(a, k) /\ last' = [op |-> "drop", f2 |-> 0, f1 |-> 0]
        /\ UNCHANGED nextKey
Next == Send \/ NextFrame \/ Drop
Spec == Init /\ [][Next]_vars

GapFree  == last.f2 = last.f1                                   \* each output: contiguous, in order
SameKeys == DOMAIN n.fr = ALive(a)
Pending  == \A k \in ALive(a) : NPending(n, k) = ALag(a, k)
PullOnce == n.pulled = a.pulled
Backlog  == Len(n.buffer) = ABacklog(a)                         \* exactly what the slowest still needs
Content  == \A i \in 1..Len(n.buffer) : n.buffer[i] = n.pulled - Len(n.buffer) + i

---------------------------------------------------------------------------
(* stimuli: every maximal operation sequence (a leaf of the explored tree) is printed as one execution *)
Emit == (Len(hist) = SeqLen + 1 \/ ~ENABLED Next) => PrintT("STIM " \o ToJson(hist))
=============================================================================
