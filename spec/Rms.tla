-------------------------------- MODULE Rms --------------------------------
(***************************************************************************)
(* dasp_rms::Rms (and the dasp_signal::rms adaptor): windowed root mean    *)
(* square, property C11.                                                   *)
(*                                                                         *)
(* Layers 1 and 2 live in RmsCore.tla (arithmetic-agnostic) and are        *)
(* instantiated here over the dyadic rationals:                            *)
(* layer 1 (property): the last N input frames, zero-initialised, as EXACT *)
(*   dyadic rationals; True(c) = (sum of the last N squares of channel c)  *)
(*   / N.  No rounding, no running sum: the sum is recomputed from the     *)
(*   window (SumSq).  "C1" is the same thing with the window of squares    *)
(*   and the sum cached (MC_Rms checks C1 = layer 1); the trace spec uses  *)
(*   C1 per channel because it costs one multiplication per step.          *)
(* layer 2 (implementation shaped): dasp_rms/src/lib.rs -- a               *)
(*   RingBuffer.Fixed of squared frames plus `square_sum`, updated as      *)
(*   sum + new - evicted, clamped at zero; reset writes zeros through      *)
(*   iter_mut.  The ring buffer operators are those of RingBuffer.tla      *)
(*   (instantiated, not idealised).                                        *)
(* trace layer: acceptance predicates with a rigorous floating point error *)
(*   budget (derivation at TPush / Tol below).                             *)
(*                                                                         *)
(* A frame is a sequence (one entry per channel) of dyadics (Dyadic.tla).  *)
(* Division by N and the square root are never computed: an output y is    *)
(* compared through y*N and y*y*N (verify by inverse).                     *)
(***************************************************************************)
EXTENDS SampleFormats

---------------------------------------------------------------------------
(* helpers on dyadics that Dyadic.tla does not have (kept here: shared files are not edited) *)

\* canonical form: odd mantissa (zero is DZero) -- used by the model checker so that equal values are equal states
RECURSIVE DNorm(_)
DNorm(d) == IF DIsZero(d) THEN DZero
            ELSE IF BIsEven(d.mag) THEN DNorm(DMk(d.neg, BShr(d.mag, 1), d.exp + 1)) ELSE d
\* cheap partial normalisation: drop whole zero limbs (keeps long running sums short)
RECURSIVE DTrim(_)
DTrim(d) == IF DIsZero(d) THEN DZero
            ELSE IF d.mag[1] = 0 THEN DTrim(DMk(d.neg, BShrLimbs(d.mag, 1), d.exp + LBITS)) ELSE d
\* round a non-negative dyadic UP to at most `bits` significant bits (sound for upper bounds)
DCeilTo(d, bits) ==
  IF BBitLen(d.mag) <= bits THEN d
  ELSE LET k == BBitLen(d.mag) - bits IN DMk(FALSE, BAdd(BShr(d.mag, k), << 1 >>), d.exp + k)
DSq(x) == DMul(x, x)
DMulInt(k, x) == DMul(DFromInt(k), x)

\* exact amplitude of an input sample of format fmt about equilibrium, full scale = 1
\* (integers: signed Big value; floats: IEEE fields)
AmpD(fmt, v) == IF IsFloat(fmt) THEN Dec(FmtOf(fmt), v)
                ELSE DScale2(DFromS(Amp(fmt, v)), 0 - (Bits(fmt) - 1))

---------------------------------------------------------------------------
(* layers 1 and 2: RmsCore.tla over the dyadic rationals.  This brings in   *)
(*   RB (= RingBuffer), ZeroFrame, SqFrame,                                 *)
(*   L1Init L1Push SumSq MeanSq TrueRms   C1Init C1Push   (layer 1)         *)
(*   L2Init L2Len L2Mean L2NextSquared L2Next L2Current L2Reset             *)
(*   SigNext SigNextSquared                                 (layer 2)       *)
DIsNeg(d) == DSign(d) < 0
INSTANCE RmsCore WITH Zero <- DZero, Add <- DAdd, Sub <- DSub, Sq <- DSq, IsNeg <- DIsNeg

---------------------------------------------------------------------------
(* trace layer: one channel = C1 plus an error budget                      *)
(*                                                                         *)
(* Let u = 2^-p be the unit roundoff of the float companion F, x_i the     *)
(* exact input amplitudes, T = sum of x_i^2 over the window (st.sum).      *)
(* The code stores q_i = fl(fl(x_i)^2) = x_i^2 (1 + e_i), |e_i| <= u' with *)
(* u' = u when the int -> float conversion is exact and u' <= 3.01u when   *)
(* it rounds (i32 -> f32), plus an absolute 2^-150 / 2^-1075 on underflow. *)
(* With S the stored running sum and D = S - sum(q_i) its drift, one       *)
(* update S' = clamp(fl(fl(S + q_new) - q_old)) gives                      *)
(*   |D'| <= |D| (1 + 2u + u^2) + (T + x_new^2)(1 + u')(2u + u^2)          *)
(*                + x_old^2 (1 + u') u                                      *)
(*       <= |D| + 4u (T + x_new^2 + |D|)                                   *)
(* (either order of the add / subtract; the clamp can only move S toward   *)
(* the non-negative true value).  bud is this bound, rounded up to 48 bits *)
(* each step; Reset zeroes S and the ring, hence D = 0.                    *)
(* (On the exact domain the budget stays 0, see GridOK below.)             *)
(* The output y = fl(S / N) then satisfies                                 *)
(*   |y N - T| <= |D|(1 + u) + (u + u' + u u') T + 2 N eta                 *)
(*            <= bud (1 + 2u) + (N + 2 + c) u T + AbsEps                   *)
(* (eta = half a subnormal quantum: underflow of a square or of the        *)
(* quotient; AbsEps = N quanta is added only for vanishing sums, TolX).    *)
(* with c = 0 (exact conversion) or 3 (rounding conversion).  The term     *)
(* (N + 2) u T also covers implementations that recompute the sum (at most *)
(* N roundings); a wrong divisor, a missed eviction or a sign error is an  *)
(* O(1) relative error.                                                    *)
(***************************************************************************)
(* Exact domain.  While every square pushed since the last reset is a        *)
(* multiple of 2^-12, every (window sum + new square) stays below 2^12 and  *)
(* every input converted exactly, EVERY partial sum or difference of window *)
(* squares is a multiple of 2^-12 below 2^12, hence representable with 24   *)
(* bits: no evaluation order rounds, S = T, D = 0, and the budget stays 0   *)
(* (flag ex).  There the acceptance is equality up to the final division.   *)
GridOK(q, told) == DIsInt(DScale2(q, 12)) /\ DLt(DAdd(told, q), DPow2(12))
TInit(n) == [win |-> [i \in 1..n |-> DZero], sum |-> DZero, bud |-> DZero, ex |-> TRUE]
\* c = ConvSlack of the frame format (0: the int -> float conversion never rounds)
TPush(F, c, st, x) ==
  LET q  == DSq(x)
      n1 == C1Push([win |-> st.win, sum |-> st.sum], x)
      ex == st.ex /\ GridOK(q, st.sum) /\ (c = 0 \/ IsExactIn(F, x))
  IN [win |-> n1.win, sum |-> DTrim(n1.sum), ex |-> ex,
      bud |-> IF ex THEN DZero
              ELSE DCeilTo(DAdd(st.bud, DScale2(DAdd(DAdd(st.sum, q), st.bud), 2 - F.p)), 48)]

\* Clone (of the detector or of the adaptor): the copy has the window and the sum of the original at that moment,
\* hence also its drift bound and exact-domain flag; afterwards each of the two is pushed / reset on its own
RmsClone(st) == [win |-> st.win, sum |-> st.sum, bud |-> st.bud, ex |-> st.ex]

\* does the int -> float conversion of this frame format round?
ConvSlack(fmt) == IF ~IsFloat(fmt) /\ Bits(fmt) - 1 > FmtOf(FloatOf(fmt)).p THEN 3 ELSE 0
Tol(F, c, st) ==
  LET n == Len(st.win) IN
  DAdd(DAdd(st.bud, DScale2(st.bud, 1 - F.p)), DMulInt(n + 2 + c, DScale2(st.sum, 0 - F.p)))
AbsEps(F, n) == DMulInt(n, DPow2(2 - F.bias - F.p))       \* N quanta: underflow of a square / of the quotient
\* AbsEps only matters for vanishing sums: when T >= 2 N 2^(2-bias) the slack of (N + 2 + c) u T over the
\* (u + u' + u u') T actually needed (>= 0.99 u T) already exceeds it, so Tol alone is rigorous there
TinySum(F, st) == DIsZero(st.sum) \/
                  st.sum.exp + BBitLen(st.sum.mag) - 1 < 3 - F.bias + BitLenSmall(Len(st.win))
TolX(F, c, st) == IF TinySum(F, st) THEN DAdd(Tol(F, c, st), AbsEps(F, Len(st.win))) ELSE Tol(F, c, st)

NonNegFinite(F, y) == IsFields(y) /\ FIsFinite(F, y) /\ (y.s = 0 \/ FIsZero(y))

\* y = mean square (next_squared): |y N - T| <= tolerance
SqWithin(F, st, y, tol) ==
  DLe(DAbs(DSub(DMulInt(Len(st.win), Dec(F, y)), st.sum)), tol)
AcceptSq(F, c, st, y) ==
  /\ NonNegFinite(F, y)
  /\ SqWithin(F, st, y, TolX(F, c, st))

\* y = sqrt(s) rounded (1 ulp of slack) for some admissible mean square s: the intervals
\* [(y - ulp)^2 N, (y + ulp)^2 N] and [T - tol, T + tol] intersect
RootWithin(F, st, y, tol) ==
  LET n  == Len(st.win)
      yd == Dec(F, y)
      lo == DSub(yd, Ulp(F, y))
      hi == DAdd(yd, Ulp(F, y))
  IN /\ (DSign(lo) <= 0 \/ DLe(DMulInt(n, DSq(lo)), DAdd(st.sum, tol)))
     /\ DLe(DSub(st.sum, tol), DMulInt(n, DSq(hi)))
AcceptRootStd(F, c, st, y) ==
  /\ NonNegFinite(F, y)
  /\ RootWithin(F, st, y, TolX(F, c, st))

\* no_std: |y - sqrt(s)| <= 0.07 sqrt(s) + A for some admissible s, i.e.
\*   (y - d)^2 N <= 1.07^2 (T + tol)   or y <= d,     and   (y + d)^2 N >= 0.93^2 (T - tol)       (d >= A)
\* A = "negligible absolute term at zero" = 8 times the square root of the format's smallest normal number:
\*   2^-60 for f32 (min normal 2^-126), 2^-508 for f64 (min normal 2^-1022).  It is a property of the FORMAT the
\*   root is taken in: an estimate of sqrt(0) is of the order of the root of the smallest normal number (the
\*   exponent-halving estimates give 2^-64 and 1.5 * 2^-512), and nothing larger is negligible against the values
\*   the format distinguishes -- 2^-60 granted to an f64 root would leave every level below 1e-18 unjudged.
NoStdAbsExp(F) == 3 - ((F.bias - 1) \div 2)
NoStdAbs(F) == DPow2(NoStdAbsExp(F))
RootApprox(F, st, y, tol) ==
  LET n  == Len(st.win)
      yd == Dec(F, y)
      ey == yd.exp + BBitLen(yd.mag) - 1            \* 2^ey <= y < 2^(ey+1)   (y # 0)
      \* y < A: the upper bound holds trivially and y + d <= 2A (weaker, hence sound; it also keeps
      \* TLC from squaring a sum of terms a thousand binary places apart)
      small == DIsZero(yd) \/ ey < NoStdAbsExp(F)
      \* y >= 2^64 A: d = 2^(ey-64) >= A instead of A (weaker, hence sound, by a relative 2^-64; same reason)
      d  == IF ~small /\ ey - 64 > NoStdAbsExp(F) THEN DPow2(ey - 64) ELSE NoStdAbs(F)
      lo == IF small THEN DZero ELSE DSub(yd, d)
      hi == IF small THEN DScale2(NoStdAbs(F), 1) ELSE DAdd(yd, d)
  IN /\ (DSign(lo) <= 0 \/ DLe(DMulInt(10000 * n, DSq(lo)), DMulInt(11449, DAdd(st.sum, tol))))
     /\ DLe(DMulInt(8649, DSub(st.sum, tol)), DMulInt(10000 * n, DSq(hi)))
AcceptRootNoStd(F, c, st, y) ==
  /\ NonNegFinite(F, y)
  /\ RootApprox(F, st, y, TolX(F, c, st))

AcceptRoot(build, F, c, st, y) ==
  IF build = "std" THEN AcceptRootStd(F, c, st, y) ELSE AcceptRootNoStd(F, c, st, y)
=============================================================================
