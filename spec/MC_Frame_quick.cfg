SPECIFICATION Spec
CONSTANTS
  KStep = 8
  MaxW = 32
  MaxL = 4
INVARIANTS Off0 Scale0 Scale1 UnitySat Recentre Closed MonoIso Companions ViewIff ViewLayout FramesTimesN RoundTripId WriteThrough BoxedOK
POSTCONDITION AllTaken
CHECK_DEADLOCK FALSE
