---------------------------- MODULE MC_RingBuffer ----------------------------
(***************************************************************************)
(* Exhaustive check of dasp_ring_buffer's representation (layer 2) against *)
(* the ideal queue / delay line (layer 1), FROM EVERY VALID STATE -- the   *)
(* property's own quantifier; by induction this covers histories of any    *)
(* length.  Also writes every (state, operation) pair as a stimulus for    *)
(* the Rust harness (file IOEnv.STIM_OUT, when set).                       *)
(***************************************************************************)
EXTENDS RingBuffer, FiniteSets, TLC, Json, IOUtils, SequencesExt

CONSTANTS MaxCap,      \* capacities 1..MaxCap
          Vals         \* live element values (small positive integers)
VARIABLES s,           \* [kind |-> "bounded", b |-> ...] or [kind |-> "fixed", f |-> ...]
          last         \* the step that produced s: [op, ret, ideal] (ideal = layer-1 outcome)


\* every valid Bounded representation: dead slots hold Poison or a stale value
AllBounded ==
  UNION { UNION { UNION {
    { [data |-> d, start |-> st, len |-> ln] :
        d \in { dd \in [1..cap -> Vals \cup {Poison}] :
                  \A i \in 0..(ln - 1) : dd[((st + i) % cap) + 1] \in Vals } }
    : ln \in 0..cap } : st \in 0..(cap - 1) } : cap \in 1..MaxCap }
AllFixed ==
  UNION { UNION { { [data |-> d, first |-> fi] : d \in [1..n -> Vals] }
    : fi \in 0..(n - 1) } : n \in 1..MaxCap }

---------------------------------------------------------------------------
NoStep == [op |-> [ev |-> "init", a |-> [x |-> 0]], ret |-> Unit, ideal |-> << >>]

Init == /\ \/ \E b \in AllBounded : s = [kind |-> "bounded", b |-> b]
           \/ \E f \in AllFixed   : s = [kind |-> "fixed",   f |-> f]
        /\ last = NoStep

StepB == /\ last.op.ev = "init" /\ s.kind = "bounded"
         /\ \E op \in OpsB(s.b) :
              LET r == ApplyB(s.b, op) IN
              /\ s' = [kind |-> "bounded", b |-> r.b]
              /\ last' = [op |-> op, ret |-> r.ret, ideal |-> IdealB(BAbs(s.b), BCap(s.b), op)]
StepF == /\ last.op.ev = "init" /\ s.kind = "fixed"
         /\ \E op \in OpsF(s.f) :
              LET r == ApplyF(s.f, op) IN
              /\ s' = [kind |-> "fixed", f |-> r.f]
              /\ last' = [op |-> op, ret |-> r.ret, ideal |-> IdealF(FAbs(s.f), s.f.first, op)]
\* Init holds every valid state, so one step from each of them is every transition
Next == StepB \/ StepF
vars == << s, last >>
Spec == Init /\ [][Next]_vars

---------------------------------------------------------------------------
(* invariants = the clauses of C06 *)
RepInv == IF s.kind = "bounded" THEN BRepOK(s.b) ELSE FRepOK(s.f)

\* every layer-2 step is the ideal queue / delay-line step (return value and new content)
Refines == last.op.ev # "init" =>
             /\ last.ret = last.ideal.ret
             /\ (IF s.kind = "bounded" THEN BAbs(s.b) ELSE FAbs(s.f)) = last.ideal.q

\* index, iteration and the slice pair present the live elements oldest first; counters agree
ViewsAgree ==
  IF s.kind = "bounded"
    THEN LET q == BAbs(s.b) IN
         /\ BIter(s.b) = q
         /\ \A i \in 0..BCap(s.b) : BGet(s.b, i) = QGet(q, i)
         /\ Len(q) = s.b.len /\ Len(q) <= BCap(s.b)
    ELSE LET q == FAbs(s.f) n == FLen(s.f) IN
         /\ FIter(s.f) = q
         /\ \A i \in 0..(2 * n) : FGet(s.f, i) = DGet(q, i)
         /\ FIterLoop(s.f, 2 * n + 1) = DLoop(q, 2 * n + 1)
         /\ Len(q) = n

\* no dead slot is ever exposed
NoPoison ==
  /\ \A i \in 1..Len(IF s.kind = "bounded" THEN BAbs(s.b) ELSE FAbs(s.f)) :
        (IF s.kind = "bounded" THEN BAbs(s.b) ELSE FAbs(s.f))[i] # Poison
  /\ (last.ret.k = "some" => last.ret.v # Poison)
  /\ (last.ret.k = "items" => \A i \in 1..Len(last.ret.v) : last.ret.v[i] # Poison)

\* delay-line law: N pushes later the pushed value comes back (checked on the ideal model)
DelayLine ==
  s.kind = "fixed" =>
    LET q == FAbs(s.f) n == Len(q)
        P[i \in 0..n] == IF i = 0 THEN q ELSE DPush(P[i - 1], New(i)).q
    IN DPush(P[n], 0).ret = New(1) /\ DPush(q, 0).ret = q[1]

---------------------------------------------------------------------------
(* stimuli: every (valid state, operation) pair, as a two-line execution *)
\* constructor cases: From / from_full / FromIterator, and the documented panics on invalid raw parts / empty data
CtorData == {<< >>} \cup UNION {[1..c -> Vals] : c \in 1..MaxCap}
CtorStimuli ==
     { << [ev |-> "reset", comp |-> "bounded", cfg |-> [ctor |-> k, data |-> d, start |-> 0, len |-> 0]],
          [ev |-> "push", a |-> [v |-> New(0)]], [ev |-> "pop", a |-> [x |-> 0]] >>
       : k \in {"from", "from_full", "from_iter"}, d \in CtorData }
  \cup { << [ev |-> "reset", comp |-> "bounded", cfg |-> [ctor |-> "raw", data |-> d, start |-> st0, len |-> ln]] >>
       : d \in CtorData, st0 \in {0, MaxCap}, ln \in {0, MaxCap + 1} }
  \cup { << [ev |-> "reset", comp |-> "fixed", cfg |-> [ctor |-> k, data |-> d, first |-> 0]],
          [ev |-> "push", a |-> [v |-> New(0)]] >>
       : k \in {"from", "from_iter"}, d \in CtorData }
  \cup { << [ev |-> "reset", comp |-> "fixed", cfg |-> [ctor |-> "raw", data |-> d, first |-> Len(d)]] >> : d \in CtorData }
Stimuli ==
  CtorStimuli \cup
  UNION { { << [ev |-> "reset", comp |-> "bounded", cfg |-> b], op >> : op \in OpsB(b) } : b \in AllBounded }
  \cup
  UNION { { << [ev |-> "reset", comp |-> "fixed", cfg |-> f], op >> : op \in OpsF(f) } : f \in AllFixed }
WriteStimuli ==
  IF "STIM_OUT" \in DOMAIN IOEnv
    THEN /\ ndJsonSerialize(IOEnv.STIM_OUT, SetToSeq(Stimuli))
         /\ PrintT(<< "STIMULI", Cardinality(Stimuli) >>)
    ELSE TRUE
ASSUME WriteStimuli
=============================================================================
