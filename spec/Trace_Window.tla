---------------------------- MODULE Trace_Window ----------------------------
(***************************************************************************)
(* Trace validation for C20 (harness/hx_dsp2/src/window.rs).  Components:  *)
(*   window    the stand-alone Window iterator: `take` = its first n       *)
(*             values and the phases read through the public `phase` field *)
(*             (slot 0); then other instances in slots 1, 2 (`new`,        *)
(*             `clone{w,to}`, `rewind` = the public phase field assigned   *)
(*             from a fresh window) advanced by next / nth{k} /            *)
(*             step_by{s,m} / takeby{m} (by_ref().take), and `size_hint`   *)
(*   windower  up to three windower VALUES in slots a.w = 0..2 (0 = the    *)
(*             one the reset line built; clone{w,to} fills another).       *)
(*             `size_hint` at any time; `next` = the first b frames of the *)
(*             chunk, or none; `nth{k}`, `skip{k}` = by_ref().skip(k)      *)
(*             .next(), `find{k}` (predicate true at its k-th call),       *)
(*             `step_by{s,m}` / `take{m}` = the first m items of           *)
(*             by_ref().step_by(s) / by_ref().take(m), `position{k}`,      *)
(*             `any{k}`, `all{k}`; consuming the value: `count`, `last`,   *)
(*             `fold`, `for_each`; the public fields assigned: `set_bin`,  *)
(*             `set_hop`, `set_frames{off,len}` (a sub-slice of the reset  *)
(*             line's frames).  a.via = how a chunk's frames were read.    *)
(*             The reset line (and every set_bin) carries the b window     *)
(*             values observed from a stand-alone Window of the frame      *)
(*             type's Float companion (wv).                                *)
(*   winfn     `eval` = dasp_window::Window::window(p) of Hann / Rectangle *)
(*             on f64 / f32 / i16 at the phase p (logged exactly; num/den  *)
(*             = the rational it was derived from, a hint for k/24)        *)
(* Accepted iff (layer 1 of Window.tla)                                    *)
(*   window: phases i/(n-1); Rect = 1 exactly; Hann in [0,1], symmetric,   *)
(*     0 at both ends, 1 at the centre (odd n), non-decreasing to the      *)
(*     centre, and at (n-1) | 24 the algebraic special values -- all to    *)
(*     1e-12 (binary64) / 2^-22 (binary32); whatever way an instance is    *)
(*     advanced, its i-th value (i < n) is the i-th value of `take` to the *)
(*     same tolerance; a size hint never promises fewer than n - i more;   *)
(*   windower: each slot is a layer-1 value v = [base, len, b, h, k]:      *)
(*     next yields a chunk iff k*h + b <= len, so exactly Count chunks;    *)
(*     chunk k frame i = mul_amp(frame[base + k*h + i], wv[i]) bit for     *)
(*     bit (SampleFormats.MulAmp); every size hint satisfies               *)
(*     lo <= remaining <= hi.  A bad hint is reported and the execution    *)
(*     goes on (size_hint does not change the state).  nth(j) / skip(j) /  *)
(*     find yield chunk k+j iff it exists and consume min(k+j+1, Count);   *)
(*     step_by(s) yields chunks k, k+s, ...; position / any / all answer   *)
(*     whether chunk k+j exists; count = Count - k; last = chunk Count-1;  *)
(*     fold / for_each = chunks k .. Count-1; a clone is the same value;   *)
(*     an assignment re-bases the value (VSetBin / VSetHop / VSetFrames);  *)
(*   winfn: Rect(p) = 1 exactly at EVERY phase (integer formats: full      *)
(*     scale); Hann(p) in [0,1] and at p = k/24 the algebraic special      *)
(*     value (Hann(0) = Hann(1) = 0, Hann(1/2) = 1) to 1e-12 (f64), 2^-20  *)
(*     (f32 phases), 2^-11 (i16 phases).                                   *)
(***************************************************************************)
EXTENDS Window, SampleFormats, TLC, Json, IOUtils

Rec == ndJsonDeserialize(IOEnv.TRACE)

VARIABLES l, comp, cf, ws, skip
vars == << l, comp, cf, ws, skip >>
Ev == Rec[l]

Cf0 == [kind |-> "none", fmt |-> "f64", ch |-> 1, L |-> 0, frames |-> << >>, n |-> 0, ref |-> << >>]
\* one slot: a windower value (Window.tla layer 1) + the window values of its bin;
\* for the stand-alone window component: k = index of the next value
Dead == [alive |-> FALSE, base |-> 0, len |-> 0, b |-> 2, h |-> 1, k |-> 0, wv |-> << >>]
Ws0 == [i \in 0..2 |-> Dead]
HeapOK == Ev.h = << 0, 0, 0 >>
AbsLe(x, t) == DLe(DAbs(x), t)

---------------------------------------------------------------------------
(* stand-alone window *)
WTolScale(F) == IF F.p = 53 THEN DE12 ELSE DPow2(22)          \* 1 / tolerance
WinOK(kind, F, n, v, ph) ==
  LET T == WTolScale(F)
      tol(x) == DLe(DMul(DAbs(x), T), DOne)                    \* |x| <= 1e-12 resp. 2^-22
      val(i) == Dec(F, v[i + 1])                               \* i = 0..n-1
      half == (n - 1) \div 2
  IN /\ n >= 2 /\ Len(v) = n /\ Len(ph) = n
     /\ \A i \in 1..n : IsFields(v[i]) /\ FIsFinite(F, v[i]) /\ IsFields(ph[i]) /\ FIsFinite(F64, ph[i])
     \* an n-frame window samples the phases i/(n-1): |ph_i (n-1) - i| tiny (the last may have wrapped to 0)
     /\ \A i \in 0..(n - 1) :
          LET p == DMul(Dec(F64, ph[i + 1]), DFromInt(n - 1)) IN
          \/ AbsLe(DSub(p, DFromInt(i)), DPow2(-20))
          \/ (i = n - 1 /\ AbsLe(p, DPow2(-20)))
     /\ IF kind = "rect"
          THEN \A i \in 0..(n - 1) : DEq(val(i), DOne)                          \* exactly 1
          ELSE /\ \A i \in 0..(n - 1) : DLe(DZero, val(i)) /\ DLe(val(i), DOne) \* in [0, 1]
               /\ \A i \in 0..half : tol(DSub(val(i), val(n - 1 - i)))          \* symmetric about 1/2
               /\ tol(val(0)) /\ tol(val(n - 1))                                \* 0 at both ends
               /\ ((n - 1) % 2 = 0 => tol(DSub(val(half), DOne)))               \* 1 at the centre
               /\ \A i \in 0..(half - 1) : DLe(val(i), val(i + 1))              \* non-decreasing to the centre
               /\ (24 % (n - 1) = 0 =>
                     \A i \in 0..(n - 1) : IsHann24T(val(i), i * (24 \div (n - 1)), T))

AcceptResetWindow ==
  /\ Ev.cfg.kind \in {"hann", "rect"} /\ Ev.cfg.fmt \in {"f64", "f32"} /\ Ev.cfg.n >= 2
  /\ Ev.r.k = "unit" /\ Ev.o.ok
AcceptTake ==
  /\ Ev.a.n = cf.n /\ ws[0].alive /\ ws[0].k = 0 /\ Ev.r.k = "items" /\ ~Ev.o.ended
  /\ WinOK(cf.kind, FmtOf(cf.fmt), cf.n, Ev.r.v, Ev.o.ph)

\* other instances / other ways of advancing: value number i (0-based, i < n) is value i of `take`
WSlot == Ev.a.w \in 0..2
WLive == WSlot /\ ws[Ev.a.w].alive /\ Len(cf.ref) = cf.n
WPos == ws[Ev.a.w].k
WValOK(x) == IsFields(x) /\ FIsFinite(FmtOf(cf.fmt), x)
WSame(i, x) == \* x is the i-th window value
  i < cf.n => DLe(DMul(DAbs(DSub(Dec(FmtOf(cf.fmt), x), Dec(FmtOf(cf.fmt), cf.ref[i + 1]))), WTolScale(FmtOf(cf.fmt))), DOne)
AcceptWNth(j) ==
  /\ WLive /\ j >= 0 /\ Ev.r.k \in {"some", "none"} /\ WValOK(Ev.r.v)
  /\ (WPos + j < cf.n => Ev.r.k = "some")
  /\ (Ev.r.k = "some" => WSame(WPos + j, Ev.r.v))
\* the first m items of by_ref().step_by(s): values WPos, WPos + s, ...
AcceptWStep(s, m) ==
  /\ WLive /\ s >= 1 /\ m >= 1 /\ Ev.r.k = "items" /\ Len(Ev.r.v) <= m
  /\ \A i \in 1..m : WPos + (i - 1) * s < cf.n => i <= Len(Ev.r.v)
  /\ \A i \in 1..Len(Ev.r.v) : WValOK(Ev.r.v[i]) /\ WSame(WPos + (i - 1) * s, Ev.r.v[i])
\* a window of n frames yields at least n values: a hint must not promise fewer than are still to come
AcceptWHint ==
  /\ WLive /\ Ev.r.k = "val" /\ IsSJson(Ev.r.v.lo) /\ Ev.r.v.hi.k \in {"some", "none"}
  /\ (Ev.r.v.hi.k = "some" => IsSJson(Ev.r.v.hi.v) /\ (WPos < cf.n => SLe(SFromInt(cf.n - WPos), SFromJson(Ev.r.v.hi.v))))

---------------------------------------------------------------------------
(* windower *)
FFmt(fmt) == FloatOf(fmt)
WvOK(kind, ffmt, bb, wv) ==
  /\ Len(wv) = bb
  /\ \A i \in 1..bb : IsFields(wv[i]) /\ FIsFinite(FmtOf(ffmt), wv[i])
  /\ (kind = "rect" => \A i \in 1..bb : DEq(Dec(FmtOf(ffmt), wv[i]), DOne))
AcceptResetWindower ==
  LET c == Ev.cfg IN
  /\ c.kind \in {"hann", "rect"} /\ c.fmt \in {"f64", "f32", "i16", "u8", "u16"} /\ c.ch \in 1..2
  /\ c.b >= 2 /\ c.h >= 1 /\ c.L = Len(c.frames)                        \* domain of the property
  /\ Ev.r.k = "unit" /\ Ev.o.ok
  /\ c.ffmt = FFmt(c.fmt) /\ WvOK(c.kind, c.ffmt, c.b, Ev.o.wv)

\* the windower value an event addresses
Slot == Ev.a.w \in 0..2
Live == Slot /\ ws[Ev.a.w].alive
S == ws[Ev.a.w]
\* a.via = how the driver read the frames of a chunk: 0..3 the first b frames (next / by_ref().take(b) / nth(0) /
\* half of them from a clone of the chunk), 4 every second one through nth(1) (positions 2, 4, ... counted from 1),
\* 5 step_by(2) (positions 1, 3, ...), 6 skip(1) (positions 2 .. b).  Whatever the way, the frame at
\* position p of chunk idx is frame idx*h + p scaled by the window value of position p.
ViaOK == Ev.a.via \in 0..6
ViaNum(bb) == CASE Ev.a.via = 4 -> bb \div 2 [] Ev.a.via = 5 -> (bb + 1) \div 2 [] Ev.a.via = 6 -> bb - 1 [] OTHER -> bb
ViaPos(i) == CASE Ev.a.via = 4 -> 2 * i [] Ev.a.via = 5 -> 2 * i - 1 [] Ev.a.via = 6 -> i + 1 [] OTHER -> i
AcceptHint ==
  /\ Live /\ Ev.r.k = "val" /\ IsSJson(Ev.r.v.lo) /\ Ev.r.v.hi.k \in {"some", "none"}
  /\ SLe(SFromJson(Ev.r.v.lo), SFromInt(VRemaining(S)))
  /\ (Ev.r.v.hi.k = "some" => IsSJson(Ev.r.v.hi.v) /\ SLe(SFromInt(VRemaining(S)), SFromJson(Ev.r.v.hi.v)))

Samp(x) == SampleFromJson(cf.fmt, x)
\* v = the frames read (a.via) from the first b frames of chunk number idx of the value sl
ChunkOK(sl, v, idx) ==
  /\ Len(v) = ViaNum(sl.b)
  /\ \A i \in 1..Len(v) :
       /\ Len(v[i]) = cf.ch
       /\ \A c \in 1..cf.ch :
            LET src == Samp(cf.frames[VChunkStart(sl, idx) + ViaPos(i)][c]) IN
            /\ MulAmpDefined(cf.fmt, src, sl.wv[ViaPos(i)])
            /\ SampleEq(cf.fmt, Samp(v[i][c]), MulAmp(cf.fmt, src, sl.wv[ViaPos(i)]))
\* nth(j): the j-th of the remaining chunks (next = nth(0), skip(j).next() = nth(j), find with a predicate
\* that first holds at its j-th call likewise)
AcceptNthChunk(j) ==
  /\ Live /\ ViaOK /\ j >= 0
  /\ IF VNthHas(S, j) THEN Ev.r.k = "some" /\ ChunkOK(S, Ev.r.v, S.k + j) ELSE Ev.r.k = "none"
\* the first m items of step_by(s): chunks k, k + s, k + 2s, ... while they exist
AcceptStepBy(sp, m) ==
  /\ Live /\ ViaOK /\ sp >= 1 /\ m >= 1 /\ Ev.r.k = "items"
  /\ Len(Ev.r.v) = VStepGot(S, sp, m)
  /\ \A i \in 1..Len(Ev.r.v) : ChunkOK(S, Ev.r.v[i], S.k + (i - 1) * sp)
\* position(p) / any(p) with p first true at call j; all(p) with p first false at call j
AcceptPosition ==
  /\ Live /\ Ev.a.k >= 0
  /\ IF VNthHas(S, Ev.a.k) THEN Ev.r.k = "some" /\ Ev.r.v = Ev.a.k ELSE Ev.r.k = "none"
AcceptAnyAll ==
  /\ Live /\ Ev.a.k >= 0 /\ Ev.r.k = "val"
  /\ Ev.r.v = IF Ev.ev = "any" THEN VNthHas(S, Ev.a.k) ELSE ~VNthHas(S, Ev.a.k)
\* consuming the value
AcceptCount ==
  /\ Live /\ Ev.r.k = "val" /\ IsSJson(Ev.r.v)
  /\ SLe(SFromJson(Ev.r.v), SFromInt(VRemaining(S))) /\ SLe(SFromInt(VRemaining(S)), SFromJson(Ev.r.v))
AcceptLast ==
  /\ Live /\ ViaOK
  /\ IF VLastHas(S) THEN Ev.r.k = "some" /\ ChunkOK(S, Ev.r.v, VLastIdx(S)) ELSE Ev.r.k = "none"
AcceptFold ==
  /\ Live /\ ViaOK /\ Ev.r.k = "items" /\ Len(Ev.r.v) = VRemaining(S)
  /\ \A i \in 1..Len(Ev.r.v) : ChunkOK(S, Ev.r.v[i], S.k + i - 1)
\* a clone is the same value
AcceptClone == Live /\ Ev.a.to \in 0..2 /\ Ev.a.to # Ev.a.w /\ Ev.r.k = "unit"
\* the public fields assigned (inside the statement's domain b >= 2, h >= 1, a slice of the caller's frames)
AcceptSetBin == Live /\ Ev.a.b >= 2 /\ Ev.r.k = "unit" /\ WvOK(cf.kind, FFmt(cf.fmt), Ev.a.b, Ev.o.wv)
AcceptSetHop == Live /\ Ev.a.h >= 1 /\ Ev.r.k = "unit"
AcceptSetFrames == Live /\ Ev.a.off >= 0 /\ Ev.a.len >= 0 /\ Ev.a.off + Ev.a.len <= cf.L /\ Ev.r.k = "unit"

---------------------------------------------------------------------------
(* the window functions evaluated directly *)
FnFloat == cf.fmt \in {"f64", "f32"}
FnSampOK(x) == IF FnFloat THEN IsFields(x) /\ FIsFinite(FmtOf(cf.fmt), x)
               ELSE IsSJson(x) /\ InRange(cf.fmt, SFromJson(x))
\* phase / amplitude as exact dyadics (integer formats: sample / 2^(bits-1))
FnVal(x) == IF FnFloat THEN Dec(FmtOf(cf.fmt), x) ELSE DScale2(DFromS(SFromJson(x)), 1 - Bits(cf.fmt))
FnLsb == IF FnFloat THEN DZero ELSE DPow2(1 - Bits(cf.fmt))
\* how close to k/24 (times 24) a phase of this format counts as "the phase k/24", and the tolerance scale
FnClose == IF cf.fmt = "f64" THEN DPow2(-44) ELSE IF cf.fmt = "f32" THEN DPow2(-19) ELSE DPow2(-10)
FnT == IF cf.fmt = "f64" THEN DE12 ELSE IF cf.fmt = "f32" THEN DPow2(20) ELSE DPow2(11)
AcceptResetFn ==
  /\ Ev.cfg.kind \in {"hann", "rect"} /\ Ev.cfg.fmt \in {"f64", "f32", "i16"}
  /\ Ev.r.k = "unit" /\ Ev.o.ok
AcceptEval ==
  /\ Ev.r.k = "val" /\ FnSampOK(Ev.a.p) /\ FnSampOK(Ev.r.v)
  /\ IF cf.kind = "rect" THEN RectFnOK(FnVal(Ev.r.v), FnLsb)
     ELSE HannFnOK(FnVal(Ev.a.p), FnVal(Ev.r.v), Ev.a.num, Ev.a.den, FnClose, FnT)

---------------------------------------------------------------------------
Consume == l <= Len(Rec) /\ l' = l + 1
Reject == PrintT(<< "REJECT", l, Ev.ev >>)
HeapNote == IF Ev.r.k = "panic" \/ HeapOK THEN TRUE ELSE PrintT(<< "HEAP", l, Ev.ev >>)
Bad == Reject /\ skip' = TRUE /\ UNCHANGED << comp, cf, ws >>
Same == UNCHANGED << comp, cf, skip >>
Put(s, x) == ws' = [ws EXCEPT ![s] = x]
Kill(s) == ws' = [ws EXCEPT ![s] = Dead]

TReset ==
  /\ Consume /\ Ev.ev = "reset"
  /\ IF Ev.comp = "window" /\ AcceptResetWindow
       THEN /\ comp' = "window" /\ skip' = FALSE
            /\ cf' = [Cf0 EXCEPT !.kind = Ev.cfg.kind, !.fmt = Ev.cfg.fmt, !.n = Ev.cfg.n]
            /\ ws' = [Ws0 EXCEPT ![0] = [Dead EXCEPT !.alive = TRUE]]
     ELSE IF Ev.comp = "winfn" /\ AcceptResetFn
       THEN /\ comp' = "winfn" /\ skip' = FALSE /\ ws' = Ws0
            /\ cf' = [Cf0 EXCEPT !.kind = Ev.cfg.kind, !.fmt = Ev.cfg.fmt]
     ELSE IF Ev.comp = "windower" /\ AcceptResetWindower
       THEN /\ comp' = "windower" /\ skip' = FALSE
            /\ cf' = [Cf0 EXCEPT !.kind = Ev.cfg.kind, !.fmt = Ev.cfg.fmt, !.ch = Ev.cfg.ch, !.L = Ev.cfg.L,
                                 !.frames = Ev.cfg.frames]
            /\ ws' = [Ws0 EXCEPT ![0] = [alive |-> TRUE, base |-> 0, len |-> Ev.cfg.L, b |-> Ev.cfg.b, h |-> Ev.cfg.h,
                                         k |-> 0, wv |-> Ev.o.wv]]
     ELSE Reject /\ skip' = TRUE /\ comp' = "none" /\ cf' = Cf0 /\ ws' = Ws0

(* stand-alone window *)
TTake == /\ comp = "window" /\ Ev.ev = "take"
         /\ IF AcceptTake THEN /\ Put(0, [ws[0] EXCEPT !.k = cf.n]) /\ cf' = [cf EXCEPT !.ref = Ev.r.v]
                                /\ HeapNote /\ UNCHANGED << comp, skip >>
            ELSE Bad
TWNew == /\ comp = "window" /\ Ev.ev \in {"new", "rewind"}
         /\ IF WSlot /\ Len(cf.ref) = cf.n /\ Ev.r.k = "unit" /\ (Ev.ev = "rewind" => ws[Ev.a.w].alive)
              THEN Put(Ev.a.w, [Dead EXCEPT !.alive = TRUE]) /\ Same ELSE Bad
TWClone == /\ comp = "window" /\ Ev.ev = "clone"
           /\ IF WLive /\ Ev.a.to \in 0..2 /\ Ev.a.to # Ev.a.w /\ Ev.r.k = "unit"
                THEN Put(Ev.a.to, ws[Ev.a.w]) /\ Same ELSE Bad
TWNth == /\ comp = "window" /\ Ev.ev \in {"next", "nth"}
         /\ LET j == IF Ev.ev = "next" THEN 0 ELSE Ev.a.k IN
            IF AcceptWNth(j) THEN Put(Ev.a.w, [ws[Ev.a.w] EXCEPT !.k = @ + j + 1]) /\ HeapNote /\ Same ELSE Bad
TWStep == /\ comp = "window" /\ Ev.ev \in {"step_by", "takeby"}
          /\ LET s == IF Ev.ev = "takeby" THEN 1 ELSE Ev.a.s IN
             IF AcceptWStep(s, Ev.a.m)
               THEN Put(Ev.a.w, [ws[Ev.a.w] EXCEPT !.k = @ + (Ev.a.m - 1) * s + 1]) /\ HeapNote /\ Same ELSE Bad
TWHint == /\ comp = "window" /\ Ev.ev = "size_hint"
          /\ (IF AcceptWHint THEN HeapNote ELSE Reject)          \* reported; the execution continues
          /\ UNCHANGED << comp, cf, ws, skip >>

(* windower *)
THint == /\ comp = "windower" /\ Ev.ev = "size_hint"
         /\ (IF AcceptHint THEN HeapNote ELSE Reject)            \* reported; the execution continues
         /\ UNCHANGED << comp, cf, ws, skip >>
TNth == /\ comp = "windower" /\ Ev.ev \in {"next", "nth", "skip", "find"}
        /\ LET j == IF Ev.ev = "next" THEN 0 ELSE Ev.a.k IN
           IF AcceptNthChunk(j) THEN Put(Ev.a.w, VNthAfter(S, j)) /\ HeapNote /\ Same ELSE Bad
TStepBy == /\ comp = "windower" /\ Ev.ev \in {"step_by", "take"}
           /\ LET sp == IF Ev.ev = "take" THEN 1 ELSE Ev.a.s IN
              IF AcceptStepBy(sp, Ev.a.m) THEN Put(Ev.a.w, VStepAfter(S, sp, Ev.a.m)) /\ HeapNote /\ Same ELSE Bad
TSearch == /\ comp = "windower" /\ Ev.ev \in {"position", "any", "all"}
           /\ IF (IF Ev.ev = "position" THEN AcceptPosition ELSE AcceptAnyAll)
                THEN Put(Ev.a.w, VNthAfter(S, Ev.a.k)) /\ HeapNote /\ Same ELSE Bad
TConsume == /\ comp = "windower" /\ Ev.ev \in {"count", "last", "fold", "for_each"}
            /\ IF (CASE Ev.ev = "count" -> AcceptCount [] Ev.ev = "last" -> AcceptLast [] OTHER -> AcceptFold)
                 THEN Kill(Ev.a.w) /\ HeapNote /\ Same ELSE Bad
TClone == /\ comp = "windower" /\ Ev.ev = "clone"
          /\ IF AcceptClone THEN Put(Ev.a.to, S) /\ Same ELSE Bad
TSet == /\ comp = "windower" /\ Ev.ev \in {"set_bin", "set_hop", "set_frames"}
        /\ CASE Ev.ev = "set_bin" ->
                   IF AcceptSetBin THEN Put(Ev.a.w, [VSetBin(S, Ev.a.b) EXCEPT !.wv = Ev.o.wv]) /\ Same ELSE Bad
             [] Ev.ev = "set_hop" ->
                   IF AcceptSetHop THEN Put(Ev.a.w, VSetHop(S, Ev.a.h)) /\ Same ELSE Bad
             [] OTHER ->
                   IF AcceptSetFrames THEN Put(Ev.a.w, VSetFrames(S, Ev.a.off, Ev.a.len)) /\ Same ELSE Bad
TEval == /\ comp = "winfn" /\ Ev.ev = "eval"
         /\ (IF AcceptEval THEN HeapNote ELSE Reject)            \* stateless: every bad evaluation is reported
         /\ UNCHANGED << comp, cf, ws, skip >>
Known == \/ comp = "window" /\ Ev.ev \in {"take", "new", "rewind", "clone", "next", "nth", "step_by", "takeby", "size_hint"}
         \/ comp = "windower" /\ Ev.ev \in {"size_hint", "next", "nth", "skip", "find", "step_by", "take", "position", "any",
                                              "all", "count", "last", "fold", "for_each", "clone", "set_bin", "set_hop",
                                              "set_frames"}
         \/ comp = "winfn" /\ Ev.ev = "eval"
TUnknown == ~Known /\ Bad

TOp == /\ Consume /\ Ev.ev # "reset" /\ ~skip
       /\ (TTake \/ TWNew \/ TWClone \/ TWNth \/ TWStep \/ TWHint
           \/ THint \/ TNth \/ TStepBy \/ TSearch \/ TConsume \/ TClone \/ TSet \/ TEval \/ TUnknown)
TSkip == Consume /\ Ev.ev # "reset" /\ skip /\ UNCHANGED << comp, cf, ws, skip >>

TraceInit == l = 1 /\ comp = "none" /\ cf = Cf0 /\ ws = Ws0 /\ skip = TRUE
TraceNext == TReset \/ TOp \/ TSkip
TraceSpec == TraceInit /\ [][TraceNext]_vars

AllConsumed == IF TLCGet("stats").diameter - 1 = Len(Rec) THEN TRUE
               ELSE PrintT(<< "STUCK", TLCGet("stats").diameter, Len(Rec) >>) /\ FALSE
=============================================================================
