---------------------------- MODULE Trace_Window ----------------------------
(***************************************************************************)
(* Trace validation for C20 (harness/hx_dsp2/src/window.rs).  Components:  *)
(*   window    the stand-alone Window iterator: `take` = its first n       *)
(*             values and the phases read through the public `phase` field *)
(*   windower  `size_hint` at any time; `next` = the first b frames of the *)
(*             chunk, or none; `nth{k}` = Iterator::nth(k), `skip{k}` =    *)
(*             by_ref().skip(k).next(), `step_by{s,m}` = the first m items *)
(*             of by_ref().step_by(s).  The reset line carries the b       *)
(*             window values observed from a stand-alone Window of the     *)
(*             frame type's Float companion (wv).                          *)
(*   winfn     `eval` = dasp_window::Window::window(p) of Hann / Rectangle *)
(*             on f64 / f32 / i16 at the phase p (logged exactly; num/den  *)
(*             = the rational it was derived from, a hint for k/24)        *)
(* Accepted iff (layer 1 of Window.tla)                                    *)
(*   window: phases i/(n-1); Rect = 1 exactly; Hann in [0,1], symmetric,   *)
(*     0 at both ends, 1 at the centre (odd n), non-decreasing to the      *)
(*     centre, and at (n-1) | 24 the algebraic special values -- all to    *)
(*     1e-12 (binary64) / 2^-22 (binary32);                                *)
(*   windower: next yields a chunk iff k*h + b <= L, so exactly Count      *)
(*     chunks; chunk k frame i = mul_amp(frame[k*h + i], wv[i]) bit for    *)
(*     bit (SampleFormats.MulAmp); every size hint satisfies               *)
(*     lo <= remaining <= hi.  A bad hint is reported and the execution    *)
(*     goes on (size_hint does not change the state).  nth(j) / skip(j)    *)
(*     yield chunk k+j iff it exists and consume min(k+j+1, Count);        *)
(*     step_by(s) yields chunks k, k+s, ...;                               *)
(*   winfn: Rect(p) = 1 exactly at EVERY phase (integer formats: full      *)
(*     scale); Hann(p) in [0,1] and at p = k/24 the algebraic special      *)
(*     value (Hann(0) = Hann(1) = 0, Hann(1/2) = 1) to 1e-12 (f64), 2^-20  *)
(*     (f32 phases), 2^-11 (i16 phases).                                   *)
(***************************************************************************)
EXTENDS Window, SampleFormats, TLC, Json, IOUtils

Rec == ndJsonDeserialize(IOEnv.TRACE)

VARIABLES l, comp, cf, k, skip
vars == << l, comp, cf, k, skip >>
Ev == Rec[l]

Cf0 == [kind |-> "none", fmt |-> "f64", ch |-> 1, L |-> 0, b |-> 2, h |-> 1, frames |-> << >>, wv |-> << >>, n |-> 0]
HeapOK == Ev.h = << 0, 0, 0 >>
AbsLe(x, t) == DLe(DAbs(x), t)

---------------------------------------------------------------------------
(* stand-alone window *)
WTolScale(F) == IF F.p = 53 THEN DE12 ELSE DPow2(22)          \* 1 / tolerance
WinOK(kind, F, n, v, ph) ==
  LET T == WTolScale(F)
      tol(x) == DLe(DMul(DAbs(x), T), DOne)                    \* |x| <= 1e-12 resp. 2^-22
      val(i) == Dec(F, v[i + 1])                               \* i = 0..n-1
      half == (n - 1) \div 2
  IN /\ n >= 2 /\ Len(v) = n /\ Len(ph) = n
     /\ \A i \in 1..n : IsFields(v[i]) /\ FIsFinite(F, v[i]) /\ IsFields(ph[i]) /\ FIsFinite(F64, ph[i])
     \* an n-frame window samples the phases i/(n-1): |ph_i (n-1) - i| tiny (the last may have wrapped to 0)
     /\ \A i \in 0..(n - 1) :
          LET p == DMul(Dec(F64, ph[i + 1]), DFromInt(n - 1)) IN
          \/ AbsLe(DSub(p, DFromInt(i)), DPow2(-20))
          \/ (i = n - 1 /\ AbsLe(p, DPow2(-20)))
     /\ IF kind = "rect"
          THEN \A i \in 0..(n - 1) : DEq(val(i), DOne)                          \* exactly 1
          ELSE /\ \A i \in 0..(n - 1) : DLe(DZero, val(i)) /\ DLe(val(i), DOne) \* in [0, 1]
               /\ \A i \in 0..half : tol(DSub(val(i), val(n - 1 - i)))          \* symmetric about 1/2
               /\ tol(val(0)) /\ tol(val(n - 1))                                \* 0 at both ends
               /\ ((n - 1) % 2 = 0 => tol(DSub(val(half), DOne)))               \* 1 at the centre
               /\ \A i \in 0..(half - 1) : DLe(val(i), val(i + 1))              \* non-decreasing to the centre
               /\ (24 % (n - 1) = 0 =>
                     \A i \in 0..(n - 1) : IsHann24T(val(i), i * (24 \div (n - 1)), T))

AcceptResetWindow ==
  /\ Ev.cfg.kind \in {"hann", "rect"} /\ Ev.cfg.fmt \in {"f64", "f32"} /\ Ev.cfg.n >= 2
  /\ Ev.r.k = "unit" /\ Ev.o.ok
AcceptTake ==
  /\ Ev.a.n = cf.n /\ k = 0 /\ Ev.r.k = "items" /\ ~Ev.o.ended
  /\ WinOK(cf.kind, FmtOf(cf.fmt), cf.n, Ev.r.v, Ev.o.ph)

---------------------------------------------------------------------------
(* windower *)
FFmt(fmt) == FloatOf(fmt)
AcceptResetWindower ==
  LET c == Ev.cfg IN
  /\ c.kind \in {"hann", "rect"} /\ c.fmt \in {"f64", "f32", "i16"} /\ c.ch \in 1..2
  /\ c.b >= 2 /\ c.h >= 1 /\ c.L = Len(c.frames)                        \* domain of the property
  /\ Ev.r.k = "unit" /\ Ev.o.ok
  /\ c.ffmt = FFmt(c.fmt) /\ Len(Ev.o.wv) = c.b
  /\ \A i \in 1..c.b : IsFields(Ev.o.wv[i]) /\ FIsFinite(FmtOf(c.ffmt), Ev.o.wv[i])
  /\ (c.kind = "rect" => \A i \in 1..c.b : DEq(Dec(FmtOf(c.ffmt), Ev.o.wv[i]), DOne))

Rem == Remaining(cf.L, cf.b, cf.h, k)
AcceptHint ==
  /\ Ev.r.k = "val" /\ IsSJson(Ev.r.v.lo) /\ Ev.r.v.hi.k \in {"some", "none"}
  /\ SLe(SFromJson(Ev.r.v.lo), SFromInt(Rem))
  /\ (Ev.r.v.hi.k = "some" => IsSJson(Ev.r.v.hi.v) /\ SLe(SFromInt(Rem), SFromJson(Ev.r.v.hi.v)))

Samp(x) == SampleFromJson(cf.fmt, x)
\* v = the first b frames of chunk number idx
ChunkOK(v, idx) ==
  /\ Len(v) = cf.b
  /\ \A i \in 1..cf.b :
       /\ Len(v[i]) = cf.ch
       /\ \A c \in 1..cf.ch :
            LET src == Samp(cf.frames[ChunkOffset(idx, cf.h) + i][c]) IN
            /\ MulAmpDefined(cf.fmt, src, cf.wv[i])
            /\ SampleEq(cf.fmt, Samp(v[i][c]), MulAmp(cf.fmt, src, cf.wv[i]))
\* nth(j): the j-th of the remaining chunks (next = nth(0), skip(j).next() = nth(j))
AcceptNthChunk(j) ==
  /\ j >= 0
  /\ IF NthHas(cf.L, cf.b, cf.h, k, j) THEN Ev.r.k = "some" /\ ChunkOK(Ev.r.v, k + j) ELSE Ev.r.k = "none"
AcceptNextChunk == AcceptNthChunk(0)
\* the first m items of step_by(s): chunks k, k + s, k + 2s, ... while they exist
AcceptStepBy ==
  LET sp == Ev.a.s  m == Ev.a.m IN
  /\ sp >= 1 /\ m >= 1 /\ Ev.r.k = "items"
  /\ Len(Ev.r.v) = StepGot(cf.L, cf.b, cf.h, k, sp, m)
  /\ \A i \in 1..Len(Ev.r.v) : ChunkOK(Ev.r.v[i], k + (i - 1) * sp)

---------------------------------------------------------------------------
(* the window functions evaluated directly *)
FnFloat == cf.fmt \in {"f64", "f32"}
FnSampOK(x) == IF FnFloat THEN IsFields(x) /\ FIsFinite(FmtOf(cf.fmt), x)
               ELSE IsSJson(x) /\ InRange(cf.fmt, SFromJson(x))
\* phase / amplitude as exact dyadics (integer formats: sample / 2^(bits-1))
FnVal(x) == IF FnFloat THEN Dec(FmtOf(cf.fmt), x) ELSE DScale2(DFromS(SFromJson(x)), 1 - Bits(cf.fmt))
FnLsb == IF FnFloat THEN DZero ELSE DPow2(1 - Bits(cf.fmt))
\* how close to k/24 (times 24) a phase of this format counts as "the phase k/24", and the tolerance scale
FnClose == IF cf.fmt = "f64" THEN DPow2(-44) ELSE IF cf.fmt = "f32" THEN DPow2(-19) ELSE DPow2(-10)
FnT == IF cf.fmt = "f64" THEN DE12 ELSE IF cf.fmt = "f32" THEN DPow2(20) ELSE DPow2(11)
AcceptResetFn ==
  /\ Ev.cfg.kind \in {"hann", "rect"} /\ Ev.cfg.fmt \in {"f64", "f32", "i16"}
  /\ Ev.r.k = "unit" /\ Ev.o.ok
AcceptEval ==
  /\ Ev.r.k = "val" /\ FnSampOK(Ev.a.p) /\ FnSampOK(Ev.r.v)
  /\ IF cf.kind = "rect" THEN RectFnOK(FnVal(Ev.r.v), FnLsb)
     ELSE HannFnOK(FnVal(Ev.a.p), FnVal(Ev.r.v), Ev.a.num, Ev.a.den, FnClose, FnT)

---------------------------------------------------------------------------
Consume == l <= Len(Rec) /\ l' = l + 1
Reject == PrintT(<< "REJECT", l, Ev.ev >>)
HeapNote == IF Ev.r.k = "panic" \/ HeapOK THEN TRUE ELSE PrintT(<< "HEAP", l, Ev.ev >>)
Bad == Reject /\ skip' = TRUE /\ UNCHANGED << comp, cf, k >>

TReset ==
  /\ Consume /\ Ev.ev = "reset" /\ k' = 0
  /\ IF Ev.comp = "window" /\ AcceptResetWindow
       THEN /\ comp' = "window" /\ skip' = FALSE
            /\ cf' = [Cf0 EXCEPT !.kind = Ev.cfg.kind, !.fmt = Ev.cfg.fmt, !.n = Ev.cfg.n]
     ELSE IF Ev.comp = "winfn" /\ AcceptResetFn
       THEN /\ comp' = "winfn" /\ skip' = FALSE
            /\ cf' = [Cf0 EXCEPT !.kind = Ev.cfg.kind, !.fmt = Ev.cfg.fmt]
     ELSE IF Ev.comp = "windower" /\ AcceptResetWindower
       THEN /\ comp' = "windower" /\ skip' = FALSE
            /\ cf' = [kind |-> Ev.cfg.kind, fmt |-> Ev.cfg.fmt, ch |-> Ev.cfg.ch, L |-> Ev.cfg.L, b |-> Ev.cfg.b,
                      h |-> Ev.cfg.h, frames |-> Ev.cfg.frames, wv |-> Ev.o.wv, n |-> 0]
     ELSE Reject /\ skip' = TRUE /\ comp' = "none" /\ cf' = Cf0

TTake == /\ comp = "window" /\ Ev.ev = "take"
         /\ IF AcceptTake THEN k' = k + 1 /\ HeapNote /\ UNCHANGED << comp, cf, skip >> ELSE Bad
THint == /\ comp = "windower" /\ Ev.ev = "size_hint"
         /\ (IF AcceptHint THEN HeapNote ELSE Reject)            \* reported; the execution continues
         /\ UNCHANGED << comp, cf, k, skip >>
TNext == /\ comp = "windower" /\ Ev.ev = "next"
         /\ IF AcceptNextChunk
              THEN /\ k' = NthAfter(cf.L, cf.b, cf.h, k, 0)
                   /\ HeapNote /\ UNCHANGED << comp, cf, skip >>
              ELSE Bad
TNth == /\ comp = "windower" /\ Ev.ev \in {"nth", "skip"}
        /\ IF AcceptNthChunk(Ev.a.k)
             THEN /\ k' = NthAfter(cf.L, cf.b, cf.h, k, Ev.a.k)
                  /\ HeapNote /\ UNCHANGED << comp, cf, skip >>
             ELSE Bad
TStepBy == /\ comp = "windower" /\ Ev.ev = "step_by"
           /\ IF AcceptStepBy
                THEN /\ k' = StepAfter(cf.L, cf.b, cf.h, k, Ev.a.s, Ev.a.m)
                     /\ HeapNote /\ UNCHANGED << comp, cf, skip >>
                ELSE Bad
TEval == /\ comp = "winfn" /\ Ev.ev = "eval"
         /\ (IF AcceptEval THEN HeapNote ELSE Reject)            \* stateless: every bad evaluation is reported
         /\ UNCHANGED << comp, cf, k, skip >>
Known == \/ comp = "window" /\ Ev.ev = "take"
         \/ comp = "windower" /\ Ev.ev \in {"size_hint", "next", "nth", "skip", "step_by"}
         \/ comp = "winfn" /\ Ev.ev = "eval"
TUnknown == ~Known /\ Bad

TOp == /\ Consume /\ Ev.ev # "reset" /\ ~skip
       /\ (TTake \/ THint \/ TNext \/ TNth \/ TStepBy \/ TEval \/ TUnknown)
TSkip == Consume /\ Ev.ev # "reset" /\ skip /\ UNCHANGED << comp, cf, k, skip >>

TraceInit == l = 1 /\ comp = "none" /\ cf = Cf0 /\ k = 0 /\ skip = TRUE
TraceNext == TReset \/ TOp \/ TSkip
TraceSpec == TraceInit /\ [][TraceNext]_vars

AllConsumed == IF TLCGet("stats").diameter - 1 = Len(Rec) THEN TRUE
               ELSE PrintT(<< "STUCK", TLCGet("stats").diameter, Len(Rec) >>) /\ FALSE
=============================================================================
