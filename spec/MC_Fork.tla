------------------------------- MODULE MC_Fork -------------------------------
(* Every interleaving of the two branches of a fork (lead <= capacity), for  *)
(* every capacity 1..MaxCap and every initial ring-buffer start offset:      *)
(* the code-shaped layer 2 delivers what the positions of layer 1 demand.    *)
EXTENDS Fork, FiniteSets, TLC, Json, IOUtils, SequencesExt

CONSTANTS MaxCap, MaxPulled, SchedLen, MaxResplit
VARIABLES st, pos, cap, last,   \* last = [branch, frame] of the step that led here
          hist                 \* the schedule so far as stimulus events (history; makes the state graph the tree of schedules)
vars == << st, pos, cap, last, hist >>

Init == \E c \in 1..MaxCap : \E s \in 0..(c - 1) :
          /\ cap = c /\ st = FInit(c, s)
          /\ pos = [A |-> 0, B |-> 0] /\ last = [branch |-> "none", frame |-> 0]
          /\ \E v \in {"ref", "rc"} :
               hist = << [ev |-> "reset", comp |-> "fork", cfg |-> [cap |-> c, start |-> s, variant |-> v]] >>
NRes == Cardinality({i \in 1..Len(hist) : hist[i].ev = "resplit"})
Step(X) == /\ StepAllowed(pos, X, cap)
           /\ Len(hist) <= SchedLen
           /\ hist' = Append(hist, [ev |-> "next", a |-> [branch |-> X]])
           /\ LET r == FNext(st, X) IN
              /\ st' = r.st /\ last' = [branch |-> X, frame |-> r.frame]
           /\ pos' = PNext(pos, X) /\ cap' = cap
StepA == Step("A")
StepB == Step("B")
\* dropping both branches and splitting the fork again (by reference) changes nothing
\* (by reference again, or -- once -- by Rc, which consumes the fork: "re-split after earlier use")
IsRc == \E i \in 1..Len(hist) : hist[i].ev = "resplit" /\ hist[i].a.to = "rc"
Resplit == /\ hist[1].cfg.variant = "ref" /\ Len(hist) <= SchedLen /\ NRes < MaxResplit /\ ~IsRc
           /\ \E to \in {"ref", "rc", "clone"} : hist' = Append(hist, [ev |-> "resplit", a |-> [to |-> to]])   \* clone: the fork itself is cloned first
           /\ last' = [branch |-> "none", frame |-> 0]
           /\ UNCHANGED << st, pos, cap >>
Next == StepA \/ StepB \/ Resplit
Spec == Init /\ [][Next]_vars

InOrder   == last.branch # "none" => last.frame = pos[last.branch]   \* frames 1,2,3,.. per branch
PullOnce  == st.pulled = MaxP(pos)                                   \* one pull per distinct frame
PendingOK == FPending(st, "A") = PPending(pos, "A") /\ FPending(st, "B") = PPending(pos, "B")
RepInv    == BRepOK(st.rb) /\ BCap(st.rb) = cap
\* the buffered frames are exactly the ones the lagging branch still has to see
Content   == BAbs(st.rb) = [i \in 1..st.rb.len |-> st.pulled - st.rb.len + i]

---------------------------------------------------------------------------
(* stimuli: every complete schedule (a leaf of the explored tree) is printed as one execution *)
Emit == Len(hist) = SchedLen + 1 => PrintT("STIM " \o ToJson(hist))
=============================================================================
