-------------------------- MODULE MC_ConverterFix --------------------------
(***************************************************************************)
(* Cross-check of the two accumulator semantics of Converter.tla part C on *)
(* ROUNDING inputs: the fixed-point image (FStep: 28-bit limbs, hand-made  *)
(* round-to-nearest-even) against the reference (RefStep: generic Dyadic   *)
(* addition + Rne of Dyadic.tla, which BigTest validated against numpy).   *)
(* Ratios are pseudo-random full-precision f64 values in [2^-6, 2^4), the  *)
(* ratio in effect cycles through three of them, Steps outputs per run.    *)
(* (MC_Converter's PartC invariant covers the exact domain.)               *)
(***************************************************************************)
EXTENDS Converter, TLC

CONSTANTS Runs, Steps

Lcg(x) == (x * 75 + 74) % 65537
\* the j-th pseudo-random ratio of run n: IEEE fields with a full 52-bit mantissa
RatioF(n, j) ==
  LET x0 == Lcg(Lcg(n * 97 + j * 31 + 5))
      x1 == Lcg(x0)
      x2 == Lcg(x1)
      x3 == Lcg(x2)
      x4 == Lcg(x3)
  IN [s |-> 0, e |-> 1017 + (x0 % 10), m |-> BNorm(<< x1 % 32768, x2 % 32768, x3 % 32768, x4 % 128 >>)]
Ratio(n, k) == Dec(F64, RatioF(n, (k \div 7) % 3))       \* changes every 7 outputs

VARIABLES n, k, f, r
vars == << n, k, f, r >>
Init == n \in 1..Runs /\ k = 0 /\ f = FNew(Ratio(n, 0)) /\ r = RefNew
Next == /\ k < Steps /\ k' = k + 1 /\ n' = n
        /\ f' = FStep(FSetRatio(f, Ratio(n, k))).st
        /\ r' = RefStep(r, Ratio(n, k)).st
Spec == Init /\ [][Next]_vars

Agree == /\ f.adv = r.adv
         /\ DEq(FixToD(f.acc), r.acc)
         /\ Fits64(r.acc)
         /\ FixInDomain(Ratio(n, k))
\* the runs do round (otherwise this check would be vacuous)
Rounds == k = Steps => ~f.exact
=============================================================================
