SPECIFICATION Spec
CONSTANTS
  MaxCap = 3
  MaxPulled = 99
  SchedLen = 9
  MaxResplit = 1
INVARIANTS InOrder PullOnce PendingOK RepInv Content Emit
CHECK_DEADLOCK FALSE
