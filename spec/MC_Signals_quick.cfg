SPECIFICATION Spec
CONSTANTS
  Tier = "quick"
INVARIANTS PointwiseOK OnePull ResumeAt ExhExact SilentAfter SrcFrames CollectLen TakeN Interleaved IterNth
CHECK_DEADLOCK FALSE
