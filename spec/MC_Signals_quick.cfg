SPECIFICATION Spec
CONSTANTS
  Tier = "quick"
INVARIANTS PointwiseOK OnePull ResumeAt ExhExact SilentAfter SrcFrames CollectLen TakeN Interleaved
CHECK_DEADLOCK FALSE
