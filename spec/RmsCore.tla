------------------------------ MODULE RmsCore ------------------------------
(***************************************************************************)
(* Layers 1 and 2 of the windowed RMS (property C11), over ANY exact       *)
(* ordered arithmetic given by the constant operators below.               *)
(*   Rms.tla instantiates them with the dyadic rationals of Dyadic.tla     *)
(*   (what the trace specifications use);                                  *)
(*   MC_Rms.tla instantiates them with plain integers (inputs in units of  *)
(*   1/4, squares in units of 1/16) -- the same definitions, checked       *)
(*   exhaustively at a fraction of the cost of limb arithmetic.            *)
(*                                                                         *)
(* layer 1 (property): the last N input frames, zero-initialised;          *)
(*   True(c) = (sum of the last N squares of channel c) / N, recomputed    *)
(*   from the window.  C1 = the same with squares and sum cached.          *)
(* layer 2 (implementation shaped): dasp_rms/src/lib.rs -- a               *)
(*   RingBuffer.Fixed of squared frames plus `square_sum`, updated as      *)
(*   sum + new - evicted, clamped at zero; reset writes zeros through      *)
(*   iter_mut.  The ring buffer operators are those of RingBuffer.tla.     *)
(* A frame is a sequence with one value per channel.  An output is         *)
(* described, not computed: [num, den, root] = num/den or its square root. *)
(***************************************************************************)
EXTENDS Naturals, Sequences

CONSTANTS Zero, Add(_, _), Sub(_, _), Sq(_), IsNeg(_)

RB == INSTANCE RingBuffer

ZeroFrame(ch) == [c \in 1..ch |-> Zero]
SqFrame(x) == [c \in DOMAIN x |-> Sq(x[c])]

---------------------------------------------------------------------------
(* layer 1: the property *)

L1Init(n, ch)  == [i \in 1..n |-> ZeroFrame(ch)]          \* preceding silence
L1Push(w, x)   == Append(Tail(w), x)                      \* the window is always the last N frames
RECURSIVE SumSqFrom(_, _, _)
SumSqFrom(w, c, i) == IF i = 0 THEN Zero ELSE Add(SumSqFrom(w, c, i - 1), Sq(w[i][c]))
SumSq(w, c)    == SumSqFrom(w, c, Len(w))                 \* True(c) = SumSq(w, c) / Len(w)
\* an output is described, not computed: value = num/den, or its square root
MeanSq(w, c)   == [num |-> SumSq(w, c), den |-> Len(w), root |-> FALSE]
TrueRms(w, c)  == [num |-> SumSq(w, c), den |-> Len(w), root |-> TRUE]

\* layer 1 with the squares and their sum cached, one channel: [win, sum]
C1Init(n)    == [win |-> [i \in 1..n |-> Zero], sum |-> Zero]
C1Push(s, x) == LET q == Sq(x) IN
                [win |-> Append(Tail(s.win), q), sum |-> Add(Sub(s.sum, s.win[1]), q)]

---------------------------------------------------------------------------
(* layer 2: dasp_rms as coded, over exact arithmetic *)

L2Init(n, ch) == [rb  |-> RB!FFrom([i \in 1..n |-> ZeroFrame(ch)]),   \* ring_buffer::Fixed::from([EQUILIBRIUM; n])
                  sum |-> ZeroFrame(ch)]                               \* square_sum: Frame::EQUILIBRIUM
L2Len(s) == RB!FLen(s.rb)                                              \* window_frames()
\* calc_rms_squared: square_sum / window.len()
L2Mean(s, root) == [c \in DOMAIN s.sum |-> [num |-> s.sum[c], den |-> L2Len(s), root |-> root]]
L2NextSquared(s, x) ==
  LET q  == SqFrame(x)                                     \* new_frame.to_float_frame().map(|s| s * s)
      r  == RB!FPush(s.rb, q)                              \* window.push(new_frame_square) -> removed square
      s2 == [rb  |-> r.f,
             sum |-> [c \in DOMAIN x |->
                        LET diff == Sub(Add(s.sum[c], q[c]), r.ret[c]) IN   \* add new, subtract removed
                        IF IsNeg(diff) THEN Zero ELSE diff]]             \* clamp at equilibrium
  IN [s |-> s2, out |-> L2Mean(s2, FALSE)]
L2Next(s, x) == LET r == L2NextSquared(s, x) IN [s |-> r.s, out |-> L2Mean(r.s, TRUE)]   \* .map(sample_sqrt)
L2Current(s) == [s |-> s, out |-> L2Mean(s, TRUE)]
L2Reset(s)   ==                                            \* for sq in window.iter_mut() { *sq = EQUILIBRIUM }; sum = EQUILIBRIUM
  LET ch == Len(s.sum)
      z  == RB!ApplyF(s.rb, [ev |-> "iter_mut", a |-> [vs |-> [i \in 1..L2Len(s) |-> ZeroFrame(ch)]]])
  IN [s |-> [rb |-> z.f, sum |-> ZeroFrame(ch)], out |-> << >>]
\* dasp_signal::rms adaptor: feed the source's next frame to the detector
SigNext(s, src)        == LET r == L2Next(s, Head(src))        IN [s |-> r.s, out |-> r.out, src |-> Tail(src)]
SigNextSquared(s, src) == LET r == L2NextSquared(s, Head(src)) IN [s |-> r.s, out |-> r.out, src |-> Tail(src)]

---------------------------------------------------------------------------
(* Clone (#[derive(Clone)] on Rms and on the adaptor): a field-by-field copy -- the ring buffer (data and   *)
(* position of its first element) and the running sum.  At layer 1 the copy simply has seen the same frames. *)
L1Clone(w) == w
C1Clone(s) == [win |-> s.win, sum |-> s.sum]
L2Clone(s) == [rb |-> [data |-> s.rb.data, first |-> s.rb.first], sum |-> s.sum]
=============================================================================
