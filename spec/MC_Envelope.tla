----------------------------- MODULE MC_Envelope -----------------------------
(***************************************************************************)
(* Exhaustive check of Envelope.tla.                                       *)
(*  (a) detector: every history of up to MaxLen operations (input frames   *)
(*      k/4, k in -2..2, through each of the three rectifiers; attack /    *)
(*      release setters) from every initial pair of gains, with the        *)
(*      rational stand-in gains Gain(0) = 0, Gain(1) = 1/2, Gain(2) = 3/4: *)
(*      no overshoot, zero time = detected value, monotone convergence on  *)
(*      constant input, a setter changes only subsequent frames.           *)
(*  (b) rectifiers: algebraic laws on boundary sets of all 14 formats      *)
(*      (ASSUME RectLaws).                                                 *)
(* Also writes the stimuli for the Rust harness (IOEnv.STIM_OUT).          *)
(***************************************************************************)
EXTENDS Envelope, FiniteSets, TLC, Json, IOUtils, SequencesExt

CONSTANTS MaxLen,       \* histories of up to MaxLen operations are explored
          StimLen       \* stimuli: every history of exactly StimLen operations
K == -2..2
T == 0..2
GainMC(t) == CASE t = 0 -> DZero [] t = 1 -> DNorm(DMk(FALSE, << 1 >>, -1)) [] t = 2 -> DNorm(DMk(FALSE, << 3 >>, -2))
Kinds == {"full", "pos", "neg"}
\* the model's input samples: format i8, value 32 k  (amplitude k/4)
InV(k) == SFromInt(32 * k)
Det(kind, k) == DNorm(DFromS(Rect(kind, "i8", InV(k))))    \* detected value (an integer, as a dyadic)

VARIABLES kind,         \* rectifier of this execution
          s,            \* detector state [env, gA, gR], one channel
          hist,         \* operations so far
          dets, outs,   \* detected values / outputs of the input operations so far
          pre           \* [env, nouts, g] before the last operation (g = gain it used, for inputs)
vars == << kind, s, hist, dets, outs, pre >>

Ops == {[op |-> "in", k |-> k] : k \in K} \cup {[op |-> o, t |-> t] : o \in {"setA", "setR"}, t \in T}
NormS(st) == [st EXCEPT !.env = [c \in DOMAIN st.env |-> DNorm(st.env[c])]]

Init == /\ kind \in Kinds
        /\ \E a \in T, r \in T : s = EnvNew(1, GainMC(a), GainMC(r))
        /\ hist = << >> /\ dets = << >> /\ outs = << >>
        /\ pre = [env |-> DZero, nouts |-> 0, g |-> DZero]
Guard == Len(hist) < MaxLen /\ UNCHANGED kind
StepIn == Guard /\ \E k \in K :
  LET d == Det(kind, k)
      r == EnvNext(s, << d >>)
  IN /\ s' = NormS(r.s) /\ hist' = Append(hist, [op |-> "in", k |-> k])
     /\ dets' = Append(dets, d) /\ outs' = Append(outs, DNorm(r.out[1]))
     /\ pre' = [env |-> s.env[1], nouts |-> Len(outs), g |-> EnvPick(s.env[1], d, s.gA, s.gR)]
StepSetA == Guard /\ \E t \in T :
  /\ s' = EnvSetAttack(s, GainMC(t)) /\ hist' = Append(hist, [op |-> "setA", t |-> t])
  /\ UNCHANGED << dets, outs >> /\ pre' = [env |-> s.env[1], nouts |-> Len(outs), g |-> DZero]
StepSetR == Guard /\ \E t \in T :
  /\ s' = EnvSetRelease(s, GainMC(t)) /\ hist' = Append(hist, [op |-> "setR", t |-> t])
  /\ UNCHANGED << dets, outs >> /\ pre' = [env |-> s.env[1], nouts |-> Len(outs), g |-> DZero]
Next == StepIn \/ StepSetA \/ StepSetR
Spec == Init /\ [][Next]_vars

LastIsIn == Len(hist) > 0 /\ hist[Len(hist)].op = "in"
LastD == dets[Len(dets)]
LastOut == outs[Len(outs)]
---------------------------------------------------------------------------
(* invariants = clauses of C19 *)
\* the output is the convex combination (1 - g) d + g prev -- written independently of EnvStep
Recurrence == LastIsIn =>
  DEq(LastOut, DAdd(DMul(DSub(DFromInt(1), pre.g), LastD), DMul(pre.g, pre.env)))
\* attack when the detected value exceeds the previous envelope, release otherwise
GainRule == LastIsIn => pre.g = (IF DLt(pre.env, LastD) THEN s.gA ELSE s.gR)
\* hence it always lies between the previous envelope and the detected value
Between == LastIsIn => DLe(DMin(pre.env, LastD), LastOut) /\ DLe(LastOut, DMax(pre.env, LastD))
\* equals the detected value when the time is 0
ZeroTime == LastIsIn /\ DIsZero(pre.g) => DEq(LastOut, LastD)
\* constant input: the outputs approach it monotonically (same side, strictly closer unless already there)
Monotone ==
  \A i \in 1..(Len(outs) - 1) :
    dets[i] = dets[i + 1] =>
      LET e1 == DSub(outs[i], dets[i]) e2 == DSub(outs[i + 1], dets[i]) IN
      /\ DSign(e2) = 0 \/ DSign(e2) = DSign(e1)
      /\ DLe(DAbs(e2), DAbs(e1)) /\ (DSign(e1) # 0 => DLt(DAbs(e2), DAbs(e1)))
\* a setter changes no output already produced and not the envelope: only subsequent frames
SetLater == Len(hist) > 0 /\ ~LastIsIn => s.env[1] = pre.env /\ Len(outs) = pre.nouts
\* rectified values have the rectifier's sign
DetSign == LastIsIn => (kind = "neg" => DSign(LastD) <= 0) /\ (kind # "neg" => DSign(LastD) >= 0)

---------------------------------------------------------------------------
(* (b) rectifier laws on boundary sets of all 14 formats *)
BSetI(f) ==   \* boundary values of an integer format
  LET e == EquilI(f) IN
  { MinV(f), SAdd(MinV(f), SFromInt(1)), SSub(e, SFromInt(1)), e, SAdd(e, SFromInt(1)),
    SSub(MaxV(f), SFromInt(1)), MaxV(f) }
  \cup { SAdd(e, SPow2(k)) : k \in {1, Bits(f) - 3, Bits(f) - 2} }
  \cup { SSub(e, SPow2(k)) : k \in {1, Bits(f) - 3, Bits(f) - 2} }
  \cup { SSub(SAdd(e, SPow2(Bits(f) - 2)), SFromInt(1)), SAdd(SSub(e, SPow2(Bits(f) - 2)), SFromInt(1)) }
BSetF(f) ==   \* finite boundary values of a float format, as field records
  LET F == FmtOf(f) top == BSub(BPow2(F.p - 1), << 1 >>) IN
  { [s |-> sg, e |-> ee, m |-> mm] : sg \in {0, 1},
      ee \in {0, 1, F.bias - 1, F.bias, F.bias + 1, EMax(F) - 1}, mm \in {<< >>, << 1 >>, top} }
BSet(f) == IF IsFloat(f) THEN BSetF(f) ELSE BSetI(f)
AsD(f, v) == IF IsFloat(f) THEN Dec(FmtOf(f), v) ELSE DFromS(v)

RectLawsI(f) == \A v \in BSetI(f) :
  LET sf == SignedOf(f) p == PosHalf(f, v) q == NegHalf(f, v) IN
  /\ InRange(f, p) /\ InRange(f, q)
  /\ SSign(Amp(f, p)) >= 0 /\ SSign(Amp(f, q)) <= 0                       \* one side of equilibrium
  /\ SAdd(Amp(f, p), Amp(f, q)) = Amp(f, v)                                \* the two halves make up the sample
  /\ PosHalf(f, p) = p /\ NegHalf(f, q) = q                                \* idempotent
  /\ (FullWaveDefined(f, v) =>
        LET w == FullWave(f, v) IN
        /\ SSign(w) >= 0 /\ InRange(sf, w)
        /\ w = SSub(SignedImg(f, p), SignedImg(f, q))                      \* |a| = a+ - a-
        /\ FullWave(sf, w) = w)
  /\ (~FullWaveDefined(f, v) <=> Amp(f, v) = SNeg(Half(f)))                \* only the most negative amplitude
RectLawsF(f) == \A v \in BSetF(f) :
  LET F == FmtOf(f) x == Dec(F, v) IN
  /\ DEq(Dec(F, FullWave(f, v)), DAbs(x))
  /\ DEq(Dec(F, PosHalf(f, v)), DMax(x, DZero)) /\ DEq(Dec(F, NegHalf(f, v)), DMin(x, DZero))
RectLaws == (\A f \in IntFormats : RectLawsI(f)) /\ (\A f \in FloatFormats : RectLawsF(f))
ASSUME RectLaws

---------------------------------------------------------------------------
(* stimuli *)
AllFmts == << "i8", "i16", "i24", "i32", "i48", "i64", "u8", "u16", "u24", "u32", "u48", "u64", "f32", "f64" >>
JVal(f, v) == IF IsFloat(f) THEN v ELSE [n |-> IF v.neg THEN 1 ELSE 0, l |-> v.mag]
\* rectifiers: per format and channel count one execution running the three kinds over sliding frames of the boundary set
RectStim ==
  UNION { { LET b == SetToSeq(BSet(AllFmts[fi]))
                fr(i) == [c \in 1..ch |-> JVal(AllFmts[fi], b[((i + c - 2) % Len(b)) + 1])]
            IN << [ev |-> "reset", comp |-> "rect", cfg |-> [fmt |-> AllFmts[fi], ch |-> ch]] >>
               \o [j \in 1..(3 * Len(b)) |->
                     [ev |-> "rect", a |-> [kind |-> << "full", "pos", "neg" >>[((j - 1) % 3) + 1],
                                            x |-> fr(((j - 1) \div 3) + 1)]]]
            : ch \in 1..4 } : fi \in 1..14 }
\* detector: every history of exactly StimLen operations from every initial gain pair; the remaining
\* configuration (format, detection, channels, window, adaptor) is spread over them deterministically
Tq(t) == 4 * t
Rot(k, c) == ((k + 2 + c - 1) % 5) - 2
Fr(k, ch) == [c \in 1..ch |-> [d |-> << Rot(k, c), 2 >>]]
OpW(o) == IF o.op \in {"in", "z"} THEN o.k + 2 ELSE (IF o.op = "setA" THEN 5 ELSE 8) + o.t
HW(h) == LET S[i \in 0..Len(h)] == IF i = 0 THEN 0 ELSE 11 * S[i - 1] + OpW(h[i]) IN S[Len(h)]
EFmts == << "f32", "f64", "i16" >>
EDets == << "full", "pos", "neg", "rms" >>
\* one detector execution.  The configuration is spread by the hash w.  A zero time is handed over as IEEE
\* negative zero (nza / nzr / nz = 1) in about half of its occurrences, spread by w as well: -0.0 = 0 is the
\* time 0 to the model (gain 0) -- the exploration above needs no fourth time constant for it.
\* sl >= 0: adaptor run over a source signal of sl frames; the operations "z" past its end carry the
\* equilibrium frame (what a finite signal yields there); sl = -1: never read past the end.
ZFr(ch) == [c \in 1..ch |-> [d |-> << 0, 2 >>]]
Exec(h, a0, r0, sl) ==
  LET w   == HW(h) + 7 * a0 + 13 * r0
      ch  == (w % 4) + 1
      via == IF sl >= 0 \/ (w \div 4) % 3 = 0 THEN "signal" ELSE "direct"
      det == EDets[((w \div 3) % 4) + 1]
      evOf(o, i) ==
        IF o.op \in {"in", "z"}
          THEN [ev |-> IF via = "signal" THEN "env_sig_next" ELSE "env_next",
                a |-> [x |-> IF o.op = "z" THEN ZFr(ch) ELSE Fr(o.k, ch)]]
          ELSE [ev |-> IF via = "signal" THEN "env_sig_set" ELSE "env_set",
                a |-> [which |-> IF o.op = "setA" THEN "attack" ELSE "release", tq |-> Tq(o.t),
                       nz |-> IF o.t = 0 THEN (w + i) % 2 ELSE 0]]
  IN << [ev |-> "reset", comp |-> "env",
         cfg |-> [fmt |-> EFmts[(w % 3) + 1], ch |-> ch, det |-> det,
                  n |-> IF det = "rms" THEN 1 + (w % 2) ELSE 0,
                  attack |-> Tq(a0), release |-> Tq(r0),
                  nza |-> IF a0 = 0 THEN (w \div 5) % 2 ELSE 0, nzr |-> IF r0 = 0 THEN (w \div 7) % 2 ELSE 0,
                  via |-> via, srclen |-> sl]] >>
     \o [i \in 1..Len(h) |-> evOf(h[i], i)]
EnvStim == UNION { { Exec(h, a, r, -1) : h \in [1..StimLen -> Ops] } : a \in T, r \in T }
\* "a setter affects only later frames" on the exact domain: frame, setter, frame for every combination
SetHist(k1, o, t, k2) == << [op |-> "in", k |-> k1], [op |-> o, t |-> t], [op |-> "in", k |-> k2] >>
SetStim ==
  UNION { { Exec(SetHist(k1, o, t, k2), a0, r0, -1)
            : k1 \in K \ {0}, k2 \in K \ {0}, o \in {"setA", "setR"}, t \in T } : a0 \in T, r0 \in T }
\* the adaptor over a finite source that is read past its end: the envelope of the history followed by
\* equilibrium frames (the release tail), also with a setter after the source has ended
In(k) == [op |-> "in", k |-> k]
Z == [op |-> "z", k |-> 0]
TailStim ==
  UNION { { Exec(<< In(k), Z, Z >>, a0, r0, 1) : k \in K \ {0} }
          \cup { Exec(<< In(k1), In(k2), Z >>, a0, r0, 2) : k1 \in K \ {0}, k2 \in {-1, 2} }
          \cup { Exec(<< In(k), [op |-> o, t |-> t], Z, Z >>, a0, r0, 1) : k \in {-2, 1}, o \in {"setA", "setR"}, t \in T }
          : a0 \in T, r0 \in T }
Stimuli == RectStim \cup EnvStim \cup SetStim \cup TailStim
WriteStimuli ==
  IF "STIM_OUT" \in DOMAIN IOEnv
    THEN /\ ndJsonSerialize(IOEnv.STIM_OUT, SetToSeq(Stimuli))
         /\ PrintT(<< "STIMULI", Cardinality(RectStim), Cardinality(EnvStim), Cardinality(SetStim), Cardinality(TailStim) >>)
    ELSE TRUE
ASSUME WriteStimuli
=============================================================================
