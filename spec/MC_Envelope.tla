----------------------------- MODULE MC_Envelope -----------------------------
(***************************************************************************)
(* Exhaustive check of Envelope.tla.                                       *)
(*  (a) detector: every history of up to MaxLen operations (input frames   *)
(*      k/4, k in -2..2, through each of the three rectifiers; attack /    *)
(*      release setters) from every initial pair of gains, with the        *)
(*      rational stand-in gains Gain(0) = 0, Gain(1) = 1/2, Gain(2) = 3/4: *)
(*      no overshoot, zero time = detected value, monotone convergence on  *)
(*      constant input, a setter changes only subsequent frames.           *)
(*      Clone: at any point of a history of up to CloneLen operations the  *)
(*      detector may be cloned (once); every later operation picks one of  *)
(*      the two instances.  The copy starts from the original's state      *)
(*      (CloneSame), inherits its history -- so Monotone, Recurrence ...   *)
(*      are demanded of the copy ACROSS the clone point -- and neither     *)
(*      instance is changed by an operation on the other (Independent).    *)
(*      Fmt: rendering a detector with {:?} (StepFmt; histories of up to   *)
(*      CloneLen operations) is an operation that changes no instance      *)
(*      (FmtIdle, Independent) -- the following frames are smoothed from   *)
(*      the same envelope with the same gains.                             *)
(*  (b) rectifiers: algebraic laws on boundary sets of all 14 formats      *)
(*      (ASSUME RectLaws).                                                 *)
(* Also writes the stimuli for the Rust harness (IOEnv.STIM_OUT).          *)
(***************************************************************************)
EXTENDS Envelope, FiniteSets, TLC, Json, IOUtils, SequencesExt

CONSTANTS MaxLen,       \* histories of up to MaxLen operations are explored
          CloneLen,     \* ... of up to CloneLen operations when they contain a clone
          StimLen       \* stimuli: every history of exactly StimLen operations
K == -2..2
T == 0..2
GainMC(t) == CASE t = 0 -> DZero [] t = 1 -> DNorm(DMk(FALSE, << 1 >>, -1)) [] t = 2 -> DNorm(DMk(FALSE, << 3 >>, -2))
Kinds == {"full", "pos", "neg"}
\* the model's input samples: format i8, value 32 k  (amplitude k/4)
InV(k) == SFromInt(32 * k)
Det(kind, k) == DNorm(DFromS(Rect(kind, "i8", InV(k))))    \* detected value (an integer, as a dyadic)

VARIABLES kind,         \* rectifier of this execution
          ds,           \* the detector instances (1, or 2 after the clone), each
                        \*   [s: detector state [env, gA, gR], one channel;
                        \*    dets, outs: detected values / outputs of the input operations it has seen --
                        \*    a clone has seen what its original had seen]
          hist,         \* operations so far
          pre           \* the last operation: [i: instance it acted on, env / nouts: its envelope and number of outputs
                        \*   before, g: the gain it used (inputs), others: the OTHER instances as they were before]
vars == << kind, ds, hist, pre >>

NormS(st) == [st EXCEPT !.env = [c \in DOMAIN st.env |-> DNorm(st.env[c])]]
Others(i) == [j \in 1..Len(ds) |-> IF j = i THEN << >> ELSE ds[j]]

Init == /\ kind \in Kinds
        /\ \E a \in T, r \in T : ds = << [s |-> EnvNew(1, GainMC(a), GainMC(r)), dets |-> << >>, outs |-> << >>] >>
        /\ hist = << >>
        /\ pre = [i |-> 1, env |-> DZero, nouts |-> 0, g |-> DZero, others |-> << >>]
Guard == Len(hist) < (IF Len(ds) > 1 THEN CloneLen ELSE MaxLen) /\ UNCHANGED kind
Pre(i, g) == [i |-> i, env |-> ds[i].s.env[1], nouts |-> Len(ds[i].outs), g |-> g, others |-> Others(i)]
StepIn == Guard /\ \E i \in 1..Len(ds), k \in K :
  LET me == ds[i]
      d == Det(kind, k)
      r == EnvNext(me.s, << d >>)
  IN /\ ds' = [ds EXCEPT ![i] = [s |-> NormS(r.s), dets |-> Append(me.dets, d), outs |-> Append(me.outs, DNorm(r.out[1]))]]
     /\ hist' = Append(hist, [op |-> "in", i |-> i, k |-> k])
     /\ pre' = Pre(i, EnvPick(me.s.env[1], d, me.s.gA, me.s.gR))
StepSetA == Guard /\ \E i \in 1..Len(ds), t \in T :
  /\ ds' = [ds EXCEPT ![i].s = EnvSetAttack(@, GainMC(t))] /\ hist' = Append(hist, [op |-> "setA", i |-> i, t |-> t])
  /\ pre' = Pre(i, DZero)
StepSetR == Guard /\ \E i \in 1..Len(ds), t \in T :
  /\ ds' = [ds EXCEPT ![i].s = EnvSetRelease(@, GainMC(t))] /\ hist' = Append(hist, [op |-> "setR", i |-> i, t |-> t])
  /\ pre' = Pre(i, DZero)
\* Clone (Detector: Clone, DetectEnvelope: Clone): a second instance that has seen what the original has seen
StepClone == /\ Len(ds) = 1 /\ Len(hist) < CloneLen /\ UNCHANGED kind
             /\ ds' = Append(ds, [ds[1] EXCEPT !.s = EnvClone(@)])
             /\ hist' = Append(hist, [op |-> "clone", i |-> 1, j |-> 2])
             /\ pre' = Pre(1, DZero)
\* {:?} of an instance (derived Debug of Detector): an operation of the object that changes nothing
StepFmt == /\ Len(hist) < CloneLen /\ UNCHANGED << kind, ds >>
           /\ \E i \in 1..Len(ds) : hist' = Append(hist, [op |-> "fmt", i |-> i]) /\ pre' = Pre(i, DZero)
Next == StepIn \/ StepSetA \/ StepSetR \/ StepClone \/ StepFmt
Spec == Init /\ [][Next]_vars

LastOp == IF Len(hist) > 0 THEN hist[Len(hist)].op ELSE "none"
LastIsIn == LastOp = "in"
Me == ds[pre.i]                        \* the instance of the last operation
LastD == Me.dets[Len(Me.dets)]
LastOut == Me.outs[Len(Me.outs)]
---------------------------------------------------------------------------
(* invariants = clauses of C19 *)
\* the output is the convex combination (1 - g) d + g prev -- written independently of EnvStep
Recurrence == LastIsIn =>
  DEq(LastOut, DAdd(DMul(DSub(DFromInt(1), pre.g), LastD), DMul(pre.g, pre.env)))
\* attack when the detected value exceeds the previous envelope, release otherwise
GainRule == LastIsIn => pre.g = (IF DLt(pre.env, LastD) THEN Me.s.gA ELSE Me.s.gR)
\* hence it always lies between the previous envelope and the detected value
Between == LastIsIn => DLe(DMin(pre.env, LastD), LastOut) /\ DLe(LastOut, DMax(pre.env, LastD))
\* equals the detected value when the time is 0
ZeroTime == LastIsIn /\ DIsZero(pre.g) => DEq(LastOut, LastD)
\* constant input: the outputs approach it monotonically (same side, strictly closer unless already there) --
\* for every instance, a clone's sequence running across the point where it was cloned
Monotone ==
  \A j \in 1..Len(ds) : LET dets == ds[j].dets outs == ds[j].outs IN
  \A i \in 1..(Len(outs) - 1) :
    dets[i] = dets[i + 1] =>
      LET e1 == DSub(outs[i], dets[i]) e2 == DSub(outs[i + 1], dets[i]) IN
      /\ DSign(e2) = 0 \/ DSign(e2) = DSign(e1)
      /\ DLe(DAbs(e2), DAbs(e1)) /\ (DSign(e1) # 0 => DLt(DAbs(e2), DAbs(e1)))
\* a setter changes no output already produced and not the envelope: only subsequent frames
SetLater == LastOp \in {"setA", "setR"} => Me.s.env[1] = pre.env /\ Len(Me.outs) = pre.nouts
\* rendering changes neither the envelope nor the outputs produced (nor, by Independent, any other instance)
FmtIdle == LastOp = "fmt" => Me.s.env[1] = pre.env /\ Len(Me.outs) = pre.nouts
\* rectified values have the rectifier's sign
DetSign == LastIsIn => (kind = "neg" => DSign(LastD) <= 0) /\ (kind # "neg" => DSign(LastD) >= 0)
\* a clone IS the original at that moment (envelope, gains, what it has seen): it answers every next input alike
CloneSame == LastOp = "clone" =>
  /\ Len(ds) = 2 /\ ds[2] = ds[1] /\ ds[1].s.env[1] = pre.env
  /\ \A k \in K : EnvNext(ds[2].s, << Det(kind, k) >>).out = EnvNext(ds[1].s, << Det(kind, k) >>).out
\* ... and independent of it afterwards: an operation changes no instance but its own
Independent == \A j \in 1..Len(pre.others) : j # pre.i => ds[j] = pre.others[j]

---------------------------------------------------------------------------
(* (b) rectifier laws on boundary sets of all 14 formats *)
BSetI(f) ==   \* boundary values of an integer format
  LET e == EquilI(f) IN
  { MinV(f), SAdd(MinV(f), SFromInt(1)), SSub(e, SFromInt(1)), e, SAdd(e, SFromInt(1)),
    SSub(MaxV(f), SFromInt(1)), MaxV(f) }
  \cup { SAdd(e, SPow2(k)) : k \in {1, Bits(f) - 3, Bits(f) - 2} }
  \cup { SSub(e, SPow2(k)) : k \in {1, Bits(f) - 3, Bits(f) - 2} }
  \cup { SSub(SAdd(e, SPow2(Bits(f) - 2)), SFromInt(1)), SAdd(SSub(e, SPow2(Bits(f) - 2)), SFromInt(1)) }
BSetF(f) ==   \* finite boundary values of a float format, as field records
  LET F == FmtOf(f) top == BSub(BPow2(F.p - 1), << 1 >>) IN
  { [s |-> sg, e |-> ee, m |-> mm] : sg \in {0, 1},
      ee \in {0, 1, F.bias - 1, F.bias, F.bias + 1, EMax(F) - 1}, mm \in {<< >>, << 1 >>, top} }
BSet(f) == IF IsFloat(f) THEN BSetF(f) ELSE BSetI(f)
AsD(f, v) == IF IsFloat(f) THEN Dec(FmtOf(f), v) ELSE DFromS(v)

RectLawsI(f) == \A v \in BSetI(f) :
  LET sf == SignedOf(f) p == PosHalf(f, v) q == NegHalf(f, v) IN
  /\ InRange(f, p) /\ InRange(f, q)
  /\ SSign(Amp(f, p)) >= 0 /\ SSign(Amp(f, q)) <= 0                       \* one side of equilibrium
  /\ SAdd(Amp(f, p), Amp(f, q)) = Amp(f, v)                                \* the two halves make up the sample
  /\ PosHalf(f, p) = p /\ NegHalf(f, q) = q                                \* idempotent
  /\ (FullWaveDefined(f, v) =>
        LET w == FullWave(f, v) IN
        /\ SSign(w) >= 0 /\ InRange(sf, w)
        /\ w = SSub(SignedImg(f, p), SignedImg(f, q))                      \* |a| = a+ - a-
        /\ FullWave(sf, w) = w)
  /\ (~FullWaveDefined(f, v) <=> Amp(f, v) = SNeg(Half(f)))                \* only the most negative amplitude
RectLawsF(f) == \A v \in BSetF(f) :
  LET F == FmtOf(f) x == Dec(F, v) IN
  /\ DEq(Dec(F, FullWave(f, v)), DAbs(x))
  /\ DEq(Dec(F, PosHalf(f, v)), DMax(x, DZero)) /\ DEq(Dec(F, NegHalf(f, v)), DMin(x, DZero))
RectLaws == (\A f \in IntFormats : RectLawsI(f)) /\ (\A f \in FloatFormats : RectLawsF(f))
ASSUME RectLaws

---------------------------------------------------------------------------
(* stimuli *)
AllFmts == << "i8", "i16", "i24", "i32", "i48", "i64", "u8", "u16", "u24", "u32", "u48", "u64", "f32", "f64" >>
JVal(f, v) == IF IsFloat(f) THEN v ELSE [n |-> IF v.neg THEN 1 ELSE 0, l |-> v.mag]
\* rectifiers: per format and channel count one execution running the three kinds over sliding frames of the boundary set
RectStim ==
  UNION { { LET b == SetToSeq(BSet(AllFmts[fi]))
                fr(i) == [c \in 1..ch |-> JVal(AllFmts[fi], b[((i + c - 2) % Len(b)) + 1])]
            IN << [ev |-> "reset", comp |-> "rect", cfg |-> [fmt |-> AllFmts[fi], ch |-> ch]] >>
               \o [j \in 1..(3 * Len(b)) |->
                     [ev |-> "rect", a |-> [kind |-> << "full", "pos", "neg" >>[((j - 1) % 3) + 1],
                                            by |-> << "fn", "trait" >>[(((j - 1) \div 3) % 2) + 1],   \* free function / Rectifier impl
                                            x |-> fr(((j - 1) \div 3) + 1)]]]
            : ch \in 1..4 } : fi \in 1..14 }
\* detector: every history of exactly StimLen operations from every initial gain pair; the remaining
\* configuration (format, detection, channels, window, adaptor, constructor entry point, ring storage) is spread
\* over them deterministically
Ops == {[op |-> "in", k |-> k] : k \in K} \cup {[op |-> o, t |-> t] : o \in {"setA", "setR"}, t \in T}
Tq(t) == 4 * t
Rot(k, c) == ((k + 2 + c - 1) % 5) - 2
Fr(k, ch) == [c \in 1..ch |-> [d |-> << Rot(k, c), 2 >>]]
IOf(o) == IF "i" \in DOMAIN o THEN o.i ELSE 0           \* the instance an operation acts on
OpW(o) == 3 * IOf(o) + (CASE o.op \in {"in", "z"} -> o.k + 2 [] o.op = "setA" -> 5 + o.t [] o.op = "setR" -> 8 + o.t
                          [] o.op = "clone" -> 11 [] OTHER -> 12)
HW(h) == LET S[i \in 0..Len(h)] == IF i = 0 THEN 0 ELSE (11 * S[i - 1] + OpW(h[i])) % 100003 IN S[Len(h)]
EFmts == << "f32", "f64", "i16" >>
EDets == << "full", "pos", "neg", "rms" >>
ECtors == << "named", "new", "rect", "from" >>
\* one detector execution.  The configuration is spread by the hash w.  A zero time is handed over as IEEE
\* negative zero (nza / nzr / nz = 1) in about half of its occurrences, spread by w as well: -0.0 = 0 is the
\* time 0 to the model (gain 0) -- the exploration above needs no fourth time constant for it.
\* sl >= 0: adaptor run over a source signal of sl frames; the operations "z" past its end carry the
\* equilibrium frame (what a finite signal yields there); sl = -1: never read past the end.
\* Operations: in / z (a frame), setA / setR, clone (instance j = clone of i), mv (the instance is moved in memory),
\* flip (a bare detector is put on the adaptor, an adaptor is taken apart); the driver names the events after what
\* the instance is at that moment (env_* / env_sig_*).  src = source signal of the adaptors ("gen" where they are cloned).
ZFr(ch) == [c \in 1..ch |-> [d |-> << 0, 2 >>]]
ExecS(h, a0, r0, sl, src) ==
  LET w   == ((HW(h) + 7 * a0 + 13 * r0) * 7919) % 100003      \* mixed, then read as a mixed-radix number: the
      ch  == (w % 4) + 1                                        \* fields below vary independently of each other
      fmt == EFmts[((w \div 4) % 3) + 1]
      det == EDets[((w \div 12) % 4) + 1]
      via == IF sl >= 0 \/ (w \div 48) % 3 = 0 THEN "signal" ELSE "direct"
      evOf(o, i) ==
        CASE o.op \in {"in", "z"} ->
               [ev |-> IF via = "signal" THEN "env_sig_next" ELSE "env_next",
                a |-> [i |-> IOf(o), x |-> IF o.op = "z" THEN ZFr(ch) ELSE Fr(o.k, ch)]]
          [] o.op \in {"setA", "setR"} ->
               [ev |-> IF via = "signal" THEN "env_sig_set" ELSE "env_set",
                a |-> [i |-> IOf(o), which |-> IF o.op = "setA" THEN "attack" ELSE "release", tq |-> Tq(o.t),
                       nz |-> IF o.t = 0 THEN ((w \div 9216) + i) % 2 ELSE 0]]
          [] o.op = "clone" -> [ev |-> "env_clone", a |-> [i |-> o.i, j |-> o.j]]
          [] o.op = "mv"    -> [ev |-> "env_move", a |-> [i |-> o.i]]
          [] o.op = "flip"  -> [ev |-> "env_flip", a |-> [i |-> o.i]]
          \* {:?} of the detector (executed when the instance is a bare detector at that moment: the adaptor has no Debug)
          [] o.op = "fmt"   -> [ev |-> "env_fmt", a |-> [i |-> IOf(o)]]
  IN << [ev |-> "reset", comp |-> "env",
         cfg |-> [fmt |-> fmt, ch |-> ch, det |-> det,
                  n |-> IF det = "rms" THEN 1 + ((w \div 1152) % 2) ELSE 0,
                  attack |-> Tq(a0), release |-> Tq(r0),
                  nza |-> IF a0 = 0 THEN (w \div 2304) % 2 ELSE 0, nzr |-> IF r0 = 0 THEN (w \div 4608) % 2 ELSE 0,
                  via |-> via, srclen |-> sl, src |-> src,
                  ctor |-> ECtors[((w \div 144) % 4) + 1], store |-> << "vec", "box" >>[((w \div 576) % 2) + 1]]] >>
     \o [i \in 1..Len(h) |-> evOf(h[i], i)]
Exec(h, a0, r0, sl) == ExecS(h, a0, r0, sl, "iter")
EnvStim == UNION { { Exec(h, a, r, -1) : h \in [1..StimLen -> Ops] } : a \in T, r \in T }
\* "a setter affects only later frames" on the exact domain: frame, setter, frame for every combination
SetHist(k1, o, t, k2) == << [op |-> "in", k |-> k1], [op |-> o, t |-> t], [op |-> "in", k |-> k2] >>
SetStim ==
  UNION { { Exec(SetHist(k1, o, t, k2), a0, r0, -1)
            : k1 \in K \ {0}, k2 \in K \ {0}, o \in {"setA", "setR"}, t \in T } : a0 \in T, r0 \in T }
\* the adaptor over a finite source that is read past its end: the envelope of the history followed by
\* equilibrium frames (the release tail), also with a setter after the source has ended
In(k) == [op |-> "in", k |-> k]
Z == [op |-> "z", k |-> 0]
TailStim ==
  UNION { { Exec(<< In(k), Z, Z >>, a0, r0, 1) : k \in K \ {0} }
          \cup { Exec(<< In(k1), In(k2), Z >>, a0, r0, 2) : k1 \in K \ {0}, k2 \in {-1, 2} }
          \cup { Exec(<< In(k), [op |-> o, t |-> t], Z, Z >>, a0, r0, 1) : k \in {-2, 1}, o \in {"setA", "setR"}, t \in T }
          : a0 \in T, r0 \in T }
\* Clone at EVERY position of a short run (before the first frame, between the two, after them), from every initial
\* gain pair; then BOTH copies are continued, with different inputs:
\*   CloneA: alternating frames on the two instances, one of them moved in memory on the way;
\*   CloneB: a setter on ONE instance (the other must keep its gains), the same frame on both, then one of them is
\*           put on / taken off the adaptor and both go on with different frames.
InI(i, k) == [op |-> "in", i |-> i, k |-> k]
SetI(i, o, t) == [op |-> o, i |-> i, t |-> t]
CloneAt(h, p) == SubSeq(h, 1, p) \o << [op |-> "clone", i |-> 0, j |-> 1] >> \o SubSeq(h, p + 1, Len(h))
CloneA ==
  UNION { { LET ka == IF (k1 + k2 + p) % 2 = 0 THEN 2 ELSE -2
                kb == IF ka = 2 THEN -1 ELSE 1
            IN ExecS(CloneAt(<< InI(0, k1), InI(0, k2) >>, p)
                       \o << InI(1, ka), [op |-> "fmt", i |-> 1], InI(0, kb), InI(1, kb), [op |-> "mv", i |-> (k1 + p) % 2],
                              [op |-> "fmt", i |-> 0], InI(0, ka), InI(1, ka) >>,
                     a0, r0, -1, "gen")
            : k1 \in K \ {0}, k2 \in {-1, 2}, p \in 0..2 } : a0 \in T, r0 \in T }
CloneB ==
  UNION { { LET ka == IF (k1 + p + t) % 2 = 0 THEN 2 ELSE -2 IN
            ExecS(CloneAt(<< InI(0, k1), InI(0, 2) >>, p)
                    \o << SetI(x, o, t), InI(0, ka), InI(1, ka), [op |-> "flip", i |-> 1 - x], InI(1, 0 - ka), InI(0, 1), InI(1, 1) >>,
                  a0, r0, -1, "gen")
            : k1 \in {-2, 1}, p \in 0..2, o \in {"setA", "setR"}, t \in {0, 2}, x \in {0, 1} } : a0 \in T, r0 \in T }
CloneStim == CloneA \cup CloneB
\* {:?} between two frames and after a setter, from every initial gain pair (format, detection -- RMS detection renders
\* the Rms with its window --, channels, constructor spread by the hash as everywhere)
Fmt0 == [op |-> "fmt", i |-> 0]
FmtStim ==
  UNION { { Exec(<< In(k1), Fmt0, In(k2), [op |-> o, t |-> 1], Fmt0, In(k1) >>, a0, r0, -1)
            : k1 \in {-2, 1}, k2 \in {-1, 2}, o \in {"setA", "setR"} } : a0 \in T, r0 \in T }
Stimuli == RectStim \cup EnvStim \cup SetStim \cup TailStim \cup CloneStim \cup FmtStim
WriteStimuli ==
  IF "STIM_OUT" \in DOMAIN IOEnv
    THEN /\ ndJsonSerialize(IOEnv.STIM_OUT, SetToSeq(Stimuli))
         /\ PrintT(<< "STIMULI", Cardinality(RectStim), Cardinality(EnvStim), Cardinality(SetStim), Cardinality(TailStim), Cardinality(CloneStim), Cardinality(FmtStim) >>)
    ELSE TRUE
ASSUME WriteStimuli
=============================================================================
