------------------------------- MODULE Frames -------------------------------
(***************************************************************************)
(* dasp_frame: a frame is one sample per channel at one instant.           *)
(*                                                                         *)
(* A frame of format f with N channels is a SEQUENCE of N samples of f     *)
(* (SampleFormats.tla); channel c (0-based, as in the Rust API) is x[c+1]. *)
(* EVERY frame operation is DEFINED here as the per-channel lifting, in    *)
(* channel order, of the sample operation of SampleFormats.tla -- this is  *)
(* the statement of property C03 ("each frame operation is exactly the     *)
(* per-channel application of the corresponding sample operation in        *)
(* channel order"), so there is nothing to transcribe from dasp_frame:     *)
(* whether the code (arrays of width 1..32 built on from_fn + unchecked    *)
(* channel access, hand-written array construction from iterators, the     *)
(* mono impls overriding scale/add) agrees with the lifting is decided by  *)
(* trace validation (Trace_Frame.tla).                                     *)
(*                                                                         *)
(* A bare sample used as a frame is the 1-frame of itself: Bare / Unbare.  *)
(***************************************************************************)
EXTENDS SampleFormats

\* return records (same JSON shape as hx_common::r_*); prefixed so that modules which also
\* extend RingBuffer.tla do not see two definitions of Some/None
RSome(v) == [k |-> "some", v |-> v]
RNone    == [k |-> "none"]
RPanic   == [k |-> "panic"]
RUnit    == [k |-> "unit"]
RVal(v)  == [k |-> "val", v |-> v]
RItems(v) == [k |-> "items", v |-> v]

Widths == 1..32                                   \* dasp implements Frame for [S; N], N = 1..32

IsFrameOf(f, x, n) == Len(x) = n
Bare(s)   == << s >>                              \* a bare sample as a frame
Unbare(x) == x[1]

---------------------------------------------------------------------------
(* the lifting *)
FrLift1(Op(_), x)       == [c \in 1..Len(x) |-> Op(x[c])]
FrLift2(Op(_, _), x, y) == [c \in 1..Len(x) |-> Op(x[c], y[c])]          \* Len(y) = Len(x) by typing

\* map / zip_map with an arbitrary (pure) function: per channel, channel order
FrMap(Op(_), x)          == FrLift1(Op, x)
FrZipMap(Op(_, _), x, y) == FrLift2(Op, x, y)
\* The closures handed to map / zip_map / from_fn are FnMut: "in channel order" is observable.  A
\* closure that records its arguments and answers its k-th call with ys[k] sees exactly
\*   calls = the channels in order,   result = ys
FrMapCalls(x)       == x
FrZipMapCalls(x, y) == [c \in 1..Len(x) |-> << x[c], y[c] >>]
FrFromFnCalls(n)    == [c \in 1..n |-> c - 1]                              \* channel indices 0..n-1
FrFromFn(Fn(_), n)  == [c \in 1..n |-> Fn(c - 1)]

\* amplitude arithmetic (C03): offset_amp / scale_amp take ONE amplitude for all channels,
\* add_amp / mul_amp take a frame of amplitudes in the Signed / Float companion format
FrOffset(f, x, a) == FrLift1(LAMBDA s : AddAmp(f, s, a), x)
FrScale(f, x, g)  == FrLift1(LAMBDA s : MulAmp(f, s, g), x)
FrAdd(f, x, y)    == FrLift2(LAMBDA s, a : AddAmp(f, s, a), x, y)
FrMul(f, x, y)    == FrLift2(LAMBDA s, g : MulAmp(f, s, g), x, y)
FrOffsetDefined(f, x, a) == \A c \in 1..Len(x) : AddAmpDefined(f, x[c], a)
FrScaleDefined(f, x, g)  == \A c \in 1..Len(x) : MulAmpDefined(f, x[c], g)
FrAddDefined(f, x, y)    == \A c \in 1..Len(x) : AddAmpDefined(f, x[c], y[c])
FrMulDefined(f, x, y)    == \A c \in 1..Len(x) : MulAmpDefined(f, x[c], y[c])

\* conversion to the companion formats, equilibrium
FrToSigned(f, x)     == FrLift1(LAMBDA s : Conv(f, SignedOf(f), s), x)
FrToFloat(f, x)      == FrLift1(LAMBDA s : Conv(f, FloatOf(f), s), x)
FrEquilibrium(f, n)  == [c \in 1..n |-> Equil(f)]

\* from_samples(&mut it): Some(first n items) when the iterator yields at least n, else None.
\* The iterator is borrowed, so what is left in it afterwards is observable: on success exactly
\* n items were consumed; a short iterator (m < n items) has been drained (consumed = m) -- there
\* is no other way to learn that it is short.
FrFromSamples(n, it) ==
  IF Len(it) >= n THEN [ret |-> RSome(SubSeq(it, 1, n)), consumed |-> n,       rest |-> SubSeq(it, n + 1, Len(it))]
                  ELSE [ret |-> RNone,                   consumed |-> Len(it), rest |-> << >>]

\* channel iteration and indexing
FrChannels(x)      == x                                                    \* channel 0 first
FrChannelsRev(x)   == [c \in 1..Len(x) |-> x[Len(x) + 1 - c]]              \* double-ended iteration from the back
FrChannelsLens(x)  == [k \in 1..(Len(x) + 1) |-> Len(x) + 1 - k]           \* ExactSizeIterator::len before each next()
FrChannel(x, i)    == IF i >= 0 /\ i < Len(x) THEN RSome(x[i + 1]) ELSE RNone     \* i 0-based; out of range -> None
FrSetChannel(x, i, v) == IF i >= 0 /\ i < Len(x) THEN [x EXCEPT ![i + 1] = v] ELSE x

\* The channel iterators (channels() by value, channels_ref(), channels_mut()) as ITERATORS: an iterator IS the
\* sequence `rem` of the items it has yet to yield -- a fresh one holds channels 0..N-1 in order, each next() takes
\* the head, each next_back() (channels_ref / channels_mut only) the last.  Everything else std's Iterator offers is
\* positional RELATIVE TO `rem`: nth(j) yields rem[j] (0-based) and leaves what follows it, skip / step_by / last /
\* count / rev / nth_back accordingly.  Options travel as sequences of length 0 or 1.  (MC_Frame's IterLaws derive
\* every one of these from next / next_back alone.)
ItNext(rem)     == IF rem = << >> THEN [items |-> << >>, rem |-> << >>] ELSE [items |-> << Head(rem) >>, rem |-> Tail(rem)]
ItNextBack(rem) == IF rem = << >> THEN [items |-> << >>, rem |-> << >>]
                   ELSE [items |-> << rem[Len(rem)] >>, rem |-> SubSeq(rem, 1, Len(rem) - 1)]
ItFront(rem, k) ==      \* k calls of next(): what they returned as Some, what is left
  LET m == MinN(k, Len(rem)) IN [got |-> SubSeq(rem, 1, m), rem |-> SubSeq(rem, m + 1, Len(rem))]
ItBack(rem, k) ==       \* k calls of next_back()
  LET l == Len(rem) m == MinN(k, l) IN [got |-> [c \in 1..m |-> rem[l + 1 - c]], rem |-> SubSeq(rem, 1, l - m)]
ItNth(rem, j)     == IF j < Len(rem) THEN [items |-> << rem[j + 1] >>, rem |-> SubSeq(rem, j + 2, Len(rem))]
                     ELSE [items |-> << >>, rem |-> << >>]                      \* too short: None, and drained
ItNthBack(rem, j) == IF j < Len(rem) THEN [items |-> << rem[Len(rem) - j] >>, rem |-> SubSeq(rem, 1, Len(rem) - j - 1)]
                     ELSE [items |-> << >>, rem |-> << >>]
ItSkip(rem, a)    == SubSeq(rem, a + 1, Len(rem))                               \* skip(a).collect()
ItStepBy(rem, b)  == [c \in 1..((Len(rem) + b - 1) \div b) |-> rem[(c - 1) * b + 1]]   \* step_by(b).collect(), b >= 1
ItLast(rem)       == IF rem = << >> THEN << >> ELSE << rem[Len(rem)] >>
ItRev(rem)        == [c \in 1..Len(rem) |-> rem[Len(rem) + 1 - c]]
\* clone-and-continue (round 5): channels() and channels_ref() are Clone.  A clone IS an iterator over the very same
\* remaining items -- it continues where the original stands, it does not start over --, and draining the clone leaves
\* the original where it was.  cycle() (std: keeps a clone of the iterator it is given and re-clones it whenever the
\* running copy is exhausted) therefore repeats `rem`, not the whole frame; cycling an exhausted iterator yields nothing.
ItCycle(rem, j)   == IF rem = << >> THEN << >> ELSE [c \in 1..j |-> rem[((c - 1) % Len(rem)) + 1]]   \* cycle().take(j)
ItFwdOps  == {"nth", "skip", "step_by", "last", "count", "collect"}
ItBackOps == {"rev", "nth_back"}
ItCloneOps == {"clone", "cycle"}                                               \* channels(), channels_ref() (ChannelsMut is not Clone)
\* one call: the items it yields; for the calls that borrow the iterator (`alive`), what is left in it; count()'s answer
ItOp(op, j, rem) ==
  CASE op = "nth"      -> [items |-> ItNth(rem, j).items,     rem |-> ItNth(rem, j).rem,     alive |-> TRUE,  cnt |-> -1]
    [] op = "nth_back" -> [items |-> ItNthBack(rem, j).items, rem |-> ItNthBack(rem, j).rem, alive |-> TRUE,  cnt |-> -1]
    [] op = "skip"     -> [items |-> ItSkip(rem, j),          rem |-> << >>,                 alive |-> FALSE, cnt |-> -1]
    [] op = "step_by"  -> [items |-> ItStepBy(rem, j),        rem |-> << >>,                 alive |-> FALSE, cnt |-> -1]
    [] op = "last"     -> [items |-> ItLast(rem),             rem |-> << >>,                 alive |-> FALSE, cnt |-> -1]
    [] op = "count"    -> [items |-> << >>,                   rem |-> << >>,                 alive |-> FALSE, cnt |-> Len(rem)]
    [] op = "collect"  -> [items |-> rem,                     rem |-> << >>,                 alive |-> FALSE, cnt |-> -1]
    [] op = "rev"      -> [items |-> ItRev(rem),              rem |-> << >>,                 alive |-> FALSE, cnt |-> -1]
    \* clone: `items` = what the CLONE yields when drained, `rem` = what the original still holds afterwards
    [] op = "clone"    -> [items |-> rem,                     rem |-> rem,                   alive |-> TRUE,  cnt |-> -1]
    [] op = "cycle"    -> [items |-> ItCycle(rem, j),         rem |-> << >>,                 alive |-> FALSE, cnt |-> -1]

---------------------------------------------------------------------------
(* value sets used by MC_Frame / stimuli: boundary structured, per format *)
SOne == SFromInt(1)
IntBoundary(f, ks) ==    \* MIN, MAX, equilibrium and their neighbours; equilibrium +- 2^k (+-1) for k in ks
  LET e == EquilI(f)
      raw == {MinV(f), SAdd(MinV(f), SOne), MaxV(f), SSub(MaxV(f), SOne), e, SAdd(e, SOne), SSub(e, SOne)}
             \cup UNION { { SAdd(e, SPow2(k)), SSub(e, SPow2(k)),
                            SAdd(e, SAdd(SPow2(k), SOne)), SSub(e, SAdd(SPow2(k), SOne)),
                            SAdd(e, SSub(SPow2(k), SOne)), SSub(e, SSub(SPow2(k), SOne)) } : k \in ks }
  IN { v \in raw : InRange(f, v) }

\* floats by fields: sign, biased exponent, mantissa (as a Big natural)
Fld(s, e, m) == [s |-> s, e |-> e, m |-> m]
FOne(F)   == Fld(0, F.bias, << >>)                 \* 1.0
FPow2(F, s, k) == Fld(s, F.bias + k, << >>)        \* +-2^k (normal range)
FMantAllOnes(F) == BSub(BPow2(F.p - 1), << 1 >>)
FloatBoundary(F) ==
  UNION { { Fld(s, 0, << >>),                       \* +-0
            Fld(s, 0, << 1 >>),                     \* smallest subnormal
            Fld(s, 0, FMantAllOnes(F)),             \* largest subnormal
            Fld(s, 1, << >>),                       \* smallest normal
            FPow2(F, s, 0), FPow2(F, s, -1), FPow2(F, s, -2), FPow2(F, s, -10), FPow2(F, s, -(F.p)),
            Fld(s, F.bias - 1, FMantAllOnes(F)),    \* largest below 1.0
            Fld(s, F.bias, << 1 >>),                \* 1.0 + ulp
            Fld(s, F.bias - 1, BPow2(F.p - 2)),     \* 0.75
            Fld(s, F.bias - 2, << 1 >>),            \* 0.25 + ulp
            Fld(s, F.bias - 4, BAdd(BPow2(F.p - 2), BPow2(F.p - 3))) }   \* 0.109375
          : s \in {0, 1} }

---------------------------------------------------------------------------
(* Scale by exactly 1.0 on EVERY sample value (round 4).                    *)
(*                                                                          *)
(* C03: "for every sample format and value ... scaling by 1.0 returns the   *)
(* same sample (exactly when the format fits its float companion's          *)
(* mantissa, otherwise within that float precision)".  MulAmp is a FUNCTION *)
(* only where the float product lies in [-1, 1) (MulAmpDefined).  The top   *)
(* 2^(bits-p-2) values of i32 u32 (f32, p = 24) and i64 u64 (f64, p = 53)   *)
(* have the float image +1.0 -- their amplitude rounds up to 2^(bits-1) --, *)
(* so their product with the gain 1.0 is exactly 1.0: outside that domain,  *)
(* and yet the property speaks about them.  For the gain 1.0 the claim      *)
(* there is the property's own RELATION: the result is a sample of the      *)
(* format within the float precision 2^(bits-p-2) (64 resp. 512, the bound  *)
(* MC_Frame's Scale1 proves below 1.0) of the original.  A float -> integer *)
(* conversion that saturates satisfies it (MC_Frame, UnitySat); one that    *)
(* wraps around to MIN does not.  Other gains whose product is >= 1.0 stay  *)
(* without a claim.                                                         *)
FltOf(f) == FmtOf(FloatOf(f))
FitsMantissa(f) == IsFloat(f) \/ Bits(f) <= FltOf(f).p
IsUnity(f, g)  == g = FOne(FltOf(f))                                       \* the gain +1.0 of f's Float format
UnitySlack(f)  == IF FitsMantissa(f) THEN SZero ELSE SPow2(Bits(f) - FltOf(f).p - 2)
MulAmpClaimed(f, s, g) == MulAmpDefined(f, s, g) \/ IsUnity(f, g)
MulAmpOk(f, s, g, r) ==          \* r is an admissible result of mul_amp(s, g), given MulAmpClaimed(f, s, g)
  IF MulAmpDefined(f, s, g) THEN r = MulAmp(f, s, g)
  ELSE InRange(f, r) /\ SLe(SAbs(SSub(r, s)), UnitySlack(f))               \* (integer formats only: floats are always defined)
FrScaleClaimed(f, x, g) == \A c \in 1..Len(x) : MulAmpClaimed(f, x[c], g)
FrScaleOk(f, x, g, r)   == Len(r) = Len(x) /\ \A c \in 1..Len(x) : MulAmpOk(f, x[c], g, r[c])
FrMulClaimed(f, x, y)   == \A c \in 1..Len(x) : MulAmpClaimed(f, x[c], y[c])
FrMulOk(f, x, y, r)     == Len(r) = Len(x) /\ \A c \in 1..Len(x) : MulAmpOk(f, x[c], y[c], r[c])

\* a.add_amp(b.mul_amp(g)) -- one channel of add_in_place_with_amp_per_channel: b in SignedOf(f), g in its Float format.
\* Where b * g is only claimed as the relation above (g = 1.0, b among the top values of i32 / i64) the scaled amplitude m
\* lies in [b - slack, b + slack] within SignedOf(f); AddAmp(f, a, .) is monotone and moves in steps of at most one, so
\* the admissible sums are exactly the interval between the sums at the two ends (claimed when both ends are defined).
SMinOf(x, y) == IF SLe(x, y) THEN x ELSE y
SMaxOf(x, y) == IF SLe(x, y) THEN y ELSE x
UnityLo(sf, b) == SMaxOf(MinV(sf), SSub(b, UnitySlack(sf)))
UnityHi(sf, b) == SMinOf(MaxV(sf), SAdd(b, UnitySlack(sf)))
AddMulClaimed(f, a, b, g) ==
  LET sf == SignedOf(f) IN
  IF MulAmpDefined(sf, b, g) THEN AddAmpDefined(f, a, MulAmp(sf, b, g))
  ELSE IsUnity(sf, g) /\ AddAmpDefined(f, a, UnityLo(sf, b)) /\ AddAmpDefined(f, a, UnityHi(sf, b))
AddMulOk(f, a, b, g, r) ==
  LET sf == SignedOf(f) IN
  IF MulAmpDefined(sf, b, g) THEN r = AddAmp(f, a, MulAmp(sf, b, g))
  ELSE SLe(AddAmp(f, a, UnityLo(sf, b)), r) /\ SLe(r, AddAmp(f, a, UnityHi(sf, b)))

\* the float -> integer conversion AS CODED for the primitive targets (`as` saturates): used by MC_Frame only, to show
\* that the relation above is satisfiable by the pinned code's route on every value
MulAmpSat(f, s, g) ==
  LET t == DTrunc(DScale2(Dec(FltOf(f), MulAmpProduct(f, s, g)), Bits(f) - 1))
      c == SMaxOf(SNeg(Half(f)), SMinOf(SSub(Half(f), SFromInt(1)), t))
  IN FromAmp(f, c)

\* the extreme values of a format: MAX - d and MIN + d for the distances d around the float precision of the companion
\* (0..3; 2^k - 1, 2^k, 2^k + 1 for k around bits-p-2; the rounding tie 3 * 2^(bits-p-2)), floats: +-largest finite
EdgeDists(f) ==
  LET sl == Bits(f) - FltOf(f).p - 2 IN
  {SFromInt(d) : d \in 0..3}
  \cup (IF FitsMantissa(f) THEN {}
        ELSE UNION { { SSub(SPow2(k), SOne), SPow2(k), SAdd(SPow2(k), SOne) } : k \in (sl - 1)..(sl + 2) }
             \cup { SSub(SMul(SFromInt(3), SPow2(sl)), SOne), SMul(SFromInt(3), SPow2(sl)), SAdd(SMul(SFromInt(3), SPow2(sl)), SOne) })
FMaxFinite(F, s) == Fld(s, EMax(F) - 1, FMantAllOnes(F))
TopEdge(f)    == { SSub(MaxV(f), d) : d \in EdgeDists(f) }
BottomEdge(f) == { SAdd(MinV(f), d) : d \in EdgeDists(f) }
EdgeValues(f) == IF IsFloat(f) THEN { FMaxFinite(FmtOf(f), 0), FMaxFinite(FmtOf(f), 1) } ELSE TopEdge(f) \cup BottomEdge(f)
=============================================================================
