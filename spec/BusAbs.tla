------------------------------ MODULE BusAbs ------------------------------
(***************************************************************************)
(* Integer abstraction of Bus.tla for Apalache: three reusable output      *)
(* slots, the backlog as the interval (pulled - blen, pulled].  IndInv is  *)
(* inductive for histories of any length; it implies GapFree, Pending,     *)
(* PullOnce and Backlog of MC_Bus for up to three simultaneously live      *)
(* outputs and any number of outputs over time.                            *)
(***************************************************************************)
EXTENDS Integers

Slots == {1, 2, 3}

VARIABLES
  \* @type: Set(Int);
  live,
  \* @type: Int -> Int;
  fr,
  \* @type: Int -> Int;
  want,
  \* @type: Int;
  blen,
  \* @type: Int;
  pulled,
  \* @type: Int;
  lastFrame,
  \* @type: Int;
  lastWant

ConstInit == TRUE

Init == /\ live = {} /\ fr = [s \in Slots |-> 0] /\ want = [s \in Slots |-> 1]
        /\ blen = 0 /\ pulled = 0 /\ lastFrame = 0 /\ lastWant = 0

\* want[s] = index of the next source frame output s must receive (layer 1)
Send(s) == /\ s \notin live /\ live' = live \union {s}
           /\ fr' = [fr EXCEPT ![s] = blen] /\ want' = [want EXCEPT ![s] = pulled + 1]
           /\ UNCHANGED << blen, pulled, lastFrame, lastWant >>

NextFrame(s) ==
  /\ s \in live
  /\ LET r == fr[s]
         pull == ~(r < blen)
         blen1 == IF pull THEN blen + 1 ELSE blen
         pulled1 == IF pull THEN pulled + 1 ELSE pulled
         frame == IF pull THEN pulled + 1 ELSE pulled - blen + r + 1     \* buffer[r] of the interval
         least == \A o \in live : o = s \/ ~(fr[o] <= r)
     IN /\ pulled' = pulled1
        /\ lastFrame' = frame /\ lastWant' = want[s]
        /\ want' = [want EXCEPT ![s] = @ + 1]
        /\ IF least THEN /\ blen' = blen1 - 1
                         /\ fr' = [o \in Slots |-> IF o = s THEN r ELSE IF o \in live THEN fr[o] - 1 ELSE fr[o]]
                    ELSE /\ blen' = blen1
                         /\ fr' = [fr EXCEPT ![s] = r + 1]
  /\ UNCHANGED live

\* minimum of frames_read over the remaining outputs, or blen when none remain
IsMin(m, rest) == /\ (rest = {} => m = blen)
                  /\ (rest # {} => (\E o \in rest : fr[o] = m) /\ (\A o \in rest : fr[o] >= m) /\ m <= blen)
                  /\ (rest # {} /\ (\A o \in rest : fr[o] >= blen) => m = blen)
Drop(s) == /\ s \in live /\ live' = live \ {s}
           /\ \E m \in 0..blen :
                /\ LET rest == live \ {s} IN
                   IF rest = {} THEN m = blen
                   ELSE /\ \A o \in rest : (IF fr[o] <= blen THEN fr[o] ELSE blen) >= m
                        /\ \/ \E o \in rest : fr[o] = m
                           \/ (m = blen /\ \A o \in rest : fr[o] >= blen)
                /\ blen' = blen - m
                /\ fr' = [o \in Slots |-> IF o \in live /\ o # s THEN fr[o] - m ELSE fr[o]]
           /\ UNCHANGED << want, pulled, lastFrame, lastWant >>

Next == \E s \in Slots : Send(s) \/ NextFrame(s) \/ Drop(s)

Lag(s) == pulled + 1 - want[s]              \* frames pulled that s has not yet received
IndInv ==
  /\ live \subseteq Slots /\ blen >= 0 /\ pulled >= 0
  /\ lastFrame = lastWant                                       \* GapFree
  /\ \A s \in live : /\ fr[s] >= 0 /\ fr[s] <= blen
                     /\ blen - fr[s] = Lag(s)                   \* Pending
  /\ (blen > 0 => \E s \in live : fr[s] = 0)                    \* Backlog = the largest lag
  /\ (live = {} => blen = 0)

IndInit == /\ live \in SUBSET Slots
           /\ fr \in [Slots -> Int] /\ want \in [Slots -> Int]
           /\ blen \in Int /\ pulled \in Int /\ lastFrame \in Int /\ lastWant \in Int
           /\ IndInv
=============================================================================
