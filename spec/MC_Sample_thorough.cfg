SPECIFICATION Spec
CONSTANTS
  Tier = "thorough"
INVARIANTS
  Census
  ViaSigned ViaFloat
  InRangeII EqToEq ExtToExt Monotone WidenNarrowId NarrowFloors PathIndep SmallWidths FormulaAgree
  I2FRange I2FMono I2FExact F2IRange F2IMono F2IAnchors RoundTrip FFExact
  Closure FromInRange WidenId OrderIso SmallTypes Eleven
CHECK_DEADLOCK FALSE
