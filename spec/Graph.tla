------------------------------- MODULE Graph -------------------------------
(***************************************************************************)
(* dasp_graph: which nodes one `Processor::process` call invokes, in which *)
(* order, what every invocation is handed as inputs, and the sources() /   *)
(* sinks() helpers (property C09).  Constant-free: every operator takes    *)
(* the graph as a value, so Nodes.tla (nested GraphNode) and the MC / trace *)
(* modules can all reuse it.                                                *)
(*                                                                         *)
(* A graph value  g = [n |-> N, live |-> L, mult |-> m]                     *)
(*   node identifiers are the indices 0..N-1 (N = the container's index     *)
(*   bound); L \subseteq 0..N-1 are the nodes that exist (a StableGraph     *)
(*   keeps VACANT slots after node removals; for petgraph::Graph L is       *)
(*   everything); m[u][v] = number of parallel edges u -> v (self-loops     *)
(*   allowed; 0 whenever u or v is vacant).                                 *)
(*                                                                         *)
(* Layer 1 (the property, relational): Processed / OrderOK / InputsOK /    *)
(*   SeenOK / Sources / Sinks.                                              *)
(* Layer 2 (as coded): petgraph 0.5.1 `DfsPostOrder` over `Reversed(g)` as  *)
(*   a stack machine with nondeterministic neighbour order (the order in   *)
(*   which petgraph enumerates edges is not part of the property), plus    *)
(*   the processor's loop body of dasp_graph/src/lib.rs:313-344.            *)
(* MC_Graph checks that every layer-2 behaviour satisfies layer 1.          *)
(***************************************************************************)
EXTENDS Naturals, Integers, Sequences, FiniteSets

GIds(g) == 0..(g.n - 1)
GWellFormed(g) ==
  /\ g.live \subseteq GIds(g)
  /\ \A u \in GIds(g) : \A v \in GIds(g) :
        g.mult[u][v] >= 0 /\ ((u \notin g.live \/ v \notin g.live) => g.mult[u][v] = 0)

\* the graph described by an edge list (pairs <<u, v>>, one entry per parallel edge)
RECURSIVE EdgeCount(_, _, _)
EdgeCount(edges, u, v) ==
  IF edges = << >> THEN 0
  ELSE EdgeCount(Tail(edges), u, v) + (IF Head(edges)[1] = u /\ Head(edges)[2] = v THEN 1 ELSE 0)
GraphOf(n, live, edges) ==
  [n |-> n, live |-> live, mult |-> [u \in 0..(n - 1) |-> [v \in 0..(n - 1) |-> EdgeCount(edges, u, v)]]]

SeqRange(s) == {s[i] : i \in 1..Len(s)}
SeqCount(s, x) == Cardinality({i \in 1..Len(s) : s[i] = x})
SeqPos(s, x) == CHOOSE i \in 1..Len(s) : s[i] = x

---------------------------------------------------------------------------
(* layer 1 *)

\* every node with a directed path to `out`, and `out` itself
RECURSIVE GrowUp(_, _)
GrowUp(g, S) ==
  LET T == S \cup {u \in g.live : \E v \in S : g.mult[u][v] > 0}
  IN IF T = S THEN S ELSE GrowUp(g, T)
Processed(g, out) == GrowUp(g, {out})

\* the subgraph induced by S has no directed cycle (a self-loop is a cycle)
RECURSIVE Peel(_, _)
Peel(g, S) ==
  LET R == {v \in S : \A u \in S : g.mult[u][v] = 0}
  IN IF R = {} THEN S ELSE Peel(g, S \ R)
Acyclic(g, S) == Peel(g, S) = {}
\* ... no cycle through two or more nodes (self-loops ignored)
RECURSIVE PeelNS(_, _)
PeelNS(g, S) ==
  LET R == {v \in S : \A u \in S \ {v} : g.mult[u][v] = 0}
  IN IF R = {} THEN S ELSE PeelNS(g, S \ R)
AcyclicModuloSelfLoops(g, S) == PeelNS(g, S) = {}

\* the invocation sequence: exactly the upstream set, once each ...
IsPermOf(order, S) == SeqRange(order) = S /\ Len(order) = Cardinality(S)
\* ... every node after all the (other) nodes that feed it
Topological(g, order) ==
  \A i \in 1..Len(order) : \A j \in 1..Len(order) :
     (i # j /\ g.mult[order[i]][order[j]] > 0) => i < j
\* a traversal cut short (a node panicked): the invocations so far are distinct upstream nodes, and in an acyclic
\* upstream set every node comes after ALL the nodes that feed it (so those must be in the prefix too)
PrefixOK(g, out, order) ==
  /\ SeqRange(order) \subseteq Processed(g, out) /\ Len(order) = Cardinality(SeqRange(order))
  /\ (Acyclic(g, Processed(g, out)) =>
        \A j \in 1..Len(order) : \A u \in Processed(g, out) :
           g.mult[u][order[j]] > 0 => \E i \in 1..(j - 1) : order[i] = u)
OrderOK(g, out, order) ==
  /\ IsPermOf(order, Processed(g, out))
  /\ (Acyclic(g, Processed(g, out)) => Topological(g, order))

\* what Node::process of n must be handed: one input per incoming edge from a DIFFERENT node
\* (a bag: u |-> number of copies), never n itself, nothing vacant / out of range
InDegree(g, n) == LET S == g.live \ {n}
                      RECURSIVE Sm(_)
                      Sm(T) == IF T = {} THEN 0 ELSE LET u == CHOOSE x \in T : TRUE IN g.mult[u][n] + Sm(T \ {u})
                  IN Sm(S)
InputsOK(g, n, ins) ==      \* ins = sequence of node ids in the order presented
  /\ \A i \in 1..Len(ins) : ins[i] \in g.live /\ ins[i] # n
  /\ \A u \in g.live \ {n} : SeqCount(ins, u) = g.mult[u][n]
\* "referring to that neighbour's CURRENT output buffers": version counters.  ver0[u] = number of
\* invocations of u before this process call; the k-th invocation of the call sees, for input u,
\* the buffers as u's latest invocation left them.
CurVer(ver0, order, k, u) == ver0[u] + (IF \E j \in 1..(k - 1) : order[j] = u THEN 1 ELSE 0)
SeenOK(ver0, order, k, ins, seen) ==
  /\ Len(seen) = Len(ins)
  /\ \A i \in 1..Len(ins) : seen[i] = CurVer(ver0, order, k, ins[i])
VerAfter(g, ver0, order) == [u \in GIds(g) |-> ver0[u] + (IF u \in SeqRange(order) THEN 1 ELSE 0)]

Sources(g) == {v \in g.live : \A u \in g.live : g.mult[u][v] = 0}
Sinks(g)   == {u \in g.live : \A v \in g.live : g.mult[u][v] = 0}
\* a helper's result (sequence of yielded ids): exactly the set, nothing twice
HelperOK(items, S) == SeqRange(items) = S /\ Len(items) = Cardinality(S)

\* sources()/sinks() AS CODED at the pinned commit (lib.rs:349-374): scan the indices
\* 0..node_count() -- node_count() is the number of LIVE nodes, not the index bound -- and
\* keep an index when its neighbour iterator is empty (a vacant slot has no edges).
\* Equal to Sources/Sinks iff live = 0..Cardinality(live)-1; see CodedHelpersAgree.
SourcesAsCoded(g) == {v \in 0..(Cardinality(g.live) - 1) : \A u \in g.live : g.mult[u][v] = 0}
SinksAsCoded(g)   == {u \in 0..(Cardinality(g.live) - 1) : \A v \in g.live : g.mult[u][v] = 0}
CodedHelpersAgree(g) == SourcesAsCoded(g) = Sources(g) /\ SinksAsCoded(g) = Sinks(g)

---------------------------------------------------------------------------
(* layer 2: DfsPostOrder { stack, discovered, finished } on Reversed(graph) *)

\* all arrangements of a bag B (function x |-> count)
RECURSIVE BagPerms(_)
BagPerms(B) ==
  LET P == {x \in DOMAIN B : B[x] > 0}
  IN IF P = {} THEN {<< >>}
     ELSE UNION {{<< x >> \o s : s \in BagPerms([B EXCEPT ![x] = @ - 1])} : x \in P}
\* one canonical arrangement (ascending ids)
RECURSIVE BagSeqFrom(_, _)
BagSeqFrom(B, S) ==
  IF S = {} THEN << >>
  ELSE LET x == CHOOSE y \in S : \A z \in S : y <= z
       IN [i \in 1..B[x] |-> x] \o BagSeqFrom(B, S \ {x})
BagSeq(B) == BagSeqFrom(B, DOMAIN B)

\* processor.dfs_post_order.reset(..); .move_to(out)          (lib.rs:320-321)
DfsStart(out) == [stack |-> << out >>, disc |-> {}, fin |-> {}]
\* WITHOUT the reset (what a processor that kept its visit maps would do) -- for mutant analysis
DfsMoveTo(d, out) == [d EXCEPT !.stack = << out >>]
DfsDone(d) == d.stack = << >>

\* one iteration of the `while let Some(&nx) = self.stack.last()` loop of DfsPostOrder::next:
\* the set of possible [d |-> new traversal state, emit |-> << >> or << node >>]
DfsStep(g, d) ==
  LET nx == d.stack[Len(d.stack)] IN
  IF nx \notin d.disc
    THEN \* first visit: push every not-yet-discovered in-neighbour, once per parallel edge, any order
         LET disc2 == d.disc \cup {nx}
             B == [u \in g.live \ disc2 |-> g.mult[u][nx]]
         IN {[d |-> [stack |-> d.stack \o p, disc |-> disc2, fin |-> d.fin], emit |-> << >>] : p \in BagPerms(B)}
    ELSE \* pop; the first pop of a node yields it
         {[d |-> [stack |-> SubSeq(d.stack, 1, Len(d.stack) - 1), disc |-> d.disc, fin |-> d.fin \cup {nx}],
           emit |-> IF nx \notin d.fin THEN << nx >> ELSE << >>]}

\* the loop body of process(): the inputs handed to n -- `for in_n in neighbors_directed(n, Incoming)`
\* skipping in_n == n -- in any edge order
LoopInputs(g, n) == BagPerms([u \in g.live \ {n} |-> g.mult[u][n]])
LoopInputsCanon(g, n) == BagSeq([u \in g.live \ {n} |-> g.mult[u][n]])

\* every invocation order the traversal can produce (pure; for small graphs: GraphNode in Nodes.tla)
RECURSIVE DfsOrdersFrom(_, _, _)
DfsOrdersFrom(g, d, order) ==
  IF DfsDone(d) THEN {order}
  ELSE UNION {DfsOrdersFrom(g, r.d, order \o r.emit) : r \in DfsStep(g, d)}
DfsOrders(g, out) == DfsOrdersFrom(g, DfsStart(out), << >>)

\* a deterministic topological order of an acyclic node set (smallest ready id first)
RECURSIVE TopoSeq(_, _)
TopoSeq(g, S) ==
  IF S = {} THEN << >>
  ELSE LET R == {v \in S : \A u \in S \ {v} : g.mult[u][v] = 0}
           x == CHOOSE y \in R : \A z \in R : y <= z
       IN << x >> \o TopoSeq(g, S \ {x})
=============================================================================
