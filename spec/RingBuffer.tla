----------------------------- MODULE RingBuffer -----------------------------
(***************************************************************************)
(* dasp_ring_buffer: `Bounded` (FIFO queue with an upper bound) and        *)
(* `Fixed` (constant-length delay line).                                   *)
(*                                                                         *)
(* Two layers, both as pure operators so that Fork, Buffered, Rms, Sinc    *)
(* and the graph Delay node can instantiate them:                          *)
(*   layer 2 (implementation shaped): the code's own representation        *)
(*       Bounded  b = [data, start, len]   Fixed  f = [data, first]        *)
(*     one operator per method, transcribed from dasp_ring_buffer/lib.rs;  *)
(*   layer 1 (property): an ideal queue q (a sequence, oldest first).      *)
(* BAbs / FAbs are the refinement mappings.  MC_RingBuffer checks that     *)
(* every layer-2 operation from EVERY valid representation refines the     *)
(* layer-1 operation; Trace_RingBuffer accepts recorded executions of the  *)
(* real code by layer 1 (plus representation consistency of raw parts).    *)
(*                                                                         *)
(* `data` is a 1-based sequence; the code's 0-based slot k is data[k+1].   *)
(***************************************************************************)
EXTENDS Naturals, Integers, Sequences

Poison == -777                      \* content of a slot that holds no live element
Some(v) == [k |-> "some", v |-> v]
None    == [k |-> "none"]
Panic   == [k |-> "panic"]
Unit    == [k |-> "unit"]

---------------------------------------------------------------------------
(* layer 1: ideal bounded queue / delay line *)

QPush(q, cap, v) == IF Len(q) = cap
                      THEN [ret |-> Some(Head(q)), q |-> Append(Tail(q), v)]
                      ELSE [ret |-> None,          q |-> Append(q, v)]
QPop(q)          == IF Len(q) = 0 THEN [ret |-> None, q |-> q]
                    ELSE [ret |-> Some(Head(q)), q |-> Tail(q)]
QGet(q, i)       == IF i < Len(q) THEN Some(q[i + 1]) ELSE None       \* i is 0-based
QSet(q, i, v)    == [q EXCEPT ![i + 1] = v]                           \* i < Len(q)
QDrain(q, k)     == [items |-> SubSeq(q, 1, k), q |-> SubSeq(q, k + 1, Len(q))]  \* k <= Len(q)
RECURSIVE QExtend(_, _, _)
QExtend(q, cap, vs) == IF Len(vs) = 0 THEN q ELSE QExtend(QPush(q, cap, Head(vs)).q, cap, Tail(vs))

\* delay line of constant length N = Len(q)
DPush(q, v)   == [ret |-> Head(q), q |-> Append(Tail(q), v)]
DGet(q, i)    == q[(i % Len(q)) + 1]                                  \* indexing wraps modulo N
DSet(q, i, v) == [q EXCEPT ![(i % Len(q)) + 1] = v]
DRotate(q, k) == [i \in 1..Len(q) |-> q[((i - 1 + k) % Len(q)) + 1]] \* oldest becomes old index k
DLoop(q, n)   == [i \in 1..n |-> q[((i - 1) % Len(q)) + 1]]           \* first n items of looping iteration
RECURSIVE DExtend(_, _)
DExtend(q, vs) == IF Len(vs) = 0 THEN q ELSE DExtend(DPush(q, Head(vs)).q, Tail(vs))

---------------------------------------------------------------------------
(* layer 2: Bounded as coded *)

BCap(b)     == Len(b.data)
BRepOK(b)   == BCap(b) >= 1 /\ b.start < BCap(b) /\ b.len <= BCap(b)   \* from_raw_parts' asserts
BSlot(b, i) == ((b.start + i) % BCap(b)) + 1        \* position of the i-th live element (0-based i)
BAbs(b)     == [i \in 1..b.len |-> b.data[BSlot(b, i - 1)]]
BLive(b)    == {BSlot(b, i) : i \in 0..(b.len - 1)}

BPush(b, v) ==
  IF b.len = BCap(b)
    THEN [ret |-> Some(b.data[b.start + 1]),
          b   |-> [b EXCEPT !.data[b.start + 1] = v,
                            !.start = IF b.start + 1 >= BCap(b) THEN 0 ELSE b.start + 1]]
    ELSE [ret |-> None,
          b   |-> [b EXCEPT !.data[((b.start + b.len) % BCap(b)) + 1] = v, !.len = b.len + 1]]
BPop(b) ==
  IF b.len = 0 THEN [ret |-> None, b |-> b]
  ELSE [ret |-> Some(b.data[b.start + 1]),
        b   |-> [b EXCEPT !.start = IF b.start + 1 >= BCap(b) THEN 0 ELSE b.start + 1,
                          !.len = b.len - 1]]
\* the property's get: i-th live element.  (The pinned code computed `index % max_len`
\* without `start`; that is defect #1 of DESIGN section 7, repaired by a fix: commit.)
BGet(b, i) == IF i >= b.len THEN None ELSE Some(b.data[BSlot(b, i)])
BGetSlot(b, i) == BSlot(b, i)                        \* slot a get/get_mut touches
BSetAt(b, i, v) == [b EXCEPT !.data[BSlot(b, i)] = v]
\* slices(): split the backing slice at start; (start.., ..end) truncated to len
BSlices(b) ==
  LET tailLen == BCap(b) - b.start                   \* elements from start to the end of data
  IN IF tailLen <= b.len
       THEN << SubSeq(b.data, b.start + 1, BCap(b)), SubSeq(b.data, 1, b.len - tailLen) >>
       ELSE << SubSeq(b.data, b.start + 1, b.start + b.len), << >> >>
BIter(b) == BSlices(b)[1] \o BSlices(b)[2]
RECURSIVE BDrain(_, _)
BDrain(b, k) == IF k = 0 THEN [items |-> << >>, b |-> b]
                ELSE LET p == BPop(b) r == BDrain(p.b, k - 1)
                     IN [items |-> << p.ret.v >> \o r.items, b |-> r.b]
RECURSIVE BExtend(_, _)
BExtend(b, vs) == IF Len(vs) = 0 THEN b ELSE BExtend(BPush(b, Head(vs)).b, Tail(vs))
BFrom(data)     == [data |-> data, start |-> 0, len |-> 0]
BFromFull(data) == [data |-> data, start |-> 0, len |-> Len(data)]

---------------------------------------------------------------------------
(* layer 2: Fixed as coded *)

FLen(f)     == Len(f.data)
FRepOK(f)   == FLen(f) >= 1 /\ f.first < FLen(f)
FSlot(f, i) == ((f.first + i) % FLen(f)) + 1
FAbs(f)     == [i \in 1..FLen(f) |-> f.data[FSlot(f, i - 1)]]
FPush(f, v) == [ret |-> f.data[f.first + 1],
                f   |-> [f EXCEPT !.data[f.first + 1] = v,
                                  !.first = IF f.first + 1 = FLen(f) THEN 0 ELSE f.first + 1]]
FGet(f, i)      == f.data[FSlot(f, i)]
FSetAt(f, i, v) == [f EXCEPT !.data[FSlot(f, i)] = v]
FSetFirst(f, i) == [f EXCEPT !.first = i % FLen(f)]
FSlices(f)      == << SubSeq(f.data, f.first + 1, FLen(f)), SubSeq(f.data, 1, f.first) >>
FIter(f)        == FSlices(f)[1] \o FSlices(f)[2]
FIterLoop(f, n) == [i \in 1..n |-> f.data[FSlot(f, i - 1)]]
RECURSIVE FExtend(_, _)
FExtend(f, vs) == IF Len(vs) = 0 THEN f ELSE FExtend(FPush(f, Head(vs)).f, Tail(vs))
FFrom(data) == [data |-> data, first |-> 0]

---------------------------------------------------------------------------
(* operations as data: [ev, a] *)
New(i) == 100 + i      \* values written by operations (distinct from live values and Poison)
Seq1(n) == [i \in 1..n |-> New(i)]
\* mutable iteration / mutable slice pair: the i-th yielded reference is the i-th oldest element;
\* a driver that writes vs through the first min(len, Len(vs)) references replaces exactly those
WLen(q, vs) == IF Len(vs) <= Len(q) THEN Len(vs) ELSE Len(q)
WriteThrough(q, vs) == [i \in 1..Len(q) |-> IF i <= Len(vs) THEN vs[i] ELSE q[i]]
OpsB(b) ==
  LET cap == BCap(b) IN
     {[ev |-> "push", a |-> [v |-> New(0)]], [ev |-> "pop", a |-> [x |-> 0]], [ev |-> "views", a |-> [x |-> 0]],
      [ev |-> "clone", a |-> [x |-> 0]]}
  \cup {[ev |-> e, a |-> [i |-> i]] : e \in {"get", "index"}, i \in 0..cap}
  \cup {[ev |-> e, a |-> [i |-> i, v |-> New(1)]] : e \in {"get_mut", "index_mut"}, i \in 0..cap}
  \cup {[ev |-> "drain", a |-> [k |-> k]] : k \in 0..(b.len + 1)}
  \cup {[ev |-> "drain_nth", a |-> [k |-> k]] : k \in 0..(b.len + 1)}
  \cup {[ev |-> "drain_step", a |-> [k |-> k, m |-> m]] : k \in {1, 2, cap + 1}, m \in {0, 1, 2, cap + 1}}
  \cup {[ev |-> e, a |-> [x |-> 0]] : e \in {"drain_last", "drain_count"}}
  \cup {[ev |-> e, a |-> [vs |-> Seq1(b.len)]] : e \in {"iter_mut", "slices_mut"}}
  \cup {[ev |-> "extend", a |-> [vs |-> Seq1(n)]] : n \in {0, 1, 2, cap + 1}}


\* The draining iterator pops one element per `next`; the provided Iterator methods are repeated `next`:
\*   nth(k)            pops min(k+1, len) elements and returns the last of them only if there were k+1;
\*   step_by(k).take(m) yields elements 0, k, 2k, ...; a step that runs off the end pops everything left;
\*   last() / count()  pop everything.
DrainNthPops(len, k)      == IF k + 1 <= len THEN k + 1 ELSE len
DrainStepYield(len, k, m) == IF m = 0 \/ len = 0 THEN 0
                             ELSE LET all == ((len - 1) \div k) + 1 IN IF m <= all THEN m ELSE all
DrainStepPops(len, k, m)  == LET j == DrainStepYield(len, k, m) IN
                             IF j = m THEN (IF m = 0 THEN 0 ELSE (m - 1) * k + 1) ELSE len
DrainIterRet(items, op) ==
  LET len == Len(items) IN
  CASE op.ev = "drain_nth"   -> IF op.a.k + 1 <= len THEN Some(items[op.a.k + 1]) ELSE None
    [] op.ev = "drain_step"  -> [k |-> "items", v |-> [i \in 1..DrainStepYield(len, op.a.k, op.a.m) |-> items[(i - 1) * op.a.k + 1]]]
    [] op.ev = "drain_last"  -> IF len = 0 THEN None ELSE Some(items[len])
    [] op.ev = "drain_count" -> Some(len)
DrainIterPops(len, op) ==
  CASE op.ev = "drain_nth"  -> DrainNthPops(len, op.a.k)
    [] op.ev = "drain_step" -> DrainStepPops(len, op.a.k, op.a.m)
    [] OTHER -> len
DrainIterOps == {"drain_nth", "drain_step", "drain_last", "drain_count"}

BIdx(a) == IF a.i < 0 THEN 2000000000 ELSE a.i    \* i = -1 encodes usize::MAX (out of range for any capacity)
ApplyB(b, op) == \* layer 2
  CASE op.ev = "push"  -> BPush(b, op.a.v)
    [] op.ev = "pop"   -> BPop(b)
    [] op.ev \in {"views", "clone", "fmt"} -> [ret |-> Unit, b |-> b]   \* a clone is the same queue (same raw parts)
    [] op.ev = "get"   -> [ret |-> BGet(b, BIdx(op.a)), b |-> b]
    [] op.ev = "index" -> [ret |-> IF BIdx(op.a) >= b.len THEN Panic ELSE BGet(b, BIdx(op.a)), b |-> b]
    [] op.ev = "get_mut" -> IF BIdx(op.a) >= b.len THEN [ret |-> None, b |-> b]
                            ELSE [ret |-> BGet(b, BIdx(op.a)), b |-> BSetAt(b, BIdx(op.a), op.a.v)]
    [] op.ev = "index_mut" -> IF BIdx(op.a) >= b.len THEN [ret |-> Panic, b |-> b]
                              ELSE [ret |-> BGet(b, BIdx(op.a)), b |-> BSetAt(b, BIdx(op.a), op.a.v)]
    [] op.ev = "drain" -> LET k == IF op.a.k <= b.len THEN op.a.k ELSE b.len
                              r == BDrain(b, k)
                          IN [ret |-> [k |-> "items", v |-> r.items], b |-> r.b]
    [] op.ev \in DrainIterOps -> LET r == BDrain(b, DrainIterPops(b.len, op))
                                  IN [ret |-> DrainIterRet(BIter(b), op), b |-> r.b]
    [] op.ev \in {"iter_mut", "slices_mut"} ->
         \* writes vs[i] through the i-th yielded reference (slices: first then second)
         LET m == IF Len(op.a.vs) <= b.len THEN Len(op.a.vs) ELSE b.len
             W[i \in 0..m] == IF i = 0 THEN b ELSE BSetAt(W[i - 1], i - 1, op.a.vs[i])
         IN [ret |-> [k |-> "items", v |-> SubSeq(BIter(b), 1, m)], b |-> W[m]]
    [] op.ev = "extend" -> [ret |-> Unit, b |-> BExtend(b, op.a.vs)]

IdealB(q, cap, op) == \* layer 1
  CASE op.ev = "push"  -> QPush(q, cap, op.a.v)
    [] op.ev = "pop"   -> QPop(q)
    [] op.ev \in {"views", "clone", "fmt"} -> [ret |-> Unit, q |-> q]
    [] op.ev = "get"   -> [ret |-> QGet(q, BIdx(op.a)), q |-> q]
    [] op.ev = "index" -> [ret |-> IF BIdx(op.a) >= Len(q) THEN Panic ELSE QGet(q, BIdx(op.a)), q |-> q]
    [] op.ev = "get_mut" -> IF BIdx(op.a) >= Len(q) THEN [ret |-> None, q |-> q]
                            ELSE [ret |-> QGet(q, BIdx(op.a)), q |-> QSet(q, BIdx(op.a), op.a.v)]
    [] op.ev = "index_mut" -> IF BIdx(op.a) >= Len(q) THEN [ret |-> Panic, q |-> q]
                              ELSE [ret |-> QGet(q, BIdx(op.a)), q |-> QSet(q, BIdx(op.a), op.a.v)]
    [] op.ev = "drain" -> LET k == IF op.a.k <= Len(q) THEN op.a.k ELSE Len(q)
                              r == QDrain(q, k)
                          IN [ret |-> [k |-> "items", v |-> r.items], q |-> r.q]
    [] op.ev \in DrainIterOps -> [ret |-> DrainIterRet(q, op), q |-> QDrain(q, DrainIterPops(Len(q), op)).q]
    [] op.ev \in {"iter_mut", "slices_mut"} -> [ret |-> [k |-> "items", v |-> SubSeq(q, 1, WLen(q, op.a.vs))],
                                                 q   |-> WriteThrough(q, op.a.vs)]
    [] op.ev = "extend" -> [ret |-> Unit, q |-> QExtend(q, cap, op.a.vs)]

\* index arguments for Fixed: small ones and usize::MAX (tag "max")
RECURSIVE Pow2Mod(_, _)
Pow2Mod(k, n) == IF k = 0 THEN 1 % n ELSE (2 * Pow2Mod(k - 1, n)) % n
UsizeMaxMod(n) == (Pow2Mod(64, n) + n - 1) % n          \* (2^64 - 1) mod n
IdxVal(a, n) == IF a.i = -1 THEN UsizeMaxMod(n) ELSE a.i      \* i = -1 encodes usize::MAX
OpsF(f) ==
  LET n == FLen(f) IN
     {[ev |-> "push", a |-> [v |-> New(0)]], [ev |-> "views", a |-> [x |-> 0]], [ev |-> "clone", a |-> [x |-> 0]]}
  \cup {[ev |-> e, a |-> [i |-> i]] : e \in {"get", "index", "set_first"}, i \in (0..(2 * n)) \cup {-1}}
  \cup {[ev |-> e, a |-> [i |-> i, v |-> New(1)]] : e \in {"get_mut", "index_mut"}, i \in (0..(2 * n)) \cup {-1}}
  \cup {[ev |-> e, a |-> [vs |-> Seq1(n)]] : e \in {"iter_mut", "slices_mut"}}
  \cup {[ev |-> "extend", a |-> [vs |-> Seq1(k)]] : k \in {0, 1, n, n + 1}}

ApplyF(f, op) ==
  LET n == FLen(f) IN
  CASE op.ev = "push"  -> LET r == FPush(f, op.a.v) IN [ret |-> Some(r.ret), f |-> r.f]
    [] op.ev \in {"views", "clone", "fmt"} -> [ret |-> Unit, f |-> f]
    [] op.ev \in {"get", "index"} -> [ret |-> Some(FGet(f, IdxVal(op.a, n))), f |-> f]
    [] op.ev \in {"get_mut", "index_mut"} ->
         [ret |-> Some(FGet(f, IdxVal(op.a, n))), f |-> FSetAt(f, IdxVal(op.a, n), op.a.v)]
    [] op.ev = "set_first" -> [ret |-> Unit, f |-> FSetFirst(f, IdxVal(op.a, n))]
    [] op.ev \in {"iter_mut", "slices_mut"} ->
         LET m == IF Len(op.a.vs) <= n THEN Len(op.a.vs) ELSE n
             W[i \in 0..m] == IF i = 0 THEN f ELSE FSetAt(W[i - 1], i - 1, op.a.vs[i])
         IN [ret |-> [k |-> "items", v |-> SubSeq(FIter(f), 1, m)], f |-> W[m]]
    [] op.ev = "extend" -> [ret |-> Unit, f |-> FExtend(f, op.a.vs)]

IdealF(q, first, op) == \* set_first names an absolute slot, so layer 1 needs `first` for it
  LET n == Len(q) IN
  CASE op.ev = "push"  -> LET r == DPush(q, op.a.v) IN [ret |-> Some(r.ret), q |-> r.q]
    [] op.ev \in {"views", "clone", "fmt"} -> [ret |-> Unit, q |-> q]
    [] op.ev \in {"get", "index"} -> [ret |-> Some(DGet(q, IdxVal(op.a, n))), q |-> q]
    [] op.ev \in {"get_mut", "index_mut"} ->
         [ret |-> Some(DGet(q, IdxVal(op.a, n))), q |-> DSet(q, IdxVal(op.a, n), op.a.v)]
    [] op.ev = "set_first" -> [ret |-> Unit, q |-> DRotate(q, ((IdxVal(op.a, n) % n) + n - first) % n)]
    [] op.ev \in {"iter_mut", "slices_mut"} -> [ret |-> [k |-> "items", v |-> SubSeq(q, 1, WLen(q, op.a.vs))],
                                                 q   |-> WriteThrough(q, op.a.vs)]
    [] op.ev = "extend" -> [ret |-> Unit, q |-> DExtend(q, op.a.vs)]

---------------------------------------------------------------------------
(* Consistency of logged raw parts with the abstract queue (representation *)
(* freedom: how start/first evolve is not fixed by the property).          *)
BRawAgrees(raw, q) ==
  /\ Len(raw.data) >= 1 /\ raw.start < Len(raw.data) /\ raw.len <= Len(raw.data)
  /\ raw.len = Len(q)
  /\ \A i \in 1..Len(q) : raw.data[((raw.start + i - 1) % Len(raw.data)) + 1] = q[i]
FRawAgrees(raw, q) ==
  /\ Len(raw.data) = Len(q) /\ raw.first < Len(raw.data)
  /\ \A i \in 1..Len(q) : raw.data[((raw.first + i - 1) % Len(raw.data)) + 1] = q[i]
=============================================================================
