SPECIFICATION Spec
CONSTANTS
  Runs = 60
  Steps = 200
INVARIANTS Agree Rounds
CHECK_DEADLOCK FALSE
