SPECIFICATION Spec
CONSTANTS
  Runs = 12
  Steps = 120
INVARIANTS Agree Rounds
CHECK_DEADLOCK FALSE
