SPECIFICATION Spec
CONSTANTS
  Shapes <- ThoroughShapes
INVARIANTS WellFormed Partial Inputs Final FinalModuloSelfLoops Functional HelpersOnFullGraphs
CHECK_DEADLOCK FALSE
