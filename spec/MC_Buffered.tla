----------------------------- MODULE MC_Buffered -----------------------------
(* Every call sequence on a buffered signal, for every capacity, every valid *)
(* pre-fill / start offset and several source lengths: layer 2 (the code over *)
(* the Bounded ring buffer) delivers the stream layer 1 prescribes.           *)
EXTENDS Buffered, FiniteSets, TLC, Json, IOUtils, SequencesExt

CONSTANTS MaxCap, SrcLens, MaxDelivered, SeqLen
VARIABLES st, a, cap, srclen, last,
          firstExh,  \* frames delivered when exhaustion was first reported (-1: not yet)
          hist       \* the call sequence so far as stimulus events (history: the state graph is the tree of call sequences)
vars == << st, a, cap, srclen, last, firstExh, hist >>

Pre(i) == 900 + i         \* pre-filled frames are distinguishable from source frames
InitRb(c, s, ln) == [data |-> [i \in 1..c |-> IF ((i - 1 + c - s) % c) < ln THEN Pre(((i - 1 + c - s) % c) + 1) ELSE Poison],
                     start |-> s, len |-> ln]
Init == \E c \in 1..MaxCap : \E s \in 0..(c - 1) : \E ln \in 0..c : \E sl \in SrcLens :
          /\ cap = c /\ srclen = sl
          /\ st = [rb |-> InitRb(c, s, ln), pulls |-> 0]
          /\ a = AInit([i \in 1..ln |-> Pre(i)])
          /\ last = [op |-> "init", l2 |-> << >>, l1 |-> << >>]
          /\ firstExh = IF ln = 0 /\ sl = 0 THEN 0 ELSE -1
          /\ hist = << [ev |-> "reset", comp |-> "buffered",
                        cfg |-> [cap |-> c, start |-> s, len |-> ln, data |-> InitRb(c, s, ln).data, srclen |-> sl]] >>
Bound == a.d < MaxDelivered /\ Len(hist) <= SeqLen
StepNext == /\ Bound
            /\ LET r2 == BufNext(st, srclen) r1 == ANext(a, cap, srclen) IN
               /\ st' = r2.st /\ a' = r1.a
               /\ last' = [op |-> "next", l2 |-> << r2.frame >>, l1 |-> << r1.frame >>]
            /\ firstExh' = IF firstExh = -1 /\ AExhausted(ANext(a, cap, srclen).a, srclen) THEN a.d + 1 ELSE firstExh
            /\ hist' = Append(hist, [ev |-> "next", a |-> [x |-> 0]])
            /\ UNCHANGED << cap, srclen >>
StepFrames == /\ Bound
              /\ \E k \in {0, 1, cap, cap + 1} :
                   LET r2 == BufNextFrames(st, k, srclen) r1 == ANextFrames(a, k, cap, srclen) IN
                   /\ st' = r2.st /\ a' = r1.a
                   /\ last' = [op |-> "next_frames", l2 |-> r2.items, l1 |-> r1.items]
                   /\ firstExh' = IF firstExh = -1 /\ AExhausted(r1.a, srclen) THEN r1.a.d ELSE firstExh
                   /\ hist' = Append(hist, [ev |-> "next_frames", a |-> [k |-> k]])
              /\ UNCHANGED << cap, srclen >>
StepExh == /\ Bound /\ hist' = Append(hist, [ev |-> "is_exhausted", a |-> [x |-> 0]])
           /\ last' = [op |-> "is_exhausted", l2 |-> << IF BufExhausted(st, srclen) THEN 1 ELSE 0 >>,
                                                l1 |-> << IF AExhausted(a, srclen) THEN 1 ELSE 0 >>]
           /\ UNCHANGED << st, a, cap, srclen, firstExh >>
Next == StepNext \/ StepFrames \/ StepExh
Spec == Init /\ [][Next]_vars

StreamIs    == last.l2 = last.l1                               \* same frames, single or in batches
PullQuantum == st.pulls = a.pulls /\ a.pulls % cap = 0         \* whole buffers only
BufferedOK  == st.rb.len = a.b /\ BRepOK(st.rb)
ExhIff      == BufExhausted(st, srclen) = AExhausted(a, srclen)
\* drained to exhaustion: everything delivered = prefill, the source's frames, < cap padding
PadLtCap    == firstExh # -1 => firstExh - Len(a.prefill) - srclen < cap /\ firstExh >= Len(a.prefill) + srclen
NoPoison    == \A i \in 1..Len(last.l2) : last.l2[i] # Poison

---------------------------------------------------------------------------
(* stimuli: every complete call sequence (a leaf of the explored tree) is printed as one execution *)
Emit == Len(hist) = SeqLen + 1 => PrintT("STIM " \o ToJson(hist))
=============================================================================
