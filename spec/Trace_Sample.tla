---------------------------- MODULE Trace_Sample ----------------------------
(***************************************************************************)
(* Trace validation for dasp_sample: sample-format conversions (C01, C02)  *)
(* and the custom-width integer types (C15).                               *)
(*                                                                         *)
(* All events are calls of pure functions, so the log is judged in batch:  *)
(* every line on its own, bit for bit, against the defining formulas of    *)
(* SampleFormats.tla (Conv) and SampleTypes.tla (New, FromRep, Widen, Cmp, *)
(* Op).  Integers are compared exactly, floats by their IEEE fields.       *)
(* TLC prints                                                              *)
(*     <<"BAD", {l}>>      for every line l that is not accepted           *)
(*     <<"HEAPSET", {l}>>  for every line whose call touched the heap (C07)*)
(*     <<"OUTSIDE", {l}>>  for every line outside the properties' domains  *)
(*                         (reported, not judged)                          *)
(*     <<"COUNTS", #BAD, #HEAPSET, #OUTSIDE>>, <<"JUDGED", #lines>>        *)
(*                                                                         *)
(* Event formats: harness/hx_sample/src/main.rs.                           *)
(***************************************************************************)
EXTENDS SampleFormats, SampleTypes, FiniteSets, TLC, Json, IOUtils

Rec == ndJsonDeserialize(IOEnv.TRACE)

---------------------------------------------------------------------------
(* well-formed encodings *)
WfFloat(f, j) == LET F == FmtOf(f) IN
  /\ j.s \in {0, 1} /\ j.e \in 0..EMax(F) /\ IsBig(j.m) /\ BBitLen(j.m) <= F.p - 1
WfSample(f, j) == IF IsFloat(f) THEN WfFloat(f, j) ELSE IsSJson(j)

---------------------------------------------------------------------------
(* one conversion step: is the logged result rj THE result of converting vj from s to d? *)

\* float -> float, total over all bit patterns: NaN -> some NaN, infinities keep their sign
OkFF(s, d, x, r) ==
  LET Fs == FmtOf(s) Fd == FmtOf(d) IN
  IF FIsNan(Fs, x) THEN FIsNan(Fd, r)
  ELSE IF FIsInf(Fs, x) THEN r = FInfF(Fd, x.s)
  ELSE r = ConvFF(s, d, x)

\* the domain the properties quantify over
InDomain(s, d, vj) ==
  /\ s \in Formats /\ d \in Formats /\ s # d /\ WfSample(s, vj)
  /\ IF IsFloat(s) THEN (IsFloat(d) \/ InUnitDomain(FmtOf(s), vj))
                   ELSE InRange(s, SFromJson(vj))

ConvOk(s, d, vj, rj) ==
  /\ WfSample(d, rj)
  /\ IF IsFloat(s) /\ IsFloat(d) THEN OkFF(s, d, vj, rj)
     ELSE IF IsFloat(d) THEN rj = ConvIF(s, d, SFromJson(vj))
     ELSE LET r == SFromJson(rj) IN
          /\ r = Conv(s, d, SampleFromJson(s, vj))
          /\ InRange(d, r)          \* explicit: I24 / U24 / I48 / U48 are built by the unchecked constructor

Min2(a, b) == IF a <= b THEN a ELSE b

\* the formats whose Rust type has a checked constructor `new` (the custom-width types I24 / U24 / I48 / U48)
Checked == {"i24", "u24", "i48", "u48"}
\* "every result is a valid in-range value of the target format", by the target type's own validity predicate:
\* nw is what <target type>::new(result.inner()) returned ({"k":"na"} for the primitive targets, which have none)
NewOk(d, rj, nw) ==
  IF d \in Checked THEN nw.k = "some" /\ nw.v = rj
                   ELSE nw.k = "na"

\* every API route returned the formula's value: Sample::to_sample, Sample::from_sample, conv::<src>::to_<dst>,
\* FromSample::from_sample_, ToSample::to_sample_ (the harness encodes canonically, so the other routes are
\* compared with the first as encodings)
NRoutes == 5
AllRoutes(s, d, vj, rs) ==
  /\ Len(rs) = NRoutes
  /\ ConvOk(s, d, vj, rs[1])
  /\ \A k \in 2..NRoutes : rs[k] = rs[1]
OkConv(e) ==
  /\ e.r.k = "val"
  /\ AllRoutes(e.a.src, e.a.dst, e.a.v, e.r.v)
  /\ NewOk(e.a.dst, e.r.v[1], e.o.nw)

\* to_signed_sample / to_float_sample: a conversion into the format d of the Rust result type (logged), which
\* is a signed resp. a float format; identity when the format is its own companion
ViaDomain(s, vj) ==
  /\ s \in Formats /\ WfSample(s, vj)
  /\ (~IsFloat(s) => InRange(s, SFromJson(vj)))
OkVia(e) ==
  LET s == e.a.src  d == e.o.d IN
  /\ e.r.k = "val" /\ d \in Formats
  /\ (e.a.to = "signed" => IsSigned(d)) /\ (e.a.to = "float" => IsFloat(d))
  /\ (IsFloat(s) => IsFloat(d))
  /\ ConvOk(s, d, e.a.v, e.r.v)
  /\ NewOk(d, e.r.v, e.o.nw)

\* add_amp / mul_amp: the conversion into the companion format, the native operation there, the conversion back
\* (SampleFormats!AddAmp, MulAmp); judged where the sum stays in range resp. the product inside [-1, 1)
AmpDomain(e) ==
  LET s == e.a.src IN
  /\ s \in IntFormats /\ IsSJson(e.a.v) /\ InRange(s, SFromJson(e.a.v))
  /\ CASE e.a.op = "add" -> /\ IsSJson(e.a.g) /\ InRange(SignedOf(s), SFromJson(e.a.g))
                            /\ AddAmpDefined(s, SFromJson(e.a.v), SFromJson(e.a.g))
       [] e.a.op = "mul" -> /\ WfFloat(FloatOf(s), e.a.g) /\ FIsFinite(FmtOf(FloatOf(s)), e.a.g)
                            /\ MulAmpDefined(s, SFromJson(e.a.v), e.a.g)
       [] OTHER -> FALSE
OkAmp(e) ==
  LET s == e.a.src  v == SFromJson(e.a.v) IN
  /\ e.r.k = "val" /\ IsSJson(e.r.v)
  /\ e.o.g = (IF e.a.op = "add" THEN SignedOf(s) ELSE FloatOf(s))       \* the format the gain was passed in
  /\ SFromJson(e.r.v) = (IF e.a.op = "add" THEN AddAmp(s, v, SFromJson(e.a.g)) ELSE MulAmp(s, v, e.a.g))
  /\ InRange(s, SFromJson(e.r.v))
  /\ NewOk(s, e.r.v, e.o.nw)

\* the associated constants of `Sample`: EQUILIBRIUM is the format's equilibrium (0 for the signed formats,
\* 2^(bits-1) for the unsigned ones, +0.0 for the floats), IDENTITY is 1.0 in a float format; the published
\* extremes of the custom-width formats are the formats' extremes
IsEquil(f, j) == WfSample(f, j) /\ SampleFromJson(f, j) = Equil(f)
OkSConst(e) ==
  LET f == e.a.fmt  r == e.r.v IN
  /\ e.r.k = "val"
  /\ IsEquil(f, r.eq)
  /\ r.idf \in FloatFormats /\ WfFloat(r.idf, r.id) /\ r.id = Rne(FmtOf(r.idf), DFromInt(1))
  /\ IF f \in Checked
       THEN /\ Len(r.lim) = 2 /\ IsSJson(r.lim[1]) /\ IsSJson(r.lim[2])
            /\ SFromJson(r.lim[1]) = MinV(f) /\ SFromJson(r.lim[2]) = MaxV(f)
       ELSE Len(r.lim) = 0

\* "equilibrium maps to equilibrium", in terms of the library's own constants: both EQUILIBRIUM constants are the
\* formats' equilibria and every route takes the one to the other
OkEqConv(e) ==
  LET s == e.a.src  d == e.a.dst  r == e.r.v IN
  /\ e.r.k = "val"
  /\ IsEquil(s, r.se)
  /\ IsEquil(d, r.de)
  /\ AllRoutes(s, d, r.se, r.c)
  /\ r.c[1] = r.de
  /\ NewOk(d, r.c[1], e.o.nw)

\* two steps src -> mid -> dst by one route: each step is the formula; and where the property
\* promises it, the composition equals the direct conversion
OkConv2(e) ==
  LET s == e.a.src  m == e.a.mid  d == e.a.dst IN
  /\ e.r.k = "val"
  /\ ConvOk(s, m, e.a.v, e.r.v.mid)
  /\ (InDomain(m, d, e.r.v.mid) =>
        /\ ConvOk(m, d, e.r.v.mid, e.r.v.fin)
        /\ (~IsFloat(s) /\ ~IsFloat(m) /\ ~IsFloat(d) /\ Bits(m) >= Min2(Bits(s), Bits(d)) =>
              SFromJson(e.r.v.fin) = Conv(s, d, SFromJson(e.a.v)))                 \* C01 path independence
        /\ (~IsFloat(s) /\ IsFloat(m) /\ ~IsFloat(d) /\ Bits(d) >= Bits(s)
              /\ IsExactIn(FmtOf(m), DScale2(DFromS(Amp(s, SFromJson(e.a.v))), 0 - (Bits(s) - 1))) =>
              SFromJson(e.r.v.fin) = Conv(s, d, SFromJson(e.a.v))))                \* C02 float->int inverts exact int->float

---------------------------------------------------------------------------
(* custom-width types *)
B01(b) == IF b THEN 1 ELSE 0

OkTyConst(e) == LET t == e.a.ty IN
  /\ e.r.k = "val"
  /\ << SFromJson(e.r.v[1]), SFromJson(e.r.v[2]), SFromJson(e.r.v[3]) >> = << TMin(t), TMax(t), TEquil(t) >>

OkTyNew(e) == LET t == e.a.ty  v == SFromJson(e.a.v)  x == New(t, v) IN
  IF x.k = "some" THEN e.r.k = "some" /\ IsSJson(e.r.v) /\ SFromJson(e.r.v) = v
                  ELSE e.r.k = "none"

OkTyFrom(e) == LET t == e.a.ty  v == SFromJson(e.a.v) IN
  /\ e.r.k = "val" /\ IsSJson(e.r.v)
  /\ SFromJson(e.r.v) = FromRep(t, v)
  /\ TIn(t, SFromJson(e.r.v))

OkTyWiden(e) == LET t == e.a.ty  v == SFromJson(e.a.v) IN
  /\ e.r.k = "val" /\ IsSJson(e.r.v)
  /\ SFromJson(e.r.v) = Widen(t, e.a.from, v)
  /\ TIn(t, SFromJson(e.r.v))

\* [lt, le, gt, ge, eq, ne, cmp + 1, partial_cmp + 1]
OkTyCmp(e) == LET c == Cmp(SFromJson(e.a.a), SFromJson(e.a.b)) IN
  /\ e.r.k = "val"
  /\ e.r.v = << B01(c < 0), B01(c <= 0), B01(c > 0), B01(c >= 0), B01(c = 0), B01(c # 0), c + 1, c + 1 >>

OkTyOp(e) == LET t == e.a.ty
                 x == Op(t, e.a.op, SFromJson(e.a.a), SFromJson(e.a.b), e.o.debug) IN
  IF RangeOnlyOp(t, e.a.op)
    THEN e.r.k = "panic" \/ (e.r.k = "val" /\ IsSJson(e.r.v) /\ TIn(t, SFromJson(e.r.v)))
  ELSE IF x.k = "panic" THEN e.r.k = "panic"
  ELSE /\ e.r.k = "val" /\ IsSJson(e.r.v)
       /\ SFromJson(e.r.v) = x.v
       /\ TIn(t, SFromJson(e.r.v))                \* never outside [MIN, MAX]

\* compact sweep of the second operand over lo .. lo+n-1 (11-bit types, native integers)
OkTyOps(e) == LET t == e.a.ty  x == SToInt(SFromJson(e.a.a)) IN
  /\ e.r.k = "val" /\ Len(e.r.v) = e.a.n
  /\ \A j \in 1..e.a.n :
       LET y == e.r.v[j] IN
       /\ y = OpN(TBits(t), TSigned(t), e.a.op, x, e.a.lo + j - 1, e.o.debug)
       /\ (y = PanicN \/ InN(TBits(t), TSigned(t), y))

---------------------------------------------------------------------------
Known == {"reset", "conv", "conv2", "via", "amp", "sconst", "eqconv", "ty_const", "ty_new", "ty_from", "ty_widen", "ty_cmp", "ty_op", "ty_ops"}

\* is the event inside the domain the properties quantify over?  (anything else is reported, not judged)
Judged(e) ==
  CASE e.ev = "reset"    -> TRUE
    [] e.ev = "conv"     -> InDomain(e.a.src, e.a.dst, e.a.v)
    [] e.ev = "conv2"    -> InDomain(e.a.src, e.a.mid, e.a.v) /\ e.a.dst \in Formats /\ e.a.dst # e.a.mid
    [] e.ev = "via"      -> e.a.to \in {"signed", "float"} /\ ViaDomain(e.a.src, e.a.v)
    [] e.ev = "amp"      -> AmpDomain(e)
    [] e.ev = "sconst"   -> e.a.fmt \in Formats
    [] e.ev = "eqconv"   -> e.a.src \in Formats /\ e.a.dst \in Formats /\ e.a.src # e.a.dst
    [] e.ev = "ty_const" -> e.a.ty \in Types
    [] e.ev = "ty_new"   -> e.a.ty \in Types /\ IsSJson(e.a.v) /\ TRepIn(e.a.ty, SFromJson(e.a.v))
    [] e.ev = "ty_from"  -> e.a.ty \in Types /\ IsSJson(e.a.v) /\ TRepIn(e.a.ty, SFromJson(e.a.v))
    [] e.ev = "ty_widen" -> e.a.ty \in Types /\ e.a.from \in WidenSources(e.a.ty) /\ IsSJson(e.a.v)
                            /\ SrcIn(e.a.from, SFromJson(e.a.v))
    [] e.ev = "ty_cmp"   -> e.a.ty \in Types /\ IsSJson(e.a.a) /\ IsSJson(e.a.b)
                            /\ TIn(e.a.ty, SFromJson(e.a.a)) /\ TIn(e.a.ty, SFromJson(e.a.b))
    [] e.ev = "ty_op"    -> e.a.ty \in Types /\ e.a.op \in Ops /\ (HasOp(e.a.ty, e.a.op) \/ RangeOnlyOp(e.a.ty, e.a.op))
                            /\ IsSJson(e.a.a) /\ IsSJson(e.a.b)
                            /\ TIn(e.a.ty, SFromJson(e.a.a)) /\ TIn(e.a.ty, SFromJson(e.a.b))
    [] e.ev = "ty_ops"   -> e.a.ty \in {"I11", "U11"} /\ e.a.op \in {"add", "sub", "mul"}
                            /\ IsSJson(e.a.a) /\ TIn(e.a.ty, SFromJson(e.a.a))
                            /\ e.a.n >= 0 /\ InN(11, TSigned(e.a.ty), e.a.lo)
                            /\ (e.a.n = 0 \/ InN(11, TSigned(e.a.ty), e.a.lo + e.a.n - 1))
    [] OTHER -> FALSE

Accept(e) ==
  CASE e.ev = "reset"    -> e.r.k = "unit"
    [] e.ev = "conv"     -> OkConv(e)
    [] e.ev = "conv2"    -> OkConv2(e)
    [] e.ev = "via"      -> OkVia(e)
    [] e.ev = "amp"      -> OkAmp(e)
    [] e.ev = "sconst"   -> OkSConst(e)
    [] e.ev = "eqconv"   -> OkEqConv(e)
    [] e.ev = "ty_const" -> OkTyConst(e)
    [] e.ev = "ty_new"   -> OkTyNew(e)
    [] e.ev = "ty_from"  -> OkTyFrom(e)
    [] e.ev = "ty_widen" -> OkTyWiden(e)
    [] e.ev = "ty_cmp"   -> OkTyCmp(e)
    [] e.ev = "ty_op"    -> OkTyOp(e)
    [] e.ev = "ty_ops"   -> OkTyOps(e)

Ok(e) == e.ev \in Known /\ (Judged(e) => Accept(e))

\* C07 convention: a call that did not panic performs no allocation, reallocation or free
Panicked(e) == e.r.k = "panic" \/ (e.ev = "ty_ops" /\ \E j \in 1..Len(e.r.v) : e.r.v[j] = PanicN)
HeapOk(e) == e.ev = "reset" \/ Panicked(e) \/ e.h = << 0, 0, 0 >>

Bad     == { i \in 1..Len(Rec) : ~Ok(Rec[i]) }
HeapSet == { i \in 1..Len(Rec) : Rec[i].ev \in Known /\ ~HeapOk(Rec[i]) }
Outside == { i \in 1..Len(Rec) : Rec[i].ev \in Known /\ ~Judged(Rec[i]) }

\* One line per member: TLC pretty-prints a long set over many lines as `<< "BAD",\n   { 44,\n     45, ...`,
\* which line-oriented readers (kit.validate's regex included) do not recognise.
ASSUME \A i \in Bad : PrintT(<< "BAD", {i} >>)
ASSUME \A i \in HeapSet : PrintT(<< "HEAPSET", {i} >>)
ASSUME \A i \in Outside : PrintT(<< "OUTSIDE", {i} >>)
ASSUME PrintT(<< "COUNTS", Cardinality(Bad), Cardinality(HeapSet), Cardinality(Outside) >>)
ASSUME PrintT(<< "JUDGED", Len(Rec) >>)
=============================================================================
