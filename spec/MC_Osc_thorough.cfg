SPECIFICATION Spec
CONSTANTS
  MaxLog = 4
  MaxHz = 40
  Frames = 64
  NoiseM = 4
  NoiseLen = 5
  Thorough = TRUE
INVARIANTS PhaseRange PhaseStep SawRel SquareRel AmpRange HzPulls SineSpecial NoiseDeterministic NoiseTopSeeds
VIEW View
CHECK_DEADLOCK FALSE
