---- MODULE BigTest ----
EXTENDS Dyadic, Json, IOUtils, TLC
Rec == ndJsonDeserialize(IOEnv.TRACE)
OkInt(r) == LET a == SFromJson(r.a) b == SFromJson(r.b) IN
  /\ SAdd(a,b) = SFromJson(r.add) /\ SSub(a,b) = SFromJson(r.sub) /\ SMul(a,b) = SFromJson(r.mul)
  /\ SCmp(a,b) = r.cmp /\ SShl(a, r.k) = SFromJson(r.shl) /\ SFloorShr(a, r.k) = SFromJson(r.fshr)
  /\ BLowBits(a.mag, r.k) = r.low.l /\ BBitLen(a.mag) = r.bl /\ SModPow2(a, r.k) = SFromJson(r.mod)
OkF32(r) == /\ FMul(F32, r.a, r.b) = r.mul /\ FAdd(F32, r.a, r.b) = r.add
            /\ IsSqrtWithin(F32, DAbs(Dec(F32, r.a)), r.sqrt, 1)
            /\ (r.bz = 0 /\ FIsFinite(F32, r.div) /\ r.div.e # 0 => IsQuotient(F32, Dec(F32, r.a), Dec(F32, r.b), r.div))
OkF64(r) == /\ (FIsFinite(F64, r.mul) => FMul(F64, r.a, r.b) = r.mul) /\ FAdd(F64, r.a, r.b) = r.add
            /\ FCast(F64, F32, r.a) = r.to32
            /\ (r.big = 0 => DTrunc(Dec(F64, r.a)) = SFromJson(r.i))
OkI2F(r) == FFromS(F64, SFromJson(r.a)) = r.f64 /\ FFromS(F32, SFromJson(r.a)) = r.f32
Ok(r) == CASE r.t = "int" -> OkInt(r) [] r.t = "f32" -> OkF32(r) [] r.t = "f64" -> OkF64(r) [] r.t = "i2f" -> OkI2F(r)
Bad == {i \in 1..Len(Rec) : ~Ok(Rec[i])}
ASSUME PrintT(<<"BAD", Bad>>)
====
