-------------------------------- MODULE Fork --------------------------------
(***************************************************************************)
(* dasp_signal::Signal::fork -- two branches sharing one source through a  *)
(* Bounded ring buffer (property C12).                                     *)
(*                                                                         *)
(* Layer 2 (as coded, ForkShared in dasp_signal/src/lib.rs): the ring      *)
(* buffer rb (RingBuffer.tla's Bounded record), the flag `pending` naming  *)
(* the branch the buffered frames are waiting for, and the source.  The    *)
(* k-th frame pulled from the source is the number k, so `pulled` is both  *)
(* the pull counter and the last frame value.                              *)
(* Layer 1 (the property): per-branch positions pos[X] = frames delivered  *)
(* to X.  Branch X's next frame is pos[X] + 1; the source is pulled once   *)
(* per distinct frame (pulled = max pos); pending(X) = pulled - pos[X].    *)
(* Environment assumption of C12: a branch steps only while its lead over  *)
(* the other stays <= the ring buffer's capacity.                          *)
(***************************************************************************)
EXTENDS RingBuffer

Other(X) == IF X = "A" THEN "B" ELSE "A"

\* ---- layer 2: one branch `next`, exactly as the macro define_branch! codes it
\* st = [rb, pending, pulled]
FNext(st, X) ==
  LET mine == st.pending = X
      p    == BPop(st.rb)
  IN IF mine /\ p.ret.k = "some"
       THEN [frame |-> p.ret.v, st |-> [st EXCEPT !.rb = p.b]]
       ELSE LET f == st.pulled + 1 IN
            [frame |-> f,
             st    |-> [rb |-> BPush(st.rb, f).b,
                        pending |-> IF mine THEN Other(X) ELSE st.pending,
                        pulled |-> f]]
FPending(st, X) == IF st.pending = X THEN st.rb.len ELSE 0
FInit(cap, start) == [rb |-> [data |-> [i \in 1..cap |-> Poison], start |-> start, len |-> 0],
                      pending |-> "B", pulled |-> 0]

\* ---- layer 1: positions
MaxP(pos) == IF pos.A >= pos.B THEN pos.A ELSE pos.B
Lead(pos, X) == pos[X] - pos[Other(X)]
\* the step is inside the property's assumption iff afterwards X leads by at most cap
StepAllowed(pos, X, cap) == Lead(pos, X) + 1 <= cap
PNext(pos, X) == [pos EXCEPT ![X] = @ + 1]
PFrame(pos, X) == pos[X] + 1
PPending(pos, X) == MaxP(pos) - pos[X]
=============================================================================
