------------------------------ MODULE MC_Sinc ------------------------------
(***************************************************************************)
(* Exhaustive check of the sinc interpolator model (C18) for depth in      *)
(* 1..MaxDepth over every history of pushes and resets up to length        *)
(* 3*depth + 2 (priming, steady state, reset, priming again), directly and *)
(* through the Converter at ratio 1.  Source frame number j carries the    *)
(* value j + 1, so every frame is distinguishable from every other and     *)
(* from silence (0).                                                       *)
(*   GridDelay  at x = 0 layer 2 (centre tap of the ring) = layer 1 (the   *)
(*              frame pushed depth pushes ago, silence before)             *)
(*   ConvDelay  k-th converter output = source frame k - depth, k pulled   *)
(*   TapRange   every ring index read lies in 0..2*depth-1 while priming,  *)
(*              the left index never underflows (usize), and once primed   *)
(*              only the outermost right tap equals 2*depth (Fixed's       *)
(*              indexing wraps it onto slot 0; its kernel weight on the    *)
(*              grid is 0)                                                 *)
(*   ResetInit  reset restores the initial state exactly                   *)
(*   RingOK     the ring's representation invariant                        *)
(* Also writes the stimuli for the Rust harness (IOEnv.STIM_OUT).          *)
(***************************************************************************)
EXTENDS Sinc, FiniteSets, TLC, Json, IOUtils, SequencesExt

CONSTANTS MaxDepth, MaxResets
VARIABLES mode,     \* "direct" | "conv"
          depth,
          s,        \* layer 2: the interpolator (direct) / the converter's interpolator
          cv,       \* layer 2: converter bookkeeping [acc, pulled]
          hist,     \* layer 1: frames pushed since the last reset
          ops,      \* number of operations so far
          nres,     \* resets so far
          out,      \* last grid output: [v, want]
          wasReset  \* the last operation was a reset
vars == << mode, depth, s, cv, hist, ops, nres, out, wasReset >>

Bound == 3 * depth + 2
SrcVal(j) == j + 1                     \* j-th source frame (0-based)

Init == /\ mode \in {"direct", "conv"} /\ depth \in 1..MaxDepth
        /\ s = SincNew(depth) /\ cv = [acc |-> 0, pulled |-> 0]
        /\ hist = << >> /\ ops = 0 /\ nres = 0 /\ wasReset = FALSE
        /\ out = [v |-> SInterp0(SincNew(depth)), want |-> Silence]

\* direct: push the next source frame, then interpolate at x = 0
Push ==
  /\ mode = "direct" /\ ops < Bound
  /\ LET v == SrcVal(cv.pulled) s1 == SPush(s, v) h1 == Append(hist, v) IN
     /\ s' = s1 /\ hist' = h1 /\ cv' = [cv EXCEPT !.pulled = @ + 1]
     /\ out' = [v |-> SInterp0(s1), want |-> Grid(h1, depth)]
  /\ ops' = ops + 1 /\ wasReset' = FALSE /\ UNCHANGED << mode, depth, nres >>
\* direct: Interpolator::reset, then interpolate at x = 0
Reset ==
  /\ mode = "direct" /\ ops < Bound /\ nres < MaxResets
  /\ s' = SReset(s) /\ hist' = << >>
  /\ out' = [v |-> SInterp0(SReset(s)), want |-> Silence]
  /\ ops' = ops + 1 /\ nres' = nres + 1 /\ wasReset' = TRUE /\ UNCHANGED << mode, depth, cv >>
\* through the Converter at ratio 1
Conv ==
  /\ mode = "conv" /\ ops < Bound
  /\ LET r == ConvNext([s |-> s, acc |-> cv.acc, pulled |-> cv.pulled], SrcVal(cv.pulled)) IN
     /\ s' = r.c.s /\ cv' = [acc |-> r.c.acc, pulled |-> r.c.pulled]
     /\ hist' = IF r.c.pulled > cv.pulled THEN Append(hist, SrcVal(cv.pulled)) ELSE hist
     /\ out' = [v |-> r.out, want |-> IF ops - depth >= 0 THEN SrcVal(ops - depth) ELSE Silence]
     /\ r.x = 0                                    \* always on the grid
  /\ ops' = ops + 1 /\ UNCHANGED << mode, depth, nres, wasReset >>
Next == Push \/ Reset \/ Conv
Spec == Init /\ [][Next]_vars

---------------------------------------------------------------------------
GridDelay == out.v = out.want /\ out.v = Grid(hist, depth)
ConvDelay == mode = "conv" => /\ cv.pulled = (IF ops = 0 THEN 0 ELSE ops - 1)
                              /\ (ops > 0 => out.v = ConvOut([j \in 1..cv.pulled |-> SrcVal(j - 1)], depth, ops - 1))
TapRange ==
  LET N == 2 * depth
      taps == LeftTaps(s) \cup RightTaps(s)
  IN /\ \A t \in LeftTaps(s) : t >= 0                         \* no unsigned underflow
     /\ \A t \in taps : t <= N
     /\ (s.idx < depth => \A t \in taps : t \in 0..(N - 1))   \* priming: strictly inside the ring
     /\ (\E t \in taps : t = N) => (s.idx = depth /\ N \notin LeftTaps(s))
     /\ SMaxDepth(s) \in 1..depth /\ s.idx \in 0..depth
     /\ s.idx \in LeftTaps(s)                                 \* the centre tap is always read
ResetInit == wasReset => s = SincNew(depth)
RingOK == RB!FRepOK(s.f) /\ RB!FLen(s.f) = 2 * depth
\* the interpolator is primed after depth pushes and then stays primed until reset
IdxLaw == s.idx = (IF Len(hist) <= depth THEN Len(hist) ELSE depth)

---------------------------------------------------------------------------
(* stimuli: maximal histories; frame values are small integers n (i16: n, floats: n / 2^15, exact, i32: see Fmts) *)
HistSet(d) == { h \in [1..(3 * d + 2) -> {"p", "r"}] : Cardinality({ i \in 1..(3 * d + 2) : h[i] = "r" }) <= MaxResets }
PushCount(h, i) == Cardinality({ j \in 1..i : h[j] = "p" })
Val(j, ch) == [c \in 1..ch |-> (IF j % 2 = 0 THEN 1 ELSE -1) * (256 * ((j % 7) + 1) + 64 * c)]
DirectOps(h, ch) ==
  LET n == Len(h)
      one(i) == IF h[i] = "p"
                  THEN << [ev |-> "push", a |-> [v |-> Val(PushCount(h, i), ch)]], [ev |-> "interp", a |-> [x |-> 0]] >>
                  ELSE << [ev |-> "clear", a |-> [x |-> 0]], [ev |-> "interp", a |-> [x |-> 0]] >>
      F[i \in 0..n] == IF i = 0 THEN << [ev |-> "interp", a |-> [x |-> 0]] >> ELSE F[i - 1] \o one(i)
  IN F[n]
\* (i32: the harness maps n to n * 2^20 + odd low bits -- near full scale, more significant bits than an f32)
Fmts == { << "f64", 1 >>, << "f32", 1 >>, << "i16", 1 >>, << "f32", 2 >>, << "i32", 1 >>, << "i32", 2 >> }
DirectStim == UNION { UNION { { << [ev |-> "reset", comp |-> "sinc", cfg |-> [depth |-> d, fmt |-> fc[1], ch |-> fc[2]]] >> \o DirectOps(h, fc[2])
                                : h \in HistSet(d) } : fc \in Fmts } : d \in 1..MaxDepth }
ConvStim == UNION { UNION { { << [ev |-> "reset", comp |-> "sinc_conv",
                                  cfg |-> [depth |-> d, fmt |-> fc[1], ch |-> fc[2], ctor |-> ct,
                                           src |-> [j \in 1..(2 * d + 2) |-> Val(j, fc[2])]]] >>
                               \o [i \in 1..(3 * d + 4) |-> [ev |-> "next", a |-> [x |-> 0]]]
                              : ct \in {"scale", "sample", "hz"} } : fc \in Fmts } : d \in 1..MaxDepth }
\* round 4: the last frames read by consuming the converter through the provided Signal::take (`tail{m}`),
\* from the start, after the priming phase, and for the very last frame
TailStim == UNION { UNION { { << [ev |-> "reset", comp |-> "sinc_conv",
                                  cfg |-> [depth |-> d, fmt |-> fc[1], ch |-> fc[2], ctor |-> (<< "scale", "sample", "hz" >>)[(p % 3) + 1],
                                           src |-> [j \in 1..(2 * d + 2) |-> Val(j, fc[2])]]] >>
                               \o [i \in 1..p |-> [ev |-> "next", a |-> [x |-> 0]]]
                               \o << [ev |-> "tail", a |-> [m |-> 3 * d + 4 - p]] >>
                              : p \in {0, d, d + 1, 3 * d + 3} } : fc \in Fmts } : d \in 1..MaxDepth }
Stimuli == DirectStim \cup ConvStim \cup TailStim
WriteStimuli ==
  IF "STIM_OUT" \in DOMAIN IOEnv
    THEN /\ ndJsonSerialize(IOEnv.STIM_OUT, SetToSeq(Stimuli))
         /\ PrintT(<< "STIMULI", Cardinality(Stimuli) >>)
    ELSE TRUE
ASSUME WriteStimuli
=============================================================================
