------------------------------ MODULE MC_Sinc ------------------------------
(***************************************************************************)
(* Exhaustive check of the sinc interpolator model (C18) for depth in      *)
(* 1..MaxDepth over every history of pushes and resets up to length        *)
(* 3*depth + 2 (priming, steady state, reset, priming again), directly and *)
(* through the Converter at ratio 1.  Source frame number j carries the    *)
(* value j + 1, so every frame is distinguishable from every other and     *)
(* from silence (0) -- or, round 4b, it is an exact ZERO frame (PushZero / *)
(* ConvZero, at most MaxZ per behaviour): runs of silence of every length  *)
(* at every point of a history.  Round 4b also checks the LARGE depths     *)
(* BigDepths (the property quantifies over every depth): straight          *)
(* histories of 3*depth + 2 pushes with one reset at depth - 1, depth,     *)
(* depth + 1 or 2*depth + 1 pushes, and the converter chain.               *)
(*   GridDelay  at x = 0 layer 2 (centre tap of the ring) = layer 1 (the   *)
(*              frame pushed depth pushes ago, silence before)             *)
(*   ConvDelay  k-th converter output = source frame k - depth, k pulled   *)
(*   TapRange   every ring index read lies in 0..2*depth-1 while priming,  *)
(*              the left index never underflows (usize), and once primed   *)
(*              only the outermost right tap equals 2*depth (Fixed's       *)
(*              indexing wraps it onto slot 0; its kernel weight on the    *)
(*              grid is 0)                                                 *)
(*   ResetInit  reset restores the initial state exactly                   *)
(*   RingOK     the ring's representation invariant                        *)
(*   KernelForm at ANY position the tap sum as coded (abstract kernel      *)
(*              weights; two test kernels with pairwise distinct weights)  *)
(*              = the layer-1 linear form over the buffered frames         *)
(*              BufLin(hist, ..): a function of the last 2*depth frames    *)
(*              only, linear in them                                       *)
(*   SilentOut  a silent buffer gives silence (and only the buffer counts: *)
(*              a history of zeros is as good as a fresh interpolator)     *)
(* Also writes the stimuli for the Rust harness (IOEnv.STIM_OUT).          *)
(***************************************************************************)
EXTENDS Sinc, FiniteSets, TLC, Json, IOUtils, SequencesExt

CONSTANTS MaxDepth, MaxResets,
          BigDepths,   \* large depths that are model-checked too (straight histories)
          MaxZ,        \* exact-zero frames per behaviour (small depths)
          GridDepths,  \* large depths for which grid stimuli are written
          NearDepths   \* depths (>= 4) for which the positions next to the grid / near-integer converter phases are written
VARIABLES mode,     \* "direct" | "conv"
          depth,
          s,        \* layer 2: the interpolator (direct) / the converter's interpolator
          cv,       \* layer 2: converter bookkeeping [acc, pulled]
          hist,     \* layer 1: frames pushed since the last reset
          ops,      \* number of operations so far
          nres,     \* resets so far
          nz,       \* exact-zero frames pushed so far
          out,      \* last grid output: [v, want]
          wasReset  \* the last operation was a reset
vars == << mode, depth, s, cv, hist, ops, nres, nz, out, wasReset >>

Bound == 3 * depth + 2
Small == depth <= MaxDepth
SrcVal(j) == j + 1                     \* j-th source frame (0-based)

Init == /\ mode \in {"direct", "conv"} /\ depth \in (1..MaxDepth) \cup BigDepths
        /\ s = SincNew(depth) /\ cv = [acc |-> 0, pulled |-> 0]
        /\ hist = << >> /\ ops = 0 /\ nres = 0 /\ nz = 0 /\ wasReset = FALSE
        /\ out = [v |-> SInterp0(SincNew(depth)), want |-> Silence]

\* direct: push a source frame, then interpolate at x = 0
PushV(v) ==
  /\ mode = "direct" /\ ops < Bound
  /\ LET s1 == SPush(s, v) h1 == Append(hist, v) IN
     /\ s' = s1 /\ hist' = h1 /\ cv' = [cv EXCEPT !.pulled = @ + 1]
     /\ out' = [v |-> SInterp0(s1), want |-> Grid(h1, depth)]
  /\ ops' = ops + 1 /\ wasReset' = FALSE /\ UNCHANGED << mode, depth, nres >>
Push == PushV(SrcVal(cv.pulled)) /\ nz' = nz
PushZero == Small /\ nz < MaxZ /\ PushV(Silence) /\ nz' = nz + 1
\* direct: Interpolator::reset, then interpolate at x = 0
Reset ==
  /\ mode = "direct" /\ ops < Bound
  /\ IF Small THEN nres < MaxResets
     ELSE nres = 0 /\ Len(hist) \in {depth - 1, depth, depth + 1, 2 * depth + 1}
  /\ s' = SReset(s) /\ hist' = << >>
  /\ out' = [v |-> SInterp0(SReset(s)), want |-> Silence]
  /\ ops' = ops + 1 /\ nres' = nres + 1 /\ wasReset' = TRUE /\ UNCHANGED << mode, depth, cv, nz >>
\* through the Converter at ratio 1; v = the frame the source yields if it is pulled
ConvV(v) ==
  /\ mode = "conv" /\ ops < Bound
  /\ LET r == ConvNext([s |-> s, acc |-> cv.acc, pulled |-> cv.pulled], v)
         h1 == IF r.c.pulled > cv.pulled THEN Append(hist, v) ELSE hist
     IN
     /\ s' = r.c.s /\ cv' = [acc |-> r.c.acc, pulled |-> r.c.pulled]
     /\ hist' = h1
     /\ out' = [v |-> r.out, want |-> IF ops - depth >= 0 THEN h1[ops - depth + 1] ELSE Silence]
     /\ r.x = 0                                    \* always on the grid
  /\ ops' = ops + 1 /\ UNCHANGED << mode, depth, nres, wasReset >>
Conv == ConvV(SrcVal(cv.pulled)) /\ nz' = nz
\* (the very first call pulls nothing: a zero there would be the same behaviour as Conv)
ConvZero == Small /\ nz < MaxZ /\ cv.acc >= 1 /\ ConvV(Silence) /\ nz' = nz + 1
Next == Push \/ PushZero \/ Reset \/ Conv \/ ConvZero
Spec == Init /\ [][Next]_vars

---------------------------------------------------------------------------
GridDelay == out.v = out.want /\ out.v = Grid(hist, depth)
\* (hist = the source frames pulled so far: there is no reset in converter mode)
ConvDelay == mode = "conv" => /\ cv.pulled = (IF ops = 0 THEN 0 ELSE ops - 1)
                              /\ Len(hist) = cv.pulled
                              /\ (ops > 0 => out.v = ConvOut(hist, depth, ops - 1))
TapRange ==
  LET N == 2 * depth
      taps == LeftTaps(s) \cup RightTaps(s)
  IN /\ \A t \in LeftTaps(s) : t >= 0                         \* no unsigned underflow
     /\ \A t \in taps : t <= N
     /\ (s.idx < depth => \A t \in taps : t \in 0..(N - 1))   \* priming: strictly inside the ring
     /\ (\E t \in taps : t = N) => (s.idx = depth /\ N \notin LeftTaps(s))
     /\ SMaxDepth(s) \in 1..depth /\ s.idx \in 0..depth
     /\ s.idx \in LeftTaps(s)                                 \* the centre tap is always read
ResetInit == wasReset => s = SincNew(depth)
RingOK == RB!FRepOK(s.f) /\ RB!FLen(s.f) = 2 * depth
\* the interpolator is primed after depth pushes and then stays primed until reset
IdxLaw == s.idx = (IF Len(hist) <= depth THEN Len(hist) ELSE depth)

\* two abstract kernels with pairwise distinct tap weights (a tap read from the wrong frame changes the sum)
K1L == [n \in 0..(depth - 1) |-> 2 * n + 1]
K1R == [n \in 0..(depth - 1) |-> 2 * n + 2]
K2L == [n \in 0..(depth - 1) |-> (n + 1) * (n + 1)]
K2R == [n \in 0..(depth - 1) |-> (n + 1) * (n + 1) + n + 2]
KernelForm == /\ SInterpK(s, K1L, K1R) = BufLin(hist, depth, K1L, K1R)
              /\ SInterpK(s, K2L, K2R) = BufLin(hist, depth, K2L, K2R)
              /\ SMaxDepth(s) = HalfWidth(hist, depth) /\ s.idx = Centre(hist, depth)
SilentOut == BufSilent(hist, depth) => /\ SInterpK(s, K1L, K1R) = Silence /\ SInterpK(s, K2L, K2R) = Silence
                                       /\ \A i \in 0..(2 * depth - 1) : RB!FGet(s.f, i) = Silence

---------------------------------------------------------------------------
(* stimuli: maximal histories; frame values are small integers n = the AMPLITUDE in i16 units (i16: n, u16: n + 2^15,
   i8 / u8: n / 256, floats: n / 2^15, exact, 32-bit formats: see the harness, enc.rs) *)
HistSet(d) == { h \in [1..(3 * d + 2) -> {"p", "r"}] : Cardinality({ i \in 1..(3 * d + 2) : h[i] = "r" }) <= MaxResets }
PushCount(h, i) == Cardinality({ j \in 1..i : h[j] = "p" })
Val(j, ch) == [c \in 1..ch |-> (IF j % 2 = 0 THEN 1 ELSE -1) * (256 * ((j % 7) + 1) + 64 * c)]
Interp(x) == [ev |-> "interp", a |-> [x |-> x]]
NextEv == [ev |-> "next", a |-> [x |-> 0]]
DirectOps(h, ch) ==
  LET n == Len(h)
      one(i) == IF h[i] = "p"
                  THEN << [ev |-> "push", a |-> [v |-> Val(PushCount(h, i), ch)]], Interp(0) >>
                  ELSE << [ev |-> "clear", a |-> [x |-> 0]], Interp(0) >>
      F[i \in 0..n] == IF i = 0 THEN << Interp(0) >> ELSE F[i - 1] \o one(i)
  IN F[n]
\* (i32: the harness maps n to n * 2^20 + odd low bits -- near full scale, more significant bits than an f32)
Fmts == { << "f64", 1 >>, << "f32", 1 >>, << "i16", 1 >>, << "f32", 2 >>, << "i32", 1 >>, << "i32", 2 >>,
          << "u16", 2 >>, << "i8", 1 >> }
ConvFmts == Fmts \cup { << "u8", 1 >>, << "u32", 1 >> }
Ctors == << "scale", "sample", "hz" >>
DirectStim == UNION { UNION { { << [ev |-> "reset", comp |-> "sinc", cfg |-> [depth |-> d, fmt |-> fc[1], ch |-> fc[2]]] >> \o DirectOps(h, fc[2])
                                : h \in HistSet(d) } : fc \in Fmts } : d \in 1..MaxDepth }
ConvReset(d, fc, ct) == [ev |-> "reset", comp |-> "sinc_conv",
                         cfg |-> [depth |-> d, fmt |-> fc[1], ch |-> fc[2], ctor |-> ct,
                                  src |-> [j \in 1..(2 * d + 2) |-> Val(j, fc[2])]]]
ConvStim == UNION { UNION { { << ConvReset(d, fc, ct) >> \o [i \in 1..(3 * d + 4) |-> NextEv]
                              : ct \in {"scale", "sample", "hz"} } : fc \in ConvFmts } : d \in 1..MaxDepth }
\* round 4: the last frames read by consuming the converter through the provided Signal::take (`tail{m}`),
\* from the start, after the priming phase, and for the very last frame
TailStim == UNION { UNION { { << ConvReset(d, fc, Ctors[(p % 3) + 1]) >>
                               \o [i \in 1..p |-> NextEv]
                               \o << [ev |-> "tail", a |-> [m |-> 3 * d + 4 - p]] >>
                              : p \in {0, d, d + 1, 3 * d + 3} } : fc \in Fmts } : d \in 1..MaxDepth }

\* round 4b (a): the grid clauses at LARGE depths, every integer width and signedness (ratio-1 converter over
\* 2 d + 2 distinct frames, then silence; direct: priming, steady state, clear, priming again, x = 0 throughout)
GridFmtSeq == << << "i16", 1 >>, << "i32", 2 >>, << "u16", 2 >>, << "i8", 1 >>, << "u8", 1 >>, << "u32", 1 >>,
                 << "f64", 1 >>, << "f32", 2 >>, << "i16", 2 >>, << "i32", 1 >> >>
BigConvStim == UNION { { << ConvReset(d, GridFmtSeq[i], Ctors[((d + i) % 3) + 1]) >> \o [j \in 1..(3 * d + 4) |-> NextEv]
                         : i \in 1..Len(GridFmtSeq) } : d \in GridDepths }
PushEv(j, ch) == << [ev |-> "push", a |-> [v |-> Val(j, ch)]], Interp(0) >>
BigDirectOps(d, ch) ==
  LET n == 2 * d + 3
      F[i \in 0..n] == IF i = 0 THEN << Interp(0) >>
                       ELSE IF i = d + 3 THEN F[i - 1] \o << [ev |-> "clear", a |-> [x |-> 0]], Interp(0) >>
                       ELSE F[i - 1] \o PushEv(i, ch)
  IN F[n]
BigDirectStim == UNION { { << [ev |-> "reset", comp |-> "sinc", cfg |-> [depth |-> d, fmt |-> fc[1], ch |-> fc[2]]] >> \o BigDirectOps(d, fc[2])
                           : fc \in { << "i16", 1 >>, << "i32", 1 >>, << "u8", 2 >>, << "f32", 1 >> } } : d \in GridDepths }

\* round 4b (b): linearity on inputs with value-dependent structure.  Four instances are fed a, b, a + b, 2^k a
\* (`step`: push + interpolate at x/16; `probe`: interpolate again elsewhere).  One of the inputs is "special", the
\* other dense (never silent, all frames different), so that a + b is dense too:
\*   zero runs   p dense frames (p = 0: leading zeros; 1; 2 d: a full buffer), then z exact zeros for EVERY
\*               z in 0 .. 2 d + 1, then 2 dense frames; the special input is a, or b, or b = -a during the run
\*               (then it is a + b that falls silent)
\*   const       a run of 2 d + 1 equal frames; alt: alternating extremes; same: b = a; allzero; bothzero
LinFmtSeq == << << "f64", 1 >>, << "i16", 1 >>, << "f32", 2 >>, << "i32", 1 >>, << "u16", 2 >>, << "f64", 2 >>,
                << "i16", 2 >>, << "u32", 1 >> >>
IsFloatFmt(fc) == fc[1] \in {"f64", "f32"}
Dense(t, i, ch) == [c \in 1..ch |-> (IF (i + t) % 2 = 0 THEN 1 ELSE -1) * (256 * (((i + 3 * t) % 7) + 1) + 64 * c)]
NegF(f) == [c \in 1..Len(f) |-> 0 - f[c]]
ZeroF(ch) == [c \in 1..ch |-> 0]
StepEv(va, vb, x) == [ev |-> "step", a |-> [va |-> va, vb |-> vb, x |-> x]]
ProbeEv(x) == [ev |-> "probe", a |-> [x |-> x]]
LinReset(d, fc, k) == [ev |-> "reset", comp |-> "sinc_lin", cfg |-> [depth |-> d, fmt |-> fc[1], ch |-> fc[2], k |-> k]]
LinK(fc, i) == IF IsFloatFmt(fc) THEN (i % 17) - 8 ELSE (i % 5) - 2
\* who = 1: a has the zero run; 2: b has it; 3: b = -a during the run
ZeroRunOps(d, ch, p, z, who) ==
  LET n == p + z + 2
      inrun(i) == i > p /\ i <= p + z
      va(i) == IF who = 1 /\ inrun(i) THEN ZeroF(ch) ELSE Dense(1, i, ch)
      vb(i) == IF who = 2 /\ inrun(i) THEN ZeroF(ch)
               ELSE IF who = 3 /\ inrun(i) THEN NegF(Dense(1, i, ch)) ELSE Dense(2, i, ch)
      F[i \in 0..n] == IF i = 0 THEN << >>
                       ELSE F[i - 1] \o << StepEv(va(i), vb(i), ((5 * i + z) % 15) + 1), ProbeEv(8), ProbeEv((3 * i + p) % 16) >>
  IN F[n]
ZeroRunStim == UNION { UNION { UNION { { << LinReset(d, LinFmtSeq[((d + p + z + who) % Len(LinFmtSeq)) + 1], LinK(LinFmtSeq[((d + p + z + who) % Len(LinFmtSeq)) + 1], z + who)) >>
                                         \o ZeroRunOps(d, LinFmtSeq[((d + p + z + who) % Len(LinFmtSeq)) + 1][2], p, z, who)
                                         : who \in 1..3 } : z \in 0..(2 * d + 1) } : p \in {0, 1, 2 * d} } : d \in 1..MaxDepth }
\* extremes: full scale for floats (no overflow there), the top of the dense range for integers
Top(fc) == IF IsFloatFmt(fc) THEN 32767 ELSE 1920
SpecialOps(d, fc, kind) ==
  LET ch == fc[2]
      n == 2 * d + 5
      mid(i) == i > 2 /\ i <= n - 2
      va(i) == CASE kind = "const" /\ mid(i) -> Dense(1, 3, ch)
                 [] kind = "alt" /\ mid(i) -> [c \in 1..ch |-> IF i % 2 = 0 THEN Top(fc) ELSE 0 - Top(fc)]
                 [] kind \in {"allzero", "bothzero"} -> ZeroF(ch)
                 [] OTHER -> Dense(1, i, ch)
      vb(i) == CASE kind = "same" -> Dense(1, i, ch)
                 [] kind = "bothzero" -> ZeroF(ch)
                 [] OTHER -> Dense(2, i, ch)
      F[i \in 0..n] == IF i = 0 THEN << ProbeEv(8) >>
                       ELSE F[i - 1] \o << StepEv(va(i), vb(i), ((7 * i) % 15) + 1), ProbeEv((5 * i) % 16) >>
  IN F[n]
SpecialKinds == << "const", "alt", "same", "allzero", "bothzero" >>
SpecialStim == UNION { UNION { { << LinReset(d, LinFmtSeq[((d + ki + r) % Len(LinFmtSeq)) + 1], LinK(LinFmtSeq[((d + ki + r) % Len(LinFmtSeq)) + 1], d + ki)) >>
                                 \o SpecialOps(d, LinFmtSeq[((d + ki + r) % Len(LinFmtSeq)) + 1], SpecialKinds[ki])
                                 : r \in {0, 3} } : ki \in 1..Len(SpecialKinds) } : d \in 1..MaxDepth }
\* the same through four real Converters at a ratio other than 1 (`sinc_clin`): a = a burst of 3 frames, z in
\* {d, d + 1, 2 d} zeros, 3 more frames; b dense; read until every source frame has left the buffer
Ratios == << << 1, 2 >>, << 3, 10 >>, << 3, 2 >>, << 7, 16 >> >>
ClinSrc(t, z, ch) == [i \in 1..(z + 6) |-> IF t = 1 /\ i > 3 /\ i <= 3 + z THEN ZeroF(ch) ELSE Dense(t, i, ch)]
ClinStim == UNION { UNION { { LET fc == LinFmtSeq[((d + ri + z) % Len(LinFmtSeq)) + 1]
                                  rt == Ratios[ri]
                                  nout == (((z + 6 + 2 * d + 2) * rt[2]) \div rt[1]) + 1
                              IN << [ev |-> "reset", comp |-> "sinc_clin",
                                     cfg |-> [depth |-> d, fmt |-> fc[1], ch |-> fc[2], k |-> LinK(fc, z + ri),
                                              num |-> rt[1], den |-> rt[2], ctor |-> Ctors[((d + ri) % 3) + 1],
                                              a |-> ClinSrc(1, z, fc[2]), b |-> ClinSrc(2, z, fc[2])]] >>
                                 \o [i \in 1..nout |-> NextEv]
                              : z \in {d, d + 1, 2 * d} } : ri \in 1..Len(Ratios) } : d \in 1..MaxDepth }

\* round 5: the clauses "at ANY fractional position": positions right next to the grid.  (a) direct: a primed constant
\* buffer interpolated at 1 - 2^-k for every k = 1..53 (the last one is the largest double below 1) and at 2^-k for
\* every k = 1..53 and on down to the smallest subnormal; then, after a clear, while priming with distinct frames
\* (finite, = fresh twin).  Constant frames: 1/8 full scale for i16, 1/10 for i32 (no tap sum overflows).
PosF(kd, k) == [ev |-> "interpf", a |-> [kind |-> kd, k |-> k]]
TinyKs == << 54, 55, 64, 100, 537, 1022, 1023, 1073, 1074 >>
NearOps == [k \in 1..53 |-> PosF("onem", k)] \o [k \in 1..53 |-> PosF("pow", k)] \o [i \in 1..Len(TinyKs) |-> PosF("pow", TinyKs[i])]
ConstN(fc) == IF fc[1] = "i32" THEN 200 ELSE 3800
ConstF(fc) == [c \in 1..fc[2] |-> (IF c = 1 THEN 1 ELSE -1) * (ConstN(fc) + 16 * c)]
SmallVal(fc, j) == [c \in 1..fc[2] |-> (IF j % 2 = 0 THEN 1 ELSE -1) * ((ConstN(fc) \div 8) * ((j % 7) + 1) + c)]
NearGridOps(d, fc) ==
  << Interp(0) >> \o [i \in 1..(2 * d) |-> [ev |-> "push", a |-> [v |-> ConstF(fc)]]] \o << Interp(0) >> \o NearOps
  \o << [ev |-> "clear", a |-> [x |-> 0]], PosF("onem", 53), PosF("pow", 1074) >>
  \o [i \in 1..(4 * (d + 2)) |-> CASE i % 4 = 1 -> [ev |-> "push", a |-> [v |-> SmallVal(fc, (i + 3) \div 4)]]
                                    [] i % 4 = 2 -> PosF("onem", 53 - ((i \div 4) % 3))
                                    [] i % 4 = 3 -> PosF("pow", 50 + (i \div 4))
                                    [] OTHER -> Interp(0)]
NearFmts == { << "f64", 1 >>, << "f32", 2 >>, << "i16", 1 >>, << "i32", 1 >>, << "f64", 2 >>, << "u16", 1 >> }
NearGridStim == { << [ev |-> "reset", comp |-> "sinc", cfg |-> [depth |-> d, fmt |-> fc[1], ch |-> fc[2]]] >> \o NearGridOps(d, fc)
                  : d \in NearDepths, fc \in NearFmts }
\* (b) through the Converter: ratios whose accumulated phase comes within a few ulp of an integer by itself -
\* from below (1/10: output 10 is at 1 - 2^-53; 3/10, 7/10, 1/7, 2/3) and from above (11/10, 1/9) -, over constant
\* sources (a and b constant, hence a + b and 2^k a too), read until 2 depth + 14 frames have been pulled
NearRatios == << << 1, 10 >>, << 3, 10 >>, << 7, 10 >>, << 1, 7 >>, << 2, 3 >>, << 11, 10 >>, << 1, 9 >> >>
ConstClinStim ==
  { LET rt == NearRatios[ri]
        fc == LinFmtSeq[((d + ri) % Len(LinFmtSeq)) + 1]
        len == 2 * d + 14
        nout == ((len * rt[2]) \div rt[1]) + 1
        ca == [c \in 1..fc[2] |-> 1400 + 64 * c]
        cb == [c \in 1..fc[2] |-> 0 - (500 + 32 * c)]
    IN << [ev |-> "reset", comp |-> "sinc_clin",
           cfg |-> [depth |-> d, fmt |-> fc[1], ch |-> fc[2], k |-> (IF IsFloatFmt(fc) THEN ri - 4 ELSE (ri % 3) - 1),
                    num |-> rt[1], den |-> rt[2], ctor |-> Ctors[((d + ri) % 3) + 1],
                    a |-> [i \in 1..len |-> ca], b |-> [i \in 1..len |-> cb]]] >>
       \o [i \in 1..nout |-> NextEv]
    : ri \in 1..Len(NearRatios), d \in { x \in NearDepths : x <= 8 } }

Stimuli == NearGridStim \cup ConstClinStim \cup DirectStim \cup ConvStim \cup TailStim \cup BigConvStim \cup BigDirectStim
           \cup ZeroRunStim \cup SpecialStim \cup ClinStim
WriteStimuli ==
  IF "STIM_OUT" \in DOMAIN IOEnv
    THEN /\ ndJsonSerialize(IOEnv.STIM_OUT, SetToSeq(Stimuli))
         /\ PrintT(<< "STIMULI", Cardinality(Stimuli) >>)
    ELSE TRUE
ASSUME WriteStimuli
=============================================================================
