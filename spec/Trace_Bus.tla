----------------------------- MODULE Trace_Bus -----------------------------
(* Trace validation for the bus (C13): accept by layer 1 of Bus.tla.  The   *)
(* backlog length comes from the verification hook Bus::verif_backlog_len.  *)
(* IOEnv.BUS_PROP = "C05" (set by C05's check; absent = judge everything):   *)
(* only the exhaustion conjunct -- an output reports is_exhausted exactly    *)
(* when nothing is pending FOR IT and the source has ended -- may reject; an *)
(* event failing any other conjunct ends the execution as <<"DESYNC", l>>.   *)
EXTENDS Bus, TLC, Json, IOUtils

Rec == ndJsonDeserialize(IOEnv.TRACE)
VARIABLES l, a, srclen, skip,
          bus,    \* the Bus handle still exists (a `drop_bus` event drops it: outputs live on, the backlog hook is gone)
          lock,   \* this execution pulls all outputs in lock step (C07's bus clause applies)
          hw      \* heap footprint (live bytes) at the end of the first lock-step round, -1 before
vars == << l, a, srclen, skip, lock, hw, bus >>
Ev == Rec[l]
Consume == l <= Len(Rec) /\ l' = l + 1

SrcVal(f) == IF srclen < 0 \/ f <= srclen THEN f ELSE 0      \* finite sources continue with equilibrium
SrcExh(x) == srclen >= 0 /\ x.pulled >= srclen
\* o.pend = list of [key, pending_frames, is_exhausted] over the live outputs
ExhOnly == "BUS_PROP" \in DOMAIN IOEnv /\ IOEnv.BUS_PROP = "C05"
ObsX(o, x, b, exh) ==
  /\ o.ok
  /\ {o.pend[i][1] : i \in 1..Len(o.pend)} = ALive(x) /\ Len(o.pend) = Cardinality(ALive(x))
  /\ \A i \in 1..Len(o.pend) :
        /\ o.pend[i][2] = ALag(x, o.pend[i][1])               \* pending = pulled but not yet received
        /\ exh => o.pend[i][3] = (ALag(x, o.pend[i][1]) = 0 /\ SrcExh(x))
  /\ o.pulls = x.pulled                                       \* one pull per distinct frame
  /\ o.backlog = (IF b THEN ABacklog(x) ELSE -1)             \* exactly what the slowest live output lacks
ObsOK(o, x, b) == ObsX(o, x, b, TRUE)
K == Ev.a.key
Step == CASE Ev.ev = "send" -> [ret |-> [k |-> "unit"], a |-> ASend(a, K)]
          [] Ev.ev = "next" -> LET r == ANextFrame(a, K) IN [ret |-> [k |-> "val", v |-> SrcVal(r.frame)], a |-> r.a]
          [] Ev.ev = "drop" -> [ret |-> [k |-> "unit"], a |-> ADrop(a, K)]
          [] Ev.ev = "drop_bus" -> [ret |-> [k |-> "unit"], a |-> a]      \* the handle is not an output: nothing changes for them
\* C07: the bus may allocate, but pulled in lock step its backlog holds at most one frame and its
\* heap footprint stops growing after the first round
LockOK == ~lock \/ (/\ Ev.o.backlog <= 1
                    /\ (Ev.ev = "mark" => Ev.o.backlog = 0 /\ (hw >= 0 => Ev.o.live <= hw)))
BusNext == bus /\ Ev.ev # "drop_bus"
AcceptMarkX(e) == Ev.ev = "mark" /\ Ev.r.k = "unit" /\ ObsX(Ev.o, a, bus, e)
AcceptOpX(e) == /\ \/ Ev.ev = "send" /\ K \notin ALive(a) /\ bus
                   \/ Ev.ev \in {"next", "drop"} /\ K \in ALive(a)
                   \/ Ev.ev = "drop_bus" /\ bus
                /\ Ev.r = Step.ret /\ ObsX(Ev.o, Step.a, BusNext, e)
AcceptResetX(e) == Ev.r.k = "unit" /\ ObsX(Ev.o, AInit, TRUE, e)
AcceptMark == AcceptMarkX(TRUE)
AcceptOp == AcceptOpX(TRUE)
AcceptReset == AcceptResetX(TRUE)
\* a failed event: REJECT -- unless only the exhaustion conjunct is being judged and something else failed
Refuse(core) == IF ExhOnly /\ ~core THEN PrintT(<< "DESYNC", l >>) ELSE PrintT(<< "REJECT", l, Ev.ev >>)

TReset == /\ Consume /\ Ev.ev = "reset" /\ srclen' = Ev.cfg.srclen
          /\ lock' = ("lockstep" \in DOMAIN Ev.cfg) /\ hw' = -1 /\ bus' = TRUE
          /\ IF AcceptReset THEN a' = AInit /\ skip' = FALSE
             ELSE Refuse(AcceptResetX(FALSE)) /\ skip' = TRUE /\ UNCHANGED a
HeapLine == IF LockOK THEN TRUE ELSE PrintT(<< "HEAP", l, Ev.ev >>)   \* C07's lock-step clause, judged on its own
TOp == /\ Consume /\ Ev.ev # "reset" /\ ~skip /\ UNCHANGED lock
       /\ HeapLine                                                     \* (also when C13 rejects the event)
       /\ IF Ev.ev = "mark"
            THEN IF AcceptMark
                   THEN /\ hw' = IF hw < 0 THEN Ev.o.live ELSE hw
                        /\ UNCHANGED << a, srclen, skip, bus >>
                   ELSE Refuse(AcceptMarkX(FALSE)) /\ skip' = TRUE /\ UNCHANGED << a, srclen, hw, bus >>
            ELSE IF AcceptOp
                   THEN /\ a' = Step.a
                        \* the footprint is compared between rounds with the same set of outputs: attaching or
                        \* dropping an output may legitimately change it once (e.g. the backlog's storage is first
                        \* needed when a second output appears), so the reference is taken anew at the next mark
                        /\ hw' = IF Ev.ev \in {"send", "drop", "drop_bus"} THEN -1 ELSE hw
                        /\ bus' = BusNext
                        /\ UNCHANGED << srclen, skip >>       \* otherwise the bus is exempt from the no-allocation rule
                   ELSE Refuse(AcceptOpX(FALSE)) /\ skip' = TRUE /\ UNCHANGED << a, srclen, hw, bus >>
\* (after a functional rejection the rest of the execution is not judged for C13, but the lock-step
\* clause of C07 only reads the logged backlog / footprint, so it still is)
TSkip == Consume /\ Ev.ev # "reset" /\ skip /\ HeapLine /\ UNCHANGED << a, srclen, skip, lock, hw, bus >>
TraceInit == l = 1 /\ a = AInit /\ srclen = -1 /\ skip = TRUE /\ lock = FALSE /\ hw = -1 /\ bus = TRUE
TraceNext == TReset \/ TOp \/ TSkip
TraceSpec == TraceInit /\ [][TraceNext]_vars
AllConsumed == IF TLCGet("stats").diameter - 1 = Len(Rec) THEN TRUE
               ELSE PrintT(<< "STUCK", TLCGet("stats").diameter, Len(Rec) >>) /\ FALSE
=============================================================================
