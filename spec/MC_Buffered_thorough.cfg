SPECIFICATION Spec
CONSTANTS
  MaxCap = 4
  SrcLens = {0, 1, 3, 4, 9}
  MaxDelivered = 99
  SeqLen = 4
INVARIANTS StreamIs PullQuantum BufferedOK ExhIff PadLtCap NoPoison Emit
CHECK_DEADLOCK FALSE
