-------------------------------- MODULE Osc --------------------------------
(***************************************************************************)
(* dasp_signal oscillators and noise sources (property C17).               *)
(*                                                                         *)
(* Layer 1 (property):                                                     *)
(*   phase_0 = 0,  phase' = (phase + hz/rate) mod 1                        *)
(*   Saw = 1 - 2*phase,  Square = +1 iff phase < 1/2,  Sine = sin(2 pi p)  *)
(*   an Hz-driven oscillator pulls exactly one frequency frame per output  *)
(*   Noise(seed) = an uninterpreted PURE function of (seed, index)         *)
(* The phase is an exact rational pn/rate when rate and all hz are         *)
(* integers (PNext), an exact dyadic when rate is a power of two.          *)
(* The sine is never computed: it is pinned at the algebraic special       *)
(* points k/24 (table S4/SinSign: 4 sin^2(15 k deg) in Z[sqrt 3] and the   *)
(* sign), and elsewhere by range, half-cycle sign and antisymmetry.        *)
(*                                                                         *)
(* Layer 2 (implementation shaped, IEEE binary64 through Dyadic.tla):      *)
(*   step = RNE(hz / rate);  next = fmod(RNE(next + step), wrap)           *)
(*   saw = RNE(phase * -2 + 1);  square = phase < 0.5 ? 1 : -1             *)
(*   noise: out = N1(seed); seed = seed + 1 (u64)                          *)
(*                                                                         *)
(* The acceptance predicates at the end (PhaseAccept, SawAccept, ...) are  *)
(* what Trace_Osc applies to logged executions of the real code.           *)
(***************************************************************************)
EXTENDS Dyadic

---------------------------------------------------------------------------
(* tolerances as rational comparisons:  |x| <= c * 10^-12 *)
E12 == BMul(BFromNat(1000000), BFromNat(1000000))
DE12 == DMk(FALSE, E12, 0)
LeTol12(x, c) == DLe(DMul(DAbs(x), DE12), DFromInt(c))     \* |x| <= c e-12, c a small integer
LeTol12Of(x, y) == DLe(DMul(DAbs(x), DE12), DAbs(y))       \* |x| <= 1e-12 * |y|

DOne == DFromInt(1)
DHalf == DPow2(-1)
DInUnit(x) == DLe(DFromInt(-1), x) /\ DLe(x, DOne)          \* x in [-1, 1]

---------------------------------------------------------------------------
(* layer 1: the phase *)

\* integer domain: phase = pn / rate, hz and rate integers
PNext(pn, hz, rate) == (pn + hz) % rate

\* e mod 2^w for a dyadic e >= 0 (w = 0: fractional part)
DWrapPow2(e, w) == DSub(e, DScale2(DFromS(DFloor(DScale2(e, 0 - w))), w))
DFrac(e) == DWrapPow2(e, 0)
PhaseNext(ph, step) == DFrac(DAdd(ph, step))                  \* exact: (phase + step) mod 1

Saw(ph) == DSub(DOne, DScale2(ph, 1))                         \* 1 - 2 phase
Square(ph) == IF DLt(ph, DHalf) THEN DOne ELSE DFromInt(-1)   \* +1 on the first half-cycle

---------------------------------------------------------------------------
(* layer 1: the sine at the special points k/24 (k any integer)            *)
(* S4(k) = 4 sin^2(15 k degrees) = a + b sqrt 3, as the pair <<a, b>>      *)
Mod(k, m) == ((k % m) + m) % m
S4(k) == CASE Mod(k, 12) = 0 -> << 0, 0 >>
           [] Mod(k, 12) \in {1, 11} -> << 2, -1 >>
           [] Mod(k, 12) \in {2, 10} -> << 1, 0 >>
           [] Mod(k, 12) \in {3, 9}  -> << 2, 0 >>
           [] Mod(k, 12) \in {4, 8}  -> << 3, 0 >>
           [] Mod(k, 12) \in {5, 7}  -> << 2, 1 >>
           [] Mod(k, 12) = 6 -> << 4, 0 >>
SinSign(k) == IF Mod(k, 12) = 0 THEN 0 ELSE IF Mod(k, 24) < 12 THEN 1 ELSE -1
CosSign(k) == SinSign(k + 6)
C4(k) == S4(k + 6)                                            \* 4 cos^2

\* arithmetic in Z[sqrt 3]
ZAdd(x, y) == << x[1] + y[1], x[2] + y[2] >>
ZMul(x, y) == << x[1] * y[1] + 3 * x[2] * y[2], x[1] * y[2] + x[2] * y[1] >>
\* a + b sqrt3 compared with an integer c, using 1732/1000 < sqrt3 < 1733/1000
ZLeInt(x, c) == 1000 * x[1] + (IF x[2] >= 0 THEN 1733 ELSE 1732) * x[2] <= 1000 * c
ZGeInt(x, c) == 1000 * x[1] + (IF x[2] >= 0 THEN 1732 ELSE 1733) * x[2] >= 1000 * c

\* the table is a sine: Pythagoras, half-period antisymmetry, reflection, double angle, range
SineTableOK ==
  \A k \in 0..47 :
    /\ ZAdd(S4(k), C4(k)) = << 4, 0 >>
    /\ SinSign(k + 12) = 0 - SinSign(k) /\ S4(k + 12) = S4(k)
    /\ SinSign(12 - k) = SinSign(k) /\ S4(12 - k) = S4(k)
    /\ S4(2 * k) = ZMul(S4(k), C4(k))
    /\ SinSign(2 * k) = SinSign(k) * CosSign(k)
    /\ ZGeInt(S4(k), 0) /\ ZLeInt(S4(k), 4)
    /\ (SinSign(k) = 0) = (S4(k) = << 0, 0 >>)

\* y = sin(15 k degrees) to 1e-12, without any square root:
\*   rational targets (0, +-1/2, +-1): |y - y0| <= 1e-12
\*   y^2 = 1/2 or 3/4: sign and |4y^2 - a| <= 8e-12      (d(4y^2) = 8 y dy)
\*   y^2 = (2 +- sqrt3)/4: z = 4y^2 - 2 has the sign of b and |z^2 - 3| <= 30e-12
\* IsSin24T: the same with tolerance 1/T instead of 1e-12 (T a positive dyadic; binary32 data)
IsSin24T(y, k, T) ==
  LET a == S4(k)[1]
      b == S4(k)[2]
      sg == SinSign(k)
      y4 == DScale2(DMul(y, y), 2)                            \* 4 y^2
      z == DSub(y4, DFromInt(a))
      le(x, c) == DLe(DMul(DAbs(x), T), DFromInt(c))          \* |x| <= c / T
  IN IF b = 0 /\ a \in {0, 1, 4}
       THEN le(DSub(y, DScale2(DFromInt(sg * (IF a = 0 THEN 0 ELSE IF a = 1 THEN 1 ELSE 2)), -1)), 1)
     ELSE /\ DSign(y) = sg
          /\ IF b = 0 THEN le(z, 8)
             ELSE DSign(z) = b /\ le(DSub(DMul(z, z), DFromInt(3)), 30)
IsSin24(y, k) == IsSin24T(y, k, DE12)
IsCos24T(c, k, T) == IsSin24T(c, k + 6, T)
IsCos24(c, k) == IsSin24(c, k + 6)

\* non-special phases: range, sign by half-cycle, antisymmetry sine(p) = -sine(p + 1/2)
SineSignOK(ph, y) ==
  /\ (DLe(ph, DHalf) => DLe(DNeg(y), DZero) \/ LeTol12(y, 1))
  /\ (DLe(DHalf, ph) => DLe(y, DZero) \/ LeTol12(y, 1))
SineAntiOK(y, yshift) == LeTol12(DAdd(y, yshift), 1)

---------------------------------------------------------------------------
(* layer 1: noise is a pure function of (seed, index)                      *)
(* log = the values seen so far, log[i + 1] = output at index i            *)
NoiseConsistent(log, idx, v) == IF idx < Len(log) THEN log[idx + 1] = v ELSE idx = Len(log)
NoiseLog(log, idx, v) == IF idx < Len(log) THEN log ELSE Append(log, v)

---------------------------------------------------------------------------
(* layer 2: the code's float computation (binary64 fields in, fields out) *)
FOne == [s |-> 0, e |-> 1023, m |-> << >>]
FMinusOne == [s |-> 1, e |-> 1023, m |-> << >>]
FMinusTwo == [s |-> 1, e |-> 1024, m |-> << >>]
FHalfF == [s |-> 0, e |-> 1022, m |-> << >>]

\* hz / rate for rate = 2^r: exact scaling, then (trivially) rounded
StepPow2F(hz, r) == Rne(F64, DScale2(Dec(F64, hz), 0 - r))
\* (next + step) % 2^w : RNE add, exact fmod
PhaseNextF(ph, step, w) == Rne(F64, DWrapPow2(Dec(F64, FAdd(F64, ph, step)), w))
SawF(ph) == FAdd(F64, FMul(F64, ph, FMinusTwo), FOne)
SquareF(ph) == IF DLt(Dec(F64, ph), DHalf) THEN FOne ELSE FMinusOne

\* noise as coded: out = N1(seed), seed += 1 on u64 (modulus M in the model).
\* `checked` = overflow checks on (debug build): the increment of the top seed panics.
NoiseNextL2(seed, M, checked) ==
  [ok |-> ~(checked /\ seed + 1 >= M), seed |-> (seed + 1) % M]

\* N1 as coded, on exact naturals (Big.tla limbs): a chain of u64 operations, EVERY ONE of them wrapping
\*   x = (c << 13) ^ c;  out = 1 - (((x * ((x * x) * P1 + P2)) + P3) & 0x7fffffff) / 2^30      (c = seed + index)
\* NoiseStages gives the UNREDUCED result of each operation on its already reduced operands; an operation
\* "crosses" when that result does not fit 64 bits, i.e. it is where checked arithmetic (a build with overflow
\* checks: `+` / `*` instead of wrapping_add / wrapping_mul) and wrapping arithmetic part ways.  The property
\* wants a value at every counter in every build, so every operation of the chain has to be driven across
\* 2^64: NoiseCross is what Trace_Osc uses to verify that a stimulus labelled as crossing at an operation
\* really does (the crossing bands of `+ P2` and `+ P3` are 8e5 resp. 1.4e9 wide out of 2^64: no random
\* seed ever lands there).  The VALUE of the hash is not part of the property and is not judged.
RECURSIVE XorNat(_, _)
XorNat(a, b) == IF a = 0 THEN b ELSE IF b = 0 THEN a ELSE ((a + b) % 2) + 2 * XorNat(a \div 2, b \div 2)
BXor(a, b) ==
  LET n == IF Len(a) >= Len(b) THEN Len(a) ELSE Len(b)
      at(s, i) == IF i <= Len(s) THEN s[i] ELSE 0
  IN BNorm([i \in 1..n |-> XorNat(at(a, i), at(b, i))])
NoiseP1 == BFromNat(15731)
NoiseP2 == BFromNat(789221)
NoiseP3 == BFromNat(1376312589)
U64(a) == BLowBits(a, 64)
NoiseStages(c) ==  \* c = counter (a Big natural below 2^64)
  LET shl == BShl(c, 13)
      x   == BXor(U64(shl), c)
      sq  == BMul(x, x)
      m1  == BMul(U64(sq), NoiseP1)
      a2  == BAdd(U64(m1), NoiseP2)
      mx  == BMul(x, U64(a2))
      a3  == BAdd(U64(mx), NoiseP3)
  IN [shl |-> shl, sq |-> sq, m1 |-> m1, a2 |-> a2, mx |-> mx, a3 |-> a3]
NoiseOpNames == {"shl", "sq", "m1", "a2", "mx", "a3"}
NoiseCross(c) == LET s == NoiseStages(c) IN { o \in NoiseOpNames : BCmp(s[o], BPow2(64)) >= 0 }
\* the 31 bits that become the output: all ones = the smallest output the chain can produce
NoiseLow31(c) == BLowBits(NoiseStages(c).a3, 31)
NoiseLabelOK(c, lab) == IF lab = "lo31ones" THEN NoiseLow31(c) = BFromNat(2147483647) ELSE lab \in NoiseCross(c)

---------------------------------------------------------------------------
(* acceptance predicates for observed executions (Trace_Osc)               *)

\* q is hz/rate within k ulp (verify by inverse; no division)
\* ... and when hz/rate is itself a binary64 number the step must be exactly that number: the quotient
\* of an IEEE division is exact whenever it is representable, and only then do frequencies that are
\* whole multiples of the rate bring the phase back to exactly 0 (a neighbour c of q with c * rate = hz
\* exactly shows that the exact quotient is representable and is not q)
NeighbourIsExact(hz, rate, q) ==
  \E d \in {-2, -1, 1, 2} :
     LET c == DAdd(Dec(F64, q), DMul(DFromInt(d), Ulp(F64, q)))
     IN DEq(DMul(c, Dec(F64, rate)), Dec(F64, hz))
StepAccept(hz, rate, q, k) ==
  /\ IsQuotientWithin(F64, Dec(F64, hz), Dec(F64, rate), q, k)
  /\ ~NeighbourIsExact(hz, rate, q)

\* ph2 is (ph + q) mod 2^w within 2 ulp of the sum (the wrap itself is exact; the observed
\* value may sit on the other side of the wrap point), inside [0, 2^w), and EXACT when the sum
\* needs no rounding (exact-arithmetic stimulus domain)
PhaseAccept(ph, q, ph2, w) ==
  LET e  == DAdd(Dec(F64, ph), Dec(F64, q))
      ef == DWrapPow2(e, w)
      p2 == Dec(F64, ph2)
      tol == DScale2(Ulp(F64, Rne(F64, e)), 1)
      W == DPow2(w)
      near(x) == DLe(DAbs(DSub(p2, x)), tol)
  IN /\ FIsFinite(F64, ph2) /\ DLe(DZero, p2) /\ DLt(p2, W)
     /\ IF IsExactIn(F64, e) THEN DEq(p2, ef)
        ELSE near(ef) \/ near(DAdd(ef, W)) \/ near(DSub(ef, W))

SawAccept(ph, y) ==
  /\ FIsFinite(F64, y)
  /\ LET want == Saw(Dec(F64, ph)) IN
     IF IsExactIn(F64, want) THEN DEq(Dec(F64, y), want) ELSE WithinUlps(F64, want, y, 2)
SquareAccept(ph, y) == FIsFinite(F64, y) /\ DEq(Dec(F64, y), Square(Dec(F64, ph)))
RangeAccept(y) == FIsFinite(F64, y) /\ DInUnit(Dec(F64, y))
=============================================================================
