------------------------------ MODULE Trace_Rms ------------------------------
(***************************************************************************)
(* Trace validation for dasp_rms::Rms and the dasp_signal::rms adaptor     *)
(* (property C11), std and no_std builds.                                  *)
(*                                                                         *)
(* Header  {"ev":"reset","comp":"rms","cfg":{n,fmt,ch,via,build},...}      *)
(*   via   "direct": next / next_squared / current / rms_reset             *)
(*         "signal": sig_next / sig_next_squared (frames pulled from a     *)
(*                   source signal by the adaptor; a.x = the frame pulled) *)
(*   build "std" | "no_std" selects the square-root acceptance predicate.  *)
(* A line is accepted iff every channel's output lies within the rigorous  *)
(* bound of Rms.tla around the EXACT mean square of the last n frames      *)
(* (layer 1, window zero-initialised, zeroed again by rms_reset), is       *)
(* finite and not negative.  The error budget is part of the state.        *)
(***************************************************************************)
EXTENDS Rms, TLC, Json, IOUtils

Rec == ndJsonDeserialize(IOEnv.TRACE)

VARIABLES l,      \* next line
          cf,     \* header of the current execution ([n |-> 0] when none)
          chs,    \* per channel: [win, sum, bud]
          skip
vars == << l, cf, chs, skip >>
Ev == Rec[l]
NoCfg == [n |-> 0, fmt |-> "f32", ch |-> 0, via |-> "direct", build |-> "std"]

RmsFmts == {"f32", "f64", "i8", "i16", "i32", "u16", "i24", "i48", "i64", "u8", "u24", "u32", "u48", "u64"}
FOf(c) == FmtOf(FloatOf(c.fmt))

\* a logged input sample: well formed, in range, finite, |x| <= 2^20 (the property presupposes finite squares)
InputOK(fmt, j) ==
  IF IsFloat(fmt) THEN /\ IsFields(j) /\ FIsFinite(FmtOf(fmt), j)
                       /\ DLe(DAbs(Dec(FmtOf(fmt), j)), DPow2(20))
  ELSE IsSJson(j) /\ InRange(fmt, SFromJson(j))
FrameOK(c, x) == Len(x) = c.ch /\ \A i \in 1..c.ch : InputOK(c.fmt, x[i])
Push(c, st, x) == [i \in 1..c.ch |-> TPush(FOf(c), ConvSlack(c.fmt), st[i], AmpD(c.fmt, SampleFromJson(c.fmt, x[i])))]

ValOK(c, r) == r.k = "val" /\ Len(r.v) = c.ch
RootsOK(c, st, r) == ValOK(c, r) /\ \A i \in 1..c.ch : AcceptRoot(c.build, FOf(c), ConvSlack(c.fmt), st[i], r.v[i])
SqsOK(c, st, r)   == ValOK(c, r) /\ \A i \in 1..c.ch : AcceptSq(FOf(c), ConvSlack(c.fmt), st[i], r.v[i])

Fresh(c) == [i \in 1..c.ch |-> TInit(c.n)]
AcceptReset ==
  LET c == Ev.cfg IN
  /\ Ev.comp = "rms" /\ c.n >= 1 /\ c.ch >= 1 /\ c.fmt \in RmsFmts
  /\ c.via \in {"direct", "signal"} /\ c.build \in {"std", "no_std"}
  /\ Ev.r.k = "unit" /\ Ev.o.ok
  /\ Ev.o.wf = c.n                                         \* window_frames()
  /\ RootsOK(c, Fresh(c), [k |-> "val", v |-> Ev.o.cur])   \* current() of a new detector

Feeds == {"next", "next_squared", "sig_next", "sig_next_squared"}
ViaOK == IF cf.via = "signal" THEN Ev.ev \in {"sig_next", "sig_next_squared"}
         ELSE Ev.ev \in {"next", "next_squared", "current", "rms_reset"}
\* state after the event
After == IF Ev.ev \in Feeds THEN Push(cf, chs, Ev.a.x)
         ELSE IF Ev.ev = "rms_reset" THEN Fresh(cf) ELSE chs
AcceptOp(aft) ==
  /\ cf.n >= 1 /\ ViaOK
  /\ (Ev.ev \in Feeds => FrameOK(cf, Ev.a.x))
  /\ CASE Ev.ev \in {"next", "sig_next", "current"}        -> RootsOK(cf, aft, Ev.r)
       [] Ev.ev \in {"next_squared", "sig_next_squared"}   -> SqsOK(cf, aft, Ev.r)
       [] Ev.ev = "rms_reset"                              -> Ev.r.k = "unit"
HeapOK == Ev.h = << 0, 0, 0 >>

Consume == l <= Len(Rec) /\ l' = l + 1
TReset ==
  /\ Consume /\ Ev.ev = "reset"
  /\ IF AcceptReset
       THEN /\ cf' = Ev.cfg /\ chs' = Fresh(Ev.cfg) /\ skip' = FALSE
       ELSE /\ PrintT(<< "REJECT", l, Ev.ev >>)
            /\ skip' = TRUE /\ cf' = NoCfg /\ chs' = << >>
TOp ==
  /\ Consume /\ Ev.ev # "reset" /\ ~skip
  /\ LET aft == After IN
     IF AcceptOp(aft)
       THEN /\ chs' = aft /\ UNCHANGED << cf, skip >>
            /\ (IF HeapOK THEN TRUE ELSE PrintT(<< "HEAP", l, Ev.ev >>))
       ELSE /\ PrintT(<< "REJECT", l, Ev.ev >>)
            /\ skip' = TRUE /\ UNCHANGED << cf, chs >>
TSkip == Consume /\ Ev.ev # "reset" /\ skip /\ UNCHANGED << cf, chs, skip >>

TraceInit == l = 1 /\ cf = NoCfg /\ chs = << >> /\ skip = TRUE
TraceNext == TReset \/ TOp \/ TSkip
TraceSpec == TraceInit /\ [][TraceNext]_vars

AllConsumed == IF TLCGet("stats").diameter - 1 = Len(Rec) THEN TRUE
               ELSE PrintT(<< "STUCK", TLCGet("stats").diameter, Len(Rec) >>) /\ FALSE
=============================================================================
