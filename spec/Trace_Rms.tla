------------------------------ MODULE Trace_Rms ------------------------------
(***************************************************************************)
(* Trace validation for dasp_rms::Rms and the dasp_signal::rms adaptor     *)
(* (property C11), std and no_std builds.                                  *)
(*                                                                         *)
(* Header  {"ev":"reset","comp":"rms",                                     *)
(*          "cfg":{n,fmt,ch,via,build,store,src,sc,profile},...}           *)
(*   build "std" | "no_std" selects the square-root acceptance predicate.  *)
(*   store  ring storage handed to Rms::new / .rms(): vec | box | slice    *)
(*          (&mut [T]) | array ([T; n]); src = source signal of an adaptor *)
(*          run (iter: dasp's from_iter; gen: a queue the driver fills).   *)
(*          Neither changes what is demanded: every storage is the same    *)
(*          window of N frames.                                            *)
(*   sc     value region of a float execution: the driver placed every     *)
(*          stimulus value times 2^sc (the logged inputs a.x are the real  *)
(*          ones and are what is judged; integer formats: sc = 0).         *)
(*   profile  build profile of the harness binary (debug | release).  The  *)
(*          property makes no difference between them: the SAME clauses    *)
(*          are demanded in both (no outcome of this component may depend  *)
(*          on debug assertions or overflow checks).                       *)
(* Domain of the inputs: finite, and N x^2 at least two binary orders      *)
(* below the largest finite value of the float the detector computes in    *)
(* (InputOK): |x| < 2^E with 2E + bitlen(N) + 1 <= bias, i.e. for N <= 64  *)
(* |x| < 2^59 (f32) / 2^507 (f64).  Beyond it the squares or their window  *)
(* sum overflow and there is no real RMS to compare with.  There is NO     *)
(* lower end: subnormal inputs, subnormal and vanishing squares are judged *)
(* (Rms.tla: AbsEps / TinySum).                                            *)
(* An execution owns a growing list of detector INSTANCES (`ins`); every   *)
(* event names the one it acts on (a.i).  Instance 0 is built by the       *)
(* header and is the bare detector (via "direct") or the adaptor (via      *)
(* "signal").                                                              *)
(*   bare detector: next / next_squared / current / rms_reset {i},         *)
(*                  rms_clone {i, j}, rms_move {i},                        *)
(*                  rms_fmt {i}: the detector rendered with {:?} (its      *)
(*                  Debug impl) into a sink without heap memory -- an      *)
(*                  operation like any other: it must return Ok, change    *)
(*                  nothing (no-op on the abstract state: every later      *)
(*                  output is still judged against the same window) and    *)
(*                  leave the heap alone.  The text is not judged.         *)
(*   adaptor:       sig_next / sig_next_squared {i, x} (frames pulled from *)
(*                  the source signal; a.x = the frame pulled),            *)
(*                  sig_clone {i, j}, sig_move {i}, sig_parts {i}          *)
(*   clone: instance j (= the number of instances so far) starts with      *)
(*     EXACTLY the abstract state of instance i -- window contents, sum    *)
(*     and error budget (RmsClone); from then on the two are independent:  *)
(*     an event changes the state of its own instance only, and every      *)
(*     instance keeps being judged against its own history.                *)
(*   move / parts: the instance is moved in memory (through a Box) / the   *)
(*     adaptor is taken apart by into_parts and its detector goes on as    *)
(*     the bare detector; the abstract state is untouched.                 *)
(* A line is accepted iff every channel's output lies within the rigorous  *)
(* bound of Rms.tla around the EXACT mean square of the last n frames      *)
(* its instance has seen (layer 1, window zero-initialised, zeroed again   *)
(* by rms_reset), is finite and not negative.  The error budget is part of *)
(* the state.                                                              *)
(***************************************************************************)
EXTENDS Rms, TLC, Json, IOUtils

Rec == ndJsonDeserialize(IOEnv.TRACE)

VARIABLES l,      \* next line
          cf,     \* header of the current execution ([n |-> 0] when none)
          ins,    \* instances: sequence of [st |-> per channel [win, sum, bud, ex], via |-> "direct" | "signal"]
          skip
vars == << l, cf, ins, skip >>
Ev == Rec[l]
NoCfg == [n |-> 0, fmt |-> "f32", ch |-> 0, via |-> "direct", build |-> "std", store |-> "vec", src |-> "iter", sc |-> 0,
          profile |-> "debug"]

RmsFmts == {"f32", "f64", "i8", "i16", "i32", "u16", "i24", "i48", "i64", "u8", "u24", "u32", "u48", "u64"}
FOf(c) == FmtOf(FloatOf(c.fmt))

\* a logged input sample: well formed, in range, finite, and (the property presupposes finite squares and a finite
\* window sum) |x| < 2^E with 2E + bitlen(n) + 1 <= bias: then n x^2 < 2^(bias - 1), two binary orders below the
\* largest finite value, so neither a square nor any running or recomputed sum of n of them can overflow
MagOK(F, n, d) == DIsZero(d) \/ 2 * (d.exp + BBitLen(d.mag)) + BitLenSmall(n) + 1 <= F.bias
InputOK(fmt, n, j) ==
  IF IsFloat(fmt) THEN /\ IsFields(j) /\ FIsFinite(FmtOf(fmt), j)
                       /\ MagOK(FmtOf(fmt), n, Dec(FmtOf(fmt), j))
  ELSE IsSJson(j) /\ InRange(fmt, SFromJson(j))
FrameOK(c, x) == Len(x) = c.ch /\ \A i \in 1..c.ch : InputOK(c.fmt, c.n, x[i])
Push(c, st, x) == [i \in 1..c.ch |-> TPush(FOf(c), ConvSlack(c.fmt), st[i], AmpD(c.fmt, SampleFromJson(c.fmt, x[i])))]

ValOK(c, r) == r.k = "val" /\ Len(r.v) = c.ch
RootsOK(c, st, r) == ValOK(c, r) /\ \A i \in 1..c.ch : AcceptRoot(c.build, FOf(c), ConvSlack(c.fmt), st[i], r.v[i])
SqsOK(c, st, r)   == ValOK(c, r) /\ \A i \in 1..c.ch : AcceptSq(FOf(c), ConvSlack(c.fmt), st[i], r.v[i])

Fresh(c) == [i \in 1..c.ch |-> TInit(c.n)]
\* a clone carries the whole abstract state of its original (Rms.tla: RmsClone), channel by channel
CloneOf(st) == [i \in DOMAIN st |-> RmsClone(st[i])]
AcceptReset ==
  LET c == Ev.cfg IN
  /\ Ev.comp = "rms" /\ c.n >= 1 /\ c.n < 32768 /\ c.ch >= 1 /\ c.fmt \in RmsFmts
  /\ c.via \in {"direct", "signal"} /\ c.build \in {"std", "no_std"}
  /\ c.store \in {"vec", "box", "slice", "array"} /\ c.src \in {"iter", "gen"}
  /\ c.profile \in {"debug", "release"}
  /\ c.sc >= -1022 /\ c.sc <= 1023 /\ (c.sc = 0 \/ IsFloat(c.fmt))
  /\ Ev.r.k = "unit" /\ Ev.o.ok
  /\ Ev.o.wf = c.n                                         \* window_frames()
  /\ RootsOK(c, Fresh(c), [k |-> "val", v |-> Ev.o.cur])   \* current() of a new detector

Feeds == {"next", "next_squared", "sig_next", "sig_next_squared"}
\* the instance the event acts on
IdxOK == Ev.a.i >= 0 /\ Ev.a.i < Len(ins)
Me == ins[Ev.a.i + 1]
ViaOK == IF Me.via = "signal" THEN Ev.ev \in {"sig_next", "sig_next_squared", "sig_clone", "sig_move", "sig_parts"}
         ELSE Ev.ev \in {"next", "next_squared", "current", "rms_reset", "rms_clone", "rms_move", "rms_fmt"}
IsClone == Ev.ev \in {"rms_clone", "sig_clone"}
IsMove  == Ev.ev \in {"rms_move", "sig_move", "sig_parts"}
\* state of the event's own instance after the event
After == IF Ev.ev \in Feeds THEN Push(cf, Me.st, Ev.a.x)
         ELSE IF Ev.ev = "rms_reset" THEN Fresh(cf) ELSE Me.st
AcceptOp(aft) ==
  /\ cf.n >= 1 /\ IdxOK /\ ViaOK
  /\ (Ev.ev \in Feeds => FrameOK(cf, Ev.a.x))
  /\ CASE Ev.ev \in {"next", "sig_next", "current"}        -> RootsOK(cf, aft, Ev.r)
       [] Ev.ev \in {"next_squared", "sig_next_squared"}   -> SqsOK(cf, aft, Ev.r)
       [] Ev.ev = "rms_reset"                              -> Ev.r.k = "unit"
       \* the new instance gets the next free index; a clone of the bare detector shows the original's window
       \* length and current() straight away; a cloned adaptor over dasp's from_iter would replay the original's
       \* remaining frames, so adaptors are cloned over the queue source only
       [] IsClone -> /\ Ev.r.k = "unit" /\ Ev.a.j = Len(ins)
                     /\ (Ev.ev = "sig_clone" => cf.src = "gen")
                     /\ (Ev.ev = "rms_clone" => /\ Ev.o.ok /\ Ev.o.wf = cf.n
                                                /\ RootsOK(cf, CloneOf(aft), [k |-> "val", v |-> Ev.o.cur]))
       [] IsMove  -> Ev.r.k = "unit"
       \* {:?}: returns Ok; the state of the instance stays what it was (After = Me.st); the text is not judged
       [] Ev.ev = "rms_fmt" -> Ev.r.k = "unit" /\ Ev.o.len >= 0
\* clones and moves are not steady-state calls (a clone of a Vec-backed window allocates): no heap conjunct;
\* every other call -- rendering with {:?} included -- is
HeapOK == IsClone \/ IsMove \/ Ev.h = << 0, 0, 0 >>

Consume == l <= Len(Rec) /\ l' = l + 1
TReset ==
  /\ Consume /\ Ev.ev = "reset"
  /\ IF AcceptReset
       THEN /\ cf' = Ev.cfg /\ ins' = << [st |-> Fresh(Ev.cfg), via |-> Ev.cfg.via] >> /\ skip' = FALSE
       ELSE /\ PrintT(<< "REJECT", l, Ev.ev >>)
            /\ skip' = TRUE /\ cf' = NoCfg /\ ins' = << >>
TOp ==
  /\ Consume /\ Ev.ev # "reset" /\ ~skip
  /\ LET aft == After IN
     IF AcceptOp(aft)
       THEN /\ ins' = IF IsClone THEN Append(ins, [st |-> CloneOf(aft), via |-> Me.via])        \* the original is untouched
                      ELSE [ins EXCEPT ![Ev.a.i + 1] = [st |-> aft, via |-> IF Ev.ev = "sig_parts" THEN "direct" ELSE Me.via]]
            /\ UNCHANGED << cf, skip >>
            /\ (IF HeapOK THEN TRUE ELSE PrintT(<< "HEAP", l, Ev.ev >>))
       ELSE /\ PrintT(<< "REJECT", l, Ev.ev >>)
            /\ skip' = TRUE /\ UNCHANGED << cf, ins >>
TSkip == Consume /\ Ev.ev # "reset" /\ skip /\ UNCHANGED << cf, ins, skip >>

TraceInit == l = 1 /\ cf = NoCfg /\ ins = << >> /\ skip = TRUE
TraceNext == TReset \/ TOp \/ TSkip
TraceSpec == TraceInit /\ [][TraceNext]_vars

AllConsumed == IF TLCGet("stats").diameter - 1 = Len(Rec) THEN TRUE
               ELSE PrintT(<< "STUCK", TLCGet("stats").diameter, Len(Rec) >>) /\ FALSE
=============================================================================
