---------------------------- MODULE Trace_Graph ----------------------------
(***************************************************************************)
(* Trace validation for dasp_graph's Processor::process, sources(), sinks() *)
(* (property C09).  harness/hx_graph logs one line per public call:        *)
(*   reset / graph  a graph is built (petgraph Graph or StableGraph, vacant *)
(*                  slots allowed); `graph` replaces the graph but KEEPS    *)
(*                  the Processor of the execution                          *)
(*   process{out}   o.order = invocation sequence recorded by the probes;   *)
(*                  per invocation k the inputs in the order presented:     *)
(*                  o.src[k] (identity by the stamp in the input's buffers),*)
(*                  o.ptr[k] (identity by address), o.cnt[k] (the stamp's   *)
(*                  call counter), o.nbs[k] (number of buffers),            *)
(*                  o.val[k] (first sample); o.bufs = every node's buffers  *)
(*                  after the call (stamp + run-length content)             *)
(*   sources / sinks  r.v = the ids the helper yielded                      *)
(* A line is accepted iff it satisfies LAYER 1 of Graph.tla (plus the       *)
(* Nodes.tla semantics of source / Sum / Pass probes for buffer contents,   *)
(* evaluated in the logged order).  Which neighbour order petgraph uses is  *)
(* not compared with anything.  sources / sinks are judged as events of     *)
(* their own: rejecting one does not stop the judging of the execution.     *)
(***************************************************************************)
EXTENDS Nodes, TLC, Json, IOUtils

Rec == ndJsonDeserialize(IOEnv.TRACE)
FSE == INSTANCE FiniteSetsExt

VARIABLES l,      \* next line
          g,      \* current graph (Graph.tla value)
          desc,   \* node id -> descriptor [kind, c]
          val,    \* node id -> its buffers (1-sample buffers: the harness keeps every buffer uniform)
          ver,    \* node id -> number of invocations so far (= the stamp's counter)
          seen,   \* output nodes already processed on this graph by this processor (heap rule)
          skip
vars == << l, g, desc, val, ver, seen, skip >>

Ev == Rec[l]
NoGraph == [n |-> 0, live |-> {}, mult |-> << >>]

---------------------------------------------------------------------------
CfgOK(c) ==
  /\ c.slots >= 1
  /\ \A i \in 1..Len(c.live) : c.live[i] \in 0..(c.slots - 1)
  /\ \A i \in 1..Len(c.edges) : c.edges[i][1] \in SeqRange(c.live) /\ c.edges[i][2] \in SeqRange(c.live)
  /\ Len(c.kinds) = c.slots /\ Len(c.c) = c.slots /\ Len(c.nb) = c.slots /\ Len(c.init) = c.slots
  /\ \A i \in 1..Len(c.live) : c.kinds[c.live[i] + 1] \in {"src", "sum", "pass"}
  \* (a node may have no buffers at all -- a meter, a clock: as an input it carries no stamp and is logged as -1)
  /\ \A i \in 1..Len(c.live) : c.nb[c.live[i] + 1] >= 0
GraphFrom(c) == GraphOf(c.slots, SeqRange(c.live), c.edges)
DescFrom(c)  == [v \in 0..(c.slots - 1) |-> [kind |-> c.kinds[v + 1], c |-> c.c[v + 1]]]
ValFrom(c)   == [v \in 0..(c.slots - 1) |->
                   IF v \in SeqRange(c.live) THEN [b \in 1..c.nb[v + 1] |-> << c.init[v + 1] >>] ELSE << >>]
ZeroVer(c)   == [v \in 0..(c.slots - 1) |-> 0]

\* logged buffers of every live node = (stamp (id, ver), uniform content val)
BufsMatch(bufs, gg, vl, vr) ==
  /\ Len(bufs) = gg.n
  /\ \A v \in gg.live :
       LET b == bufs[v + 1] IN
       /\ b.id = v /\ Len(b.st) = Len(vl[v]) /\ Len(b.runs) = Len(vl[v])
       /\ \A c \in 1..Len(vl[v]) :
            /\ b.st[c] = << v, vr[v] >>
            /\ Len(b.runs[c]) = 1 /\ b.runs[c][1][1] = vl[v][c][1]

\* invocation k .. end, in the logged order; s = [ok, val]
RECURSIVE Sim(_, _, _)
Sim(o, k, s) ==
  IF k > Len(o.order) \/ ~s.ok THEN s
  ELSE LET n   == o.order[k]
           ins == o.src[k]
           \* neighbours without buffers cannot be recognised (no stamp, no storage): they appear as -1 and are
           \* only counted -- one per incoming edge from such a neighbour
           IsZ(u) == Len(s.val[u]) = 0
           zedges == FSE!FoldSet(LAMBDA u, acc : acc + g.mult[u][n], 0, {u \in g.live \ {n} : IsZ(u)})
           okk == /\ \A i \in 1..Len(ins) : ins[i] = -1 \/ (ins[i] \in g.live /\ ins[i] # n /\ ~IsZ(ins[i]))
                  /\ \A u \in g.live \ {n} : IsZ(u) \/ SeqCount(ins, u) = g.mult[u][n]   \* one input per incoming edge
                  /\ SeqCount(ins, -1) = zedges                                          \* ... also from buffer-less nodes
                  /\ Len(o.ptr[k]) = Len(ins) /\ Len(o.cnt[k]) = Len(ins)
                  /\ Len(o.nbs[k]) = Len(ins) /\ Len(o.val[k]) = Len(ins)
                  /\ \A i \in 1..Len(ins) :
                       IF ins[i] = -1 THEN o.nbs[k][i] = 0
                       ELSE /\ o.ptr[k][i] = ins[i]                                      \* the input IS that neighbour's storage
                            /\ o.cnt[k][i] = CurVer(ver, o.order, k, ins[i])             \* ... in its CURRENT state
                            /\ o.nbs[k][i] = Len(s.val[ins[i]])                          \* all of its buffers
                            /\ o.val[k][i] = s.val[ins[i]][1][1]                         \* current content
           r   == NodeStep(desc[n], ver[n], [i \in 1..Len(ins) |-> IF ins[i] = -1 THEN << >> ELSE s.val[ins[i]]], s.val[n], 1)
           \* the invocation that panics was handed its inputs (judged like any other) but wrote nothing
           aborts == "abort" \in DOMAIN s /\ s.abort = k
       IN IF okk THEN Sim(o, k + 1, [s EXCEPT !.val = IF aborts THEN s.val ELSE [s.val EXCEPT ![n] = r.out]])
          ELSE [s EXCEPT !.ok = FALSE]

ProcessResult ==      \* [ok, val]
  LET o == Ev.o IN
  IF /\ g.n > 0 /\ Ev.r.k = "unit" /\ o.ok /\ o.exact
     /\ Ev.a.out \in g.live
     /\ OrderOK(g, Ev.a.out, o.order)           \* exactly the upstream set, once each; topological if acyclic
     /\ Len(o.src) = Len(o.order) /\ Len(o.ptr) = Len(o.order) /\ Len(o.cnt) = Len(o.order)
     /\ Len(o.nbs) = Len(o.order) /\ Len(o.val) = Len(o.order)
  THEN LET s == Sim(o, 1, [ok |-> TRUE, val |-> val])
       IN IF s.ok /\ BufsMatch(o.bufs, g, s.val, VerAfter(g, ver, o.order)) THEN s
          ELSE [ok |-> FALSE, val |-> val]
  ELSE [ok |-> FALSE, val |-> val]

\* process{out, abort: k}: the k-th node invoked panics (after looking at its inputs, before writing); the caller
\* catches the panic and goes on using the same processor.  If the traversal has fewer than k invocations nothing aborts.
Aborting == Ev.ev = "process" /\ "abort" \in DOMAIN Ev.a /\ Ev.a.abort > 0
            /\ g.n > 0 /\ Ev.a.out \in g.live /\ Ev.a.abort <= Cardinality(Processed(g, Ev.a.out))
AbortResult ==      \* [ok, val]
  LET o == Ev.o  k == Ev.a.abort IN
  IF /\ Ev.r.k = "panic" /\ o.exact
     /\ Len(o.order) = k /\ PrefixOK(g, Ev.a.out, o.order)
     /\ Len(o.src) = k /\ Len(o.ptr) = k /\ Len(o.cnt) = k /\ Len(o.nbs) = k /\ Len(o.val) = k
  THEN LET s == Sim(o, 1, [ok |-> TRUE, val |-> val, abort |-> k])
       IN IF s.ok /\ BufsMatch(o.bufs, g, s.val, VerAfter(g, ver, SubSeq(o.order, 1, k - 1))) THEN s
          ELSE [ok |-> FALSE, val |-> val]
  ELSE [ok |-> FALSE, val |-> val]

HelperAccepted ==
  /\ g.n > 0 /\ Ev.r.k = "items" /\ Ev.o.ok
  /\ HelperOK(Ev.r.v, IF Ev.ev = "sources" THEN Sources(g) ELSE Sinks(g))

---------------------------------------------------------------------------
Consume == l <= Len(Rec) /\ l' = l + 1

\* reset starts an execution; graph replaces the graph within one (same Processor)
TGraph ==
  /\ Consume /\ Ev.ev \in {"reset", "graph"} /\ (Ev.ev = "graph" => ~skip)
  /\ LET c == IF Ev.ev = "reset" THEN Ev.cfg ELSE Ev.a.cfg IN
     IF /\ Ev.ev = "reset" => Ev.comp = "graph"
        /\ CfgOK(c) /\ Ev.r.k = "unit" /\ Ev.o.ok /\ Ev.o.exact
        /\ BufsMatch(Ev.o.bufs, GraphFrom(c), ValFrom(c), ZeroVer(c))
       THEN /\ g' = GraphFrom(c) /\ desc' = DescFrom(c) /\ val' = ValFrom(c) /\ ver' = ZeroVer(c)
            /\ seen' = {} /\ skip' = FALSE
       ELSE /\ PrintT(<< "REJECT", l, Ev.ev >>)
            /\ skip' = TRUE /\ g' = NoGraph /\ UNCHANGED << desc, val, ver, seen >>
TAbort ==
  /\ Consume /\ Aborting /\ ~skip
  /\ LET s == AbortResult IN
     IF s.ok
       THEN /\ val' = s.val /\ ver' = VerAfter(g, ver, SubSeq(Ev.o.order, 1, Ev.a.abort - 1))
            /\ UNCHANGED << g, desc, seen, skip >>        \* (a panicking call is outside the heap rule)
       ELSE /\ PrintT(<< "REJECT", l, Ev.ev >>)
            /\ skip' = TRUE /\ UNCHANGED << g, desc, val, ver, seen >>
TProcess ==
  /\ Consume /\ Ev.ev = "process" /\ ~Aborting /\ ~skip
  /\ LET s == ProcessResult IN
     IF s.ok
       THEN /\ val' = s.val /\ ver' = VerAfter(g, ver, Ev.o.order)
            /\ seen' = seen \cup {Ev.a.out}
            \* C07: the same processor processing the same graph at the same node again needs no heap
            /\ IF Ev.h = << 0, 0, 0 >> \/ Ev.a.out \notin seen THEN TRUE ELSE PrintT(<< "HEAP", l, Ev.ev >>)
            /\ UNCHANGED << g, desc, skip >>
       ELSE /\ PrintT(<< "REJECT", l, Ev.ev >>)
            /\ skip' = TRUE /\ UNCHANGED << g, desc, val, ver, seen >>
\* the helpers do not change anything: a rejected one is reported, the execution goes on
THelper ==
  /\ Consume /\ Ev.ev \in {"sources", "sinks"} /\ ~skip
  /\ IF HelperAccepted
       THEN IF Ev.h = << 0, 0, 0 >> THEN TRUE ELSE PrintT(<< "HEAP", l, Ev.ev >>)
       ELSE PrintT(<< "REJECT", l, Ev.ev >>)
  /\ UNCHANGED << g, desc, val, ver, seen, skip >>
TUnknown ==
  /\ Consume /\ Ev.ev \notin {"reset", "graph", "process", "sources", "sinks"} /\ ~skip
  /\ PrintT(<< "REJECT", l, Ev.ev >>)
  /\ skip' = TRUE /\ UNCHANGED << g, desc, val, ver, seen >>
TSkip == Consume /\ Ev.ev # "reset" /\ skip /\ UNCHANGED << g, desc, val, ver, seen, skip >>

TraceInit == l = 1 /\ g = NoGraph /\ desc = << >> /\ val = << >> /\ ver = << >> /\ seen = {} /\ skip = TRUE
TraceNext == TGraph \/ TProcess \/ TAbort \/ THelper \/ TUnknown \/ TSkip
TraceSpec == TraceInit /\ [][TraceNext]_vars

AllConsumed == IF TLCGet("stats").diameter - 1 = Len(Rec) THEN TRUE
               ELSE PrintT(<< "STUCK", TLCGet("stats").diameter, Len(Rec) >>) /\ FALSE
=============================================================================
