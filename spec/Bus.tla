-------------------------------- MODULE Bus --------------------------------
(***************************************************************************)
(* dasp_signal::bus -- one source feeding any number of dynamically        *)
(* attached outputs (property C13).                                        *)
(*                                                                         *)
(* The source's k-th pulled frame is the number k.                         *)
(* Layer 2 = SharedNode as coded in dasp_signal/src/bus.rs: the backlog    *)
(* `buffer`, the map `fr` (frames_read: output key -> how many backlog     *)
(* frames it has already read) and `pulled`.                               *)
(* Layer 1 = the property: output k attached when `attach[k]` frames had   *)
(* been pulled and has received `recv[k]` frames: its next frame is        *)
(* attach + recv + 1; pending = pulled - attach - recv; the source is      *)
(* pulled once per distinct frame; backlog length = the largest lag of a   *)
(* live output (0 when none is live).                                      *)
(***************************************************************************)
EXTENDS Naturals, Integers, Sequences, FiniteSets

Put(f, k, v) == [x \in (DOMAIN f) \cup {k} |-> IF x = k THEN v ELSE f[x]]
Del(f, k)    == [x \in (DOMAIN f) \ {k} |-> f[x]]
MinOf(S, dflt) == IF S = {} THEN dflt ELSE CHOOSE m \in S : \A x \in S : m <= x
MaxOf(S, dflt) == IF S = {} THEN dflt ELSE CHOOSE m \in S : \A x \in S : m >= x
EmptyMap == [x \in {} |-> 0]

\* ---- layer 2: n = [buffer, fr, pulled]
NInit == [buffer |-> << >>, fr |-> EmptyMap, pulled |-> 0]
NSend(n, key) == [n EXCEPT !.fr = Put(n.fr, key, Len(n.buffer))]
NNextFrame(n, key) ==
  LET r      == n.fr[key]
      others == Del(n.fr, key)
      pull   == ~(r < Len(n.buffer))
      buf1   == IF pull THEN Append(n.buffer, n.pulled + 1) ELSE n.buffer
      frame  == IF pull THEN n.pulled + 1 ELSE n.buffer[r + 1]
      least  == ~ \E o \in DOMAIN others : others[o] <= r
  IN [frame |-> frame,
      n |-> [buffer |-> IF least THEN Tail(buf1) ELSE buf1,
             fr     |-> IF least THEN Put([o \in DOMAIN others |-> others[o] - 1], key, r)
                                 ELSE Put(others, key, r + 1),
             pulled |-> IF pull THEN n.pulled + 1 ELSE n.pulled]]
NPending(n, key) == Len(n.buffer) - n.fr[key]
NDrop(n, key) ==
  LET others == Del(n.fr, key)
      m == MinOf({others[o] : o \in DOMAIN others} \cup {Len(n.buffer)}, 0)
  IN [n EXCEPT !.fr = [o \in DOMAIN others |-> others[o] - m],
               !.buffer = SubSeq(n.buffer, m + 1, Len(n.buffer))]

\* ---- layer 1: a = [attach, recv, pulled]  (maps over live outputs)
AInit == [attach |-> EmptyMap, recv |-> EmptyMap, pulled |-> 0]
ALive(a) == DOMAIN a.attach
ASend(a, key) == [a EXCEPT !.attach = Put(a.attach, key, a.pulled), !.recv = Put(a.recv, key, 0)]
AWant(a, key) == a.attach[key] + a.recv[key] + 1
ANextFrame(a, key) ==
  [frame |-> AWant(a, key),
   a |-> [a EXCEPT !.recv[key] = @ + 1,
                   !.pulled = IF AWant(a, key) > a.pulled THEN a.pulled + 1 ELSE a.pulled]]
ALag(a, key) == a.pulled - a.attach[key] - a.recv[key]
ADrop(a, key) == [a EXCEPT !.attach = Del(a.attach, key), !.recv = Del(a.recv, key)]
ABacklog(a) == MaxOf({ALag(a, k) : k \in ALive(a)}, 0)
=============================================================================
