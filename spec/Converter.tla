------------------------------ MODULE Converter ------------------------------
(***************************************************************************)
(* dasp_signal::interpolate::Converter (and Signal::mul_hz / MulHz) over   *)
(* the Floor and Linear interpolators of dasp_interpolate.  Property C08.  *)
(*                                                                         *)
(* Part A  layer 1, the property, on exact positions.  A position is an    *)
(*         integer numerator over a unit U (ratios p/2^m are exact in f64, *)
(*         so on this domain the f64 accumulator IS the real number).      *)
(*         Output n sits at P_n = r_0 + ... + r_(n-1); everything is a     *)
(*         closed-form function of the source list and of P.               *)
(* Part B  layer 2, the code: from_iter's look-ahead slot, the held frames *)
(*         of Floor / Linear, the accumulator loop of Converter::next,     *)
(*         is_exhausted, the setters, MulHz.  One operator per method.     *)
(*         MC_Converter checks that B refines A for every history.         *)
(* Part C  the same property over f64 arithmetic, for trace validation:    *)
(*         ratios are arbitrary f64 values, the position is the            *)
(*         f64-accumulated one (every addition correctly rounded), frames  *)
(*         are Dyadic values, the linear blend is accepted exactly on the  *)
(*         exact domain and with a derived tolerance elsewhere.            *)
(*         MC_Converter checks C against A on the exact domain;            *)
(*         MC_ConverterFix checks its fast arithmetic against Dyadic.tla.  *)
(*                                                                         *)
(* Constant-free; sources are 1-based sequences, source frame i (0-based)  *)
(* is src[i+1], and equilibrium beyond the end.                            *)
(***************************************************************************)
EXTENDS Dyadic,         \* brings Big, Naturals, Integers, Sequences
        SequencesExt    \* FoldLeft (evaluated iteratively by TLC's Java override)

CvSome(v) == [k |-> "some", v |-> v]
CvNone    == [k |-> "none"]

---------------------------------------------------------------------------
(* Part A: layer 1 (the property)                                          *)
(*   kind: "floor" | "linear"     src: sequence of frame values, eq: the   *)
(*   equilibrium frame    U: unit   Pl: position of the latest output      *)
(*   P: position of the next output (both numerators over U)               *)

Prime(kind) == IF kind = "floor" THEN 1 ELSE 2           \* frames the interpolator is primed with
FrameAt(src, eq, i) == IF i < Len(src) THEN src[i + 1] ELSE eq
\* frames the source still holds after priming
Remaining(kind, src) == IF Len(src) > Prime(kind) THEN Len(src) - Prime(kind) ELSE 0

\* source frames pulled (priming included) once the output at position Pl has been produced
Pulled1(kind, Pl, U) == Prime(kind) + Pl \div U
\* the frames handed to the interpolator so far, in order: none skipped, none re-read
Fed1(kind, src, eq, Pl, U) == [j \in 1..(Pl \div U) |-> FrameAt(src, eq, Prime(kind) + j - 1)]
\* floor: the source frame at floor(P)
FloorOut1(src, eq, Pl, U) == FrameAt(src, eq, Pl \div U)
\* linear: the straight-line blend of frames floor(P), floor(P)+1 at the fraction, as a numerator over U
LinearOut1(src, eq, Pl, U) ==
  LET i == Pl \div U
      f == Pl % U
  IN FrameAt(src, eq, i) * (U - f) + FrameAt(src, eq, i + 1) * f
Out1(kind, src, eq, Pl, U) == IF kind = "floor" THEN FloorOut1(src, eq, Pl, U) * U ELSE LinearOut1(src, eq, Pl, U)
\* the blend never leaves the interval spanned by the two frames
InHull1(src, eq, Pl, U, outNum) ==
  LET a == FrameAt(src, eq, Pl \div U)
      b == FrameAt(src, eq, Pl \div U + 1)
      lo == IF a <= b THEN a ELSE b
      hi == IF a <= b THEN b ELSE a
  IN lo * U <= outNum /\ outNum <= hi * U
\* exhausted: the source has nothing left and the next output (at P) needs a frame beyond those pulled for Pl
Exh1(kind, src, Pl, P, U) == Pulled1(kind, Pl, U) >= Len(src) /\ P \div U > Pl \div U
\* constant ratio r (numerator over U): until_exhausted yields ceil((R+1)/r) frames or one more
CeilDiv(a, b) == (a + b - 1) \div b
Count1(kind, src, r, U) == CeilDiv((Remaining(kind, src) + 1) * U, r)

\* integer sample formats: the property does not fix the rounding of the blend; an integer output o
\* is a blend iff it is strictly less than one LSB away from it
IntBlendOK(o, outNum, U) == (o - 1) * U < outNum /\ outNum < (o + 1) * U

---------------------------------------------------------------------------
(* Part B: layer 2 (the code)                                              *)

(* signal::from_iter: `next: Option<Item>` is fetched at construction and after every yield *)
FINew(xs) == IF Len(xs) = 0 THEN [nxt |-> CvNone, rest |-> << >>]
             ELSE [nxt |-> CvSome(Head(xs)), rest |-> Tail(xs)]
FINext(s, eq) == IF s.nxt.k = "some" THEN [v |-> s.nxt.v, s |-> FINew(s.rest)]
                 ELSE [v |-> eq, s |-> s]
FIExh(s) == s.nxt.k = "none"

(* a source = from_iter wrapped in the harness's pull counter *)
SrcNew(xs) == [fi |-> FINew(xs), pulls |-> 0]
SrcNext(s, eq) == LET n == FINext(s.fi, eq) IN [v |-> n.v, s |-> [fi |-> n.s, pulls |-> s.pulls + 1]]
SrcExh(s) == FIExh(s.fi)

(* Floor { left }  /  Linear { left, right } as the sequence of held frames *)
IPrimed(kind, s0, eq) ==               \* `Floor::new(source.next())`, `Linear::new(source.next(), source.next())`
  LET a == SrcNext(s0, eq) IN
  IF kind = "floor" THEN [h |-> << a.v >>, s |-> a.s]
  ELSE LET b == SrcNext(a.s, eq) IN [h |-> << a.v, b.v >>, s |-> b.s]
INextSourceFrame(kind, h, f) == IF kind = "floor" THEN << f >> ELSE << h[2], f >>
\* interpolate(x), x = acc / U: floor `left`; linear `(right - left) * x + left`   (numerator over U)
IInterpolate(kind, h, acc, U) == IF kind = "floor" THEN h[1] * U ELSE (h[2] - h[1]) * acc + h[1] * U
\* `.to_sample::<i16>()` of the f64 blend truncates toward zero (signed amplitude)
TruncDiv(n, U) == IF n >= 0 THEN n \div U ELSE 0 - ((0 - n) \div U)

(* Converter { source, interpolator, interpolation_value, source_to_target_ratio } *)
CNew(kind, xs, eq, ratio) ==           \* scale_playback_hz(source, interp, scale): interpolation_value = 0.0
  LET p == IPrimed(kind, SrcNew(xs), eq)
  IN [kind |-> kind, src |-> p.s, h |-> p.h, acc |-> 0, ratio |-> ratio, fed |-> << >>]
\* while interpolation_value >= 1.0 { interpolator.next_source_frame(source.next()); interpolation_value -= 1.0 }
RECURSIVE CAdvance(_, _, _)
CAdvance(c, eq, U) ==
  IF c.acc >= U
    THEN LET n == SrcNext(c.src, eq)
         IN CAdvance([c EXCEPT !.src = n.s, !.h = INextSourceFrame(c.kind, c.h, n.v),
                               !.acc = c.acc - U, !.fed = Append(c.fed, n.v)], eq, U)
    ELSE c
\* let out = interpolator.interpolate(interpolation_value); interpolation_value += ratio; out
CNext(c, eq, U) ==
  LET a == CAdvance(c, eq, U)
  IN [out |-> IInterpolate(a.kind, a.h, a.acc, U), c |-> [a EXCEPT !.acc = a.acc + a.ratio]]
\* self.source.is_exhausted() && self.interpolation_value >= 1.0
CExh(c, U) == SrcExh(c.src) /\ c.acc >= U
CSetPlayback(c, r) == [c EXCEPT !.ratio = r]     \* set_playback_hz_scale; set_hz_to_hz / set_sample_hz_scale
                                                 \* reduce to it with r = source_hz / target_hz, 1 / scale

(* MulHz { signal: Converter (ratio 1.0), mul_per_frame }; the control signal is a from_iter of f64 *)
MNew(kind, xs, eq, ctl, U) == [c |-> CNew(kind, xs, eq, U), ctl |-> SrcNew(ctl)]
\* let mul = self.mul_per_frame.next(); self.signal.set_playback_hz_scale(mul); self.signal.next()
MNext(m, eq, U) ==
  LET n == SrcNext(m.ctl, 0)
      x == CNext(CSetPlayback(m.c, n.v), eq, U)
  IN [out |-> x.out, m |-> [c |-> x.c, ctl |-> n.s]]
\* self.signal.is_exhausted() || self.mul_per_frame.is_exhausted()
MExh(m, U) == CExh(m.c, U) \/ SrcExh(m.ctl)

\* UntilExhausted: `if is_exhausted { None } else { Some(next()) }`, at most cap items
RECURSIVE CCollect(_, _, _, _)
CCollect(c, eq, U, cap) ==
  IF cap = 0 \/ CExh(c, U) THEN [items |-> << >>, c |-> c]
  ELSE LET x == CNext(c, eq, U)
           r == CCollect(x.c, eq, U, cap - 1)
       IN [items |-> << x.out >> \o r.items, c |-> r.c]

---------------------------------------------------------------------------
(* Part C: the property over f64 arithmetic (trace validation)             *)
(*                                                                         *)
(* State of one converter as the property sees it:                         *)
(*   adv    whole source frames advanced so far  (= floor of the position) *)
(*   acc    the rest of the position of the NEXT output: always an f64     *)
(*          value; >= 1 means frames still to pull                         *)
(*   ratio  the ratio in effect (an f64 value)                             *)
(*   exact  no addition has rounded so far: adv + acc is the real P_n      *)
(*   psum   the real-number sum of the ratios (kept while exact)           *)
(* acc, ratio, psum are held as fixed-point images ("fix", below) of the   *)
(* Dyadic values; RefStep is the same step on Dyadic values directly.      *)
(* The source is pattern `pat` repeated up to `len` frames.                *)

DOne == DFromInt(1)
\* correctly rounded f64 image of an exact value (finite range; shortcut when it already fits)
FitsSig(d, p) == DIsZero(d) \/ BBitLen(d.mag) <= p \/ BIsZero(BLowBits(d.mag, BBitLen(d.mag) - p))
Fits64(d) == FitsSig(d, 53) /\ (DIsZero(d) \/ d.exp >= -1074)
Fits32(d) == FitsSig(d, 24) /\ (DIsZero(d) \/ d.exp >= -149)      \* conservative below the subnormal quantum
R64(d) == IF Fits64(d) THEN d ELSE Dec(F64, Rne(F64, d))

PFrameAt(pat, len, eq, i) == IF i < len /\ Len(pat) > 0 THEN pat[(i % Len(pat)) + 1] ELSE eq

(* Reference semantics of the accumulator with the generic Dyadic operators.  State: adv, acc.        *)
RefNew == [adv |-> 0, acc |-> DZero]
RefStep(st, ratio) ==
  LET k == SToInt(DFloor(st.acc))
      x == DSub(st.acc, DFromInt(k))           \* k subtractions of 1.0, each exact below 2^53
  IN [x |-> x, i |-> st.adv + k, st |-> [adv |-> st.adv + k, acc |-> R64(DAdd(x, ratio))]]

(* The same arithmetic on a fixed-point image, fast enough for runs of 10^5 outputs.                  *)
(* A "fix" is a 4-tuple of 28-bit limbs, little endian: the value a * 2^-84.  Domain: ratios that are  *)
(* 0 or in [2^-31, 2^23) -- then every accumulator value the code can reach is a multiple of 2^-84     *)
(* (a sum of multiples is one, and rounding to 53 bits leaves a multiple of ulp(sum) >= ulp(ratio)).   *)
(* MC_Converter / Test_ConverterFix check this image against the reference semantics above.           *)
W28 == 268435456
P2 == << 1, 2, 4, 8, 16, 32, 64, 128, 256, 512, 1024, 2048, 4096, 8192, 16384, 32768, 65536, 131072,
         262144, 524288, 1048576, 2097152, 4194304, 8388608, 16777216, 33554432, 67108864, 134217728,
         268435456, 536870912, 1073741824 >>
Pw(k) == P2[k + 1]
RECURSIVE BLen(_, _, _)
BLen(n, lo, hi) == \* bit length of 0 <= n < 2^28, known to lie in lo..hi
  IF lo = hi THEN lo
  ELSE LET mid == (lo + hi + 1) \div 2 IN
       IF n >= Pw(mid - 1) THEN BLen(n, mid, hi) ELSE BLen(n, lo, mid - 1)
FixZero == << 0, 0, 0, 0 >>
FixCarry(t) ==
  LET c1 == t[1] \div W28
      s2 == t[2] + c1
      c2 == s2 \div W28
      s3 == t[3] + c2
      c3 == s3 \div W28
  IN << t[1] % W28, s2 % W28, s3 % W28, t[4] + c3 >>
FixAdd(a, b) == FixCarry(<< a[1] + b[1], a[2] + b[2], a[3] + b[3], a[4] + b[4] >>)
FixBits(a) == IF a[4] > 0 THEN 84 + BLen(a[4], 0, 28) ELSE IF a[3] > 0 THEN 56 + BLen(a[3], 0, 28)
              ELSE IF a[2] > 0 THEN 28 + BLen(a[2], 0, 28) ELSE BLen(a[1], 0, 28)
\* round to nearest even at 53 significant bits: [v, ex]
FixRne(a) ==
  LET d == FixBits(a) - 53 IN
  IF d <= 0 THEN [v |-> a, ex |-> TRUE]
  ELSE IF d < 28 THEN
    LET q    == Pw(d)
        rem  == a[1] % q
        half == q \div 2
        odd  == (a[1] \div q) % 2 = 1
        up   == rem > half \/ (rem = half /\ odd)
    IN [v |-> FixCarry(<< a[1] - rem + (IF up THEN q ELSE 0), a[2], a[3], a[4] >>), ex |-> rem = 0]
  ELSE \* 28 <= d < 56
    LET db   == d - 28
        q    == Pw(db)
        rh   == a[2] % q
        odd  == (a[2] \div q) % 2 = 1
        hh   == IF db = 0 THEN 0 ELSE q \div 2
        gt   == IF db = 0 THEN a[1] > 134217728 ELSE rh > hh \/ (rh = hh /\ a[1] > 0)
        eq   == IF db = 0 THEN a[1] = 134217728 ELSE rh = hh /\ a[1] = 0
        up   == gt \/ (eq /\ odd)
    IN [v |-> FixCarry(<< 0, a[2] - rh + (IF up THEN q ELSE 0), a[3], a[4] >>), ex |-> rh = 0 /\ a[1] = 0]
\* conversions
FixInDomain(d) ==       \* a ratio: 0, or 2^-31 <= d < 2^23 (then d is a multiple of 2^-83)
  DIsZero(d) \/ (~d.neg /\ DLe(DPow2(-31), d) /\ DLt(d, DPow2(23)) /\ Fits64(d))
FixFromD(d) ==          \* d >= 0 a multiple of 2^-84 below 2^27
  LET a == IF d.exp + 84 >= 0 THEN BShl(d.mag, d.exp + 84) ELSE BShr(d.mag, 0 - (d.exp + 84))
      L(j) == BToNat(BLowBits(BShr(a, 28 * j), 28))
  IN << L(0), L(1), L(2), L(3) >>
FixToD(a) ==
  DMk(FALSE, BAdd(BAdd(BFromNat(a[1]), BShl(BFromNat(a[2]), 28)),
                  BAdd(BShl(BFromNat(a[3]), 56), BShl(BFromNat(a[4]), 84))), -84)

(* part C state *)
FNew(ratio) == [adv |-> 0, acc |-> FixZero, ratio |-> FixFromD(ratio), exact |-> TRUE, psum |-> FixZero]
FSetRatio(st, r) == [st EXCEPT !.ratio = FixFromD(r)]
\* one output: advance floor(acc) frames, interpolate at the fraction x, then acc := RNE(x + ratio)
FStep(st) ==
  LET k  == st.acc[4]
      x  == << st.acc[1], st.acc[2], st.acc[3], 0 >>
      r  == FixRne(FixAdd(x, st.ratio))
      ex == st.exact /\ r.ex
  IN [x  |-> x,                                  \* fraction at which this output is interpolated (a fix)
      i  |-> st.adv + k,                         \* index of the left frame = floor of the position
      st |-> [adv |-> st.adv + k, acc |-> r.v, ratio |-> st.ratio, exact |-> ex,
              psum |-> IF ex THEN FixAdd(st.psum, st.ratio) ELSE st.psum]]
\* n >= 1 consecutive outputs at a constant ratio: the last step, and how many of the n outputs found the
\* converter exhausted beforehand (need = source frames beyond priming, i.e. exhausted source <=> adv >= need).
\* A fold, not a RECURSIVE operator: TLC does not cache LET / parameter values inside recursive operators,
\* which makes a recursive loop over a lazily chained state quadratic; FoldLeft iterates over values.
FRunOne(a, need) ==
  LET t == FStep(a.t.st)
  IN [t |-> t, cnt |-> IF a.t.st.adv >= need /\ a.t.st.acc[4] >= 1 THEN a.cnt + 1 ELSE a.cnt]
FRun(st, n, need, cnt) ==
  FoldLeft(LAMBDA a, j : FRunOne(a, need), [t |-> [x |-> FixZero, i |-> 0, st |-> st], cnt |-> cnt], [j \in 1..n |-> j])
FPulled(kind, st) == Prime(kind) + st.adv
\* exhausted before the next output: source empty and the output needs a further frame
FExh(kind, len, st) == FPulled(kind, st) >= len /\ st.acc[4] >= 1
\* on the exact domain the accumulated position is literally the sum of the ratios
FPositionExact(st) == st.exact => st.psum = << st.acc[1], st.acc[2], st.acc[3], st.acc[4] + st.adv >>

(* sample values: integer formats are plain integers (i16: -32768..32767, u8: 0..255), float formats   *)
(* are IEEE field records; `SVal` is the exact value as a Dyadic, in LSB units for integer formats      *)
CvIsFloat(fmt) == fmt \in {"f32", "f64"}
SVal(fmt, s) == IF CvIsFloat(fmt) THEN Dec(FmtOf(fmt), s) ELSE DFromInt(s)
SEquil(fmt) == IF CvIsFloat(fmt) THEN FZeroF(0) ELSE IF fmt = "u8" THEN 128 ELSE 0
SWellFormed(fmt, s) ==
  IF CvIsFloat(fmt) THEN IsFields(s) /\ FIsFinite(FmtOf(fmt), s)
  ELSE IF fmt = "u8" THEN s \in 0..255 ELSE s \in -32768..32767
SSame(fmt, a, b) == IF CvIsFloat(fmt) THEN FEqVal(FmtOf(fmt), a, b) ELSE a = b     \* +0 = -0

\* the exact straight-line blend l + (r - l) x
BlendExact(l, r, x) == DAdd(l, DMul(DSub(r, l), x))
\* "exact domain": no rounding can occur in either customary evaluation order, and the result fits the format
BlendIsExactDomain(fmt, l, r, x) ==
  LET d == DSub(r, l)
      v == BlendExact(l, r, x)
      y == DSub(DOne, x)
  IN /\ Fits64(d) /\ Fits64(DMul(d, x)) /\ Fits64(v)
     /\ Fits64(y) /\ Fits64(DMul(y, l)) /\ Fits64(DMul(x, r))
     /\ (fmt = "f32" => Fits32(v))
\* float tolerance: the blend is computed in f64 as l + (r-l)x (three roundings, total error below
\* 5 * 2^-53 * max(|l|,|r|)) and then cast to the format; accepted within 4 ulp of the format taken at
\* the scale 2*max(|l|,|r|) of the interval
FloatTol(fmt, lf, rf) ==
  LET F == FmtOf(fmt)
      big == IF DLe(DAbs(Dec(F, lf)), DAbs(Dec(F, rf))) THEN rf ELSE lf
  IN DScale2(Ulp(F, big), 3)
\* integer formats: strictly less than 1 LSB, plus 2^-20 LSB for the f64 rounding of the blend itself
IntTol == DAdd(DOne, DPow2(-20))

\* is the logged sample `o` an acceptable linear blend of samples lf, rf at fraction x?
LinearSampleOK(fmt, lf, rf, x, o) ==
  LET l  == SVal(fmt, lf)
      r  == SVal(fmt, rf)
      v  == BlendExact(l, r, x)
      ov == SVal(fmt, o)
      lo == DMin(l, r)
      hi == DMax(l, r)
  IN /\ SWellFormed(fmt, o)
     /\ IF CvIsFloat(fmt)
          THEN IF BlendIsExactDomain(fmt, l, r, x)
                 THEN DEq(ov, v)
                 ELSE LET t == FloatTol(fmt, lf, rf)
                      IN /\ DLe(DAbs(DSub(ov, v)), t)
                         /\ DLe(DSub(lo, t), ov) /\ DLe(ov, DAdd(hi, t))
          ELSE /\ DLt(DAbs(DSub(ov, v)), IntTol)          \* integer v  =>  o = v
               \* inside the interval of the two frames up to the same slack: a blend that is rounded in f64
               \* and then truncated to the integer format (e.g. l(1-x) + r x on a constant input) may land one
               \* LSB outside -- "up to float rounding"; the property does not fix the evaluation order
               /\ DLt(DSub(lo, ov), IntTol) /\ DLt(DSub(ov, hi), IntTol)
FloorSampleOK(fmt, lf, o) == SWellFormed(fmt, o) /\ SSame(fmt, lf, o)

\* a whole frame (sequence of channels)
FrameOK(kind, fmt, L, Rt, x, o) ==
  /\ Len(o) = Len(L)
  /\ \A c \in 1..Len(L) :
       IF kind = "floor" THEN FloorSampleOK(fmt, L[c], o[c])
       ELSE LinearSampleOK(fmt, L[c], Rt[c], x, o[c])
=============================================================================
