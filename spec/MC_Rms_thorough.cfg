SPECIFICATION Spec
CONSTANTS
  MaxWin = 4
  CloneFuel = 2
INVARIANTS RepInv SumIsWindow CachedAgrees OutRefines NonNeg ClampIdle ResetInit CloneSame Independent
CHECK_DEADLOCK FALSE
