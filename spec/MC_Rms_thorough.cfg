SPECIFICATION Spec
CONSTANTS
  MaxWin = 4
INVARIANTS RepInv SumIsWindow CachedAgrees OutRefines NonNeg ClampIdle ResetInit
CHECK_DEADLOCK FALSE
