SPECIFICATION Spec
CONSTANTS
  Ratios = {4, 8, 12, 16, 20, 24, 32, 48, 17}
  MaxLen = 3
  MaxBeyond = 3
  Modes = {"conv", "mulhz"}
  WithF = TRUE
  WithRef = FALSE
  StimCycle = 2
  StimOut = 12
  StimLens = {0, 1, 2, 3, 5}
  StimLens3 = {}
INVARIANTS Position FloorOut LinearOut InHull Unity ExhIff Count CtlOnce PartC
CHECK_DEADLOCK FALSE
