\* documentation only (not run by any check): the size_hint formula of the pinned code is refuted
SPECIFICATION Spec
CONSTANTS
  MaxL = 12
  MaxB = 6
  MaxH = 14
  MaxJ = 3
  MaxSet = 0
INVARIANTS HintPinnedOK
CHECK_DEADLOCK FALSE
