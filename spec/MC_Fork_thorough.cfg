SPECIFICATION Spec
CONSTANTS
  MaxCap = 4
  MaxPulled = 99
  SchedLen = 11
  MaxResplit = 1
INVARIANTS InOrder PullOnce PendingOK RepInv Content Emit
CHECK_DEADLOCK FALSE
