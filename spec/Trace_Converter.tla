--------------------------- MODULE Trace_Converter ---------------------------
(***************************************************************************)
(* Trace validation for dasp_signal's rate Converter / MulHz (property     *)
(* C08, and the MulHz clause of C05) against part C of Converter.tla.      *)
(*                                                                         *)
(* The harness (harness/hx_conv) logs one line per public call at its      *)
(* return.  `reset` = construction through one of the six routes over an   *)
(* instrumented from_iter source (pattern `pat` repeated up to `len`       *)
(* frames) whose pull counter is logged on every event.  Accepted iff      *)
(*   - pull count and exhaustion flags are exactly those of the position   *)
(*     P_n = sum of the ratios in effect (f64-accumulated, every addition  *)
(*     correctly rounded; literally the real sum while nothing rounded);   *)
(*   - Floor frames are exactly the source frame at floor(P_n);            *)
(*   - Linear frames are the blend of frames floor(P_n), floor(P_n)+1 at   *)
(*     the fraction: exactly on the exact domain, within tolerance and     *)
(*     hull otherwise (Converter.tla, LinearSampleOK);                     *)
(*   - hz -> ratio divisions are verified by multiplication (IsQuotient);  *)
(*   - until_exhausted yields what the positions say, and for a constant   *)
(*     ratio on a fresh converter ceil((R+1)/r) frames or one more;        *)
(*   - mul_hz pulls its control signal once per output and is exhausted    *)
(*     as soon as the converter or the control signal is.                  *)
(* A rejected line is printed as REJECT and the rest of that execution is  *)
(* skipped.                                                                *)
(***************************************************************************)
EXTENDS Converter, TLC, Json, IOUtils

Rec == ndJsonDeserialize(IOEnv.TRACE)

VARIABLES l,      \* next line
          rl,     \* line of the reset of the current execution (its cfg is the context)
          ms,     \* [f |-> part-C state, cp |-> control frames pulled]
          fresh,  \* no output has been produced since construction
          skip
vars == << l, rl, ms, fresh, skip >>

Ev == Rec[l]
Cfg == Rec[rl].cfg

---------------------------------------------------------------------------
(* context of an execution *)
Kind(c) == c.interp
IsMul(c) == c.route = "mul_hz"
EqFrame(c) == [i \in 1..c.ch |-> SEquil(c.fmt)]
FrameWF(c, f) == Len(f) = c.ch /\ \A i \in 1..c.ch : SWellFormed(c.fmt, f[i])
FinF(x) == IsFields(x) /\ FIsFinite(F64, x)
CfgWF(c) ==
  /\ c.interp \in {"floor", "linear"} /\ c.fmt \in {"f64", "f32", "i16", "u8"} /\ c.ch \in {1, 2}
  /\ c.route \in {"sig_from_hz_to_hz", "conv_from_hz_to_hz", "scale_hz", "scale_playback_hz",
                  "scale_sample_hz", "mul_hz"}
  /\ \A i \in 1..Len(c.pat) : FrameWF(c, c.pat[i])
  /\ (c.len > 0 => Len(c.pat) > 0)
  /\ \A i \in 1..Len(c.ctl) : FinF(c.ctl[i]) /\ FixInDomain(Dec(F64, c.ctl[i]))

\* a ratio-setting call: arguments x (, y) and the witness q of the documented formula, verified here
RatioOK(a) ==
  /\ FinF(a.x) /\ FinF(a.y) /\ FinF(a.q)
  /\ (DSign(Dec(F64, a.q)) > 0 => FixInDomain(Dec(F64, a.q)))     \* stimulus domain: ratio in [2^-31, 2^23)
  /\ CASE a.via = "playback" -> a.q = a.x
       [] a.via = "sample"   -> ~FIsZero(a.x) /\ IsQuotient(F64, DOne, Dec(F64, a.x), a.q)           \* 1.0 / scale
       [] a.via = "hz"       -> ~FIsZero(a.y) /\ IsQuotient(F64, Dec(F64, a.x), Dec(F64, a.y), a.q)  \* source_hz / target_hz
       [] OTHER -> FALSE
RouteVia(route) == CASE route \in {"sig_from_hz_to_hz", "conv_from_hz_to_hz"} -> "hz"
                     [] route = "scale_sample_hz" -> "sample"
                     [] OTHER -> "playback"

---------------------------------------------------------------------------
(* the machine: converter, or converter driven by a control signal *)
TExh(c, s) == FExh(Kind(c), c.len, s.f) \/ (IsMul(c) /\ s.cp >= Len(c.ctl))
\* mul_hz: the next control frame (equilibrium 0.0 once the control signal has ended) becomes the ratio
TStep(c, s) ==
  LET x == IF IsMul(c)
             THEN FStep(FSetRatio(s.f, IF s.cp < Len(c.ctl) THEN Dec(F64, c.ctl[s.cp + 1]) ELSE DZero))
             ELSE FStep(s.f)
  IN [x |-> x.x, i |-> x.i, s |-> [f |-> x.st, cp |-> IF IsMul(c) THEN s.cp + 1 ELSE s.cp]]
\* the frame logged for the output produced by step t
OutOK(c, t, frame) ==
  FrameOK(Kind(c), c.fmt, PFrameAt(c.pat, c.len, EqFrame(c), t.i), PFrameAt(c.pat, c.len, EqFrame(c), t.i + 1),
          FixToD(t.x), frame)
ObsOK(c, s, o) == o.pulls = FPulled(Kind(c), s.f) /\ o.cpulls = s.cp

\* n consecutive outputs: the last step and the number of outputs that found the signal exhausted beforehand
\* (folds, not RECURSIVE operators: see FRun in Converter.tla)
RunOne(c, a) == [t |-> TStep(c, a.t.s), cnt |-> IF TExh(c, a.t.s) THEN a.cnt + 1 ELSE a.cnt]
Run(c, s, n, cnt) ==
  FoldLeft(LAMBDA a, j : RunOne(c, a), [t |-> [x |-> FixZero, i |-> 0, s |-> s], cnt |-> cnt], [j \in 1..n |-> j])
\* until_exhausted().take(cap): every yielded frame must be the output of its position, and the iterator
\* must have stopped exactly where the positions say (cap reached or exhausted)
CollectOne(c, a, item, cap) ==
  IF ~a.ok THEN a
  ELSE IF a.n = cap \/ TExh(c, a.s) THEN [a EXCEPT !.ok = FALSE]          \* an item beyond the end
  ELSE LET t == TStep(c, a.s) IN
       IF OutOK(c, t, item) THEN [ok |-> TRUE, s |-> t.s, n |-> a.n + 1] ELSE [a EXCEPT !.ok = FALSE]
Collect(c, s, items, cap) ==
  LET a == FoldLeft(LAMBDA acc, item : CollectOne(c, acc, item, cap), [ok |-> TRUE, s |-> s, n |-> 0], items)
  IN [a EXCEPT !.ok = a.ok /\ (a.n = cap \/ TExh(c, a.s))]
\* constant ratio r on a fresh converter: N outputs with N in {C, C+1}, C = ceil((R+1)/r), i.e.
\* N r >= R+1 and (N-2) r < R+1; when additions have rounded, up to the accumulated rounding drift
CountOK(c, s0, s1, n) ==
  LET r  == FixToD(s0.f.ratio)
      R1 == DFromInt((IF c.len > Prime(Kind(c)) THEN c.len - Prime(Kind(c)) ELSE 0) + 1)
      d  == IF s1.f.exact THEN DZero
            ELSE DScale2(DMul(DFromInt(n + 1), DAdd(r, DFromInt(2))), -52)
  IN /\ DLe(DSub(R1, d), DMul(DFromInt(n), r))
     /\ DLt(DMul(DFromInt(n - 2), r), DAdd(R1, d))

---------------------------------------------------------------------------
AcceptReset ==
  LET c == Ev.cfg IN
  /\ CfgWF(c) /\ RatioOK(c.ratio) /\ c.ratio.via = RouteVia(c.route)
  /\ IF IsMul(c) \/ DSign(Dec(F64, c.ratio.q)) > 0
       THEN /\ Ev.r.k = "unit"
            /\ Ev.o.pulls = Prime(Kind(c)) /\ Ev.o.cpulls = 0      \* priming pulls only; control not touched
       ELSE Ev.r.k = "panic"                                        \* documented assertion: scale must be > 0
InitMs == [f |-> FNew(IF IsMul(Ev.cfg) \/ DSign(Dec(F64, Ev.cfg.ratio.q)) <= 0 THEN DOne ELSE Dec(F64, Ev.cfg.ratio.q)), cp |-> 0]

\* expected outcome of an operation: [ok, s]
Judge ==
  LET c == Cfg IN
  CASE Ev.ev = "next" ->
         LET t == TStep(c, ms) IN
         [ok |-> /\ Ev.r.k = "val" /\ Ev.o.ok
                 /\ Ev.o.exh_before = TExh(c, ms)
                 /\ OutOK(c, t, Ev.r.v)
                 /\ ObsOK(c, t.s, Ev.o)
                 /\ Ev.o.exh_after = TExh(c, t.s)
                 /\ FPositionExact(t.s.f),
          s |-> t.s]
    [] Ev.ev = "is_exhausted" ->
         [ok |-> Ev.r.k = "val" /\ Ev.r.v = TExh(c, ms) /\ ObsOK(c, ms, Ev.o), s |-> ms]
    [] Ev.ev = "set_ratio" ->
         [ok |-> ~IsMul(c) /\ RatioOK(Ev.a) /\ DSign(Dec(F64, Ev.a.q)) > 0 /\ Ev.r.k = "unit" /\ ObsOK(c, ms, Ev.o),
          s |-> [ms EXCEPT !.f = FSetRatio(ms.f, Dec(F64, Ev.a.q))]]
    [] Ev.ev = "run" ->
         LET x == IF IsMul(c) THEN Run(c, ms, Ev.a.n, 0)
                  ELSE LET y == FRun(ms.f, Ev.a.n, c.len - Prime(Kind(c)), 0)
                       IN [t |-> [x |-> y.t.x, i |-> y.t.i, s |-> [f |-> y.t.st, cp |-> ms.cp]], cnt |-> y.cnt]
         IN
         [ok |-> /\ Ev.a.n >= 1 /\ Ev.r.k = "val"
                 /\ OutOK(c, x.t, Ev.r.v)
                 /\ ObsOK(c, x.t.s, Ev.o)
                 /\ Ev.o.exh_cnt = x.cnt
                 /\ Ev.o.exh_after = TExh(c, x.t.s)
                 /\ FPositionExact(x.t.s.f),
          s |-> x.t.s]
    [] Ev.ev = "collect" ->
         LET x == IF Ev.r.k = "items" THEN Collect(c, ms, Ev.r.v, Ev.a.n) ELSE [ok |-> FALSE, s |-> ms, n |-> 0] IN
         [ok |-> /\ x.ok
                 /\ ObsOK(c, x.s, Ev.o)
                 /\ Ev.o.exh_after = TExh(c, x.s)
                 /\ ((fresh /\ ~IsMul(c) /\ x.n < Ev.a.n) => CountOK(c, ms, x.s, x.n)),
          s |-> x.s]
    [] OTHER -> [ok |-> FALSE, s |-> ms]

HeapOK == Ev.r.k = "panic" \/ Ev.h = << 0, 0, 0 >>

Consume == l <= Len(Rec) /\ l' = l + 1

TReset ==
  /\ Consume /\ Ev.ev = "reset"
  /\ IF AcceptReset
       THEN /\ rl' = l /\ ms' = InitMs /\ fresh' = TRUE
            /\ skip' = (Ev.r.k = "panic")         \* nothing was constructed: any further line is ignored
       ELSE /\ PrintT(<< "REJECT", l, Ev.ev >>)
            /\ skip' = TRUE /\ UNCHANGED << rl, ms, fresh >>
TOp ==
  /\ Consume /\ Ev.ev # "reset" /\ ~skip
  /\ LET j == Judge IN
     IF j.ok
       THEN /\ ms' = j.s
            /\ fresh' = (fresh /\ Ev.ev \in {"is_exhausted", "set_ratio"})
            /\ (IF HeapOK THEN TRUE ELSE PrintT(<< "HEAP", l, Ev.ev >>))
            /\ UNCHANGED << rl, skip >>
       ELSE /\ PrintT(<< "REJECT", l, Ev.ev >>)
            /\ skip' = TRUE /\ UNCHANGED << rl, ms, fresh >>
TSkip == Consume /\ Ev.ev # "reset" /\ skip /\ UNCHANGED << rl, ms, fresh, skip >>

TraceInit == l = 1 /\ rl = 0 /\ ms = [f |-> FNew(DOne), cp |-> 0] /\ fresh = FALSE /\ skip = TRUE
TraceNext == TReset \/ TOp \/ TSkip
TraceSpec == TraceInit /\ [][TraceNext]_vars

\* every line was consumed (a shorter behaviour means the trace spec got stuck: tool error)
AllConsumed == IF TLCGet("stats").diameter - 1 = Len(Rec) THEN TRUE
               ELSE PrintT(<< "STUCK", TLCGet("stats").diameter, Len(Rec) >>) /\ FALSE
=============================================================================
