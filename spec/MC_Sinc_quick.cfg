SPECIFICATION Spec
CONSTANTS
  MaxDepth = 3
  MaxResets = 2
  BigDepths = {36}
  MaxZ = 7
  GridDepths = {35, 36, 37, 50, 64}
  NearDepths = {4, 5, 8}
INVARIANTS GridDelay ConvDelay TapRange ResetInit RingOK IdxLaw KernelForm SilentOut
CHECK_DEADLOCK FALSE
