SPECIFICATION Spec
CONSTANTS
  MaxDepth = 3
  MaxResets = 2
INVARIANTS GridDelay ConvDelay TapRange ResetInit RingOK IdxLaw
CHECK_DEADLOCK FALSE
