------------------------------- MODULE MC_Osc -------------------------------
(***************************************************************************)
(* Exhaustive check of the oscillator model (C17) on the exact-arithmetic  *)
(* domain: rate = 2^r in {1,2,4,8,16}, integer frequencies 0..MaxHz chosen *)
(* freely PER FRAME (so hz >= rate, hz >= 2 rate and time-varying hz are   *)
(* all covered), Frames frames.  Layer 2 (the code's binary64 computation, *)
(* Osc.tla) is checked against layer 1 (exact rational phase pn/rate):     *)
(*   PhaseRange  phase in [0, 1) always                                    *)
(*   PhaseStep   layer-2 phase = pn / rate, pn' = (pn + hz) mod rate       *)
(*   SawRel, SquareRel, AmpRange                                           *)
(*   HzPulls     an Hz-driven oscillator has pulled one frequency frame    *)
(*               per output; a ConstHz one none -- also when the frequency *)
(*               signal reports is_exhausted() (variable exh: it does so   *)
(*               once exh frames have been pulled, and keeps yielding its  *)
(*               frequencies, as from_iter(dev).offset_amp(base) does)     *)
(*   SineSpecial at phases k/24 the pinned sine class is in range and      *)
(*               antisymmetric under a half-period shift                   *)
(* and, as a second small machine (part = "noise"), noise determinism:     *)
(* every instance (original, clone, restart) reads N(seed, index) from one *)
(* function, for every seed INCLUDING the top ones (u64 modelled as Z_M).  *)
(* Also writes the stimuli for the Rust harness (IOEnv.STIM_OUT).          *)
(***************************************************************************)
EXTENDS Osc, FiniteSets, TLC, Json, IOUtils, SequencesExt

CONSTANTS MaxLog,     \* rates 2^0 .. 2^MaxLog
          MaxHz,      \* integer frequencies 0..MaxHz
          Frames,     \* frames per behaviour (model checking and stimuli)
          NoiseM,     \* modulus standing for 2^64 in the noise machine
          NoiseLen,   \* indices per noise instance
          Thorough    \* larger stimulus families

VARIABLES part,       \* "osc" | "noise"
          mode,       \* "const" | "hz"
          r,          \* log2 rate
          hz0,        \* the constant frequency (mode const)
          pn,         \* layer 1: phase numerator, phase = pn / 2^r
          ph,         \* layer 2: binary64 fields of Phase.next
          n,          \* frames produced
          pulls,      \* frequency frames pulled from the hz signal
          out,        \* last frame: [pn, ph, saw, square] (phase yielded BEFORE stepping)
          nz,         \* noise machine: [nf, seed0, inst, log, ok]
          exh         \* the frequency signal reports exhaustion once `exh` frames were pulled (-1: never)
vars == << part, mode, r, hz0, pn, ph, n, pulls, out, nz, exh >>

Rate == Pow2Small(r)
FZero == FZeroF(0)
FInt(i) == Rne(F64, DFromInt(i))
NoOut == [pn |-> 0, ph |-> FZero, saw |-> FOne, square |-> FOne]
NoNoise == [nf |-> << >>, seed0 |-> 0, inst |-> << >>, log |-> << >>, ok |-> TRUE]

---------------------------------------------------------------------------
ExhSet == {-1, 0, 2}
InitOsc == /\ part = "osc" /\ mode \in {"const", "hz"} /\ r \in 0..MaxLog
           /\ hz0 \in (IF mode = "const" THEN 0..MaxHz ELSE {0})
           /\ pn = 0 /\ ph = FZero /\ n = 0 /\ pulls = 0 /\ out = NoOut /\ nz = NoNoise
           /\ exh \in (IF mode = "hz" THEN ExhSet ELSE {-1})

\* the instrumented frequency signal: is_exhausted() is a report, not an end -- the signal yields the
\* frequency chosen for the frame whatever it reports.  The property (one frequency frame per output,
\* phase' = phase + hz/rate) does not mention exhaustion, so Frame does not read SrcExhausted.
SrcExhausted == exh >= 0 /\ pulls >= exh

\* one output frame: yield the current phase, then step (Phase::next_phase)
Frame(hz) ==
  /\ LET step == StepPow2F(FInt(hz), r) IN
     /\ out' = [pn |-> pn, ph |-> ph, saw |-> SawF(ph), square |-> SquareF(ph)]
     /\ ph' = PhaseNextF(ph, step, 0)
     /\ pn' = PNext(pn, hz, Rate)
  /\ n' = n + 1
  /\ pulls' = IF mode = "hz" THEN pulls + 1 ELSE pulls
  /\ UNCHANGED << part, mode, r, hz0, nz, exh >>
StepOsc == part = "osc" /\ IF mode = "const" THEN Frame(hz0) ELSE \E hz \in 0..MaxHz : Frame(hz)

---------------------------------------------------------------------------
(* noise: three instances over one uninterpreted function nf : Z_M -> {0,1,2} (a stand-in for *)
(* the hash); N(seed, i) = nf[(seed + i) mod M]                                                *)
NoiseFns == [0..(NoiseM - 1) -> {0, 1}]
N(nf, seed, i) == nf[(seed + i) % NoiseM]
InitNoise == /\ part = "noise" /\ mode = "const" /\ r = 0 /\ hz0 = 0 /\ pn = 0 /\ ph = FZero
             /\ n = 0 /\ pulls = 0 /\ out = NoOut /\ exh = -1
             /\ \E nf \in NoiseFns, s0 \in 0..(NoiseM - 1) :
                  nz = [nf |-> nf, seed0 |-> s0, inst |-> << [seed |-> s0, idx |-> 0] >>, log |-> << >>, ok |-> TRUE]
NoiseNext(i) ==
  /\ i \in 1..Len(nz.inst) /\ nz.inst[i].idx < NoiseLen
  /\ LET it == nz.inst[i]
         v  == nz.nf[it.seed]                                  \* layer 2: hash of the stored seed
         st == NoiseNextL2(it.seed, NoiseM, FALSE)             \* wrapping increment (the property)
     IN nz' = [nz EXCEPT !.inst[i] = [seed |-> st.seed, idx |-> it.idx + 1],
                         !.ok = nz.ok /\ st.ok /\ NoiseConsistent(nz.log, it.idx, v)
                                /\ v = N(nz.nf, nz.seed0, it.idx),
                         !.log = NoiseLog(nz.log, it.idx, v)]
NoiseClone == /\ Len(nz.inst) = 1 /\ nz' = [nz EXCEPT !.inst = Append(nz.inst, nz.inst[1])]
NoiseRestart == /\ Len(nz.inst) = 2
                /\ nz' = [nz EXCEPT !.inst = Append(nz.inst, [seed |-> nz.seed0, idx |-> 0])]
StepNoise == /\ part = "noise"
             /\ (\E i \in 1..3 : NoiseNext(i)) \/ NoiseClone \/ NoiseRestart
             /\ UNCHANGED << part, mode, r, hz0, pn, ph, n, pulls, out, exh >>

Init == InitOsc \/ InitNoise
Next == StepOsc \/ StepNoise
Spec == Init /\ [][Next]_vars
\* histories of ANY length: the frame counter only matters through pulls - n.  `exh` is not part of the
\* view: no action and no invariant reads it (that IS the clause), so states differing only in exh and
\* in whether the signal already reports exhaustion are one state.
View == << part, mode, r, hz0, pn, ph, IF mode = "hz" THEN pulls - n ELSE pulls, n > 0, out, nz >>

---------------------------------------------------------------------------
(* invariants = the clauses of C17 *)
PhD == Dec(F64, ph)
PhaseRange == DLe(DZero, PhD) /\ DLt(PhD, DOne) /\ pn \in 0..(Rate - 1)
\* layer 2 (binary64 add + fmod) refines layer 1 (pn' = (pn + hz) mod rate, by construction of pn)
PhaseStep  == DEq(PhD, DScale2(DFromInt(pn), 0 - r))
OutPh == DScale2(DFromInt(out.pn), 0 - r)
SawRel    == n > 0 => DEq(Dec(F64, out.saw), Saw(OutPh)) /\ DEq(Dec(F64, out.ph), OutPh)
SquareRel == n > 0 => DEq(Dec(F64, out.square), Square(OutPh))
                      /\ DEq(Dec(F64, out.square), DOne) = (2 * out.pn < Rate)
AmpRange  == DInUnit(Dec(F64, out.saw)) /\ DInUnit(Dec(F64, out.square))
HzPulls   == pulls = IF mode = "hz" THEN n ELSE 0             \* whatever SrcExhausted says
\* sine: at a special phase the pinned class is in range and flips sign half a period later
SineSpecial ==
  (24 * pn) % Rate = 0 =>
     LET k == (24 * pn) \div Rate IN
     /\ ZGeInt(S4(k), 0) /\ ZLeInt(S4(k), 4)
     /\ SinSign(k + 12) = 0 - SinSign(k) /\ S4(k + 12) = S4(k)
     /\ (SinSign(k) >= 0) = (2 * pn <= Rate \/ pn = 0)
NoiseDeterministic == nz.ok
NoiseTopSeeds == \* the model gives the top seeds a value at every index (wrap, no failure)
  part = "noise" => \A i \in 1..Len(nz.inst) : nz.inst[i].seed = (nz.seed0 + nz.inst[i].idx) % NoiseM

ASSUME SineTableOK

---------------------------------------------------------------------------
(* stimuli: one execution = << reset, next, next, ... >>                   *)
HzOp(h) == [ev |-> "next", a |-> [hzi |-> h]]
Reset(m, rr, x) == [ev |-> "reset", comp |-> "osc", cfg |-> [mode |-> m, ratei |-> Pow2Small(rr), exh |-> x]]
ExecX(m, rr, f(_), x) == << Reset(m, rr, x) >> \o [i \in 1..Frames |-> HzOp(f(i))]
Exec(m, rr, f(_)) == ExecX(m, rr, f, -1)

Bd(rr) == IF Thorough THEN {0, 1, Pow2Small(rr), 2 * Pow2Small(rr) + 1, MaxHz}
          ELSE {0, Pow2Small(rr), 2 * Pow2Small(rr) + 1}
BdSeq(rr) == SetToSeq(Bd(rr))
ConstStim == { Exec("const", rr, LAMBDA i : h) : rr \in 0..MaxLog, h \in 0..MaxHz }
HzConstStim == { Exec("hz", rr, LAMBDA i : h) : rr \in 0..MaxLog,
                 h \in {0, 1, 2, 3, 5, 8, 15, 16, 17, 24, 31, 32, 33, MaxHz} }
RampStim == { Exec("hz", rr, LAMBDA i : (a + b * (i - 1)) % (MaxHz + 1)) :
              rr \in 0..MaxLog, a \in {0, 7, MaxHz}, b \in {1, 3, 17} }
\* every 3-cycle over the boundary frequencies of the rate
CycStim == UNION { { Exec("hz", rr, LAMBDA i : s[((i - 1) % 3) + 1]) : s \in [1..3 -> Bd(rr)] } : rr \in 0..MaxLog }
\* frequency signals that report exhaustion after x pulls (at once, after two, half-way) and keep yielding
\* non-zero frequencies: a constant 1, a constant above twice the rate, a 3-cycle through 0
ExhHz(p, rr, i) == CASE p = 1 -> 1 [] p = 2 -> 2 * Pow2Small(rr) + 1
                     [] OTHER -> << 0, Pow2Small(rr), 5 >>[((i - 1) % 3) + 1]
ExhStim == { ExecX("hz", rr, LAMBDA i : ExhHz(p, rr, i), x) :
             rr \in 0..MaxLog, p \in 1..3, x \in {0, 2, Frames \div 2} }
\* round 4: a look-ahead through clones (`peek{m}`: every oscillator cloned mid-run and read through the provided
\* Signal::take) before the first frame, after one frame, half-way, with a second peek while the first is
\* still being replayed; constant and per-frame frequencies, with and without an exhausted-reporting source
PeekOp(m) == [ev |-> "peek", a |-> [m |-> m]]
WithPeek(e, at, m) == SubSeq(e, 1, at) \o << PeekOp(m) >> \o SubSeq(e, at + 1, Len(e))
PeekStim ==
  { WithPeek(WithPeek(ExecX(md, rr, LAMBDA i : IF md = "const" THEN 3 ELSE << 1, Pow2Small(rr), 5 >>[((i - 1) % 3) + 1], x), at, m),
             at + 3, 2)
    : md \in {"const", "hz"}, rr \in 0..MaxLog, at \in {1, 2, Frames \div 2}, m \in {1, 4},
      x \in {-1} }
  \cup { WithPeek(ExecX("hz", rr, LAMBDA i : ExhHz(3, rr, i), 2), at, 3) : rr \in 0..MaxLog, at \in {1, 3} }
\* round 5: the noise hash chain (Osc.tla NoiseStages) at counters where its rare operations cross 2^64.
\* Witness counters as groups of six decimal digits; the ASSUME verifies on exact naturals that every operation
\* of the chain has a witness that crosses there (so none is exercised on one side of 2^64 only) and that the
\* usual small seeds cross nowhere.  Each witness becomes executions: started AT the counter and a few frames
\* BEFORE it (the run reaches it by itself), original + restart + clone.
RECURSIVE BDec6(_)
BDec6(g) == IF Len(g) = 0 THEN BZero
            ELSE BAdd(BMul(BDec6(SubSeq(g, 1, Len(g) - 1)), BFromNat(1000000)), BFromNat(g[Len(g)]))
NoiseWitness ==
  { << << 43101, 728223 >>, << "a3", "sq", "m1", "mx" >> >>,                     \* the three smallest counters whose
    << << 47374, 347511 >>, << "a3" >> >>,                                        \* `+ P3` crosses
    << << 56657, 942616 >>, << "a3" >> >>,
    << << 6, 578093, 194148, 406037 >>, << "a2", "shl", "sq", "m1" >> >>,         \* `+ P2` crosses (product = 2^64 - P2)
    << << 8, 688407, 970579, 4009 >>, << "a2", "mx" >> >>,
    << << 11, 865318, 259704, 290539 >>, << "a2" >> >>,
    << << 5, 582927, 809630, 876629 >>, << "a2", "mx" >> >>,
    << << 230, 204178 >>, << "lo31ones" >> >>,                                    \* all 31 output bits set
    << << 2377, 687826 >>, << "lo31ones" >> >>,
    << << 18, 446744, 73709, 551615 >>, << "shl" >> >>,                           \* u64::MAX
    << << 4294, 967295 >>, << "sq", "m1", "mx" >> >> }
NoiseBandsInhabited ==
  /\ \A w \in NoiseWitness : \A i \in 1..Len(w[2]) : NoiseLabelOK(BDec6(w[1]), w[2][i])
  /\ \A o \in NoiseOpNames \cup {"lo31ones"} : \E w \in NoiseWitness : \E i \in 1..Len(w[2]) : w[2][i] = o
  /\ NoiseCross(BZero) = {} /\ NoiseCross(<< 1 >>) = {}
  /\ BXor(<< 5, 3 >>, << 6 >>) = << 3, 3 >> /\ BXor(<< 7, 1 >>, << 7, 1 >>) = << >>
ASSUME NoiseBandsInhabited
NzNext(i) == [ev |-> "next", a |-> [inst |-> i]]
NoiseExec(w, at) ==
  << [ev |-> "reset", comp |-> "noise",
      cfg |-> [seed |-> [n |-> 0, l |-> BSub(BDec6(w[1]), BFromNat(at))], cross |-> w[2], at |-> at]] >>
  \o [i \in 1..(at + 2) |-> NzNext(0)]
  \o << [ev |-> "clone", a |-> [from |-> 0, inst |-> 2]], [ev |-> "restart", a |-> [inst |-> 1]] >>
  \o [i \in 1..(at + 2) |-> NzNext(1)] \o << NzNext(2), NzNext(0), [ev |-> "peek", a |-> [inst |-> 1, m |-> 2]] >>
NoiseStim == { NoiseExec(w, at) : w \in NoiseWitness, at \in {0, 1, 5} }
Stimuli == ConstStim \cup HzConstStim \cup RampStim \cup CycStim \cup ExhStim \cup PeekStim \cup NoiseStim

WriteStimuli ==
  IF "STIM_OUT" \in DOMAIN IOEnv
    THEN /\ ndJsonSerialize(IOEnv.STIM_OUT, SetToSeq(Stimuli))
         /\ PrintT(<< "STIMULI", Cardinality(Stimuli) >>)
    ELSE TRUE
ASSUME WriteStimuli
=============================================================================
