SPECIFICATION Spec
CONSTANTS
  Shapes <- QuickShapes
INVARIANTS WellFormed Partial Inputs Final FinalModuloSelfLoops Functional HelpersOnFullGraphs
CHECK_DEADLOCK FALSE
