-------------------------------- MODULE Heap --------------------------------
(***************************************************************************)
(* The realtime-safety discipline of property C07 in one place.            *)
(*                                                                         *)
(* Every trace specification conjoins a heap predicate to the events it    *)
(* accepts: an event carries h = <<allocs, reallocs, frees>> measured by   *)
(* the harness's counting global allocator strictly inside the call.       *)
(*   - steady-state operations of the sample, frame, borrowed-slice, ring  *)
(*     buffer, peak, RMS, envelope, interpolation, window and signal APIs  *)
(*     (every source and adaptor, fork by reference and by Rc after        *)
(*     creation, buffered, rate conversion, windower) must have h = 0;     *)
(*   - constructors (`reset` lines), Fork::by_rc, boxed-slice conversions  *)
(*     and every Bus action are exempt (boxed conversions have their own   *)
(*     rule in Slices.tla: success touches nothing, failure frees the box);*)
(*   - Processor::process may touch the heap only while the graph's node   *)
(*     bound or a node's in-degree exceeds what this processor has seen    *)
(*     (a high-water mark kept by Trace_Graph);                            *)
(*   - the bus is exempt, but when its outputs are pulled in lock step its *)
(*     backlog never holds more than one frame and its heap footprint      *)
(*     stops growing after the first round (below, and Trace_Bus).         *)
(* A call whose result is a panic is not a steady-state operation.         *)
(* A violation of only this conjunct is printed as <<"HEAP", line>> (the   *)
(* functional verdict of the event is unaffected) and is collected by the  *)
(* C07 check from the traces of all components.                            *)
(***************************************************************************)
EXTENDS Bus

NoHeap(h) == h = << 0, 0, 0 >>
SteadyOK(ev) == ev.r.k = "panic" \/ NoHeap(ev.h)

\* graph processing: hwm = [nodes, indeg] seen so far by this processor
GraphMayAllocate(hwm, bound, maxIndeg) == bound > hwm.nodes \/ maxIndeg > hwm.indeg
GraphHwm(hwm, bound, maxIndeg) == [nodes |-> IF bound > hwm.nodes THEN bound ELSE hwm.nodes,
                                   indeg |-> IF maxIndeg > hwm.indeg THEN maxIndeg ELSE hwm.indeg]
=============================================================================
