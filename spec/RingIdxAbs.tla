----------------------------- MODULE RingIdxAbs -----------------------------
(***************************************************************************)
(* Integer abstraction of RingBuffer.tla for Apalache: the index           *)
(* arithmetic of `Bounded` and `Fixed` for ANY capacity Cap >= 1 and       *)
(* histories of any length (C06's unbounded quantifier; MC_RingBuffer      *)
(* enumerates Cap <= 4 only).                                              *)
(*                                                                         *)
(* Elements are named by their push sequence number 1, 2, 3, ...  Instead  *)
(* of the slot array the model follows ONE arbitrary element W (a          *)
(* symbolic constant, so the result holds for every element): `wslot` is   *)
(* the slot it was written to, `bad` records a write into that slot while  *)
(* W is still live.  IndInv says that as long as W is live it sits exactly *)
(* where get/Index/iter look for the (W - popped - 1)-th oldest element,   *)
(* which with ~bad is layer 1 of RingBuffer.tla: FIFO order, push evicts   *)
(* the oldest only when full, pop returns the oldest, Fixed::push returns  *)
(* the element pushed N pushes earlier.                                    *)
(*                                                                         *)
(* The code's `%` is applied to values in 0 .. 2*Cap-1 only (start < Cap,  *)
(* offset < Cap), where it equals Wrap; MC_RingBuffer cross-checks the     *)
(* same slot formulas with the real modulo for Cap <= 4.  `set_first`      *)
(* (a rotation of the logical order) is followed through W's logical index *)
(* `fidx`.  Checked by:                                               *)
(*   apalache-mc check --cinit=ConstInit --inv=IndInv --init=Init --length=0    *)
(*   apalache-mc check --cinit=ConstInit --inv=IndInv --init=IndInit --length=1 *)
(*   apalache-mc check --cinit=ConstInit --inv=IndInv --init=InitRaw --length=0 *)
(***************************************************************************)
EXTENDS Integers

CONSTANTS
  \* @type: Int;
  Cap,
  \* @type: Int;
  W
VARIABLES
  \* @type: Int;
  start,
  \* @type: Int;
  len,
  \* @type: Int;
  pushed,
  \* @type: Int;
  popped,
  \* @type: Int;
  wslot,
  \* @type: Bool;
  bad,
  \* @type: Int;
  first,
  \* @type: Int;
  fpushed,
  \* @type: Int;
  fwslot,
  \* @type: Int;
  fidx,
  \* @type: Bool;
  fbad

ConstInit == Cap \in Nat /\ Cap >= 1 /\ W \in Nat /\ W >= 1

Wrap(x) == IF x >= Cap THEN x - Cap ELSE x            \* x % Cap for 0 <= x < 2*Cap
Inc(x)  == IF x + 1 >= Cap THEN 0 ELSE x + 1          \* the code's own wrap of start / first

\* Bounded::new / from(storage): empty.  Fixed::from(storage): the storage's Cap elements are
\* elements 1..Cap, oldest first.
Init == /\ start = 0 /\ len = 0 /\ pushed = 0 /\ popped = 0 /\ wslot = -1 /\ bad = FALSE
        /\ first = 0 /\ fpushed = Cap /\ fwslot = (IF W <= Cap THEN W - 1 ELSE -1) /\ fbad = FALSE
        /\ fidx = (IF W <= Cap THEN W - 1 ELSE -1)

\* from_raw_parts(start, len, storage) / Fixed::from_raw_parts(first, storage): ANY valid raw parts; the live
\* elements are numbered 1..len (1..Cap for Fixed), oldest first.  Generalises Init (from) and from_full.
InitRaw == /\ start \in Int /\ start >= 0 /\ start < Cap /\ len \in Int /\ len >= 0 /\ len <= Cap
           /\ pushed = len /\ popped = 0 /\ bad = FALSE
           /\ wslot = (IF W <= len THEN Wrap(start + W - 1) ELSE -1)
           /\ first \in Int /\ first >= 0 /\ first < Cap /\ fpushed = Cap /\ fbad = FALSE
           /\ fwslot = (IF W <= Cap THEN Wrap(first + W - 1) ELSE -1)
           /\ fidx = (IF W <= Cap THEN W - 1 ELSE -1)

BLive(po, pu) == po < W /\ W <= pu
BUnch == UNCHANGED <<start, len, pushed, popped, wslot, bad>>
FUnch == UNCHANGED <<first, fpushed, fwslot, fbad, fidx>>

BPushFull == /\ len = Cap
             /\ start' = Inc(start) /\ len' = len /\ pushed' = pushed + 1 /\ popped' = popped + 1
             /\ wslot' = IF pushed + 1 = W THEN start ELSE wslot
             /\ bad' = (bad \/ (start = wslot /\ BLive(popped + 1, pushed)))
             /\ FUnch
BPushRoom == /\ len < Cap
             /\ start' = start /\ len' = len + 1 /\ pushed' = pushed + 1 /\ popped' = popped
             /\ wslot' = IF pushed + 1 = W THEN Wrap(start + len) ELSE wslot
             /\ bad' = (bad \/ (Wrap(start + len) = wslot /\ BLive(popped, pushed)))
             /\ FUnch
BPop == /\ len > 0
        /\ start' = Inc(start) /\ len' = len - 1 /\ popped' = popped + 1
        /\ UNCHANGED <<pushed, wslot, bad>>
        /\ FUnch
\* Fixed: `fidx` is W's LOGICAL index in the delay line (0 = oldest .. Cap-1 = newest, -1 = not in it), so
\* that set_first - a rotation of the logical order, DRotate in RingBuffer.tla - can be followed too.
FPush == /\ first' = Inc(first) /\ fpushed' = fpushed + 1
         /\ fwslot' = IF fpushed + 1 = W THEN first ELSE fwslot
         /\ fidx' = IF fpushed + 1 = W THEN Cap - 1 ELSE IF fidx >= 1 THEN fidx - 1 ELSE -1   \* index 0 is returned + evicted
         /\ fbad' = (fbad \/ (first = fwslot /\ fidx >= 1))      \* wrote over W although W stays in the line
         /\ BUnch
\* set_first(index): first = index % len, i.e. ANY k in 0..Cap-1; the logical order rotates by (k - first) mod Cap
FSetFirst == \E k \in Int :
               /\ k >= 0 /\ k < Cap
               /\ first' = k
               /\ fidx' = IF fidx >= 0 THEN Wrap(fidx - Wrap(k + Cap - first) + Cap) ELSE -1
               /\ UNCHANGED <<fpushed, fwslot, fbad>>
               /\ BUnch
Next == BPushFull \/ BPushRoom \/ BPop \/ FPush \/ FSetFirst

IndInv ==
  /\ start >= 0 /\ start < Cap /\ len >= 0 /\ len <= Cap         \* representation invariant
  /\ popped >= 0 /\ len = pushed - popped
  /\ ~bad                                                        \* no live element overwritten
  /\ (BLive(popped, pushed) => wslot = Wrap(start + (W - popped - 1)))   \* get(i)/iter/pop/evict find it
  /\ (W > pushed => wslot = -1)
  /\ first >= 0 /\ first < Cap /\ fpushed >= Cap
  /\ ~fbad
  /\ fidx >= -1 /\ fidx < Cap
  /\ (fidx >= 0 => fwslot = Wrap(first + fidx))      \* get(i)/Index/iter/push's return read slot Wrap(first + i)
  /\ (W > fpushed => (fwslot = -1 /\ fidx = -1))

IndInit == /\ start \in Int /\ len \in Int /\ pushed \in Int /\ popped \in Int /\ wslot \in Int /\ bad \in BOOLEAN
           /\ first \in Int /\ fpushed \in Int /\ fwslot \in Int /\ fbad \in BOOLEAN /\ fidx \in Int
           /\ IndInv
=============================================================================
