SPECIFICATION Spec
CONSTANTS
  MaxLen = 4
  CloneLen = 3
  StimLen = 3
INVARIANTS Recurrence GainRule Between ZeroTime Monotone SetLater DetSign FmtIdle CloneSame Independent
CHECK_DEADLOCK FALSE
