SPECIFICATION Spec
CONSTANTS
  MaxLen = 4
  StimLen = 3
INVARIANTS Recurrence GainRule Between ZeroTime Monotone SetLater DetSign
CHECK_DEADLOCK FALSE
