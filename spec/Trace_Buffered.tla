--------------------------- MODULE Trace_Buffered ---------------------------
(* Trace validation for buffered signals (C14): accept by layer 1 of Buffered.tla. *)
EXTENDS Buffered, TLC, Json, IOUtils

Rec == ndJsonDeserialize(IOEnv.TRACE)
VARIABLES l, a, cap, srclen, skip
vars == << l, a, cap, srclen, skip >>
Ev == Rec[l]
Consume == l <= Len(Rec) /\ l' = l + 1

\* srclen < 0 in the header = a source that never ends
Exh(x) == srclen >= 0 /\ AExhausted(x, srclen)
SL == IF srclen < 0 THEN 2000000000 ELSE srclen
ObsOK(o, x) == o.ok /\ o.pulls = x.pulls /\ o.exh = Exh(x)
CfgOK(c) == /\ Len(c.data) >= 1 /\ c.start < Len(c.data) /\ c.len <= Len(c.data)
Prefill(c) == BAbs([data |-> c.data, start |-> c.start, len |-> c.len])
AcceptReset == CfgOK(Ev.cfg) /\ Ev.r.k = "unit"
               /\ Ev.o.ok /\ Ev.o.pulls = 0
               /\ Ev.o.exh = (Ev.cfg.len = 0 /\ Ev.cfg.srclen = 0)
Step == CASE Ev.ev = "next" -> LET r == ANext(a, cap, SL) IN [ret |-> [k |-> "val", v |-> r.frame], a |-> r.a]
          [] Ev.ev = "next_frames" -> LET r == ANextFrames(a, Ev.a.k, cap, SL) IN [ret |-> [k |-> "items", v |-> r.items], a |-> r.a]
          [] Ev.ev = "is_exhausted" -> [ret |-> [k |-> "val", v |-> IF Exh(a) THEN 1 ELSE 0], a |-> a]
          \* a batch consumed by internal iteration (fold / for_each / count / last) is the whole batch, removed like one taken by `next`
          [] Ev.ev \in {"nf_fold", "nf_for_each"} -> LET r == ANextFrames(a, cap + 1, cap, SL) IN [ret |-> [k |-> "items", v |-> r.items], a |-> r.a]
          [] Ev.ev = "nf_count" -> LET r == ANextFrames(a, cap + 1, cap, SL) IN [ret |-> [k |-> "val", v |-> Len(r.items)], a |-> r.a]
          [] Ev.ev = "nf_last" -> LET r == ANextFrames(a, cap + 1, cap, SL) IN
                                  [ret |-> [k |-> "val", v |-> IF Len(r.items) = 0 THEN -1 ELSE r.items[Len(r.items)]], a |-> r.a]
          [] Ev.ev = "clone" -> [ret |-> [k |-> "val", v |-> 0], a |-> a]     \* the clone continues the same stream
AcceptOp == /\ Ev.ev \in {"next", "next_frames", "is_exhausted", "clone", "nf_fold", "nf_for_each", "nf_count", "nf_last"}
            /\ Ev.r = Step.ret /\ ObsOK(Ev.o, Step.a)
HeapOK == Ev.ev = "clone" \/ Ev.h = << 0, 0, 0 >>     \* cloning the owned ring storage allocates by nature

TReset == /\ Consume /\ Ev.ev = "reset"
          /\ IF AcceptReset THEN /\ a' = AInit(Prefill(Ev.cfg)) /\ cap' = Len(Ev.cfg.data)
                                 /\ srclen' = Ev.cfg.srclen /\ skip' = FALSE
             ELSE PrintT(<< "REJECT", l, Ev.ev >>) /\ skip' = TRUE /\ UNCHANGED << a, cap, srclen >>
TOp == /\ Consume /\ Ev.ev # "reset" /\ ~skip
       /\ IF AcceptOp THEN /\ a' = Step.a /\ (IF HeapOK THEN TRUE ELSE PrintT(<< "HEAP", l, Ev.ev >>))
                           /\ UNCHANGED << cap, srclen, skip >>
          ELSE PrintT(<< "REJECT", l, Ev.ev >>) /\ skip' = TRUE /\ UNCHANGED << a, cap, srclen >>
TSkip == Consume /\ Ev.ev # "reset" /\ skip /\ UNCHANGED << a, cap, srclen, skip >>
TraceInit == l = 1 /\ a = AInit(<< >>) /\ cap = 1 /\ srclen = 0 /\ skip = TRUE
TraceNext == TReset \/ TOp \/ TSkip
TraceSpec == TraceInit /\ [][TraceNext]_vars
AllConsumed == IF TLCGet("stats").diameter - 1 = Len(Rec) THEN TRUE
               ELSE PrintT(<< "STUCK", TLCGet("stats").diameter, Len(Rec) >>) /\ FALSE
=============================================================================
