------------------------------ MODULE MC_Nodes ------------------------------
(***************************************************************************)
(* Exhaustive check of property C16 on the model: for every node kind,     *)
(* every input count 0..MaxIn, every buffers-per-input combination         *)
(* 0..MaxBuf (matching or not), every output count 0..MaxBuf and NCalls    *)
(* consecutive process calls, the code-shaped layer 2 of Nodes.tla (the    *)
(* loops of node/*.rs; Delay over RingBuffer.Fixed's representation;       *)
(* GraphNode over every order the DFS machine of Graph.tla can take)       *)
(* equals layer 1 (the documented functions), and the stream laws hold:    *)
(* Delay delays channel c by exactly the length of ring c continuously     *)
(* across calls; the signal node emits successive frames de-interleaved,   *)
(* one buffer length per call.  Buffer length L = 3 here; the stimuli are  *)
(* executed by the harness at the real Buffer::LEN = 64.                   *)
(***************************************************************************)
EXTENDS Nodes, TLC, Json, IOUtils, SequencesExt

CONSTANTS L, MaxIn, MaxBuf, NCalls, MaxPick
VARIABLES cs,        \* the case: [d |-> descriptor, ins |-> << buffers of input 1, .. >>, nout |-> output buffers]
          st1, st2,  \* node state, layer 1 / layer 2
          out1, out2,\* output buffers after the last call, layer 1 / layer 2
          call,      \* calls made
          hin, hout  \* per channel: everything the first input supplied / everything the node wrote
vars == << cs, st1, st2, out1, out2, call, hin, hout >>

---------------------------------------------------------------------------
(* the cases *)
Ring(c, n) == [i \in 1..n |-> -(10 * c + i)]
DelayOf(lens) == [kind |-> "delay", rings |-> [c \in 1..Len(lens) |-> Ring(c, lens[c])],
                  first |-> [c \in 1..Len(lens) |-> c % lens[c]], storage |-> IF Len(lens) % 2 = 0 THEN "vec" ELSE "boxed"]
SignalOf(ch) == [kind |-> "signal", ch |-> ch, n |-> 2 * L + 1, mul |-> 3, off |-> ch, modn |-> 11]
Hold == [kind |-> "hold"]
\* two holds into a sum
T1(insq) == [kind |-> "graph", container |-> "graph", cap |-> 3,
             nodes |-> << Hold, Hold, [kind |-> "sum"] >>, nb |-> << 2, 1, 2 >>,
             init |-> << << 1, 2 >>, << 3 >>, << 4, 5 >> >>,
             edges |-> << << 0, 2 >>, << 1, 2 >> >>, ins |-> insq, out |-> 2]
\* diamond: hold -> pass, hold -> sumbuf (twice), both -> sum; the two middle nodes may run in either order
T2 == [kind |-> "graph", container |-> "stable", cap |-> 0,
       nodes |-> << Hold, [kind |-> "pass"], [kind |-> "sumbuf"], [kind |-> "sum"] >>, nb |-> << 2, 2, 1, 2 >>,
       init |-> << << 1, 2 >>, << 3, 4 >>, << 5 >>, << 6, 7 >> >>,
       edges |-> << << 0, 1 >>, << 0, 2 >>, << 0, 2 >>, << 1, 3 >>, << 2, 3 >>, << 3, 3 >> >>, ins |-> << 0 >>, out |-> 3]
\* two deep, with a stateful node inside: hold -> GraphNode(T1) -> delay, GraphNode -> sum <- delay
T3 == [kind |-> "graph", container |-> "graph", cap |-> 4,
       nodes |-> << Hold, T1(<< 0 >>), DelayOf(<< 2, 1 >>), [kind |-> "sum"] >>, nb |-> << 3, 2, 2, 2 >>,
       init |-> << << 1, 2, 3 >>, << 4, 5 >>, << 6, 7 >>, << 8, 9 >> >>,
       edges |-> << << 0, 1 >>, << 1, 2 >>, << 1, 3 >>, << 2, 3 >> >>, ins |-> << 0, 0 >>, out |-> 3]

\* Hold = a user node that writes nothing (its invocations are observed by the harness): what a wrapper must still call
Descs == {[kind |-> "sum"], [kind |-> "sumbuf"], [kind |-> "pass"], Hold}
           \cup {DelayOf(ls) : ls \in {<< >>, << 1 >>, << 2, 4 >>, << 3, 1, 5 >>}}
           \cup {SignalOf(ch) : ch \in 1..(MaxBuf + 1)}
           \cup {T1(<< 0, 1 >>), T1(<< 1, 0, 2 >>), T2, T3}
InShapes(d) == IF d.kind = "signal" THEN {<< >>, << 1 >>}
               ELSE UNION {[1..k -> 0..MaxBuf] : k \in 0..MaxIn}
Cases == UNION {{[d |-> d, ins |-> s, nout |-> n] : s \in InShapes(d), n \in 0..MaxBuf} : d \in Descs}

\* deterministic, position-dependent contents (the nodes never branch on sample values)
Content(k, j, c, i) == ((k * 5 + j * 3 + c * 2 + i) % 9) - 4
InputsAt(k) == [j \in 1..Len(cs.ins) |-> [c \in 1..cs.ins[j] |-> [i \in 1..L |-> Content(k, j, c, i)]]]
OutInit(n) == [c \in 1..n |-> [i \in 1..L |-> 50 + 10 * c + i]]     \* markers: "untouched" is visible

---------------------------------------------------------------------------
Init == /\ cs \in Cases
        /\ st1 = NodeInit(cs.d, L) /\ st2 = NodeInit2(cs.d, L)
        /\ out1 = OutInit(cs.nout) /\ out2 = OutInit(cs.nout)
        /\ call = 0
        /\ hin = [c \in 1..MaxBuf |-> << >>] /\ hout = [c \in 1..MaxBuf |-> << >>]

Call == /\ call < NCalls
        /\ \E pick \in 1..MaxPick :
             LET ins == InputsAt(call + 1)
                 r1 == NodeStep(cs.d, st1, ins, out1, L)
                 r2 == NodeStep2(cs.d, st2, ins, out2, L, pick)
             IN /\ st1' = r1.st /\ out1' = r1.out
                /\ st2' = r2.st /\ out2' = r2.out
                /\ hin'  = [c \in 1..MaxBuf |-> IF Len(ins) >= 1 /\ c <= Len(ins[1]) THEN hin[c] \o ins[1][c] ELSE hin[c]]
                /\ hout' = [c \in 1..MaxBuf |-> IF c <= Len(r2.out) THEN hout[c] \o r2.out[c] ELSE hout[c]]
        /\ call' = call + 1
        /\ UNCHANGED cs
Next == Call
Spec == Init /\ [][Next]_vars

---------------------------------------------------------------------------
(* invariants = the clauses of C16 *)
Refines == out2 = out1 /\ AbsState(cs.d, st2) = st1

Shapes == /\ Len(out1) = cs.nout
          /\ \A c \in 1..Len(out1) : Len(out1[c]) = L

\* Sum with no inputs is silence; channels no input has are silent
SumSilence == cs.d.kind = "sum" /\ call > 0 =>
                \A c \in 1..cs.nout : (\A j \in 1..Len(cs.ins) : cs.ins[j] < c) => out2[c] = ZeroBuf(L)
\* SumBuffers: all output buffers equal
SumBufEqual == cs.d.kind = "sumbuf" /\ call > 0 => \A c \in 1..cs.nout : out2[c] = out2[1]
\* Pass / Delay / Signal: surplus outputs (and everything, without an input) keep their content
Untouched ==
  LET active == CASE cs.d.kind = "pass"   -> IF Len(cs.ins) = 0 THEN 0 ELSE cs.ins[1]
                  [] cs.d.kind = "delay"  -> IF Len(cs.ins) = 0 THEN 0 ELSE Min2N(cs.ins[1], Len(cs.d.rings))
                  [] cs.d.kind = "signal" -> cs.d.ch
                  [] OTHER -> MaxBuf
  IN \A c \in 1..cs.nout : c > active => out2[c] = OutInit(cs.nout)[c]
\* Delay: channel c delayed by exactly Len(ring c) samples, continuously across calls
DelayStreams ==
  cs.d.kind = "delay" /\ Len(cs.ins) >= 1 =>
    \A c \in 1..Min3N(Len(cs.d.rings), cs.ins[1], cs.nout) :
       /\ DelayLaw(NodeInit(cs.d, L)[c], hin[c], hout[c])
       /\ \A t \in 1..Len(hout[c]) : t > Len(cs.d.rings[c]) => hout[c][t] = hin[c][t - Len(cs.d.rings[c])]
\* Signal node: successive frames de-interleaved, one buffer length per call, continuing across calls
SignalStreams ==
  cs.d.kind = "signal" =>
    /\ st2 = call * L
    /\ \A c \in 1..Min2N(cs.d.ch, cs.nout) : hout[c] = [t \in 1..(call * L) |-> SigFrame(cs.d, t - 1, c)]

---------------------------------------------------------------------------
(* stimuli: every case once, NCalls calls with seeded contents, wrappers in rotation *)
WrappersOf(kind) ==
  CASE kind \in {"sum", "sumbuf", "pass", "hold"} ->
         << "plain", "ref", "box", "boxed", "boxed_send", "dyn_node", "dyn_fn", "dyn_fnmut", "fn" >>
    [] kind = "delay"  -> << "plain", "ref", "box", "boxed", "boxed_send", "dyn_node", "dyn_fnmut" >>
    [] kind = "signal" -> << "plain", "ref", "ref_dyn", "box", "boxed", "dyn_fnmut" >>
    [] kind = "graph"  -> << "plain", "ref", "box", "boxed", "dyn_node", "dyn_fnmut" >>
CaseSeq == SetToSeq(Cases)
ExecOf(CS, k) ==
  LET x == CS[k]
      w == WrappersOf(x.d.kind)
  IN << [ev |-> "reset", comp |-> "node",
         cfg |-> [node |-> x.d, wrapper |-> w[(k % Len(w)) + 1], nout |-> x.nout, feeds |-> x.ins,
                  edges |-> [j \in 1..Len(x.ins) |-> j - 1], seed |-> k,
                  container |-> IF k % 2 = 0 THEN "graph" ELSE "stable"]] >>
     \o [j \in 1..NCalls |-> [ev |-> "call", a |-> [seed |-> 1000 * k + j]]]
WriteStimuli ==
  IF "STIM_OUT" \in DOMAIN IOEnv
    THEN LET CS == CaseSeq        \* evaluated once
         IN /\ ndJsonSerialize(IOEnv.STIM_OUT, [k \in 1..Len(CS) |-> ExecOf(CS, k)])
            /\ PrintT(<< "STIMULI", Len(CS) >>)
    ELSE TRUE
ASSUME WriteStimuli
=============================================================================
