SPECIFICATION Spec
CONSTANTS
  Ratios = {4, 8, 12, 16, 20, 24, 32, 48, 17}
  MaxLen = 8
  MaxBeyond = 3
  Modes = {"conv", "mulhz"}
  WithF = TRUE
  WithRef = TRUE
  StimCycle = 3
  StimOut = 24
  StimLens = {0, 1, 2, 3, 4, 5, 6, 7, 8}
  StimLens3 = {3, 6}
INVARIANTS Position FloorOut LinearOut InHull Unity ExhIff Count CtlOnce PartC
CHECK_DEADLOCK FALSE
