SPECIFICATION Spec
CONSTANTS
  MaxCap = 3
  Vals = {1, 2}
INVARIANTS RepInv Refines ViewsAgree NoPoison DelayLine
CHECK_DEADLOCK FALSE
