SPECIFICATION Spec
CONSTANTS
  MaxLen = 3
  CloneLen = 3
  StimLen = 2
INVARIANTS Recurrence GainRule Between ZeroTime Monotone SetLater DetSign FmtIdle CloneSame Independent
CHECK_DEADLOCK FALSE
