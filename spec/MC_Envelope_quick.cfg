SPECIFICATION Spec
CONSTANTS
  MaxLen = 3
  StimLen = 2
INVARIANTS Recurrence GainRule Between ZeroTime Monotone SetLater DetSign
CHECK_DEADLOCK FALSE
