---------------------------- MODULE MC_Converter ----------------------------
(***************************************************************************)
(* Exhaustive check of property C08 on Converter.tla: the code-shaped      *)
(* layer 2 (accumulator loop over from_iter's look-ahead and the held      *)
(* frames of Floor / Linear; MulHz) refines the closed-form layer 1 for    *)
(* every history of per-frame ratio choices, every source length, both     *)
(* interpolators, the plain converter and mul_hz.  Positions are           *)
(* numerators over U = 16 (all ratios are k/16, exact in f64).             *)
(* With WithF = TRUE the f64 semantics used for trace validation (part C   *)
(* of Converter.tla) is run alongside and must agree on this exact domain. *)
(* Also writes the stimuli file (IOEnv.STIM_OUT).                          *)
(***************************************************************************)
EXTENDS Converter, FiniteSets, TLC, Json, IOUtils, SequencesExt

CONSTANTS Ratios,      \* ratio numerators over U, e.g. {4, 8, 12, 16, 20, 24, 32, 48, 17}
          MaxLen,      \* source lengths 0..MaxLen  (<= 8)
          MaxBeyond,   \* histories run until the position passes MaxLen + MaxBeyond source frames
          Modes,       \* subset of {"conv", "mulhz"}
          WithF,       \* run the f64 semantics (fixed-point image) alongside
          WithRef,     \* ... and its Dyadic reference too (needs WithF)
          StimCycle,   \* stimuli: cyclic ratio patterns up to this length
          StimOut,     \* stimuli: outputs per execution
          StimLens,    \* stimuli: source lengths
          StimLens3    \* stimuli: source lengths that also get the patterns of length 3

U == 16
Content == << 3, -5, 7, 2, -8, 6, -1, 4 >>      \* distinct, non-zero, sign changes; equilibrium is 0
EQ == 0
Src(n) == SubSeq(Content, 1, n)

VARIABLES kind, len, mode,
          m,          \* layer 2: [c |-> Converter, ctl |-> control source]  (ctl unused in mode "conv")
          out,        \* latest output (numerator over U); -1 before the first
          P, Pl,      \* layer 1: position of the next / of the latest output
          any,        \* at least one output produced
          constR,     \* the ratio has never been changed        } only these histories need the
          unity,      \* every ratio so far was exactly 1         } number of outputs:
          cnt,        \* outputs so far if constR \/ unity, else -1
          stopAt,     \* constR: number of outputs when is_exhausted first became true, else -1
          ctlOK,      \* mul_hz pulled its control signal exactly once per output so far
          fst         \* part C state (Dyadic) when WithF
vars == << kind, len, mode, m, out, P, Pl, any, constR, unity, cnt, stopAt, ctlOK, fst >>

DRatio(r) == DScale2(DFromInt(r), -4)            \* r / 16 as a Dyadic
NoCtl == SrcNew(<< >>)
\* The control signal of mul_hz is a from_iter whose list is chosen lazily: the state only records
\* whether its look-ahead slot is full (the value in it is not observable before it is pulled, so it
\* is chosen when pulled), and its pull counter is checked and reset at every step.
CtlWith(x) == [fi |-> [nxt |-> x, rest |-> << >>], pulls |-> 0]
Pending == CvSome(0)
MaxP == (MaxLen + MaxBeyond) * U               \* outputs are produced while the position is below this

Init ==
  /\ kind \in {"floor", "linear"} /\ len \in 0..MaxLen /\ mode \in Modes
  /\ IF mode = "conv"
       THEN \E r \in Ratios : m = [c |-> CNew(kind, Src(len), EQ, r), ctl |-> NoCtl]
       ELSE \E nx \in {Pending, CvNone} : m = [c |-> MNew(kind, Src(len), EQ, << >>, U).c, ctl |-> CtlWith(nx)]
  /\ fst = IF WithF THEN [f |-> FNew(DOne), r |-> RefNew] ELSE 0
  /\ out = -1 /\ P = 0 /\ Pl = 0 /\ any = FALSE /\ constR = TRUE /\ unity = TRUE /\ cnt = 0 /\ stopAt = -1
  /\ ctlOK = TRUE

\* bookkeeping common to every produced frame; r = ratio in effect for this output
Produce(x, r, changed) ==
  /\ out' = x.out
  /\ Pl' = P /\ P' = P + r /\ any' = TRUE
  /\ constR' = (constR /\ ~changed)
  /\ unity' = (unity /\ r = U)
  /\ cnt' = IF (constR /\ ~changed) \/ (unity /\ r = U) THEN cnt + 1 ELSE -1
  /\ fst' = IF WithF THEN [f |-> FStep(FSetRatio(fst.f, DRatio(r))).st, r |-> IF WithRef THEN RefStep(fst.r, DRatio(r)).st ELSE fst.r] ELSE 0
  /\ UNCHANGED << kind, len, mode >>

NextSame ==
  /\ mode = "conv" /\ P < MaxP
  /\ LET x == CNext(m.c, EQ, U) IN
     /\ m' = [m EXCEPT !.c = x.c]
     /\ stopAt' = IF constR /\ stopAt = -1 /\ CExh(x.c, U) THEN cnt + 1 ELSE stopAt
     /\ ctlOK' = ctlOK
     /\ Produce(x, m.c.ratio, FALSE)
NextSet(r) ==
  /\ mode = "conv" /\ P < MaxP /\ r # m.c.ratio
  /\ LET x == CNext(CSetPlayback(m.c, r), EQ, U) IN
     /\ m' = [m EXCEPT !.c = x.c]
     /\ stopAt' = -1 /\ ctlOK' = ctlOK
     /\ Produce(x, r, TRUE)
\* mul_hz: the control value in the look-ahead slot (or equilibrium 0.0 once the control has ended)
MulStep(r, nx) ==
  LET m1 == IF r = 0 THEN m ELSE [m EXCEPT !.ctl = CtlWith(CvSome(r))]
      x == MNext(m1, EQ, U)
  IN /\ m' = [c |-> x.m.c, ctl |-> CtlWith(nx)]
     /\ ctlOK' = (ctlOK /\ x.m.ctl.pulls = 1)
     /\ stopAt' = -1
     /\ Produce(x, r, TRUE)
MulNext ==
  /\ mode = "mulhz" /\ P < MaxP /\ m.ctl.fi.nxt.k = "some"
  /\ \E r \in Ratios : \E nx \in {Pending, CvNone} : MulStep(r, nx)
MulEnded ==       \* the control signal has ended: it yields 0.0, the position stands still; a few such outputs
  /\ mode = "mulhz" /\ P < MaxP /\ m.ctl.fi.nxt.k = "none" /\ (~any \/ P # Pl)
  /\ MulStep(0, CvNone)
Next == NextSame \/ (\E r \in Ratios : NextSet(r)) \/ MulNext \/ MulEnded
Spec == Init /\ [][Next]_vars

---------------------------------------------------------------------------
(* invariants = the clauses of C08 (layer 2 against layer 1) *)
S == Src(len)

\* pulled exactly floor(P_n) frames beyond priming, in order, none skipped or re-read
Position == /\ m.c.src.pulls = Pulled1(kind, Pl, U)
            /\ m.c.fed = Fed1(kind, S, EQ, Pl, U)
            /\ m.c.acc = P - (Pl \div U) * U
FloorOut == (kind = "floor" /\ any) => out = FloorOut1(S, EQ, Pl, U) * U
LinearOut == (kind = "linear" /\ any) =>
               /\ out = LinearOut1(S, EQ, Pl, U)
               /\ IntBlendOK(TruncDiv(out, U), LinearOut1(S, EQ, Pl, U), U)    \* integer formats truncate
InHull == any => /\ InHull1(S, EQ, Pl, U, out)
                 /\ InHull1(S, EQ, Pl, U, TruncDiv(out, U) * U)
Unity == (unity /\ any) => out = FrameAt(S, EQ, cnt - 1) * U
ExhIff == IF mode = "conv" THEN CExh(m.c, U) = Exh1(kind, S, Pl, P, U)
          ELSE MExh(m, U) = (Exh1(kind, S, Pl, P, U) \/ m.ctl.fi.nxt.k = "none")
\* constant ratio: until_exhausted stops after ceil((R+1)/r) outputs or one more
Count == (mode = "conv" /\ constR) =>
           LET n == Count1(kind, S, m.c.ratio, U) IN
           /\ (stopAt # -1 => stopAt \in {n, n + 1})
           /\ (cnt >= n + 1 => stopAt # -1)
           /\ (~any => Len(CCollect(m.c, EQ, U, 64).items) \in {n, n + 1})
\* mul_hz pulls the control signal exactly once per output
CtlOnce == ctlOK
\* part C (f64 semantics) coincides with layer 1 on the exact domain
PartC == WithF =>
           /\ fst.f.exact /\ FPositionExact(fst.f)
           /\ FPulled(kind, fst.f) = m.c.src.pulls
           /\ DEq(FixToD(fst.f.acc), DRatio(m.c.acc)) /\ DEq(FixToD(fst.f.psum), DRatio(P))
           /\ FExh(kind, len, fst.f) = Exh1(kind, S, Pl, P, U)
           /\ (WithRef => fst.r.adv = fst.f.adv /\ DEq(fst.r.acc, FixToD(fst.f.acc)))  \* fixed-point image = reference

---------------------------------------------------------------------------
(* stimuli: executions = <<reset, op, op, ...>>; every op has the same shape [ev, a]                   *)
(* a number argument is [p, q] = the f64 value p/q (q a power of two, or p/q integral: exact)          *)
Num(p, q) == [p |-> p, q |-> q]
\* op argument record (same shape for every op): v = setter family, p/q = the number, n = count
\*   playback: scale = p/q     sample: scale = p/q     hz: source_hz = p * 11025, target_hz = q * 11025
A0 == [v |-> "none", p |-> 0, q |-> 1, n |-> 0]
OpNext == [ev |-> "next", a |-> A0]
OpExh == [ev |-> "is_exhausted", a |-> A0]
OpCollect(cap) == [ev |-> "collect", a |-> [A0 EXCEPT !.n = cap]]
IsPow2(n) == n \in {1, 2, 4, 8, 16, 32, 64}
\* the arguments that make ratio r/16 through each setter / constructor family
RatioArg(via, r) ==
  CASE via = "playback" -> [v |-> via, p |-> r, q |-> U, n |-> 0]
    [] via = "sample"   -> [v |-> via, p |-> U, q |-> r, n |-> 0]      \* 1/(16/r): r a power of two
    [] via = "hz"       -> [v |-> via, p |-> r, q |-> U, n |-> 0]
ViaFor(r, j) == LET v == << "playback", "hz", "sample" >>[(j % 3) + 1]
                IN IF v = "sample" /\ ~IsPow2(r) THEN "hz" ELSE v
Routes == << "sig_from_hz_to_hz", "conv_from_hz_to_hz", "scale_hz", "scale_playback_hz", "scale_sample_hz" >>
RouteVia(route) == CASE route \in {"sig_from_hz_to_hz", "conv_from_hz_to_hz"} -> "hz"
                     [] route \in {"scale_hz", "scale_playback_hz"} -> "playback"
                     [] route = "scale_sample_hz" -> "sample"
                     [] route = "mul_hz" -> "playback"
RouteFor(r, j) == LET rt == Routes[(j % 5) + 1]
                  IN IF rt = "scale_sample_hz" /\ ~IsPow2(r) THEN "scale_hz" ELSE rt

\* content per format (raw sample values of that format); two scalings per format
Fmts == << "f64", "i16", "f32", "u8" >>
Sample(fmt, v, c) ==          \* v: variant 0/1, c: abstract content value in -8..7
  CASE fmt = "i16" -> IF v = 0 THEN c * 4096 ELSE c * 5 + 1
    [] fmt = "u8"  -> IF v = 0 THEN 128 + c * 16 ELSE 128 + c * 3
    [] OTHER       -> IF v = 0 THEN c ELSE c * 4096 + 1
Content2 == << -4, 7, 1, -8, 5, -2, 6, 3 >>
FramesFor(fmt, v, ch, n) ==
  [i \in 1..n |-> IF ch = 1 THEN << Sample(fmt, v, Content[i]) >>
                  ELSE << Sample(fmt, v, Content[i]), Sample(fmt, v, Content2[i]) >>]

Reset(interp, fmt, v, ch, route, n, r, ctl) ==
  [ev |-> "reset", comp |-> "conv",
   cfg |-> [interp |-> interp, fmt |-> fmt, ch |-> ch, route |-> route,
            pat |-> FramesFor(fmt, v, ch, n), len |-> n,
            ratio |-> RatioArg(RouteVia(route), r), ctl |-> ctl]]

Sched(pat, n) == [k \in 1..n |-> pat[((k - 1) % Len(pat)) + 1]]
RECURSIVE ConvOps(_, _, _)
ConvOps(s, k, j) ==           \* s: ratio per output; k: next output (1-based); j: variant counter
  IF k > Len(s) THEN << >>
  ELSE (IF k > 1 /\ s[k] # s[k - 1] THEN << [ev |-> "set_ratio", a |-> RatioArg(ViaFor(s[k], j + k), s[k])] >> ELSE << >>)
       \o (IF k % 4 = 0 THEN << OpExh >> ELSE << >>)
       \o << OpNext >> \o ConvOps(s, k + 1, j)

Hash(interp, n, pat) == (IF interp = "linear" THEN 7 ELSE 0) + 3 * n + 11 * Len(pat)
                        + pat[1] + (IF Len(pat) > 1 THEN 5 * pat[2] ELSE 0) + (IF Len(pat) > 2 THEN 13 * pat[3] ELSE 0)
Patterns == UNION { [1..j -> Ratios] : j \in 1..(IF StimCycle >= 2 THEN 2 ELSE 1) }

ExecConv(interp, n, pat) ==
  LET j == Hash(interp, n, pat)
      fmt == Fmts[(j % 4) + 1]
      s == Sched(pat, StimOut)
      route == RouteFor(s[1], j \div 4)
  IN << Reset(interp, fmt, (j \div 2) % 2, 1 + ((j \div 8) % 2), route, n, s[1], << >>) >> \o ConvOps(s, 1, j)
Patterns3 == IF StimCycle >= 3 THEN [1..3 -> Ratios] ELSE {}
StimConv == { ExecConv(interp, n, pat) : interp \in {"floor", "linear"}, n \in StimLens, pat \in Patterns }
            \cup { ExecConv(interp, n, pat) : interp \in {"floor", "linear"}, n \in StimLens3, pat \in Patterns3 }
\* mul_hz: the control list is the schedule, cut short on odd hashes so that the control signal ends first
ExecMul(interp, n, pat) ==
  LET j == Hash(interp, n, pat) + 1
      fmt == Fmts[(j % 4) + 1]
      cl == IF j % 2 = 1 THEN StimOut - 3 ELSE StimOut + 1
      s == Sched(pat, cl)
  IN << Reset(interp, fmt, (j \div 2) % 2, 1 + ((j \div 8) % 2), "mul_hz", n, U,
              [k \in 1..cl |-> Num(s[k], U)]) >>
     \o [k \in 1..StimOut |-> OpNext] \o << OpExh >>
StimMul == { ExecMul(interp, n, pat) : interp \in {"floor", "linear"}, n \in StimLens, pat \in Patterns }
\* until_exhausted with a constant ratio, through every route and format
ExecCollect(interp, n, r, fmt, k) ==
  << Reset(interp, fmt, n % 2, 1 + ((n + r) % 2), RouteFor(r, k), n, r, << >>), OpCollect(64), OpExh, OpNext, OpCollect(3) >>
StimCollect ==
  { ExecCollect(interp, n, r, fmt, k)
    : interp \in {"floor", "linear"}, n \in StimLens, r \in Ratios, fmt \in {"f64", "i16", "f32", "u8"}, k \in 0..4 }
Stimuli == StimConv \cup StimMul \cup StimCollect
WriteStimuli ==
  IF "STIM_OUT" \in DOMAIN IOEnv
    THEN /\ ndJsonSerialize(IOEnv.STIM_OUT, SetToSeq(Stimuli))
         /\ PrintT(<< "STIMULI", Cardinality(Stimuli) >>)
    ELSE TRUE
ASSUME WriteStimuli
=============================================================================
