SPECIFICATION Spec
CONSTANTS
  MaxOuts = 3
  Rounds = 3
INVARIANTS BacklogAtMostOne EmptyAfterRound Emit
CHECK_DEADLOCK FALSE
