SPECIFICATION Spec
CONSTANTS
  MaxLive = 3
  MaxKeys = 5
  MaxPulled = 99
  SeqLen = 8
INVARIANTS GapFree SameKeys Pending PullOnce Backlog Content Emit
CHECK_DEADLOCK FALSE
