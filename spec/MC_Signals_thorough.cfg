SPECIFICATION Spec
CONSTANTS
  Tier = "thorough"
INVARIANTS PointwiseOK OnePull ResumeAt ExhExact SilentAfter SrcFrames CollectLen TakeN Interleaved IterNth
CHECK_DEADLOCK FALSE
