\* EXPECTED TO FAIL: shows, on the model, that sources()/sinks() as coded (index scan 0..node_count)
\* are wrong as soon as a slot is vacant.  Not part of any check; see notes/graph.md.
SPECIFICATION Spec
CONSTANTS
  Shapes <- QuickShapes
INVARIANTS HelpersAsCoded
CHECK_DEADLOCK FALSE
