-------------------------- MODULE Trace_RingBuffer --------------------------
(***************************************************************************)
(* Trace validation for dasp_ring_buffer::{Bounded, Fixed}.                *)
(*                                                                         *)
(* The Rust harness logs one line per public call at its return (format in *)
(* harness/hx_ring).  An execution starts with a `reset` line (constructor *)
(* and its arguments).  A line is accepted iff it is the layer-1 (ideal    *)
(* queue / delay line) step of RingBuffer.tla and every logged view and    *)
(* the raw parts agree with the new abstract content.  A rejected line is  *)
(* printed as REJECT and the rest of that execution is skipped, so one run *)
(* reports every failing execution of the file.                            *)
(***************************************************************************)
EXTENDS RingBuffer, TLC, Json, IOUtils

Rec == ndJsonDeserialize(IOEnv.TRACE)

VARIABLES l,      \* next line
          kind,   \* "bounded" | "fixed" | "none"
          q,      \* abstract content, oldest first
          cap,    \* capacity (bounded) / length N (fixed)
          first,  \* fixed: raw `first` after the previous call (set_first names an absolute slot)
          skip    \* rest of this execution is ignored after a rejection
vars == << l, kind, q, cap, first, skip >>

Ev == Rec[l]

Min2(a, b) == IF a <= b THEN a ELSE b
Canary == -999

---------------------------------------------------------------------------
(* constructors *)
CtorB(c) == \* expected outcome of the constructor call: [ok, q]
  CASE c.ctor = "raw"       -> [ok |-> Len(c.data) >= 1 /\ c.start < Len(c.data) /\ c.len <= Len(c.data),
                                q  |-> IF Len(c.data) >= 1 /\ c.start < Len(c.data) /\ c.len <= Len(c.data)
                                         THEN BAbs([data |-> c.data, start |-> c.start, len |-> c.len]) ELSE << >>]
    [] c.ctor \in {"from", "from_iter"} -> [ok |-> Len(c.data) >= 1, q |-> << >>]
    [] c.ctor = "from_full" -> [ok |-> Len(c.data) >= 1, q |-> c.data]
CtorF(c) ==
  CASE c.ctor = "raw" -> [ok |-> c.first < Len(c.data),
                          q  |-> IF c.first < Len(c.data) THEN FAbs([data |-> c.data, first |-> c.first]) ELSE << >>]
    [] c.ctor \in {"from", "from_iter"} -> [ok |-> Len(c.data) >= 1, q |-> c.data]

---------------------------------------------------------------------------
(* observations: everything the public API shows after the call *)
ObsB(o, qq, cp) ==
  /\ o.ok /\ o.len = Len(qq) /\ o.max = cp
  /\ o.empty = (Len(qq) = 0) /\ o.full = (Len(qq) = cp)
  /\ o.iter = qq                               \* iteration, oldest first
  /\ o.get = qq                                \* get(i), i < len
  /\ o.idx = qq                                \* Index, i < len
  /\ o.get_oob                                 \* get(len) and get(len + cap) are None
  /\ o.s1 \o o.s2 = qq                         \* the slice pair, concatenated
  /\ o.drain_len = << Len(qq), Len(qq), Len(qq) >>   \* drain(): exact length and size hint = what it will yield
  /\ BRawAgrees(o.raw, qq) /\ Len(o.raw.data) = cp
  /\ o.canary                                  \* guard words around the backing slice intact
  /\ \A i \in 1..Len(qq) : qq[i] # Poison      \* no dead slot exposed
ObsF(o, qq) ==
  LET n == Len(qq) IN
  /\ o.ok /\ o.len = n
  /\ o.iter = qq
  /\ o.loop = DLoop(qq, 2 * n + 1)             \* looping iteration, first 2N+1 items
  /\ o.get = DLoop(qq, 2 * n)                  \* get(i), i < 2N: wraps modulo N
  /\ o.idx = DLoop(qq, 2 * n)
  /\ o.s1 \o o.s2 = qq
  /\ FRawAgrees(o.raw, qq)
  /\ o.canary
  /\ \A i \in 1..n : qq[i] # Poison

---------------------------------------------------------------------------
Ideal == IF kind = "bounded" THEN IdealB(q, cap, Ev) ELSE IdealF(q, first, Ev)
KnownOp == IF kind = "bounded"
             THEN Ev.ev \in DrainIterOps \cup {"push", "pop", "views", "clone", "fmt", "get", "index", "get_mut", "index_mut",
                             "drain", "iter_mut", "slices_mut", "extend"}
             ELSE Ev.ev \in {"push", "views", "clone", "fmt", "get", "index", "get_mut", "index_mut",
                             "set_first", "iter_mut", "slices_mut", "extend"}

AcceptReset ==
  LET c == Ev.cfg
      x == IF Ev.comp = "bounded" THEN CtorB(c) ELSE CtorF(c)
  IN IF x.ok THEN /\ Ev.r.k = "unit"
                  /\ IF Ev.comp = "bounded" THEN ObsB(Ev.o, x.q, Len(c.data)) ELSE ObsF(Ev.o, x.q)
             ELSE Ev.r.k = "panic"              \* documented: panics on invalid parts / empty data
AcceptOp ==
  /\ kind # "none" /\ KnownOp
  /\ (Ev.ev = "drain_step" => Ev.a.k >= 1)
  /\ Ev.r = Ideal.ret
  /\ IF kind = "bounded" THEN ObsB(Ev.o, Ideal.q, cap) ELSE ObsF(Ev.o, Ideal.q)

\* C07: no operation of either buffer allocates, reallocates or frees (panicking calls exempt)
HeapOK == Ev.r.k = "panic" \/ Ev.ev = "clone" \/ Ev.h = << 0, 0, 0 >>    \* cloning owned storage allocates by nature

Consume == l <= Len(Rec) /\ l' = l + 1

TReset ==
  /\ Consume /\ Ev.ev = "reset"
  /\ IF AcceptReset
       THEN LET c == Ev.cfg
                x == IF Ev.comp = "bounded" THEN CtorB(c) ELSE CtorF(c)
            IN /\ kind' = IF x.ok THEN Ev.comp ELSE "none"
               /\ q' = x.q /\ cap' = Len(c.data)
               /\ first' = IF x.ok /\ Ev.comp = "fixed" THEN Ev.o.raw.first ELSE 0
               /\ skip' = FALSE
       ELSE /\ PrintT(<< "REJECT", l, Ev.ev >>)
            /\ skip' = TRUE /\ kind' = "none" /\ UNCHANGED << q, cap, first >>
TOp ==
  /\ Consume /\ Ev.ev # "reset" /\ ~skip
  /\ IF AcceptOp
       THEN /\ q' = Ideal.q
            /\ first' = IF kind = "fixed" THEN Ev.o.raw.first ELSE 0
            /\ (IF HeapOK THEN TRUE ELSE PrintT(<< "HEAP", l, Ev.ev >>))
            /\ UNCHANGED << kind, cap, skip >>
       ELSE /\ PrintT(<< "REJECT", l, Ev.ev >>)
            /\ skip' = TRUE /\ UNCHANGED << kind, q, cap, first >>
TSkip == Consume /\ Ev.ev # "reset" /\ skip /\ UNCHANGED << kind, q, cap, first, skip >>

TraceInit == l = 1 /\ kind = "none" /\ q = << >> /\ cap = 0 /\ first = 0 /\ skip = TRUE
TraceNext == TReset \/ TOp \/ TSkip
TraceSpec == TraceInit /\ [][TraceNext]_vars

\* every line was consumed (a shorter behaviour means the trace spec got stuck: tool error)
AllConsumed == IF TLCGet("stats").diameter - 1 = Len(Rec) THEN TRUE
               ELSE PrintT(<< "STUCK", TLCGet("stats").diameter, Len(Rec) >>) /\ FALSE
=============================================================================
