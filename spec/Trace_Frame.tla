----------------------------- MODULE Trace_Frame -----------------------------
(***************************************************************************)
(* Trace validation for dasp_sample's amplitude arithmetic, dasp_frame and *)
(* dasp_slice (properties C03 and C10), batch mode: every event is a       *)
(* stateless call, judged on its own by Ok(e); the run prints              *)
(*     <<"BAD", {lines that are not accepted}>>                            *)
(*     <<"HEAPSET", {lines of steady-state calls with heap activity}>>     *)
(* (the second set is for C07: it is NOT part of BAD.  The boxed slice     *)
(* conversions are not steady-state calls in that sense -- their heap rule *)
(* "no allocator call on success, frees exactly the box on failure" is     *)
(* part of C10's Ok predicate below.)                                      *)
(*                                                                         *)
(* Acceptance is bit-exact, channel by channel: integers exactly, floats   *)
(* by their IEEE fields (so +0.0 and -0.0 are different results; the spec  *)
(* predicts the sign of every zero).  Events outside the domain in which   *)
(* the property defines the result (AddAmpDefined / MulAmpDefined false,   *)
(* non-finite float arguments, out-of-range integer arguments) carry NO    *)
(* claim: they are accepted whatever the code did, panics included.        *)
(* EXCEPT the gain 1.0 (round 4): C03 claims "scaling by 1.0 returns the   *)
(* same sample ... within that float precision" for EVERY value, so scale  *)
(* / mul / in-place add-with-gain by exactly 1.0 are judged on the top     *)
(* values of i32 u32 i64 u64 too, whose float image is +1.0 (Frames.tla,   *)
(* MulAmpOk / AddMulOk).                                                   *)
(* Event formats: harness/hx_frame/src/main.rs.                            *)
(***************************************************************************)
EXTENDS Slices, TLC, Json, IOUtils, FiniteSets

Rec == ndJsonDeserialize(IOEnv.TRACE)

NW(n) == IF n = 0 THEN 1 ELSE n                  \* "n": 0 names the bare sample used as a frame
\* (FltOf: Frames.tla)

---------------------------------------------------------------------------
(* decoding *)
WF(f, j) == IF IsFloat(f) THEN DOMAIN j = {"s", "e", "m"} /\ IsFields(j)
                          ELSE DOMAIN j = {"n", "l"} /\ IsSJson(j)
WFSeq(f, js, n) == Len(js) = n /\ \A k \in 1..Len(js) : WF(f, js[k])
WFFrames(f, jss, m, n) == Len(jss) = m /\ \A i \in 1..Len(jss) : WFSeq(f, jss[i], n)
SVal(f, j) == SampleFromJson(f, j)
FVal(f, js) == [k \in 1..Len(js) |-> SVal(f, js[k])]
FFVal(f, jss) == [i \in 1..Len(jss) |-> FVal(f, jss[i])]
\* arguments inside the domain the property speaks about: finite floats, integers of the format
InDom(f, v) == IF IsFloat(f) THEN FIsFinite(FmtOf(f), v) ELSE InRange(f, v)
InDomSeq(f, x) == \A k \in 1..Len(x) : InDom(f, x[k])
InDomFrames(f, a) == \A i \in 1..Len(a) : InDomSeq(f, a[i])

\* the associated-type table the code was compiled with, as the harness saw it
Tab(e) == e.o.sg = SignedOf(e.a.fmt) /\ e.o.fl = FloatOf(e.a.fmt)
IsVal(f, r, v)    == r.k = "val" /\ WF(f, r.v) /\ SVal(f, r.v) = v
IsValSeq(f, r, x) == r.k = "val" /\ WFSeq(f, r.v, Len(x)) /\ FVal(f, r.v) = x
SeqIs(f, js, x)   == WFSeq(f, js, Len(x)) /\ FVal(f, js) = x
FramesAre(f, jss, a, n) == WFFrames(f, jss, Len(a), n) /\ FFVal(f, jss) = a
Idx(i) == IF i < 0 THEN 2000000000 ELSE i        \* -1 encodes usize::MAX

\* An arithmetic event outside the domain in which the property defines the result carries no claim.  Such events
\* are COUNTED (TLC register 7): a trace in which more than half of the arithmetic events carry no claim is
\* rejected as vacuous (an `Assert` failure, i.e. a tool error, never a VIOLATION) -- see the end of the module.
NoClaim == TLCSet(7, TLCGet(7) + 1)
Claim(dom, holds) == IF dom THEN holds ELSE NoClaim

---------------------------------------------------------------------------
(* C03: samples *)
OkSample(e) ==
  LET f == e.a.fmt sf == SignedOf(f) ff == FloatOf(f) IN
  /\ f \in Formats /\ Tab(e)
  /\ CASE e.ev = "s_add_amp" ->
            /\ WF(f, e.a.s) /\ WF(sf, e.a.amp)
            /\ LET s == SVal(f, e.a.s) a == SVal(sf, e.a.amp) IN
               Claim(InDom(f, s) /\ InDom(sf, a) /\ AddAmpDefined(f, s, a), IsVal(f, e.r, AddAmp(f, s, a)))
       [] e.ev = "s_mul_amp" ->
            /\ WF(f, e.a.s) /\ WF(ff, e.a.amp)
            /\ LET s == SVal(f, e.a.s) g == SVal(ff, e.a.amp) IN
               \* a function where the product lies in [-1, 1); the gain 1.0 is claimed on EVERY value (Frames.tla, MulAmpOk)
               Claim(InDom(f, s) /\ InDom(ff, g) /\ MulAmpClaimed(f, s, g),
                     e.r.k = "val" /\ WF(f, e.r.v) /\ MulAmpOk(f, s, g, SVal(f, e.r.v)))
       [] e.ev = "s_to_signed" ->
            /\ WF(f, e.a.s)
            /\ Claim(InDom(f, SVal(f, e.a.s)), IsVal(sf, e.r, Conv(f, sf, SVal(f, e.a.s))))
       [] e.ev = "s_to_float" ->
            /\ WF(f, e.a.s)
            /\ Claim(InDom(f, SVal(f, e.a.s)), IsVal(ff, e.r, Conv(f, ff, SVal(f, e.a.s))))
       [] e.ev = "s_consts" ->
            /\ e.r.k = "val"
            /\ WF(f, e.r.v.eq) /\ SVal(f, e.r.v.eq) = Equil(f)              \* EQUILIBRIUM
            /\ WF(ff, e.r.v.id) /\ SVal(ff, e.r.v.id) = FOne(FltOf(f))      \* IDENTITY = 1.0 in the Float format

(* C03: frames -- every operation is the per-channel lifting of Frames.tla *)
OkFrame(e) ==
  LET f == e.a.fmt sf == SignedOf(f) ff == FloatOf(f) n == NW(e.a.n) IN
  /\ f \in Formats /\ e.a.n \in 0..32 /\ Tab(e)
  /\ CASE e.ev = "f_offset" ->
            /\ WFSeq(f, e.a.x, n) /\ WF(sf, e.a.amp)
            /\ LET x == FVal(f, e.a.x) a == SVal(sf, e.a.amp) IN
               Claim(InDomSeq(f, x) /\ InDom(sf, a) /\ FrOffsetDefined(f, x, a), IsValSeq(f, e.r, FrOffset(f, x, a)))
       [] e.ev = "f_scale" ->
            /\ WFSeq(f, e.a.x, n) /\ WF(ff, e.a.amp)
            /\ LET x == FVal(f, e.a.x) g == SVal(ff, e.a.amp) IN
               Claim(InDomSeq(f, x) /\ InDom(ff, g) /\ FrScaleClaimed(f, x, g),
                     e.r.k = "val" /\ WFSeq(f, e.r.v, n) /\ FrScaleOk(f, x, g, FVal(f, e.r.v)))
       [] e.ev = "f_add" ->
            /\ WFSeq(f, e.a.x, n) /\ WFSeq(sf, e.a.y, n)
            /\ LET x == FVal(f, e.a.x) y == FVal(sf, e.a.y) IN
               Claim(InDomSeq(f, x) /\ InDomSeq(sf, y) /\ FrAddDefined(f, x, y), IsValSeq(f, e.r, FrAdd(f, x, y)))
       [] e.ev = "f_mul" ->
            /\ WFSeq(f, e.a.x, n) /\ WFSeq(ff, e.a.y, n)
            /\ LET x == FVal(f, e.a.x) y == FVal(ff, e.a.y) IN
               Claim(InDomSeq(f, x) /\ InDomSeq(ff, y) /\ FrMulClaimed(f, x, y),
                     e.r.k = "val" /\ WFSeq(f, e.r.v, n) /\ FrMulOk(f, x, y, FVal(f, e.r.v)))
       [] e.ev = "f_to_signed" ->
            /\ WFSeq(f, e.a.x, n)
            /\ Claim(InDomSeq(f, FVal(f, e.a.x)), IsValSeq(sf, e.r, FrToSigned(f, FVal(f, e.a.x))))
       [] e.ev = "f_to_float" ->
            /\ WFSeq(f, e.a.x, n)
            /\ Claim(InDomSeq(f, FVal(f, e.a.x)), IsValSeq(ff, e.r, FrToFloat(f, FVal(f, e.a.x))))
       [] e.ev = "f_equilibrium" ->
            /\ IsValSeq(f, e.r, FrEquilibrium(f, n)) /\ e.o.cn = n                  \* EQUILIBRIUM, CHANNELS
       [] e.ev = "f_map" ->                       \* closure: logs its argument, answers its k-th call with ys[k]
            /\ WFSeq(f, e.a.x, n) /\ WFSeq(f, e.a.ys, n)
            /\ SeqIs(f, e.o.calls, FrMapCalls(FVal(f, e.a.x)))
            /\ IsValSeq(f, e.r, FVal(f, e.a.ys))
       [] e.ev = "f_zip_map" ->
            /\ WFSeq(f, e.a.x, n) /\ WFSeq(f, e.a.y, n) /\ WFSeq(f, e.a.ys, n)
            /\ WFSeq(f, e.o.ca, n) /\ WFSeq(f, e.o.cb, n)
            /\ [ch \in 1..n |-> << SVal(f, e.o.ca[ch]), SVal(f, e.o.cb[ch]) >>] = FrZipMapCalls(FVal(f, e.a.x), FVal(f, e.a.y))
            /\ IsValSeq(f, e.r, FVal(f, e.a.ys))
       [] e.ev = "f_from_fn" ->                   \* closure: logs the index it is called with, returns ys[index]
            /\ WFSeq(f, e.a.ys, n)
            /\ e.o.calls = FrFromFnCalls(n)
            /\ IsValSeq(f, e.r, FrFromFn(LAMBDA i : SVal(f, e.a.ys[i + 1]), n))
       [] e.ev = "f_from_samples" ->
            /\ WFSeq(f, e.a.it, Len(e.a.it))
            /\ LET R == FrFromSamples(n, FVal(f, e.a.it)) IN
               /\ e.r.k = R.ret.k
               /\ (R.ret.k = "some" => SeqIs(f, e.r.v, R.ret.v))
               /\ e.o.consumed = R.consumed
               /\ SeqIs(f, e.o.rest, R.rest)
       [] e.ev = "f_channels" ->
            /\ WFSeq(f, e.a.x, n)
            /\ LET x == FVal(f, e.a.x) IN
               /\ e.r.k = "items" /\ SeqIs(f, e.r.v, FrChannels(x))
               /\ e.o.lens = FrChannelsLens(x) /\ e.o.fused
               /\ SeqIs(f, e.o.refs, FrChannels(x)) /\ SeqIs(f, e.o.rev, FrChannelsRev(x))
               /\ e.o.rlen = << n, n >> /\ e.o.cn = n
       [] e.ev = "f_iter" ->                      \* the channel iterators as iterators: Frames.tla, ItFront / ItBack / ItOp
            /\ WFSeq(f, e.a.x, n) /\ WF(f, e.a.v)
            /\ e.a.it \in {"val", "ref", "mut"} /\ e.a.k \in Nat /\ e.a.kb \in Nat /\ e.a.j \in Nat
            \* channels() is not double-ended; ChannelsMut is not Clone
            /\ e.a.op \in (CASE e.a.it = "val" -> ItFwdOps \cup ItCloneOps
                             [] e.a.it = "ref" -> ItFwdOps \cup ItBackOps \cup ItCloneOps
                             [] OTHER          -> ItFwdOps \cup ItBackOps)
            /\ (e.a.it = "val" => e.a.kb = 0) /\ (e.a.op = "step_by" => e.a.j >= 1)
            /\ LET x == FVal(f, e.a.x) v == SVal(f, e.a.v)
                   \* the model runs on channel POSITIONS 1..n (so that the writes through channels_mut can be placed);
                   \* the value an item must have is the channel at that position
                   A == ItFront([c \in 1..n |-> c], e.a.k)      \* k times next()
                   B == ItBack(A.rem, e.a.kb)                   \* kb times next_back()
                   R == ItOp(e.a.op, e.a.j, B.rem)              \* the call
                   At(ps) == [c \in 1..Len(ps) |-> x[ps[c]]]
                   \* size_hint: channels_ref / channels_mut are held to the exact size; channels() to a correct bound
                   \* (the pinned code leaves it at the default (0, None) although it is an ExactSizeIterator)
                   HintOk(h, m) == IF e.a.it = "val" THEN h[1] <= m /\ (h[2] = -1 \/ h[2] >= m) ELSE h = << m, m >>
               IN /\ e.r.k = "items" /\ SeqIs(f, e.r.v, At(R.items))
                  /\ SeqIs(f, e.o.pre, At(A.got)) /\ SeqIs(f, e.o.preb, At(B.got))
                  /\ e.o.cnt = R.cnt /\ e.o.cn = n
                  /\ Len(e.o.len) = 3 /\ Len(e.o.sh) = 3               \* len() / size_hint(): fresh, after the prefix, after the call
                  /\ e.o.len[1] = n /\ HintOk(e.o.sh[1], n)
                  /\ e.o.len[2] = Len(B.rem) /\ HintOk(e.o.sh[2], Len(B.rem))
                  /\ (R.alive => e.o.len[3] = Len(R.rem) /\ HintOk(e.o.sh[3], Len(R.rem)))
                  /\ SeqIs(f, e.o.rest, At(R.rem))                      \* what next() still yields afterwards (nth / nth_back / clone)
                  \* clone(): the clone continues where the original stands -- its len() / size_hint() at birth are those of
                  \* the original, its items (r) the remaining channels -- and draining it leaves the original untouched (rest)
                  /\ IF e.a.op = "clone" THEN e.o.clen = Len(B.rem) /\ HintOk(e.o.csh, Len(B.rem))
                                          ELSE e.o.clen = -1
                  \* every reference the call yields from channels_mut is overwritten with v: v lands in those channels only
                  /\ SeqIs(f, e.o.after, IF e.a.it = "mut"
                                           THEN [c \in 1..n |-> IF \E q \in 1..Len(R.items) : R.items[q] = c THEN v ELSE x[c]]
                                           ELSE x)
       [] e.ev = "f_channels_mut" ->              \* the k-th reference is channel k: read, then overwritten with ys[k]
            /\ WFSeq(f, e.a.x, n) /\ WFSeq(f, e.a.ys, n)
            /\ SeqIs(f, e.o.seen, FVal(f, e.a.x))
            /\ IsValSeq(f, e.r, FVal(f, e.a.ys))
       [] e.ev = "f_channel" ->
            /\ WFSeq(f, e.a.x, n) /\ WF(f, e.a.v)
            /\ LET x == FVal(f, e.a.x) i == Idx(e.a.i) v == SVal(f, e.a.v)
                   R == FrChannel(x, i)
                   OptIs(r) == r.k = R.k /\ (R.k = "some" => WF(f, r.v) /\ SVal(f, r.v) = R.v)
               IN /\ OptIs(e.r)                                               \* channel(i)
                  /\ OptIs(e.o.m) /\ SeqIs(f, e.o.after, FrSetChannel(x, i, v)) \* channel_mut(i): old value, write lands in channel i only
                  /\ SeqIs(f, e.o.u, IF i < n THEN << x[i + 1] >> ELSE << >>) \* channel_unchecked(i), i < n
                  /\ SeqIs(f, e.o.uafter, FrSetChannel(x, i, v))

---------------------------------------------------------------------------
(* C10: sample <-> frame slice views *)
MinBytes(f, l) == l * (Bits(f) \div 8)           \* an allocation of l samples of f is at least this big
OkToFrames(e) ==
  LET f == e.a.fmt n == NW(e.a.n) l == e.a.len kd == e.a.kind IN
  /\ f \in Formats /\ e.a.n \in 0..32 /\ kd \in {"shared", "mut", "boxed"} /\ e.a.route \in {"to", "from"}
  /\ WFSeq(f, e.a.x, l) /\ WFSeq(f, e.a.w, l)
  /\ LET xs == FVal(f, e.a.x) ws == FVal(f, e.a.w)
         R == SlToFrames(n, xs)                   \* layer 1
         V == ViewToFrames(SView(0, l), n)        \* layer 2 (same option-ness by MC_Frame's ViewIff)
     IN /\ e.r.k = R.k /\ e.r.k = V.k                                          \* Some iff n divides l; never a panic
        /\ IF R.k = "some"
             THEN /\ e.r.v = Len(R.v) /\ e.o.flen = V.v.len                    \* l / n frames
                  /\ FramesAre(f, e.o.frames, R.v, n)                          \* frame i channel c = sample i*n + c
                  /\ e.o.same_ptr                                              \* ... in the very same memory
                  \* viewing the frames as samples again is the exact inverse (same place, same length, same contents;
                  \* through the mutable view the harness has meanwhile stored w, frame by frame)
                  /\ e.o.back.k = "val" /\ e.o.back.len = l /\ e.o.back.same_ptr /\ e.o.back.h = << 0, 0, 0 >>
                  /\ SeqIs(f, e.o.back.v, IF kd = "mut" THEN SlToSamples(n, SlToFrames(n, ws).v) ELSE SlToSamples(n, R.v))
                  /\ CASE kd = "shared" -> SeqIs(f, e.o.after, xs)
                       [] kd = "mut"    -> SeqIs(f, e.o.after, ws)                 \* writes through the view reach the samples
                       [] kd = "boxed"  -> TRUE
             ELSE /\ e.o.flen = 0 /\ e.o.back.k = "none"
                  /\ (kd # "boxed" => SeqIs(f, e.o.after, xs))                     \* nothing touched
        \* boxed: the allocation is handed on (no allocator call) or, when the conversion fails, freed: the box was consumed
        /\ kd = "boxed" =>
             LET B == BoxToFrames(SView(0, l), e.o.bytes, n) IN
             /\ e.o.bytes >= MinBytes(f, l)
             /\ e.h = B.h /\ e.o.live = B.dlive

OkToSamples(e) ==
  LET f == e.a.fmt n == NW(e.a.n) m == e.a.len kd == e.a.kind IN
  /\ f \in Formats /\ e.a.n \in 0..32 /\ kd \in {"shared", "mut", "boxed"} /\ e.a.route \in {"to", "from"}
  /\ WFFrames(f, e.a.x, m, n) /\ WFSeq(f, e.a.w, m * n)
  /\ LET fs == FFVal(f, e.a.x) ws == FVal(f, e.a.w)
         R == SlToSamples(n, fs)
     IN /\ e.r.k = "val" /\ e.r.v = Len(R) /\ e.o.slen = ViewToSamples(FView(0, n, m)).len   \* total: m * n samples
        /\ SeqIs(f, e.o.samples, R) /\ e.o.same_ptr
        /\ CASE kd = "shared" -> FramesAre(f, e.o.after, fs, n)
             [] kd = "mut"    -> FramesAre(f, e.o.after, SlToFrames(n, ws).v, n)   \* writes through the sample view reach the frames
             [] kd = "boxed"  -> e.h = BoxToSamples(FView(0, n, m), e.o.bytes).h /\ e.o.live = 0

(* C10: in-place operations *)
OkInPlace(e) ==
  LET f == e.a.fmt sf == SignedOf(f) af == FloatOf(SignedOf(f)) n == NW(e.a.n) op == e.a.op
      two == op \in {"zip_map", "write", "add", "add_amp"}
      fb == IF op \in {"add", "add_amp"} THEN sf ELSE f
  IN
  /\ f \in Formats /\ e.a.n \in 0..32 /\ Tab(e)
  /\ op \in {"equilibrium", "map", "zip_map", "write", "add", "add_amp"}
  /\ WFFrames(f, e.a.xa, e.a.la, n) /\ WFFrames(fb, e.a.xb, e.a.lb, n) /\ WFFrames(f, e.a.ys, e.a.la, n)
  /\ LET a == FFVal(f, e.a.xa) b == FFVal(fb, e.a.xb) ys == FFVal(f, e.a.ys) IN
     IF two /\ e.a.la # e.a.lb
       THEN \* a length mismatch is refused by panicking BEFORE anything is modified (and before any closure call)
            /\ e.r.k = "panic" /\ FramesAre(f, e.o.after, a, n)
            /\ e.o.ca = << >> /\ e.o.cb = << >>
       ELSE CASE op = "equilibrium" -> e.r.k = "unit" /\ FramesAre(f, e.o.after, SlEquilibrium(f, n, a), n)
              [] op = "map" ->          \* closure: logs its argument, answers its k-th call with ys[k]
                   /\ e.r.k = "unit" /\ FramesAre(f, e.o.ca, SlMapCalls(a), n) /\ FramesAre(f, e.o.after, ys, n)
              [] op = "zip_map" ->
                   /\ e.r.k = "unit" /\ WFFrames(f, e.o.ca, e.a.la, n) /\ WFFrames(f, e.o.cb, e.a.la, n)
                   /\ [i \in 1..e.a.la |-> << FVal(f, e.o.ca[i]), FVal(f, e.o.cb[i]) >>] = SlZipMapCalls(a, b)
                   /\ FramesAre(f, e.o.after, ys, n)
              [] op = "write" -> e.r.k = "unit" /\ FramesAre(f, e.o.after, SlWrite(a, b).a, n)
              [] op = "add" ->
                   Claim(InDomFrames(f, a) /\ InDomFrames(sf, b) /\ SlAddDefined(f, a, b),
                         e.r.k = "unit" /\ FramesAre(f, e.o.after, SlAdd(f, a, b).a, n))
              [] op = "add_amp" ->
                   /\ e.o.afl = af /\ WFSeq(af, e.a.ampf, n)
                   /\ LET amp == FVal(af, e.a.ampf) IN
                      \* (= `after = SlAddAmp(f, a, b, amp).a` wherever SlAddAmpDefined; also claimed for the gain 1.0 on the
                      \* top values of the Signed format, Slices.tla SlAddAmpOk)
                      Claim(InDomFrames(f, a) /\ InDomFrames(sf, b) /\ InDomSeq(af, amp) /\ SlAddAmpClaimed(f, a, b, amp),
                            e.r.k = "unit" /\ WFFrames(f, e.o.after, e.a.la, n) /\ SlAddAmpOk(f, a, b, amp, FFVal(f, e.o.after)))

---------------------------------------------------------------------------
SampleEvs == {"s_add_amp", "s_mul_amp", "s_to_signed", "s_to_float", "s_consts"}
FrameEvs  == {"f_offset", "f_scale", "f_add", "f_mul", "f_to_signed", "f_to_float", "f_equilibrium", "f_map", "f_zip_map",
              "f_from_fn", "f_from_samples", "f_channels", "f_channels_mut", "f_channel", "f_iter"}
\* BUILD PROFILES (round 5).  Every stimulus is executed by the debug build of the harness (debug assertions and overflow
\* checks on) and by the release build (both off, optimised); the reset line carries `o.debug` = cfg!(debug_assertions).
\* The clauses of C03 and C10 do not mention the profile: wherever the property defines a result -- the whole domain of
\* the arithmetic claims above, every slice conversion, every in-place operation INCLUDING the refusal of a length
\* mismatch by a panic before anything is modified -- the expected outcome is the same in both profiles, so a check that
\* exists only under debug assertions (debug_assert!, cfg!(debug_assertions) branches) is a violation in the release
\* trace.  Where the outcome legitimately differs (an offset whose mathematical result leaves the format: overflow panic
\* in debug, wrap-around in release) the property makes no claim in either profile (Claim(FALSE, ..), counted).
Ok(e) == CASE e.ev = "reset"       -> e.comp \in {"frame", "slice"} /\ e.r.k = "unit" /\ e.o.debug \in BOOLEAN
           [] e.ev \in SampleEvs   -> OkSample(e)
           [] e.ev \in FrameEvs    -> OkFrame(e)
           [] e.ev = "to_frames"   -> OkToFrames(e)
           [] e.ev = "to_samples"  -> OkToSamples(e)
           [] e.ev = "inplace"     -> OkInPlace(e)
           [] OTHER                -> FALSE

\* C07's view of this component: every call except the boxed conversions is steady state
IsBoxedConv(e) == e.ev \in {"to_frames", "to_samples"} /\ e.a.kind = "boxed"
HeapQuiet(e) == e.ev = "reset" \/ IsBoxedConv(e) \/ e.r.k = "panic" \/ e.h = << 0, 0, 0 >>

\* (operators with a parameter: TLC would evaluate parameterless constant definitions at start-up, before register 7 exists)
BadOf(rec)     == {i \in 1..Len(rec) : ~Ok(rec[i])}
HeapSetOf(rec) == {i \in 1..Len(rec) : ~HeapQuiet(rec[i])}
ArithEvs == {"s_add_amp", "s_mul_amp", "s_to_signed", "s_to_float", "f_offset", "f_scale", "f_add", "f_mul", "f_to_signed", "f_to_float"}
NArith(rec) == Cardinality({i \in 1..Len(rec) : rec[i].ev \in ArithEvs \/ (rec[i].ev = "inplace" /\ rec[i].a.op \in {"add", "add_amp"})})
\* printed six line numbers at a time so that every tuple stays on one output line (TLC wraps long values)
Chunks(S) == { { i \in S : i \div 6 = k } : k \in { i \div 6 : i \in S } }
ASSUME TLCSet(7, 0)
ASSUME LET bad == BadOf(Rec) IN
       /\ PrintT(<< "BAD", {} >>)
       /\ \A ch \in Chunks(bad) : PrintT(<< "BAD", ch >>)
ASSUME LET hs == HeapSetOf(Rec) IN
       /\ PrintT(<< "HEAPSET", {} >>)
       /\ \A ch \in Chunks(hs) : PrintT(<< "HEAPSET", ch >>)
ASSUME /\ PrintT(<< "NOCLAIM", TLCGet(7), NArith(Rec) >>)
       /\ Assert(2 * TLCGet(7) <= NArith(Rec) \/ NArith(Rec) < 20,
                 << "VACUOUS: more than half of the arithmetic events are outside the defined domain", TLCGet(7), NArith(Rec) >>)
=============================================================================
