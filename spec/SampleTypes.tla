----------------------------- MODULE SampleTypes -----------------------------
(***************************************************************************)
(* dasp_sample::types -- the custom-width integer sample types I11, I20,   *)
(* I24, I48, U11, U20, U24, U48 as property C15 states them:               *)
(*                                                                         *)
(*   * a value is an integer in [MIN, MAX] (bits-wide two's complement     *)
(*     range for the I types, [0, 2^bits - 1] for the U types);            *)
(*   * checked construction succeeds exactly for in-range arguments;       *)
(*   * conversion from the backing integer wraps modulo 2^bits into range; *)
(*   * the widening From impls preserve the numeric value;                 *)
(*   * order and equality are the numeric ones;                            *)
(*   * add / sub / mul (and neg of the signed types): the exact result if  *)
(*     it is in range; otherwise a PANIC in a build with debug assertions  *)
(*     and the result wrapped modulo 2^bits into range in a build without. *)
(*     In neither build a value outside [MIN, MAX].                        *)
(*                                                                         *)
(* Nothing here is transcribed from types.rs (no wrap loops, no backing    *)
(* integer overflow): this is layer 1, the property.  Values are signed    *)
(* Big integers (Big.tla) because products reach 2^96.  The operators are  *)
(* generic in (bits, signed) so that MC_Sample can exhaust scaled-down     *)
(* widths; the name-based wrappers serve the eight real types.  A second,  *)
(* native-integer formulation (suffix N) serves the exhaustive 11-bit      *)
(* sweeps, and MC_Sample checks that both formulations agree.              *)
(***************************************************************************)
EXTENDS Big

Types == {"I11", "I20", "I24", "I48", "U11", "U20", "U24", "U48"}
TBits(t)   == CASE t \in {"I11", "U11"} -> 11 [] t \in {"I20", "U20"} -> 20
                [] t \in {"I24", "U24"} -> 24 [] t \in {"I48", "U48"} -> 48
TSigned(t) == t \in {"I11", "I20", "I24", "I48"}
\* width of the backing integer (i16 / i32 / i64): the domain of `new` and `From<Rep>`
TRepBits(t) == CASE t \in {"I11", "U11"} -> 16 [] t \in {"I20", "U20", "I24", "U24"} -> 32 [] OTHER -> 64

---------------------------------------------------------------------------
(* generic in (bits, signed) *)
GMin(b, sg)   == IF sg THEN SNeg(SPow2(b - 1)) ELSE SZero
GMax(b, sg)   == IF sg THEN SSub(SPow2(b - 1), SFromInt(1)) ELSE SSub(SPow2(b), SFromInt(1))
GEquil(b, sg) == IF sg THEN SZero ELSE SPow2(b - 1)
GIn(b, sg, v) == SLe(GMin(b, sg), v) /\ SLe(v, GMax(b, sg))
\* the representative of v modulo 2^b in [MIN, MAX]
GWrap(b, sg, v) ==
  LET r == SModPow2(v, b) IN
  IF sg /\ ~SLt(r, SPow2(b - 1)) THEN SSub(r, SPow2(b)) ELSE r
\* a == c (mod 2^b)
GCongruent(b, a, c) == SIsZero(SModPow2(SSub(a, c), b))

Ops == {"add", "sub", "mul", "neg"}
Exact(op, a, b) == CASE op = "add" -> SAdd(a, b) [] op = "sub" -> SSub(a, b)
                     [] op = "mul" -> SMul(a, b) [] op = "neg" -> SNeg(a)
Panic == [k |-> "panic"]
Val(v) == [k |-> "val", v |-> v]
\* the outcome of an arithmetic operation on in-range operands
GOp(b, sg, op, x, y, debug) ==
  LET r == Exact(op, x, y) IN
  IF GIn(b, sg, r) THEN Val(r)
  ELSE IF debug THEN Panic ELSE Val(GWrap(b, sg, r))

---------------------------------------------------------------------------
(* the eight types *)
TMin(t)   == GMin(TBits(t), TSigned(t))
TMax(t)   == GMax(TBits(t), TSigned(t))
TEquil(t) == GEquil(TBits(t), TSigned(t))
TTotal(t) == SPow2(TBits(t))
TIn(t, v) == GIn(TBits(t), TSigned(t), v)
TRepIn(t, v) == SLe(SNeg(SPow2(TRepBits(t) - 1)), v) /\ SLt(v, SPow2(TRepBits(t) - 1))

New(t, v)     == IF TIn(t, v) THEN [k |-> "some", v |-> v] ELSE [k |-> "none"]
Wrap(t, v)    == GWrap(TBits(t), TSigned(t), v)
FromRep(t, v) == Wrap(t, v)                        \* From<backing integer>

\* the widening From impls the property speaks of (source types by name; primitives included)
WidenSources(t) ==
  CASE t = "I11" -> {"i8", "u8"}
    [] t = "I20" -> {"i8", "I11", "i16", "u8", "U11", "u16"}
    [] t = "I24" -> {"i8", "i16", "I20", "u8", "u16", "U20"}
    [] t = "I48" -> {"i8", "i16", "I20", "I24", "i32", "u8", "u16", "U20", "U24", "u32"}
    [] t = "U11" -> {"u8"}
    [] t = "U20" -> {"u8", "u16"}
    [] t = "U24" -> {"u8", "u16", "U20"}
    [] t = "U48" -> {"u8", "u16", "U20", "U24", "u32"}
SrcBits(u)   == CASE u \in {"i8", "u8"} -> 8 [] u \in {"i16", "u16"} -> 16 [] u \in {"i32", "u32"} -> 32
                  [] OTHER -> TBits(u)
SrcSigned(u) == u \in {"i8", "i16", "i32"} \/ (u \in Types /\ TSigned(u))
SrcIn(u, v)  == GIn(SrcBits(u), SrcSigned(u), v)
Widen(t, u, v) == v                                \* value-preserving

\* order = numeric order
Cmp(a, b) == SCmp(a, b)                            \* -1, 0, 1

\* which operations the property speaks of: + - * for all eight, negation "of signed ones"
HasOp(t, op) == op \in {"add", "sub", "mul"} \/ (op = "neg" /\ TSigned(t))
\* U11 is the one unsigned type with a Neg impl.  The property does not say what it computes, so only the
\* types' range invariant is demanded of it: the call panics or returns a value inside [MIN, MAX].
RangeOnlyOp(t, op) == op = "neg" /\ t = "U11"
Op(t, op, x, y, debug) == GOp(TBits(t), TSigned(t), op, x, y, debug)

---------------------------------------------------------------------------
(* native-integer formulation for widths up to 15 bits (11-bit sweeps): values are TLC integers, *)
(* a panic is the number PanicN (outside every backing integer of those widths)                  *)
PanicN == 99999
MinN_(b, sg) == IF sg THEN 0 - Pow2Small(b - 1) ELSE 0
MaxN_(b, sg) == IF sg THEN Pow2Small(b - 1) - 1 ELSE Pow2Small(b) - 1
InN(b, sg, v) == MinN_(b, sg) <= v /\ v <= MaxN_(b, sg)
WrapN(b, sg, v) == LET r == v % Pow2Small(b) IN          \* TLA+ % is the non-negative remainder
                   IF sg /\ r >= Pow2Small(b - 1) THEN r - Pow2Small(b) ELSE r
ExactN(op, x, y) == CASE op = "add" -> x + y [] op = "sub" -> x - y [] op = "mul" -> x * y [] op = "neg" -> 0 - x
OpN(b, sg, op, x, y, debug) ==
  LET r == ExactN(op, x, y) IN
  IF InN(b, sg, r) THEN r ELSE IF debug THEN PanicN ELSE WrapN(b, sg, r)
=============================================================================
