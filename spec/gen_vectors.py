import random, json, struct
import numpy as np
random.seed(1)
def limbs(n):
    l=[]
    while n: l.append(n & 32767); n >>= 15
    return l
def sj(x): return {"n": 1 if x<0 else 0, "l": limbs(abs(x))}
def f32f(x):
    b=struct.unpack('<I',struct.pack('<f',x))[0]
    return {"s":b>>31,"e":(b>>23)&255,"m":limbs(b&0x7fffff)}
def f64f(x):
    b=struct.unpack('<Q',struct.pack('<d',x))[0]
    return {"s":b>>63,"e":(b>>52)&2047,"m":limbs(b&((1<<52)-1))}
out=[]
def rbig():
    k=random.choice([0,1,5,14,15,16,29,30,31,45,47,48,63,64,70,95])
    return random.getrandbits(k) if k else 0
for _ in range(3000):
    a=rbig()*random.choice([1,-1]); b=rbig()*random.choice([1,-1]); k=random.randint(0,70)
    out.append({"t":"int","a":sj(a),"b":sj(b),"k":k,"add":sj(a+b),"sub":sj(a-b),"mul":sj(a*b),
      "cmp": (a>b)-(a<b), "shl":sj(a<<k), "fshr":sj(a>>k), "low":sj(abs(a)&((1<<k)-1)), "bl":abs(a).bit_length(),
      "mod": sj(a % (1<<k))})
def rf32():
    c=random.random()
    if c<0.1: return np.float32(0.0)*np.float32(random.choice([1,-1]))
    e=random.randint(-149,120) if c<0.5 else random.randint(-20,20)
    return np.float32(random.uniform(-2,2))*np.float32(2.0)**np.float32(e/2.0)
def rf64():
    c=random.random()
    e=random.randint(-1074,1000) if c<0.3 else random.randint(-40,40)
    return np.float64(random.uniform(-2,2))*np.float64(2.0)**(e/2.0)
with np.errstate(all='ignore'):
  for _ in range(3000):
    a=rf32(); b=rf32()
    m=a*b; s=a+b
    if not (np.isfinite(a) and np.isfinite(b)): continue
    out.append({"t":"f32","a":f32f(a),"b":f32f(b),"mul":f32f(m),"add":f32f(s),"sqrt":f32f(np.sqrt(np.abs(a))),
                "div":f32f(a/b) if b!=0 else f32f(0.0), "bz": 1 if b==0 else 0})
  for _ in range(3000):
    a=rf64(); b=rf64()
    m=a*b; s=a+b
    out.append({"t":"f64","a":f64f(a),"b":f64f(b),"mul":f64f(m),"add":f64f(s),"to32":f32f(np.float32(a)),
       "i":sj(int(a) if abs(a)<2**70 else 0), "big": 0 if abs(a)<2**70 else 1})
  for _ in range(2000):
    n=rbig()*random.choice([1,-1])
    n = max(min(n, 2**63-1), -2**63)
    # python int->float is RNE
    out.append({"t":"i2f","a":sj(n),"f64":f64f(float(n)),"f32":f32f(np.float32(np.float64(n)) if abs(n)<2**53 else np.float32(np.int64(n)))})
with open('vec.ndjson','w') as f:
    for o in out: f.write(json.dumps(o)+"\n")
print(len(out))
