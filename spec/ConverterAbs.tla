---------------------------- MODULE ConverterAbs ----------------------------
(***************************************************************************)
(* Integer abstraction of Converter.tla for Apalache: the accumulator loop *)
(* of `Converter::next` (dasp_signal/src/interpolate.rs)                   *)
(*     while acc >= 1 { next_source_frame(source.next()); acc -= 1 }       *)
(*     out = interpolate(acc); acc += ratio                                *)
(* in fixed point with ANY unit U >= 1 (acc, ratio are numerators over U), *)
(* ANY sequence of per-frame ratios >= 0 (set_*_hz_scale / MulHz before    *)
(* each frame) and any number of outputs (C08's unbounded quantifier;      *)
(* MC_Converter enumerates <= 24 outputs over nine ratios).                *)
(*                                                                         *)
(* One spec action per loop iteration (`Advance`) and one for the tail of  *)
(* the call (`Emit`), so a behaviour is the code's own step sequence.      *)
(* Ghosts: psum = sum of the ratios used so far (the property's source     *)
(* position P_n, numerator), advU = U * adv kept incrementally (so the     *)
(* invariant stays linear), and what the last Emit interpolated at.        *)
(* IndInv gives layer 1: every output is interpolated at frame floor(P_n)  *)
(* (= adv frames beyond the primed ones) with fraction P_n - floor(P_n) in *)
(* [0, 1); source frames are consumed one at a time, exactly floor(P_n)    *)
(* of them (none skipped, none re-read); `is_exhausted` (source exhausted  *)
(* and acc >= 1) is "the next output needs a frame the source cannot give".*)
(* Checked by:                                                             *)
(*   apalache-mc check --cinit=ConstInit --inv=IndInv --init=Init --length=0    *)
(*   apalache-mc check --cinit=ConstInit --inv=IndInv --init=IndInit --length=1 *)
(***************************************************************************)
EXTENDS Integers

CONSTANT
  \* @type: Int;
  U
VARIABLES
  \* @type: Int;
  acc,
  \* @type: Int;
  adv,
  \* @type: Int;
  advU,
  \* @type: Int;
  psum,
  \* @type: Int;
  outs,
  \* @type: Int;
  lastAdv,
  \* @type: Int;
  lastAdvU,
  \* @type: Int;
  lastFrac,
  \* @type: Int;
  lastPos,
  \* @type: Int;
  sinceEmit

ConstInit == U \in Nat /\ U >= 1

Init == /\ acc = 0 /\ adv = 0 /\ advU = 0 /\ psum = 0 /\ outs = 0
        /\ lastAdv = 0 /\ lastAdvU = 0 /\ lastFrac = 0 /\ lastPos = 0 /\ sinceEmit = 0

\* one iteration of the while loop: exactly one source frame is pulled
Advance == /\ acc >= U
           /\ acc' = acc - U /\ adv' = adv + 1 /\ advU' = advU + U /\ sinceEmit' = sinceEmit + 1
           /\ UNCHANGED <<psum, outs, lastAdv, lastAdvU, lastFrac, lastPos>>
\* loop exit: interpolate at acc, then add the ratio in force for this frame
Emit == /\ acc < U
        /\ \E r \in Int :
             /\ r >= 0
             /\ acc' = acc + r /\ psum' = psum + r
        /\ lastAdv' = adv /\ lastAdvU' = advU /\ lastFrac' = acc /\ lastPos' = psum
        /\ outs' = outs + 1 /\ sinceEmit' = 0
        /\ UNCHANGED <<adv, advU>>
Next == Advance \/ Emit

IndInv ==
  /\ acc >= 0 /\ adv >= 0 /\ outs >= 0 /\ psum >= 0 /\ sinceEmit >= 0
  /\ advU + acc = psum                         \* Position: consumed whole frames + fraction = sum of ratios
  /\ lastAdvU + lastFrac = lastPos             \* the last output was interpolated at its own P_n ...
  /\ lastFrac >= 0 /\ lastFrac < U             \* ... split as floor(P_n) and a fraction in [0, 1)
  /\ lastAdvU <= advU /\ lastAdv <= adv
  /\ adv = lastAdv + sinceEmit                 \* frames pulled since the last output: one per Advance
  /\ advU = adv * U /\ lastAdvU = lastAdv * U   \* the ghosts are what their names say

IndInit == /\ acc \in Int /\ adv \in Int /\ advU \in Int /\ psum \in Int /\ outs \in Int
           /\ lastAdv \in Int /\ lastAdvU \in Int /\ lastFrac \in Int /\ lastPos \in Int /\ sinceEmit \in Int
           /\ IndInv

\* follows from IndInv: at loop exit (acc < U) the number of frames pulled is exactly floor(psum / U)
PulledIsFloor == acc < U => (advU <= psum /\ psum < advU + U)
=============================================================================
