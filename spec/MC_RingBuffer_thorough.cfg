SPECIFICATION Spec
CONSTANTS
  MaxCap = 4
  Vals = {1, 2}
INVARIANTS RepInv Refines ViewsAgree NoPoison DelayLine
CHECK_DEADLOCK FALSE
