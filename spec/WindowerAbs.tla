---------------------------- MODULE WindowerAbs ----------------------------
(***************************************************************************)
(* Integer abstraction of the Windower of Window.tla for Apalache (C20's   *)
(* chunk schedule for ANY slice length L, bin b >= 1 and hop h >= 1, and   *)
(* any number of calls; MC_Window enumerates small L, b, h only).          *)
(*                                                                         *)
(* Layer 2 as coded (dasp_signal/src/window/mod.rs): the windower keeps    *)
(* the remaining slice; `rem` is its length and `off` the ghost offset of  *)
(* its first frame in the caller's slice.  next(): if b <= rem it yields   *)
(* frames [off, off+b) and drops h frames (all of them when h >= rem),     *)
(* otherwise it yields None and changes nothing.                           *)
(* Layer 1 (property): chunk k starts at k*h and exists iff k*h + b <= L.  *)
(* `koff` is the ghost k*h, advanced by h per yielded chunk (so no         *)
(* multiplication is needed for the schedule itself); `lastStart`,         *)
(* `lastSome` record what the most recent next() returned, `lastWantStart` *)
(* / `lastWantSome` what layer 1 demands.  size_hint (after the fix: of    *)
(* 2745dbd) is n = (rem - b) \div h + 1 when b <= rem, else 0; HintOK says *)
(* exactly n more chunks exist: the n-th fits and the (n+1)-th does not.   *)
(* Checked by:                                                             *)
(*   apalache-mc check --cinit=ConstInit --inv=IndInv --init=Init --length=0    *)
(*   apalache-mc check --cinit=ConstInit --inv=IndInv --init=IndInit --length=1 *)
(***************************************************************************)
EXTENDS Integers

CONSTANTS
  \* @type: Int;
  L,
  \* @type: Int;
  B,
  \* @type: Int;
  H
VARIABLES
  \* @type: Int;
  off,
  \* @type: Int;
  rem,
  \* @type: Int;
  koff,
  \* @type: Bool;
  lastSome,
  \* @type: Int;
  lastStart,
  \* @type: Bool;
  lastWantSome,
  \* @type: Int;
  lastWantStart

ConstInit == L \in Nat /\ B \in Nat /\ B >= 1 /\ H \in Nat /\ H >= 1

Init == /\ off = 0 /\ rem = L /\ koff = 0
        /\ lastSome = FALSE /\ lastStart = 0 /\ lastWantSome = FALSE /\ lastWantStart = 0

NextSome == /\ B <= rem
            /\ lastSome' = TRUE /\ lastStart' = off
            /\ IF H < rem THEN rem' = rem - H ELSE rem' = 0
            /\ off' = off + H
NextNone == /\ B > rem
            /\ lastSome' = FALSE /\ lastStart' = 0
            /\ UNCHANGED <<off, rem>>
\* layer 1 advanced in the same step
Want == /\ lastWantSome' = (koff + B <= L)
        /\ lastWantStart' = (IF koff + B <= L THEN koff ELSE 0)
        /\ koff' = (IF koff + B <= L THEN koff + H ELSE koff)
Next == (NextSome \/ NextNone) /\ Want

IndInv ==
  /\ off >= 0 /\ rem >= 0 /\ koff = off
  /\ \/ rem = L - off                    \* the remaining slice is the tail of the caller's slice
     \/ rem = 0 /\ off >= L              \* ... or empty once the hop ran past its end
  /\ lastSome = lastWantSome /\ lastStart = lastWantStart
  /\ lastSome => lastStart + B <= L      \* a yielded chunk lies inside the caller's slice

IndInit == /\ off \in Int /\ rem \in Int /\ koff \in Int /\ lastSome \in BOOLEAN /\ lastStart \in Int
           /\ lastWantSome \in BOOLEAN /\ lastWantStart \in Int
           /\ IndInv

\* size_hint as coded vs the number of chunks layer 1 still owes (state predicate, no induction needed
\* beyond IndInv):  n chunks remain  <=>  chunk n-1 fits and chunk n does not.
Hint == IF B <= rem THEN (rem - B) \div H + 1 ELSE 0
HintOK == LET n == Hint IN
          /\ n >= 0
          /\ (n > 0 => koff + (n - 1) * H + B <= L)
          /\ koff + n * H + B > L
IndInvHint == IndInv /\ HintOK
=============================================================================
