------------------------------ MODULE MC_Frame ------------------------------
(***************************************************************************)
(* Exhaustive TLC check of the consequences properties C03 / C10 list, on  *)
(* the DEFINITIONS of SampleFormats / Frames / Slices, over boundary       *)
(* structured values of all 14 formats and all widths 1..32.               *)
(*                                                                         *)
(* State = a case `cs`:                                                     *)
(*   [k |-> "s", f, s]   a sample s of format f  (s in B(f), see below)    *)
(*   [k |-> "v", n, l]   a slice of l samples viewed as n-channel frames   *)
(* plus `last`, the step taken from it.  Init holds EVERY case, one step   *)
(* from each of them is every (case, operation, argument) -- the state     *)
(* graph is exactly the set of implementation calls written out as sample  *)
(* level stimuli.  The frame / slice stimuli (every op x N in 0..4 x small *)
(* boundary contents; every (N, L); every pair of lengths) are enumerated  *)
(* by the same module (file IOEnv.STIM_OUT).  IOEnv.PART = "frame" or      *)
(* "slice" restricts both exploration and stimuli to one property.         *)
(***************************************************************************)
EXTENDS Slices, FiniteSets, TLC, Json, IOUtils, SequencesExt

CONSTANTS KStep,   \* boundary values eq +- 2^k (+-1): every KStep-th exponent k (plus those near 0, near the top and around the float mantissa widths 24 / 53)
          MaxW,    \* frame widths 1..MaxW for the slice cases (32 = all that dasp implements)
          MaxL     \* in-place stimuli: every pair of lengths in 0..MaxL
VARIABLES cs, last
vars == << cs, last >>

Part    == IF "PART" \in DOMAIN IOEnv THEN IOEnv.PART ELSE "all"
DoFrame == Part \in {"all", "frame"}
DoSlice == Part \in {"all", "slice"}

---------------------------------------------------------------------------
(* value sets *)
Ks(b) == {k \in 0..(b - 2) : k < 2 \/ k > b - 4 \/ k % KStep = 0 \/ k \in {22, 23, 24, 25, 52, 53, 54}}
\* ... plus the extreme values of the format (round 4; Frames.tla EdgeValues: MAX - d, MIN + d for d around the float
\* precision of the companion, floats: +-largest finite) -- the identities are claimed on EVERY value
B(f)  == (IF IsFloat(f) THEN FloatBoundary(FmtOf(f)) ELSE IntBoundary(f, Ks(Bits(f)))) \cup EdgeValues(f)

Shift(f) == Bits(SignedOf(f)) - Bits(f)          \* an offset of 2^Shift(f) in the Signed format is one unit of f
Offsets(f) ==   \* amplitudes in SignedOf(f)
  LET sf == SignedOf(f) IN
  IF IsFloat(f)
    THEN LET F == FmtOf(f) IN
         {FZeroF(0), FZeroF(1), FPow2(F, 0, -2), FPow2(F, 1, -1), FOne(F), Fld(0, 0, << 1 >>), Fld(1, F.bias, << 1 >>)}
    ELSE LET u == SPow2(Shift(f)) b == Bits(sf) IN
         { a \in {SZero, SOne, SNeg(SOne), u, SNeg(u), SSub(u, SOne), SNeg(SAdd(u, SOne)),
                  SPow2(b - 2), SNeg(SPow2(b - 2)), SAdd(SPow2(b - 3), SFromInt(5)), MaxV(sf), MinV(sf)} : InRange(sf, a) }
Gains(f) ==     \* amplitudes in FloatOf(f)
  LET F == FmtOf(FloatOf(f)) IN
  {FZeroF(0), FZeroF(1), FOne(F), FPow2(F, 1, 0), FPow2(F, 0, -1), FPow2(F, 1, -1), Fld(0, F.bias - 1, BPow2(F.p - 2)),
   Fld(0, F.bias - 1, FMantAllOnes(F)), Fld(0, F.bias, << 1 >>), FPow2(F, 0, 1), FPow2(F, 0, -(F.p)),
   Fld(0, F.bias - 4, BAdd(BPow2(F.p - 2), BPow2(F.p - 3))), Fld(1, F.bias - 4, BAdd(BPow2(F.p - 2), BPow2(F.p - 3)))}

SampleCases == UNION { { [k |-> "s", f |-> f, s |-> s] : s \in B(f) } : f \in Formats }
SliceCases  == UNION { { [k |-> "v", n |-> n, l |-> l] : l \in 0..(2 * n + 1) } : n \in 1..MaxW }

---------------------------------------------------------------------------
(* behaviour: every case, one step *)
NoStep == [op |-> "init"]
Init == /\ cs \in (IF DoFrame THEN SampleCases ELSE {}) \cup (IF DoSlice THEN SliceCases ELSE {})
        /\ last = NoStep
IsInit == last.op = "init"

StepAdd == /\ IsInit /\ cs.k = "s"
           /\ \E a \in Offsets(cs.f) :
                LET def == AddAmpDefined(cs.f, cs.s, a) IN
                last' = [op |-> "add", arg |-> a, def |-> def, r |-> IF def THEN AddAmp(cs.f, cs.s, a) ELSE cs.s]
           /\ UNCHANGED cs
StepMul == /\ IsInit /\ cs.k = "s"
           /\ \E g \in Gains(cs.f) :
                LET def == MulAmpDefined(cs.f, cs.s, g) IN
                last' = [op |-> "mul", arg |-> g, def |-> def, r |-> IF def THEN MulAmp(cs.f, cs.s, g) ELSE cs.s]
           /\ UNCHANGED cs

\* slice cases: memory = one guard cell, l sample cells (distinct contents), one guard cell
Mem(l)   == [a \in 1..(l + 2) |-> 1000 + a]
SV(l)    == SView(1, l)
Fresh(n, m) == [i \in 1..m |-> [ch \in 1..n |-> 5000 + (i - 1) * n + ch]]   \* m frames of new values
BoxBytes(l) == 2 * l
StepView  == /\ IsInit /\ cs.k = "v"
             /\ last' = [op |-> "view", ret |-> ViewToFrames(SV(cs.l), cs.n)]
             /\ UNCHANGED cs
StepWrite == /\ IsInit /\ cs.k = "v" /\ Divides(cs.n, cs.l)
             /\ last' = [op |-> "write",
                         mem |-> WriteView(Mem(cs.l), ViewToFrames(SV(cs.l), cs.n).v, Fresh(cs.n, cs.l \div cs.n))]
             /\ UNCHANGED cs
StepBox   == /\ IsInit /\ cs.k = "v"
             /\ last' = [op |-> "box", r |-> BoxToFrames(SV(cs.l), BoxBytes(cs.l), cs.n)]
             /\ UNCHANGED cs

\* the identities of C03 are evaluated on a step of their own (so that TLC's workers share the work)
StepLaws == /\ IsInit /\ cs.k = "s" /\ last' = [op |-> "laws"] /\ UNCHANGED cs
Next == StepLaws \/ StepAdd \/ StepMul \/ StepView \/ StepWrite \/ StepBox
Spec == Init /\ [][Next]_vars

\* Vacuity guard without `-coverage` (which slows this limb-arithmetic model down by a factor of 10 to 25): the
\* number of distinct states TLC found must be EXACTLY the number of cases plus the number of (case, operation,
\* argument) triples, i.e. every action was taken from every case it applies to.  POSTCONDITION in the cfg files.
ExpActions ==
  LET g[j \in 0..Len(SetToSeq(Formats))] ==
        IF j = 0 THEN [cases |-> 0, laws |-> 0, add |-> 0, mul |-> 0]
        ELSE LET f == SetToSeq(Formats)[j] nb == Cardinality(B(f)) prev == g[j - 1] IN   \* (one recursive reference: TLC does not memoise g)
             [cases |-> prev.cases + nb, laws |-> prev.laws + nb,
              add |-> prev.add + nb * Cardinality(Offsets(f)), mul |-> prev.mul + nb * Cardinality(Gains(f))]
      fr == g[Len(SetToSeq(Formats))]
      nv == Cardinality(SliceCases)
  IN [SampleCases |-> IF DoFrame THEN fr.cases ELSE 0, StepLaws |-> IF DoFrame THEN fr.laws ELSE 0,
      StepAdd |-> IF DoFrame THEN fr.add ELSE 0, StepMul |-> IF DoFrame THEN fr.mul ELSE 0,
      SliceCases |-> IF DoSlice THEN nv ELSE 0, StepView |-> IF DoSlice THEN nv ELSE 0, StepBox |-> IF DoSlice THEN nv ELSE 0,
      StepWrite |-> IF DoSlice THEN Cardinality({p \in SliceCases : Divides(p.n, p.l)}) ELSE 0]
AllTaken ==
  LET x == ExpActions
      total == x.SampleCases + x.StepLaws + x.StepAdd + x.StepMul + x.SliceCases + x.StepView + x.StepBox + x.StepWrite
  IN IF TLCGet("stats").distinct = total /\ (DoFrame => x.StepAdd > 0 /\ x.StepMul > 0) /\ (DoSlice => x.StepWrite > 0)
       THEN \A k \in DOMAIN x : PrintT(<< "ACTION", k, x[k] >>)
       ELSE PrintT(<< "VACUITY: distinct states # cases + transitions", TLCGet("stats").distinct, total, x >>) /\ FALSE

---------------------------------------------------------------------------
(* C03: invariants on the sample cases *)
\* (FltOf, FitsMantissa: Frames.tla)

\* offset 0 = identity.  Integers: exactly.  Floats: adding -0.0 is the bit-exact identity; adding +0.0 is
\* the bit-exact identity except on -0.0, which becomes +0.0 (equal as a value)
Off0At(f, s) ==
  IF IsFloat(f)
    THEN /\ AddAmp(f, s, FZeroF(1)) = s
         /\ AddAmp(f, s, FZeroF(0)) = (IF s = FZeroF(1) THEN FZeroF(0) ELSE s)
    ELSE AddAmpDefined(f, s, SZero) /\ AddAmp(f, s, SZero) = s
Off0 == last.op = "laws" => Off0At(cs.f, cs.s)

\* scale 0.0 = equilibrium.  Integers: exactly, for +0.0 and -0.0.  Floats: a zero whose sign is the product's
\* sign, i.e. the equilibrium 0.0 with +0 and -0 identified
Scale0At(f, s) ==
  \A z \in {0, 1} :
    LET r == MulAmp(f, s, FZeroF(z)) IN
    IF IsFloat(f) THEN FIsZero(r) /\ r.s = (s.s + z) % 2 /\ FEqVal(FmtOf(f), r, Equil(f))
                  ELSE MulAmpDefined(f, s, FZeroF(z)) /\ r = Equil(f)
Scale0 == last.op = "laws" => Scale0At(cs.f, cs.s)

\* scale 1.0 = identity, exactly, iff the format's bits fit the significand of its float companion
\* (i8 i16 i24 u8 u16 u24 in f32's 24 bits, i48 u48 in f64's 53 bits, floats trivially).  Otherwise
\* (i32 u32 / f32, i64 u64 / f64), wherever the operation is defined (the float image is < 1.0):
\*   |result - s| <= half a unit in the last place of the float image, scaled by 2^(bits-1)
\*                <= 2^(bits - p - 2)          (64 for i32/u32, 512 for i64/u64)
\* Where it is NOT defined (round 4) the float image of s is exactly +1.0 -- s is one of the top values, within that same
\* precision of MAX --, and the property still speaks: the claim is the relation MulAmpOk of Frames.tla.
Scale1At(f, s) ==
  LET F == FltOf(f) one == FOne(F) r == MulAmp(f, s, one) IN
  IF FitsMantissa(f) THEN MulAmpDefined(f, s, one) /\ r = s
  ELSE IF MulAmpDefined(f, s, one)
    THEN LET x == Conv(f, FloatOf(f), s)
             d == SAbs(SSub(r, s))
         IN /\ InRange(f, r)
            /\ DLe(DScale2(DFromS(d), 1), DScale2(Ulp(F, x), Bits(f) - 1))
            /\ SLe(d, SPow2(Bits(f) - F.p - 2)) /\ SPow2(Bits(f) - F.p - 2) = UnitySlack(f)
            /\ MulAmpOk(f, s, one, r)
    ELSE /\ Conv(f, FloatOf(f), s) = one /\ MulAmpProduct(f, s, one) = one
         /\ SLe(SSub(MaxV(f), s), UnitySlack(f))
Scale1 == last.op = "laws" => Scale1At(cs.f, cs.s)
\* the relation claimed for the gain 1.0 holds of the saturating float -> integer conversion (what `as` does) on EVERY
\* value, and the saturating route is the function MulAmp wherever that is defined
UnitySat == (last.op = "laws" /\ ~IsFloat(cs.f)) =>
              LET one == FOne(FltOf(cs.f)) IN
              /\ MulAmpClaimed(cs.f, cs.s, one)
              /\ MulAmpOk(cs.f, cs.s, one, MulAmpSat(cs.f, cs.s, one))
              /\ (MulAmpDefined(cs.f, cs.s, one) => MulAmpSat(cs.f, cs.s, one) = MulAmp(cs.f, cs.s, one))
\* ... and it is not vacuous: every format that does not fit has boundary values whose image is +1.0, a value on which
\* the bound is attained (the rounding tie), and a conversion that wraps around to MIN at the top is refused
ASSUME UnitySharp ==
  \A f \in Formats : ~FitsMantissa(f) =>
     LET one == FOne(FltOf(f)) IN
     /\ \E s \in B(f) : ~MulAmpDefined(f, s, one) /\ s # MaxV(f)
     /\ \E s \in B(f) : MulAmpDefined(f, s, one) /\ SAbs(SSub(MulAmp(f, s, one), s)) = UnitySlack(f)
     /\ MulAmpOk(f, MaxV(f), one, MaxV(f)) /\ ~MulAmpOk(f, MaxV(f), one, MinV(f))
     /\ \A s \in TopEdge(f) : ~MulAmpDefined(f, s, one) => ~MulAmpOk(f, s, one, MinV(f)) /\ ~MulAmpOk(f, s, one, Equil(f))
\* ... and the "iff": each format that does not fit has boundary values that scale 1.0 does change
ASSUME Scale1Sharp ==
  \A f \in Formats : ~FitsMantissa(f) =>
     \E s \in B(f) : MulAmpDefined(f, s, FOne(FltOf(f))) /\ MulAmp(f, s, FOne(FltOf(f))) # s

\* offset = native addition on the Signed image, converted back: for integer formats the result is
\* s + floor(a / 2^Shift) -- unsigned formats are re-centred, not treated as raw integers
Recentre == (last.op = "add" /\ ~IsFloat(cs.f) /\ last.def) =>
              /\ last.r = SAdd(cs.s, SFloorShr(last.arg, Shift(cs.f)))
              /\ InRange(cs.f, last.r)
\* the property's own example: AddAmp(u8, s, a) = s + a for every i8 a in range and every u8 s (thorough tier;
\* nine values of s around 0 / 64 / 128 / 192 / 255 in the quick tier)
ASSUME RecentreU8 ==
  \A s \in (IF KStep = 1 THEN 0..255 ELSE {0, 1, 64, 127, 128, 129, 192, 254, 255}) : \A a \in -128..127 :
     (s + a >= 0 /\ s + a <= 255) =>
        /\ AddAmpDefined("u8", SFromInt(s), SFromInt(a))
        /\ AddAmp("u8", SFromInt(s), SFromInt(a)) = SFromInt(s + a)
ASSUME AddAmp("u8", SFromInt(128), SFromInt(-128)) = SFromInt(0)
ASSUME AddAmp("u8", SFromInt(192), SFromInt(-128)) = SFromInt(64)          \* doc example of add_amp

\* scale stays inside the format wherever it is defined; float addition / multiplication give well-formed fields
Closed == /\ (last.op \in {"add", "mul"} /\ ~IsFloat(cs.f) /\ last.def) => InRange(cs.f, last.r)
          /\ (last.op \in {"add", "mul"} /\ IsFloat(cs.f)) => IsFields(last.r)
ASSUME MulAmp("i8", SFromInt(64), FPow2(F32, 0, -1)) = SFromInt(32)        \* doc examples of mul_amp
ASSUME MulAmp("u8", SFromInt(64), FZeroF(0)) = SFromInt(128)
ASSUME MulAmp("f32", FPow2(F32, 0, -1), FPow2(F32, 1, 1)) = FPow2(F32, 1, 0)

\* a bare sample behaves as the 1-channel frame of that sample
MonoIsoAt(f, s) ==
  LET x == Bare(s) IN
  /\ Unbare(FrToSigned(f, x)) = Conv(f, SignedOf(f), s)
  /\ Unbare(FrToFloat(f, x)) = Conv(f, FloatOf(f), s)
  /\ FrEquilibrium(f, 1) = Bare(Equil(f))
  /\ FrChannels(x) = << s >> /\ FrChannel(x, 0) = RSome(s) /\ FrChannel(x, 1) = RNone
  /\ FrFromSamples(1, << s, s >>) = [ret |-> RSome(x), consumed |-> 1, rest |-> << s >>]
  /\ \A a \in Offsets(f) : AddAmpDefined(f, s, a) =>
        /\ FrOffsetDefined(f, x, a) /\ FrAddDefined(f, x, Bare(a))
        /\ Unbare(FrOffset(f, x, a)) = AddAmp(f, s, a)
        /\ Unbare(FrAdd(f, x, Bare(a))) = AddAmp(f, s, a)
  /\ \A g \in Gains(f) : MulAmpDefined(f, s, g) =>
        /\ Unbare(FrScale(f, x, g)) = MulAmp(f, s, g)
        /\ Unbare(FrMul(f, x, Bare(g))) = MulAmp(f, s, g)
MonoIso == last.op = "laws" => MonoIsoAt(cs.f, cs.s)

\* conversions to the companion formats: in range, equilibrium to equilibrium / 0.0, and the Signed image of an
\* integer sample is its amplitude times 2^Shift
Companions == (last.op = "laws" /\ ~IsFloat(cs.f)) =>
                /\ Conv(cs.f, SignedOf(cs.f), cs.s) = SShl(Amp(cs.f, cs.s), Shift(cs.f))
                /\ InRange(SignedOf(cs.f), Conv(cs.f, SignedOf(cs.f), cs.s))
                /\ Conv(cs.f, SignedOf(cs.f), Equil(cs.f)) = SZero
                /\ FIsZero(Conv(cs.f, FloatOf(cs.f), Equil(cs.f)))
                /\ IsFields(Conv(cs.f, FloatOf(cs.f), cs.s))

\* the lifting on widths > 1, from_samples with short iterators
ASSUME LiftLaws ==
  \A n \in 1..4 :
    LET x == [ch \in 1..n |-> SFromInt(10 * ch)] y == [ch \in 1..n |-> SFromInt(ch)] IN
    /\ FrAdd("i16", x, y) = [ch \in 1..n |-> SFromInt(11 * ch)]
    /\ FrOffset("i16", x, SFromInt(-3)) = [ch \in 1..n |-> SFromInt(10 * ch - 3)]
    /\ FrChannelsRev(x) = [ch \in 1..n |-> SFromInt(10 * (n + 1 - ch))]
    /\ FrChannelsLens(x)[1] = n /\ FrChannelsLens(x)[n + 1] = 0
    /\ \A m \in 0..(n + 2) :
         LET it == [k \in 1..m |-> SFromInt(k)] r == FrFromSamples(n, it) IN
         /\ (r.ret.k = "some") = (m >= n)
         /\ r.consumed + Len(r.rest) = m
         /\ (m >= n => r.ret.v = SubSeq(it, 1, n) /\ r.consumed = n)
         /\ (m < n => r.consumed = m)

\* The channel iterators as iterators (Frames.tla, It*): every positional call std's Iterator offers is DERIVED here
\* from next() / next_back() alone, on iterators of every length 0..6 -- nth(j) is j times next() and one more, skip(a)
\* is nth(a) followed by what is left, step_by(b) is next() and then nth(b - 1) over and over (the route std takes),
\* last / count / collect agree, rev / nth_back are the mirror images -- and all of it is RELATIVE to what is left
\* after any prefix of next() / next_back() calls.
RECURSIVE ItDrop(_, _), ItDropBack(_, _), ItStepNth(_, _), ItDrain(_), ItDrainBack(_), ItCycleNext(_, _, _)
\* std's Cycle { orig, iter }: next() = iter.next(), and when that is exhausted iter = orig.clone() and once more;
\* a clone of an iterator = the same sequence of remaining items
ItCycleNext(orig, cur, j) ==
  IF j = 0 THEN << >>
  ELSE LET r == ItNext(cur) IN
       IF r.items # << >> THEN r.items \o ItCycleNext(orig, r.rem, j - 1)
       ELSE LET r2 == ItNext(orig) IN IF r2.items = << >> THEN << >> ELSE r2.items \o ItCycleNext(orig, r2.rem, j - 1)
ItDrop(rem, j)     == IF j = 0 THEN rem ELSE ItDrop(ItNext(rem).rem, j - 1)              \* j times next()
ItDropBack(rem, j) == IF j = 0 THEN rem ELSE ItDropBack(ItNextBack(rem).rem, j - 1)      \* j times next_back()
ItDrain(rem)       == LET r == ItNext(rem) IN IF r.items = << >> THEN << >> ELSE r.items \o ItDrain(r.rem)
ItDrainBack(rem)   == LET r == ItNextBack(rem) IN IF r.items = << >> THEN << >> ELSE r.items \o ItDrainBack(r.rem)
ItStepNth(rem, b)  == LET r == ItNth(rem, b - 1) IN IF r.items = << >> THEN << >> ELSE r.items \o ItStepNth(r.rem, b)
ASSUME IterLaws ==
  \A n \in 0..6 : \A k \in 0..(n + 1) : \A kb \in 0..(n + 1 - k) :
    LET x   == [c \in 1..n |-> 100 + 7 * c]                  \* n distinct channels
        pa  == ItFront(x, k)
        pb  == ItBack(pa.rem, kb)
        rem == pb.rem
    IN /\ pa.rem = ItDrop(x, k) /\ pa.got \o pa.rem = x /\ Len(pa.got) = MinN(k, n)
       /\ pb.rem = ItDropBack(pa.rem, kb) /\ pb.rem \o ItRev(pb.got) = pa.rem
       /\ rem = SubSeq(x, MinN(k, n) + 1, n - MinN(kb, n - MinN(k, n)))          \* channels idx .. end-1, in order
       /\ ItDrain(rem) = rem /\ ItDrainBack(rem) = ItRev(rem)
       /\ ItOp("collect", 0, rem).items = ItDrain(rem) /\ ItOp("rev", 0, rem).items = ItDrainBack(rem)
       /\ ItOp("count", 0, rem).cnt = Len(ItDrain(rem))
       \* clone-and-continue: the clone yields what the original has yet to yield (channels idx .. end-1, NOT 0 ..), the
       \* original is where it was; cycle() = std's route over such clones = the remaining items over and over
       /\ ItOp("clone", 0, rem).items = ItDrain(rem) /\ ItOp("clone", 0, rem).rem = rem /\ ItOp("clone", 0, rem).alive
       /\ ItOp("clone", 0, rem).items = SubSeq(x, MinN(k, n) + 1, n - MinN(kb, n - MinN(k, n)))
       /\ \A j \in 0..(2 * n + 2) :
            /\ ItOp("cycle", j, rem).items = ItCycleNext(rem, rem, j) /\ ~ItOp("cycle", j, rem).alive
            /\ (rem # << >> => Len(ItCycle(rem, j)) = j) /\ (rem = << >> => ItCycle(rem, j) = << >>)
       /\ ItOp("last", 0, rem).items = (IF rem = << >> THEN << >> ELSE << ItDrain(rem)[Len(rem)] >>)
       /\ \A j \in 0..(n + 2) :
            /\ ItNth(rem, j) = ItNext(ItDrop(rem, j))
            /\ ItNthBack(rem, j) = ItNextBack(ItDropBack(rem, j))
            /\ ItNthBack(rem, j).items = ItNth(ItRev(rem), j).items /\ ItNthBack(rem, j).rem = ItRev(ItNth(ItRev(rem), j).rem)
            \* the statement of the model: nth(j) yields channel idx + j and leaves idx + j + 1 .. (up to where next_back got to)
            /\ (j < Len(rem) => /\ ItNth(rem, j).items = << x[MinN(k, n) + j + 1] >>
                                 /\ ItNth(rem, j).rem = SubSeq(x, MinN(k, n) + j + 2, MinN(k, n) + Len(rem)))
            /\ (j >= Len(rem) => ItNth(rem, j) = [items |-> << >>, rem |-> << >>])
            /\ ItSkip(rem, j) = ItDrain(ItDrop(rem, j))
            /\ ItSkip(rem, j) = ItNth(rem, j).items \o ItNth(rem, j).rem               \* std: Skip::next = nth(a), then next()
            /\ ItOp("nth", j, rem).alive /\ ItOp("nth_back", j, rem).alive /\ ~ItOp("skip", j, rem).alive
            /\ (j >= 1 =>
                  \* std: StepBy::next = next() the first time, nth(b - 1) from then on
                  /\ ItStepBy(rem, j) = ItNext(rem).items \o (IF rem = << >> THEN << >> ELSE ItStepNth(ItNext(rem).rem, j))
                  /\ \A c \in 1..Len(ItStepBy(rem, j)) : ItStepBy(rem, j)[c] = rem[(c - 1) * j + 1]
                  /\ Len(ItStepBy(rem, j)) * j >= Len(rem) /\ (Len(ItStepBy(rem, j)) - 1) * j < MaxN(Len(rem), 1))

---------------------------------------------------------------------------
(* C10: invariants on the slice cases *)
XS(l) == ReadView(Mem(l), SV(l))                 \* the l samples
ViewIff == last.op = "view" =>
             /\ (last.ret.k = "some") = Divides(cs.n, cs.l)
             /\ last.ret.k = SlToFrames(cs.n, XS(cs.l)).k
ViewLayout == (last.op = "view" /\ last.ret.k = "some") =>
                LET fv == last.ret.v fr == ReadView(Mem(cs.l), fv) IN
                /\ fv.ptr = SV(cs.l).ptr /\ ViewInBounds(Mem(cs.l), fv)
                /\ ViewCells(fv) = cs.l                                       \* covers exactly the same cells
                /\ fr = SlToFrames(cs.n, XS(cs.l)).v
                /\ \A i \in 0..(fv.len - 1) : \A ch \in 0..(cs.n - 1) : fr[i + 1][ch + 1] = XS(cs.l)[i * cs.n + ch + 1]
FramesTimesN == (last.op = "view" /\ last.ret.k = "some") => last.ret.v.len * cs.n = cs.l
RoundTripId == (last.op = "view" /\ last.ret.k = "some") =>
                 /\ ViewToSamples(last.ret.v) = SV(cs.l)
                 /\ SlToSamples(cs.n, SlToFrames(cs.n, XS(cs.l)).v) = XS(cs.l)
                 /\ SlToFrames(cs.n, SlToSamples(cs.n, Fresh(cs.n, last.ret.v.len))) = RSome(Fresh(cs.n, last.ret.v.len))
WriteThrough == last.op = "write" =>
                  /\ ReadView(last.mem, SV(cs.l)) = SlToSamples(cs.n, Fresh(cs.n, cs.l \div cs.n))
                  /\ last.mem[1] = Mem(cs.l)[1] /\ last.mem[cs.l + 2] = Mem(cs.l)[cs.l + 2]   \* nothing outside the slice
BoxedOK == last.op = "box" =>
             /\ (last.r.ret.k = "some") = Divides(cs.n, cs.l)
             /\ (last.r.ret.k = "some" => last.r.ret.v.ptr = SV(cs.l).ptr /\ last.r.h = << 0, 0, 0 >> /\ last.r.dlive = 0)
             /\ (last.r.ret.k = "none" => last.r.h = << 0, 0, 1 >> /\ last.r.dlive = 0 - BoxBytes(cs.l))

ASSUME InPlaceLaws ==
  \A la \in 0..MaxL : \A lb \in 0..MaxL :
    LET a == [i \in 1..la |-> << SFromInt(i), SFromInt(-i) >>]
        b == [i \in 1..lb |-> << SFromInt(100 * i), SFromInt(7) >>]
    IN /\ SlWrite(a, b) = (IF la = lb THEN [ret |-> RUnit, a |-> b] ELSE [ret |-> RPanic, a |-> a])
       /\ SlAdd("i16", a, b).ret = (IF la = lb THEN RUnit ELSE RPanic)
       /\ (la # lb => SlAdd("i16", a, b).a = a)
       /\ (la = lb => SlAdd("i16", a, b).a = [i \in 1..la |-> << SFromInt(101 * i), SFromInt(7 - i) >>])
       /\ SlEquilibrium("u8", 2, a) = [i \in 1..la |-> << SFromInt(128), SFromInt(128) >>]
       /\ SlZipMapCalls(a, b) = (IF la = lb THEN [i \in 1..la |-> << a[i], b[i] >>] ELSE << >>)

---------------------------------------------------------------------------
(* stimuli.  JSON shapes: see harness/hx_frame/src/main.rs.  One execution = <<reset, event, ...>>. *)
SJ(f, v)  == IF IsFloat(f) THEN v ELSE [n |-> IF v.neg THEN 1 ELSE 0, l |-> v.mag]
FJ(f, x)  == [ch \in 1..Len(x) |-> SJ(f, x[ch])]
FFJ(f, a) == [i \in 1..Len(a) |-> FJ(f, a[i])]
Reset(comp, tag) == [ev |-> "reset", comp |-> comp, cfg |-> [src |-> "tlc", tag |-> tag]]
Exec(comp, tag, ops) == << Reset(comp, tag) >> \o SetToSeq(ops)
ExecsOf(comp, tag, ops) == IF ops = {} THEN << >> ELSE << Exec(comp, tag, ops) >>
RECURSIVE ConcatRange(_, _, _)
ConcatRange(ss, lo, hi) == \* ss[lo] \o ... \o ss[hi], balanced (thousands of executions: no deep recursion, no quadratic copying)
  IF lo > hi THEN << >> ELSE IF lo = hi THEN ss[lo]
  ELSE LET mid == (lo + hi) \div 2 IN ConcatRange(ss, lo, mid) \o ConcatRange(ss, mid + 1, hi)
Concat(ss) == ConcatRange(ss, 1, Len(ss))
FmtSeq == SetToSeq(Formats)

\* sample-level: exactly the transitions explored above
SampleExecs(f) ==
     ExecsOf("frame", "s_add_amp", { [ev |-> "s_add_amp", a |-> [fmt |-> f, s |-> SJ(f, s), amp |-> SJ(SignedOf(f), a)]]
                                       : s \in B(f), a \in Offsets(f) })
  \o ExecsOf("frame", "s_mul_amp", { [ev |-> "s_mul_amp", a |-> [fmt |-> f, s |-> SJ(f, s), amp |-> SJ(FloatOf(f), g)]]
                                       : s \in B(f), g \in Gains(f) })
  \o ExecsOf("frame", "s_to_signed", { [ev |-> "s_to_signed", a |-> [fmt |-> f, s |-> SJ(f, s)]] : s \in B(f) })
  \o ExecsOf("frame", "s_to_float",  { [ev |-> "s_to_float",  a |-> [fmt |-> f, s |-> SJ(f, s)]] : s \in B(f) })
  \o ExecsOf("frame", "s_consts",    { [ev |-> "s_consts",    a |-> [fmt |-> f]] })

\* frame-level: small boundary contents.  W(f) = six boundary values; frames are rotations of W,
\* and for width 2 (and the bare sample / width 1) every tuple over W
W(f) == IF IsFloat(f)
          THEN LET F == FmtOf(f) IN << FPow2(F, 1, 0), FPow2(F, 1, -1), FZeroF(1), FZeroF(0),
                                       Fld(0, F.bias - 1, BPow2(F.p - 2)), Fld(0, F.bias - 1, FMantAllOnes(F)) >>
          ELSE << MinV(f), SAdd(MinV(f), SOne), SSub(EquilI(f), SOne), EquilI(f), SAdd(EquilI(f), SOne), MaxV(f) >>
SgW(f) == LET sf == SignedOf(f) IN           \* gentle amplitudes in SignedOf(f)
          IF IsFloat(f) THEN LET F == FmtOf(f) IN << FZeroF(0), FPow2(F, 0, -2), FPow2(F, 1, -1), FZeroF(1), FOne(F), FPow2(F, 1, -3) >>
          ELSE LET u == SPow2(Shift(f)) IN << SZero, u, SNeg(u), SOne, SShl(u, 1), SNeg(SOne) >>
FlW(f) == LET F == FltOf(f) IN             \* gains in FloatOf(f)
          << FOne(F), FPow2(F, 0, -1), FPow2(F, 1, -1), FZeroF(0), FPow2(F, 1, 0), Fld(0, F.bias - 1, BPow2(F.p - 2)) >>
Rot(w, r, n) == [ch \in 1..n |-> w[((ch - 1 + r) % Len(w)) + 1]]
NW(n) == IF n = 0 THEN 1 ELSE n              \* n = 0 names the bare sample used as a frame
Contents(w, n) == { Rot(w, r, NW(n)) : r \in 0..(Len(w) - 1) }
                  \cup (IF n = 2 THEN { << w[i], w[j] >> : i \in 1..Len(w), j \in 1..Len(w) } ELSE {})
FrameWidths == 0..4
OffS(f) == IF IsFloat(f) THEN {FZeroF(0), FZeroF(1), FPow2(FmtOf(f), 0, -2), FPow2(FmtOf(f), 1, -1)}
           ELSE {SZero, SPow2(Shift(f)), SNeg(SPow2(Shift(f))), SOne}
GainS(f) == LET F == FltOf(f) IN {FZeroF(0), FOne(F), FPow2(F, 0, -1), FPow2(F, 1, -1), FPow2(F, 1, 0), FZeroF(1)}

\* the channel iterators as iterators: after k next() and kb next_back() calls, EVERY positional call with every
\* argument up to one past the end.  Channels = the first NW(n) of the six boundary values (all different), the value
\* written through channels_mut = the sixth.  Every (k, kb) on i16 and f32; the other formats (the iterators are generic
\* in the sample type, the bare-sample impls are per format) get the fresh / once advanced / exhausted iterator of the bare
\* sample and of width 3.  (The seeded generator of hx_frame covers every width 1..32 on every format.)
ItCalls(it, nn) ==
     { << "nth", j >> : j \in 0..(nn + 1) } \cup { << "skip", j >> : j \in 0..(nn + 1) } \cup { << "step_by", j >> : j \in 1..(nn + 1) }
  \cup { << "last", 0 >>, << "count", 0 >>, << "collect", 0 >> }
  \cup (IF it = "val" THEN {} ELSE { << "rev", 0 >> } \cup { << "nth_back", j >> : j \in 0..(nn + 1) })
  \* round 5: clone-and-continue (ChannelsMut is not Clone)
  \cup (IF it = "mut" THEN {} ELSE { << "clone", 0 >> } \cup { << "cycle", j >> : j \in {0, 1, nn, nn + 1, 2 * nn + 1} })
ItPrefixes(f, it, nn) ==       \* (k, kb)
  LET full == f \in {"i16", "f32"} IN
  IF it = "val" THEN { << k, 0 >> : k \in (IF full THEN 0..(nn + 1) ELSE {0, 1, nn}) }
                ELSE { << k, kb >> : k \in (IF full THEN {0, 1, nn} ELSE {1}), kb \in {0, 1} }
IterEvs(f, n) ==
  LET w == W(f) nn == NW(n) IN
  UNION { { [ev |-> "f_iter", a |-> [fmt |-> f, n |-> n, x |-> FJ(f, Rot(w, 0, nn)), it |-> it, k |-> p[1], kb |-> p[2],
                                     op |-> c[1], j |-> c[2], v |-> SJ(f, w[6])]]
            : p \in ItPrefixes(f, it, nn), c \in ItCalls(it, nn) } : it \in {"val", "ref", "mut"} }

FrameExecs(f) ==
  LET sf == SignedOf(f) ff == FloatOf(f) w == W(f) IN
     ExecsOf("frame", "f_offset", UNION { { [ev |-> "f_offset", a |-> [fmt |-> f, n |-> n, x |-> FJ(f, x), amp |-> SJ(sf, a)]]
                                      : x \in Contents(w, n), a \in OffS(f) } : n \in FrameWidths })
  \o ExecsOf("frame", "f_scale", UNION { { [ev |-> "f_scale", a |-> [fmt |-> f, n |-> n, x |-> FJ(f, x), amp |-> SJ(ff, g)]]
                                      : x \in Contents(w, n), g \in GainS(f) } : n \in FrameWidths })
  \o ExecsOf("frame", "f_add", UNION { { [ev |-> "f_add", a |-> [fmt |-> f, n |-> n, x |-> FJ(f, x), y |-> FJ(sf, Rot(SgW(f), r, NW(n)))]]
                                      : x \in Contents(w, n), r \in {0, 3} } : n \in FrameWidths })
  \o ExecsOf("frame", "f_mul", UNION { { [ev |-> "f_mul", a |-> [fmt |-> f, n |-> n, x |-> FJ(f, x), y |-> FJ(ff, Rot(FlW(f), r, NW(n)))]]
                                      : x \in Contents(w, n), r \in {0, 3} } : n \in FrameWidths })
  \o ExecsOf("frame", "f_to_signed", UNION { { [ev |-> "f_to_signed", a |-> [fmt |-> f, n |-> n, x |-> FJ(f, x)]]
                                      : x \in Contents(w, n) } : n \in FrameWidths })
  \o ExecsOf("frame", "f_to_float", UNION { { [ev |-> "f_to_float", a |-> [fmt |-> f, n |-> n, x |-> FJ(f, x)]]
                                      : x \in Contents(w, n) } : n \in FrameWidths })
  \o ExecsOf("frame", "f_equilibrium", { [ev |-> "f_equilibrium", a |-> [fmt |-> f, n |-> n]] : n \in FrameWidths })
  \o ExecsOf("frame", "f_map", UNION { { [ev |-> "f_map", a |-> [fmt |-> f, n |-> n, x |-> FJ(f, x), ys |-> FJ(f, Rot(w, 2, NW(n)))]]
                                      : x \in Contents(w, n) } : n \in FrameWidths })
  \o ExecsOf("frame", "f_zip_map", UNION { { [ev |-> "f_zip_map", a |-> [fmt |-> f, n |-> n, x |-> FJ(f, x), y |-> FJ(f, Rot(w, 1, NW(n))),
                                                                       ys |-> FJ(f, Rot(w, 3, NW(n)))]]
                                      : x \in Contents(w, n) } : n \in FrameWidths })
  \o ExecsOf("frame", "f_from_fn", UNION { { [ev |-> "f_from_fn", a |-> [fmt |-> f, n |-> n, ys |-> FJ(f, x)]]
                                      : x \in Contents(w, n) } : n \in FrameWidths })
  \o ExecsOf("frame", "f_from_samples", UNION { { [ev |-> "f_from_samples", a |-> [fmt |-> f, n |-> n, it |-> FJ(f, Rot(w, r, m))]]
                                      : m \in 0..(NW(n) + 2), r \in {0, 1} } : n \in FrameWidths })
  \o ExecsOf("frame", "f_channels", UNION { { [ev |-> "f_channels", a |-> [fmt |-> f, n |-> n, x |-> FJ(f, x)]]
                                      : x \in Contents(w, n) } : n \in FrameWidths })
  \o ExecsOf("frame", "f_channels_mut", UNION { { [ev |-> "f_channels_mut", a |-> [fmt |-> f, n |-> n, x |-> FJ(f, x), ys |-> FJ(f, Rot(w, 4, NW(n)))]]
                                      : x \in Contents(w, n) } : n \in FrameWidths })
  \o ExecsOf("frame", "f_iter", UNION { IterEvs(f, n) : n \in (IF f \in {"i16", "f32"} THEN FrameWidths ELSE {0, 3}) })
  \o ExecsOf("frame", "f_channel", UNION { { [ev |-> "f_channel", a |-> [fmt |-> f, n |-> n, x |-> FJ(f, Rot(w, r, NW(n))), i |-> i, v |-> SJ(f, w[2])]]
                                      : r \in {0, 3}, i \in (-1)..(NW(n) + 1) } : n \in FrameWidths })

\* round 4: the IDENTITY operations (scale by 1.0, multiply by the all-ones frame, offset by 0, add the zero frame) on
\* frames of EXTREME values: MAX, the last value whose float image is +1.0 and the first below it (MAX - 2, MAX - 3 where
\* the format fits the mantissa), MIN, MAX - 1, MIN + that distance; floats: +-largest finite, largest below 1.0, -1.0,
\* 1.0, smallest subnormal.  Rotations over widths 0..4, every pair for width 2.
EdgeD(f, i) == IF FitsMantissa(f) THEN SFromInt(i + 1) ELSE SSub(SAdd(UnitySlack(f), SFromInt(i)), SFromInt(2))   \* i = 1, 2
WEdge(f) == IF IsFloat(f)
              THEN LET F == FmtOf(f) IN << FMaxFinite(F, 0), FMaxFinite(F, 1), Fld(0, F.bias - 1, FMantAllOnes(F)),
                                           FPow2(F, 1, 0), FOne(F), Fld(1, 0, << 1 >>) >>
              ELSE << MaxV(f), SSub(MaxV(f), EdgeD(f, 1)), SSub(MaxV(f), EdgeD(f, 2)), MinV(f),
                      SSub(MaxV(f), SOne), SAdd(MinV(f), EdgeD(f, 1)) >>
ZeroOf(f, sgn) == IF IsFloat(f) THEN FZeroF(sgn) ELSE SZero
IdentityExecs(f) ==
  LET sf == SignedOf(f) ff == FloatOf(f) w == WEdge(f) IN
  ExecsOf("frame", "identity",
    UNION { UNION { { [ev |-> "f_scale",  a |-> [fmt |-> f, n |-> n, x |-> FJ(f, x), amp |-> SJ(ff, FOne(FltOf(f)))]],
                      [ev |-> "f_mul",    a |-> [fmt |-> f, n |-> n, x |-> FJ(f, x), y |-> FJ(ff, [ch \in 1..NW(n) |-> FOne(FltOf(f))])]],
                      [ev |-> "f_offset", a |-> [fmt |-> f, n |-> n, x |-> FJ(f, x), amp |-> SJ(sf, ZeroOf(sf, 0))]],
                      [ev |-> "f_add",    a |-> [fmt |-> f, n |-> n, x |-> FJ(f, x), y |-> FJ(sf, [ch \in 1..NW(n) |-> ZeroOf(sf, ch % 2)])]] }
                    : x \in Contents(w, n) } : n \in FrameWidths })

\* slices: contents are distinct small values (the conversions never look at them)
SmallVal(f, k) == IF IsFloat(f) THEN Rne(FmtOf(f), DScale2(DFromInt(k), -12))
                  ELSE SAdd(EquilI(f), SFromInt(IF Bits(f) = 8 THEN k % 120 ELSE k))       \* (stays inside 8-bit formats)
SmallSeq(f, base, m) == [k \in 1..m |-> SmallVal(f, base + k)]
SmallFrames(f, base, n, m) == [i \in 1..m |-> [ch \in 1..n |-> SmallVal(f, base + (i - 1) * n + ch)]]
Kinds  == {"shared", "mut", "boxed"}
Routes == {"to", "from"}
ViewPairs(f) == IF f \in {"i16", "f32"} THEN { << n, l >> : n \in 1..MaxW, l \in 0..(2 * MaxW + 1) } \* filtered below
                ELSE { << n, l >> : n \in {1, 2, 3, MaxW}, l \in 0..(2 * MaxW + 1) }
ViewNL(f) == { p \in ViewPairs(f) : p[2] <= 2 * p[1] + 1 } \cup { << 0, l >> : l \in 0..3 }
\* small executions (one per (format, kind, N, L) resp. (format, N, op)): a rejected event is replayed with its execution
KindSeq == SetToSeq(Kinds)
SliceExecs(f) ==
     Concat([j \in 1..Len(KindSeq) |->
       LET kd == KindSeq[j] IN
       SetToSeq({ Exec("slice", "to_frames",
                       { [ev |-> "to_frames", a |-> [fmt |-> f, n |-> p[1], len |-> p[2], kind |-> kd, route |-> rt,
                                                  x |-> FJ(f, SmallSeq(f, 0, p[2])), w |-> FJ(f, SmallSeq(f, 100, p[2]))]]
                         : rt \in Routes }) : p \in ViewNL(f) })
    \o SetToSeq({ Exec("slice", "to_samples",
                       { [ev |-> "to_samples", a |-> [fmt |-> f, n |-> p[1], len |-> m, kind |-> kd, route |-> rt,
                                                   x |-> FFJ(f, SmallFrames(f, 0, NW(p[1]), m)),
                                                   w |-> FJ(f, SmallSeq(f, 100, NW(p[1]) * m))]]
                         : m \in 0..2, rt \in Routes }) : p \in { q \in ViewNL(f) : q[2] = 0 } }) ])
\* (round 5) the pairs with a LONGER than b travel in executions of their own (InPlaceExecs(f, TRUE)), placed at the very
\* end of the stimuli: code that skips the length check reads b out of bounds there and may take the harness process down
\* (the check then attributes the crash to that execution); the pairs with a shorter than b -- where such code silently
\* modifies a -- are judged event by event whatever happens to the others
InPlaceExecs(f, longer) ==
  LET sf == SignedOf(f) af == FloatOf(sf)
      mk(op, n, la, lb) == [ev |-> "inplace", a |-> [fmt |-> f, n |-> n, op |-> op, la |-> la, lb |-> lb,
                               xa |-> FFJ(f, SmallFrames(f, 0, NW(n), la)),
                               xb |-> IF op \in {"add", "add_amp"} THEN FFJ(sf, [i \in 1..lb |-> Rot(SgW(f), i, NW(n))])
                                                                  ELSE FFJ(f, SmallFrames(f, 50, NW(n), lb)),
                               ys |-> FFJ(f, SmallFrames(f, 200, NW(n), la)),
                               ampf |-> FJ(af, Rot(FlW(sf), 1, NW(n)))]]
  IN IF longer
       THEN SetToSeq({ Exec("slice", "inplace_longer", UNION { { mk(op, n, la, lb) : lb \in 0..(la - 1) } : la \in 1..MaxL })
                         : op \in {"zip_map", "write", "add", "add_amp"}, n \in 0..3 })
       ELSE SetToSeq({ Exec("slice", "inplace", UNION { { mk(op, n, la, lb) : lb \in la..MaxL } : la \in 0..MaxL })
                         : op \in {"zip_map", "write", "add", "add_amp"}, n \in 0..3 })
            \o SetToSeq({ Exec("slice", "inplace", { mk(op, n, la, 0) : la \in 0..MaxL }) : op \in {"equilibrium", "map"}, n \in 0..3 })

\* round 4: the in-place additions as IDENTITIES on extreme values: add the zero slice; add-with-gain 1.0 per channel
\* of the zero slice; add-with-gain 1.0 of a slice of extreme Signed amplitudes onto a slice at equilibrium (the scaled
\* amplitude b * 1.0 is where the top values of i32 / i64 meet the float image +1.0: Frames.tla AddMulOk)
EdgeInPlaceExecs(f) ==
  LET sf == SignedOf(f) af == FloatOf(sf)
      edge(g, n, l, r) == [i \in 1..l |-> Rot(WEdge(g), r + i, n)]
      zeros(n, l)      == [i \in 1..l |-> [ch \in 1..n |-> ZeroOf(sf, (i + ch) % 2)]]
      eqs(n, l)        == [i \in 1..l |-> [ch \in 1..n |-> Equil(f)]]
      mk(op, n, l, xa, xb) == [ev |-> "inplace", a |-> [fmt |-> f, n |-> n, op |-> op, la |-> l, lb |-> l,
                                  xa |-> FFJ(f, xa), xb |-> FFJ(sf, xb), ys |-> FFJ(f, xa),
                                  ampf |-> FJ(af, [ch \in 1..NW(n) |-> FOne(FmtOf(af))])]]
  IN SetToSeq({ Exec("slice", "inplace_edge",
                     UNION { { mk("add", n, l, edge(f, NW(n), l, r), zeros(NW(n), l)),
                               mk("add_amp", n, l, edge(f, NW(n), l, r), zeros(NW(n), l)),
                               mk("add_amp", n, l, eqs(NW(n), l), edge(sf, NW(n), l, r)) } : l \in 1..2, r \in {0, 3} })
                : n \in 0..3 })

\* (an operator with a parameter, and the ASSUME written inline: TLC evaluates every constant-level definition
\* WITHOUT parameters once per worker at start-up, which would build the whole stimuli set four times over)
StimuliOf(part) ==
     (IF part \in {"all", "frame"} THEN Concat([j \in 1..Len(FmtSeq) |-> SampleExecs(FmtSeq[j]) \o FrameExecs(FmtSeq[j]) \o IdentityExecs(FmtSeq[j])]) ELSE << >>)
  \o (IF part \in {"all", "slice"} THEN Concat([j \in 1..Len(FmtSeq) |-> SliceExecs(FmtSeq[j]) \o InPlaceExecs(FmtSeq[j], FALSE) \o EdgeInPlaceExecs(FmtSeq[j])])
                                        \o Concat([j \in 1..Len(FmtSeq) |-> InPlaceExecs(FmtSeq[j], TRUE)]) ELSE << >>)
SumLen(ss) == FoldSeq(LAMBDA e, acc : acc + Len(e) - 1, 0, ss)            \* events, resets not counted (iterative: thousands of executions)
ASSUME IF "STIM_OUT" \in DOMAIN IOEnv
         THEN LET st == StimuliOf(Part) IN
              /\ ndJsonSerialize(IOEnv.STIM_OUT, st)
              /\ PrintT(<< "STIMULI", Len(st), SumLen(st) >>)
         ELSE TRUE
=============================================================================
