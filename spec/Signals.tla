------------------------------ MODULE Signals ------------------------------
(***************************************************************************)
(* dasp_signal: sources, pointwise adaptors and consumers of `Signal`, as  *)
(* a TERM LANGUAGE (terms are data) with two independent semantics.        *)
(*                                                                         *)
(*   Layer 1 (property layer, denotational) -- what C04 / C05 state:       *)
(*     Den(X,t,f,n)   the n-th frame of term t = the pointwise function of *)
(*                    the n-th frames of its sources (sources extended by  *)
(*                    equilibrium after their end; delay shifts by k)      *)
(*     Pulls(t,j,n)   next() calls seen by source j after n outputs of t   *)
(*     DLen(X,t)      number of outputs before t reports exhaustion        *)
(*                    (min over sources, + k for a delay; Inf for gen/eq)  *)
(*     InspDen        what every `inspect` closure sees during output n    *)
(*     consumers      until_exhausted / lift / take / interleaved lists    *)
(*                                                                         *)
(*   Layer 2 (implementation shaped, operational) -- one clause per        *)
(*   `impl Signal for X` of dasp_signal/src/lib.rs:                        *)
(*     Step(X,t,f,path,ns,pool)   `next`        (ns = per-node state tree: *)
(*     Exh(t,ns,pool)             `is_exhausted` delay countdown, gen_mut  *)
(*                                counter; pool = per-source state with    *)
(*                                the one-frame look-ahead of from_iter)   *)
(*     UeNext / TakeNext / IlNext  the three iterator adaptors             *)
(*                                                                         *)
(* MC_Signals.tla checks layer 2 against layer 1 on every small term;      *)
(* Trace_Signals.tla accepts recorded executions by layer 1 only.          *)
(*                                                                         *)
(* TERMS  (records; `a`,`b` sub-terms; j = 1-based source index)           *)
(*   [k|->"src",j]  from_iter            [k|->"srcs",j] from_interleaved_  *)
(*   [k|->"byref",j] (&mut source)                       samples_iter      *)
(*   [k|->"eq"]  [k|->"gen",c]  [k|->"genmut",cs]                          *)
(*   [k|->"map",f,a]  [k|->"zipmap",f,a,b]  [k|->"add",a,b]  [k|->"mul",   *)
(*   a,b]  [k|->"scale",g,a]  [k|->"offset",o,a]  [k|->"scalepc",gs,a]     *)
(*   [k|->"offsetpc",os,a]  [k|->"clip",th,a]  [k|->"inspect",a]           *)
(*   [k|->"delay",n,a]   [k|->"delaymax",m,a] = delay(usize::MAX - m)      *)
(*   [k|->"opq",j]  an OPAQUE source (oscillator, noise, ...): its frames  *)
(*   are not computed here; source j has kind "opaque" and xs = the frames *)
(*   an identically built twin delivered (recorded by the harness)         *)
(* SORTS  a term has a sample format f (a string of SampleFormats.tla) and *)
(* the execution a channel count ch.  `add`'s second operand lives at      *)
(* SignedOf(f), `mul`'s at FloatOf(f) (the associated types of Sample).    *)
(* FRAMES are sequences of ch samples; an integer sample of a format of at *)
(* most 16 bits is a TLC integer, an integer sample of a WIDE format (more *)
(* than 16 bits: i32, u32, i64, ...) is the record [n |-> 0|1, l |-> 15-   *)
(* bit limbs] of its JSON encoding (TLC's integers end at 2^31), a float   *)
(* sample its IEEE field record (Dyadic.tla).                              *)
(* CONTEXT X = [ch |-> channels, srcs |-> <<[fmt, kind, xs], ...>>],       *)
(* kind "frames": xs = frames;  kind "samples": xs = flat samples.         *)
(* Nodes with sample-typed parameters (gen, genmut, offset, offsetpc,      *)
(* clip) also carry `at` = the format of those parameters; it is redundant *)
(* (TLC needs it to order heterogeneous records) and never read here.      *)
(***************************************************************************)
EXTENDS SampleFormats, FiniteSets, TLC

Inf == 1000000                       \* "never exhausted" (longer than any execution)
MinI(a, b) == IF a <= b THEN a ELSE b
MaxI(a, b) == IF a >= b THEN a ELSE b

---------------------------------------------------------------------------
(* sample algebra: the frame operations of C03 on one sample.  Integer     *)
(* formats up to 16 bits are computed with TLC integers (NativeOK in       *)
(* MC_Signals cross-checks these against SampleFormats' limb versions);    *)
(* everything involving a float goes through Dyadic / SampleFormats.       *)

HalfI(f) == IF Bits(f) = 8 THEN 128 ELSE 32768
AmpI(f, v) == IF IsSigned(f) THEN v ELSE v - HalfI(f)
FromAmpI(f, a) == IF IsSigned(f) THEN a ELSE a + HalfI(f)
InRangeI(f, a) == a >= 0 - HalfI(f) /\ a <= HalfI(f) - 1      \* signed amplitude representable

\* wide integer formats: every operation is SampleFormats' (Big.tla limbs); the sample value
\* carried around is the JSON form [n, l] of the signed Big integer (canonical: n = 0 for zero)
IsWide(f) == ~IsFloat(f) /\ Bits(f) > 16
WJ(x) == [n |-> IF x.neg THEN 1 ELSE 0, l |-> x.mag]

Box(f, v) == IF IsFloat(f) THEN v ELSE IF IsWide(f) THEN SFromJson(v) ELSE SFromInt(v)
Unbox(f, x) == IF IsFloat(f) THEN x ELSE IF IsWide(f) THEN WJ(x) ELSE SToInt(x)

EqS(f) == IF IsFloat(f) THEN FZeroF(0) ELSE IF IsWide(f) THEN WJ(EquilI(f)) ELSE FromAmpI(f, 0)

\* conversion (Sample::to_sample)
SConv(s, d, v) ==
  IF s = d THEN v
  ELSE IF ~IsFloat(s) /\ ~IsFloat(d) /\ ~IsWide(s) /\ ~IsWide(d)
    THEN FromAmpI(d, IF Bits(d) >= Bits(s) THEN AmpI(s, v) * Pow2Small(Bits(d) - Bits(s))
                                             ELSE AmpI(s, v) \div Pow2Small(Bits(s) - Bits(d)))
    ELSE Unbox(d, Conv(s, d, Box(s, v)))
SConvDefined(s, d, v) == IsFloat(d) \/ ~IsFloat(s) \/ InUnitDomain(FmtOf(s), v)

\* offset by a sample of the Signed format; scale by a sample of the Float format
SAddAmp(f, v, a) == IF IsFloat(f) THEN FAdd(FmtOf(f), v, a)
                    ELSE IF IsWide(f) THEN Unbox(f, AddAmp(f, Box(f, v), Box(SignedOf(f), a)))
                    ELSE v + a
SAddDefined(f, v, a) == IF IsFloat(f) THEN TRUE
                        ELSE IF IsWide(f) THEN AddAmpDefined(f, Box(f, v), Box(SignedOf(f), a))
                        ELSE InRangeI(f, AmpI(f, v) + a)
SMulAmpLimb(f, v, g) == Unbox(f, MulAmp(f, Box(f, v), g))
\* fast path for integer formats of <= 16 bits (Float format f32) and a gain that is a short dyadic
\* M * 2^E with odd M < 256, -30 <= E <= 8: amplitude * M needs < 24 bits, so the f32 product is
\* exact and the result is amplitude * M * 2^E truncated toward zero (cross-checked: NativeOK)
RECURSIVE StripTwos(_, _)
StripTwos(m, e) == IF m = 0 THEN << 0, 0 >> ELSE IF m % 65536 = 0 THEN StripTwos(m \div 65536, e + 16)
                   ELSE IF m % 256 = 0 THEN StripTwos(m \div 256, e + 8)
                   ELSE IF m % 2 = 0 THEN StripTwos(m \div 2, e + 1) ELSE << m, e >>
GainOdd(g) == StripTwos((IF g.e = 0 THEN 0 ELSE 8388608) + BToNat(g.m), (IF g.e = 0 THEN 1 ELSE g.e) - 150)
SMulAmp(f, v, g) ==
  IF IsFloat(f) \/ Bits(f) > 16 \/ g.e = 255 THEN SMulAmpLimb(f, v, g)
  ELSE LET me == GainOdd(g) IN
       IF me[1] >= 256 \/ me[2] < -30 \/ me[2] > 8 THEN SMulAmpLimb(f, v, g)
       ELSE LET p == AmpI(f, v) * me[1]
                q == IF me[2] >= 0 THEN p * Pow2Small(me[2])
                     ELSE IF p >= 0 THEN p \div Pow2Small(0 - me[2]) ELSE 0 - ((0 - p) \div Pow2Small(0 - me[2]))
            IN FromAmpI(f, IF g.s = 1 THEN 0 - q ELSE q)
SMulDefined(f, v, g) == MulAmpDefined(f, Box(f, v), g)

\* clip_amp: signed amplitude limited to [-th, th]
SClip(f, v, th) ==
  IF IsFloat(f)
    THEN LET F == FmtOf(f) IN
         IF DLt(Dec(F, th), Dec(F, v)) THEN th
         ELSE IF DLt(Dec(F, v), DNeg(Dec(F, th))) THEN FNegF(th) ELSE v
    ELSE IF IsWide(f)
      THEN LET a == Amp(f, Box(f, v))  t == Box(SignedOf(f), th)
           IN Unbox(f, FromAmp(f, IF SLt(t, a) THEN t ELSE IF SLt(a, SNeg(t)) THEN SNeg(t) ELSE a))
    ELSE LET a == AmpI(f, v) IN FromAmpI(f, IF a > th THEN th ELSE IF a < 0 - th THEN 0 - th ELSE a)

\* the closure menu of `map` / `zip_map` (the harness knows the same names)
SInv(f, v) == IF IsFloat(f) THEN FNegF(v)                       \* -x
              ELSE IF IsWide(f)                                 \* !x
                THEN Unbox(f, IF IsSigned(f) THEN SSub(SNeg(Box(f, v)), SFromInt(1)) ELSE SSub(MaxV(f), Box(f, v)))
              ELSE IF IsSigned(f) THEN 0 - v - 1                \* !x
              ELSE 2 * HalfI(f) - 1 - v                         \* !x

EqFrame(f, ch) == [c \in 1..ch |-> EqS(f)]

MapArgFmt(fn, f) == IF fn = "from_signed" THEN SignedOf(f) ELSE IF fn = "from_float" THEN FloatOf(f) ELSE f
MapFn(fn, f, fr) ==
  CASE fn = "id"  -> fr
    [] fn = "rev" -> [c \in 1..Len(fr) |-> fr[Len(fr) + 1 - c]]
    [] fn = "inv" -> [c \in 1..Len(fr) |-> SInv(f, fr[c])]
    [] fn = "from_signed" -> [c \in 1..Len(fr) |-> SConv(SignedOf(f), f, fr[c])]
    [] fn = "from_float"  -> [c \in 1..Len(fr) |-> SConv(FloatOf(f), f, fr[c])]
MapDefined(fn, f, fr) ==
  fn = "from_float" => \A c \in 1..Len(fr) : SConvDefined(FloatOf(f), f, fr[c])
ZipArgFmt(fn, f) == IF fn = "addamp" THEN SignedOf(f) ELSE f
ZipFn(fn, f, x, y) ==
  CASE fn = "first"  -> x
    [] fn = "second" -> y
    [] fn = "interleave" -> [c \in 1..Len(x) |-> IF c % 2 = 1 THEN x[c] ELSE y[c]]
    [] fn = "addamp" -> [c \in 1..Len(x) |-> SAddAmp(f, x[c], y[c])]
ZipDefined(fn, f, x, y) == fn = "addamp" => \A c \in 1..Len(x) : SAddDefined(f, x[c], y[c])

---------------------------------------------------------------------------
(* term structure *)

LeafSrc == {"src", "srcs", "byref", "opq"}
Leaf0   == {"eq", "gen", "genmut"}
Unary   == {"map", "scale", "offset", "scalepc", "offsetpc", "clip", "inspect", "delay"}
Binary  == {"zipmap", "add", "mul"}
\* delay(k): k leading equilibrium frames.  `delaymax` is delay(usize::MAX - m), the far end of the
\* parameter range: more leading frames than any execution observes (every execution makes fewer
\* than Inf calls), so all observed frames are silence and no source below it is ever pulled
IsDelay(t) == t.k \in {"delay", "delaymax"}
DN(t) == IF t.k = "delay" THEN t.n ELSE Inf

\* sample format of the operands, given the format f of the node itself
FmtA(t, f) == IF t.k = "map" THEN MapArgFmt(t.f, f) ELSE f
FmtB(t, f) == CASE t.k = "zipmap" -> ZipArgFmt(t.f, f)
                [] t.k = "add" -> SignedOf(f)
                [] t.k = "mul" -> FloatOf(f)

RECURSIVE SrcsOf(_)
SrcsOf(t) == IF t.k \in LeafSrc THEN {t.j} ELSE IF t.k \in Leaf0 THEN {}
             ELSE IF t.k \in Binary THEN SrcsOf(t.a) \cup SrcsOf(t.b) ELSE SrcsOf(t.a)
RECURSIVE ByRefsOf(_)
ByRefsOf(t) == IF t.k = "byref" THEN {t.j} ELSE IF t.k \in LeafSrc \cup Leaf0 THEN {}
               ELSE IF t.k \in Binary THEN ByRefsOf(t.a) \cup ByRefsOf(t.b) ELSE ByRefsOf(t.a)
RECURSIVE Linear(_)                  \* Rust ownership: every source occurs at most once
Linear(t) == IF t.k \in LeafSrc \cup Leaf0 THEN TRUE
             ELSE IF t.k \in Binary THEN Linear(t.a) /\ Linear(t.b) /\ SrcsOf(t.a) \cap SrcsOf(t.b) = {}
             ELSE Linear(t.a)
RECURSIVE Depth(_)
Depth(t) == IF t.k \in LeafSrc \cup Leaf0 THEN 0
            ELSE IF t.k \in Binary THEN 1 + MaxI(Depth(t.a), Depth(t.b)) ELSE 1 + Depth(t.a)
\* the leaves with the sample format each one is used at: {<<j, kind, fmt>>}
RECURSIVE LeafInfo(_, _)
LeafInfo(t, f) == IF t.k \in LeafSrc THEN {<< t.j, t.k, f >>} ELSE IF t.k \in Leaf0 THEN {}
                  ELSE IF t.k \in Binary THEN LeafInfo(t.a, FmtA(t, f)) \cup LeafInfo(t.b, FmtB(t, f))
                  ELSE LeafInfo(t.a, FmtA(t, f))

\* the complete frames of a source (a trailing partial frame of an interleaved source is dropped)
FramesOf(src, ch) ==
  IF src.kind = "frames" THEN src.xs
  ELSE [i \in 1..(Len(src.xs) \div ch) |-> [c \in 1..ch |-> src.xs[(i - 1) * ch + c]]]
\* (an opaque source -- oscillator, noise -- never ends; xs holds the frames of its twin that were recorded)
SrcLen(X, j) == IF X.srcs[j].kind = "frames" THEN Len(X.srcs[j].xs)
                ELSE IF X.srcs[j].kind = "opaque" THEN Inf ELSE Len(X.srcs[j].xs) \div X.ch
\* i-th frame delivered by source j (i >= 1): its frames, then equilibrium for ever
SrcDen(X, j, f, i) == IF X.srcs[j].kind = "opaque"         \* (past the recorded frames: not judged, Trace_Signals!TwinOK)
                        THEN (IF i <= Len(X.srcs[j].xs) THEN X.srcs[j].xs[i] ELSE EqFrame(f, X.ch))
                      ELSE IF i <= SrcLen(X, j) THEN FramesOf(X.srcs[j], X.ch)[i] ELSE EqFrame(f, X.ch)

\* STATIC DISPATCH.  A term can be built with its RECEIVER CHAIN -- the root and its first-operand
\* descendants, st levels deep -- as one concretely typed stack (every adaptor method called on the
\* concrete type of the level below, not on a boxed signal); the second operand of a combiner is an
\* argument, not a receiver.  The meaning of the term is the same (C04: "any nesting of these adaptors
\* equals the composition of their pointwise functions" holds however the nesting is typed).  The only
\* observable difference: a `src` / `srcs` leaf inside the static region is the bare source type, no
\* instrumented wrapper counts its next() calls (its counter stays 0); an opaque source never has one.
RECURSIVE RawSrcs(_, _)
RawSrcs(t, st) == IF t.k = "opq" THEN {t.j}
                  ELSE IF t.k \in {"src", "srcs"} THEN (IF st > 0 THEN {t.j} ELSE {})
                  ELSE IF t.k \in LeafSrc \cup Leaf0 THEN {}
                  ELSE IF t.k \in Binary THEN RawSrcs(t.a, st - 1) \cup RawSrcs(t.b, 0)
                  ELSE RawSrcs(t.a, st - 1)

---------------------------------------------------------------------------
(* LAYER 1: denotation *)

RECURSIVE Den(_, _, _, _)
Den(X, t, f, n) ==
  CASE t.k \in LeafSrc -> SrcDen(X, t.j, f, n)
    [] t.k = "eq"      -> EqFrame(f, X.ch)
    [] t.k = "gen"     -> t.c
    [] t.k = "genmut"  -> t.cs[((n - 1) % Len(t.cs)) + 1]
    [] t.k = "map"     -> MapFn(t.f, f, Den(X, t.a, MapArgFmt(t.f, f), n))
    [] t.k = "zipmap"  -> ZipFn(t.f, f, Den(X, t.a, f, n), Den(X, t.b, ZipArgFmt(t.f, f), n))
    [] t.k = "add"     -> LET x == Den(X, t.a, f, n)  y == Den(X, t.b, SignedOf(f), n)
                          IN [c \in 1..X.ch |-> SAddAmp(f, x[c], y[c])]
    [] t.k = "mul"     -> LET x == Den(X, t.a, f, n)  y == Den(X, t.b, FloatOf(f), n)
                          IN [c \in 1..X.ch |-> SMulAmp(f, x[c], y[c])]
    [] t.k = "scale"   -> LET x == Den(X, t.a, f, n) IN [c \in 1..X.ch |-> SMulAmp(f, x[c], t.g)]
    [] t.k = "offset"  -> LET x == Den(X, t.a, f, n) IN [c \in 1..X.ch |-> SAddAmp(f, x[c], t.o)]
    [] t.k = "scalepc" -> LET x == Den(X, t.a, f, n) IN [c \in 1..X.ch |-> SMulAmp(f, x[c], t.gs[c])]
    [] t.k = "offsetpc"-> LET x == Den(X, t.a, f, n) IN [c \in 1..X.ch |-> SAddAmp(f, x[c], t.os[c])]
    [] t.k = "clip"    -> LET x == Den(X, t.a, f, n) IN [c \in 1..X.ch |-> SClip(f, x[c], t.th)]
    [] t.k = "inspect" -> Den(X, t.a, f, n)
    [] IsDelay(t)      -> IF n <= DN(t) THEN EqFrame(f, X.ch) ELSE Den(X, t.a, f, n - DN(t))

\* is output n inside the domain on which C03 defines the frame operations?  (integer offsets
\* must not overflow, float -> integer conversion wants [-1, 1)).  Only evaluated when a
\* recorded frame differs from Den: a stimulus outside the domain is not a violation.
RECURSIVE DenDefined(_, _, _, _)
DenDefined(X, t, f, n) ==
  CASE t.k \in LeafSrc \cup Leaf0 -> TRUE
    [] t.k = "map"     -> /\ DenDefined(X, t.a, MapArgFmt(t.f, f), n)
                          /\ MapDefined(t.f, f, Den(X, t.a, MapArgFmt(t.f, f), n))
    [] t.k = "zipmap"  -> /\ DenDefined(X, t.a, f, n) /\ DenDefined(X, t.b, ZipArgFmt(t.f, f), n)
                          /\ ZipDefined(t.f, f, Den(X, t.a, f, n), Den(X, t.b, ZipArgFmt(t.f, f), n))
    [] t.k = "add"     -> /\ DenDefined(X, t.a, f, n) /\ DenDefined(X, t.b, SignedOf(f), n)
                          /\ LET x == Den(X, t.a, f, n)  y == Den(X, t.b, SignedOf(f), n)
                             IN \A c \in 1..X.ch : SAddDefined(f, x[c], y[c])
    [] t.k = "mul"     -> /\ DenDefined(X, t.a, f, n) /\ DenDefined(X, t.b, FloatOf(f), n)
                          /\ LET x == Den(X, t.a, f, n)  y == Den(X, t.b, FloatOf(f), n)
                             IN \A c \in 1..X.ch : SMulDefined(f, x[c], y[c])
    [] t.k = "scale"   -> /\ DenDefined(X, t.a, f, n)
                          /\ LET x == Den(X, t.a, f, n) IN \A c \in 1..X.ch : SMulDefined(f, x[c], t.g)
    [] t.k = "offset"  -> /\ DenDefined(X, t.a, f, n)
                          /\ LET x == Den(X, t.a, f, n) IN \A c \in 1..X.ch : SAddDefined(f, x[c], t.o)
    [] t.k = "scalepc" -> /\ DenDefined(X, t.a, f, n)
                          /\ LET x == Den(X, t.a, f, n) IN \A c \in 1..X.ch : SMulDefined(f, x[c], t.gs[c])
    [] t.k = "offsetpc"-> /\ DenDefined(X, t.a, f, n)
                          /\ LET x == Den(X, t.a, f, n) IN \A c \in 1..X.ch : SAddDefined(f, x[c], t.os[c])
    [] IsDelay(t)      -> n <= DN(t) \/ DenDefined(X, t.a, f, n - DN(t))
    [] OTHER           -> DenDefined(X, t.a, f, n)

\* outputs before the term reports exhaustion
RECURSIVE DLen(_, _)
DLen(X, t) ==
  CASE t.k \in LeafSrc -> SrcLen(X, t.j)
    [] t.k \in Leaf0   -> Inf
    [] t.k \in Binary  -> MinI(DLen(X, t.a), DLen(X, t.b))
    [] IsDelay(t)      -> MinI(Inf, DLen(X, t.a) + DN(t))
    [] OTHER           -> DLen(X, t.a)
ExhDen(X, t, n) == n >= DLen(X, t)             \* is_exhausted after n outputs

\* next() calls received by source j after n outputs of t (0 if j does not occur in t)
RECURSIVE Pulls(_, _, _)
Pulls(t, j, n) ==
  CASE t.k \in LeafSrc -> IF t.j = j THEN n ELSE 0
    [] t.k \in Leaf0   -> 0
    [] t.k \in Binary  -> Pulls(t.a, j, n) + Pulls(t.b, j, n)
    [] IsDelay(t)      -> Pulls(t.a, j, MaxI(0, n - DN(t)))
    [] OTHER           -> Pulls(t.a, j, n)
\* is source j (occurring in t) shielded by a delay that is still silent while t emits output n
RECURSIVE Silent(_, _, _)
Silent(t, j, n) ==
  CASE t.k \in LeafSrc \cup Leaf0 -> FALSE
    [] t.k \in Binary  -> IF j \in SrcsOf(t.a) THEN Silent(t.a, j, n) ELSE Silent(t.b, j, n)
    [] IsDelay(t)      -> n <= DN(t) \/ Silent(t.a, j, n - DN(t))
    [] OTHER           -> Silent(t.a, j, n)

\* the frames seen by the `inspect` closures while t computes output n: {<<path, frame>>};
\* a node is named by its path from the root ("r", then "a"/"b" per step)
RECURSIVE InspDen(_, _, _, _, _)
InspDen(X, t, f, p, n) ==
  CASE t.k \in LeafSrc \cup Leaf0 -> {}
    [] t.k \in Binary  -> InspDen(X, t.a, FmtA(t, f), p \o "a", n) \cup InspDen(X, t.b, FmtB(t, f), p \o "b", n)
    [] t.k = "inspect" -> InspDen(X, t.a, f, p \o "a", n) \cup {<< p, Den(X, t.a, f, n) >>}
    [] IsDelay(t)      -> IF n <= DN(t) THEN {} ELSE InspDen(X, t.a, f, p \o "a", n - DN(t))
    [] OTHER           -> InspDen(X, t.a, FmtA(t, f), p \o "a", n)

\* consumers, started after n0 outputs
RECURSIVE Flat(_)
Flat(ss) == IF Len(ss) = 0 THEN << >> ELSE Head(ss) \o Flat(Tail(ss))
UeCount(X, t, n0) == MaxI(0, DLen(X, t) - n0)                      \* finite terms only
DenRange(X, t, f, n0, m) == [i \in 1..m |-> Den(X, t, f, n0 + i)]
UeItems(X, t, f, n0) == DenRange(X, t, f, n0, UeCount(X, t, n0))   \* until_exhausted, lift
TakeItems(X, t, f, n0, m) == DenRange(X, t, f, n0, m)              \* take(m)
IlItems(X, t, f, n0) == Flat(UeItems(X, t, f, n0))           \* interleaved samples
\* `Clone` of a consumer's iterator (or of the signal) taken after it has yielded k of its items:
\* the clone and the original are the same stream at the same position -- each goes on to yield
\* exactly the items after the k-th (for interleaved samples: the remaining channels of the frame
\* the clone was taken in, then the remaining frames, in channel order), then None
CloneTail(items, k) == SubSeq(items, MinI(k, Len(items)) + 1, Len(items))
\* root frames an interleaved-sample stream has pulled once it has yielded k samples
IlFramesFor(k, ch) == (k + ch - 1) \div ch

\* ITERATOR METHODS.  take / until_exhausted / the interleaved-sample iterator are `Iterator`s, and what
\* C05 says about "the frames they yield" is said about the STREAM, however it is read: every provided
\* method of Iterator (and ExactSizeIterator::len, and the std adaptors skip / step_by, which reach the
\* iterator through nth) means what the corresponding number of `next` calls means.  State of a consumer
\* = (items: its whole stream from where it was created, p: how many of them have been yielded).
\* op(k):  next | nth(k) | find / position / any (predicate true at its k-th call, k >= 1) | all (false at
\* its k-th call) | hint (size_hint) | len | drain (next until None, two more calls)       -- &mut self
\*         count | last | fold | for_each | vec (collect) | skip(k) | step_by(k) (drained)  -- by value
ItByValue == {"count", "last", "fold", "for_each", "vec", "skip", "step_by"}
ItLists   == {"fold", "for_each", "vec", "drain", "skip", "step_by"}
ItSingle  == {"next", "nth", "find", "last"}
ItCalls(op, k) == CASE op = "next" -> 1 [] op = "nth" -> k + 1
                    [] op \in {"find", "position", "any", "all"} -> k
                    [] op \in {"hint", "len"} -> 0
                    [] OTHER -> Inf                                   \* to the end of the stream
ItPos(L, p, op, k) == MinI(L, p + ItCalls(op, k))                    \* items yielded after the call
ItSome(v) == [k |-> "some", v |-> v]
ItNone == [k |-> "none"]
ItVal(v) == [k |-> "val", v |-> v]
ItRet(items, p, op, k) ==
  LET L == Len(items)
      c == ItCalls(op, k)
  IN CASE op \in {"next", "nth", "find"} -> IF p + c <= L THEN ItSome(items[p + c]) ELSE ItNone
       [] op = "position" -> IF p + k <= L THEN ItSome(k - 1) ELSE ItNone
       [] op = "any"      -> ItVal(p + k <= L)
       [] op = "all"      -> ItVal(~(p + k <= L))
       [] op \in {"len", "count"} -> ItVal(L - p)
       [] op = "last"     -> IF p < L THEN ItSome(items[L]) ELSE ItNone
       [] op = "skip"     -> [k |-> "items", v |-> SubSeq(items, MinI(L, p + k) + 1, L)]
       [] op = "step_by"  -> [k |-> "items", v |-> [i \in 1..((L - p + k - 1) \div k) |-> items[p + 1 + (i - 1) * k]]]
       [] op \in {"fold", "for_each", "vec", "drain"} -> [k |-> "items", v |-> SubSeq(items, p + 1, L)]
       [] OTHER -> [k |-> "hint"]                                     \* size_hint: a relation, ItHintOK
\* size_hint brackets the number of remaining items (the Iterator contract); take is exact
ItHintOK(exact, rem, lo, hi) == IF exact THEN lo = rem /\ hi = rem ELSE lo <= rem /\ (hi = -1 \/ hi >= rem)
\* root frames a consumer has pulled once it has yielded p items
ItFrames(c, p, ch) == IF c = "il" THEN IlFramesFor(p, ch) ELSE p

---------------------------------------------------------------------------
(* LAYER 2: transcription of the `impl Signal` blocks *)

\* FromIterator / FromInterleavedSamplesIterator: `iter` position, look-ahead `next: Option<F>`
PullIter(src, ch, f, pos) ==
  IF src.kind = "frames"
    THEN IF pos < Len(src.xs) THEN [some |-> TRUE, nxt |-> src.xs[pos + 1], pos |-> pos + 1]
         ELSE [some |-> FALSE, nxt |-> EqFrame(f, ch), pos |-> pos]
    ELSE \* Frame::from_samples: takes ch samples, None (what it took is lost) when they run out
         IF pos + ch <= Len(src.xs)
           THEN [some |-> TRUE, nxt |-> [c \in 1..ch |-> src.xs[pos + c]], pos |-> pos + ch]
           ELSE [some |-> FALSE, nxt |-> EqFrame(f, ch), pos |-> Len(src.xs)]
SrcInit(src, ch) ==       \* from_iter / from_interleaved_samples_iter call the iterator immediately
  LET r == PullIter(src, ch, src.fmt, 0) IN [some |-> r.some, nxt |-> r.nxt, pos |-> r.pos, calls |-> 0]
SrcNext(src, ch, s) ==    \* match self.next.take() { Some(frame) => { self.next = ...; frame } None => EQUILIBRIUM }
  IF s.some THEN LET r == PullIter(src, ch, src.fmt, s.pos)
                 IN [out |-> s.nxt, s |-> [some |-> r.some, nxt |-> r.nxt, pos |-> r.pos, calls |-> s.calls + 1]]
  ELSE [out |-> EqFrame(src.fmt, ch), s |-> [s EXCEPT !.calls = @ + 1]]
PoolInit(X) == [j \in 1..Len(X.srcs) |-> SrcInit(X.srcs[j], X.ch)]

RECURSIVE NsInit(_)
NsInit(t) == CASE t.k \in LeafSrc \cup {"eq", "gen"} -> [z |-> 0]
               [] t.k = "genmut" -> [i |-> 0]
               [] IsDelay(t)     -> [n |-> DN(t), a |-> NsInit(t.a)]
               [] t.k \in Binary -> [a |-> NsInit(t.a), b |-> NsInit(t.b)]
               [] OTHER          -> [a |-> NsInit(t.a)]

\* `next`: returns [out, ns, pool, insp]
RECURSIVE Step(_, _, _, _, _, _)
Step(X, t, f, p, ns, pool) ==
  CASE t.k \in LeafSrc ->           \* owned source, or `impl Signal for &mut S` forwarding to it
         LET r == SrcNext(X.srcs[t.j], X.ch, pool[t.j])
         IN [out |-> r.out, ns |-> ns, pool |-> [pool EXCEPT ![t.j] = r.s], insp |-> {}]
    [] t.k = "eq"     -> [out |-> EqFrame(f, X.ch), ns |-> ns, pool |-> pool, insp |-> {}]
    [] t.k = "gen"    -> [out |-> t.c, ns |-> ns, pool |-> pool, insp |-> {}]
    [] t.k = "genmut" -> [out |-> t.cs[(ns.i % Len(t.cs)) + 1], ns |-> [i |-> ns.i + 1], pool |-> pool, insp |-> {}]
    [] t.k \in Binary ->            \* op(self.a.next(), self.b.next())
         LET ra == Step(X, t.a, FmtA(t, f), p \o "a", ns.a, pool)
             rb == Step(X, t.b, FmtB(t, f), p \o "b", ns.b, ra.pool)
             o  == CASE t.k = "zipmap" -> ZipFn(t.f, f, ra.out, rb.out)
                     [] t.k = "add" -> [c \in 1..X.ch |-> SAddAmp(f, ra.out[c], rb.out[c])]
                     [] t.k = "mul" -> [c \in 1..X.ch |-> SMulAmp(f, ra.out[c], rb.out[c])]
         IN [out |-> o, ns |-> [a |-> ra.ns, b |-> rb.ns], pool |-> rb.pool, insp |-> ra.insp \cup rb.insp]
    [] IsDelay(t)     ->            \* if self.n_frames > 0 { self.n_frames -= 1; EQUILIBRIUM } else { self.signal.next() }
         IF ns.n > 0 THEN [out |-> EqFrame(f, X.ch), ns |-> [ns EXCEPT !.n = @ - 1], pool |-> pool, insp |-> {}]
         ELSE LET r == Step(X, t.a, f, p \o "a", ns.a, pool)
              IN [out |-> r.out, ns |-> [ns EXCEPT !.a = r.ns], pool |-> r.pool, insp |-> r.insp]
    [] OTHER ->                     \* f(self.signal.next())
         LET r == Step(X, t.a, FmtA(t, f), p \o "a", ns.a, pool)
             x == r.out
             o == CASE t.k = "map"      -> MapFn(t.f, f, x)
                    [] t.k = "scale"    -> [c \in 1..X.ch |-> SMulAmp(f, x[c], t.g)]
                    [] t.k = "offset"   -> [c \in 1..X.ch |-> SAddAmp(f, x[c], t.o)]
                    [] t.k = "scalepc"  -> [c \in 1..X.ch |-> SMulAmp(f, x[c], t.gs[c])]
                    [] t.k = "offsetpc" -> [c \in 1..X.ch |-> SAddAmp(f, x[c], t.os[c])]
                    [] t.k = "clip"     -> [c \in 1..X.ch |-> SClip(f, x[c], t.th)]
                    [] t.k = "inspect"  -> x
         IN [out |-> o, ns |-> [a |-> r.ns], pool |-> r.pool,
             insp |-> IF t.k = "inspect" THEN r.insp \cup {<< p, x >>} ELSE r.insp]

\* `is_exhausted`
RECURSIVE Exh(_, _, _)
Exh(t, ns, pool) ==
  CASE t.k \in LeafSrc -> ~pool[t.j].some              \* self.next.is_none()
    [] t.k \in Leaf0   -> FALSE                        \* the trait's default
    [] t.k \in Binary  -> Exh(t.a, ns.a, pool) \/ Exh(t.b, ns.b, pool)
    [] IsDelay(t)      -> ns.n = 0 /\ Exh(t.a, ns.a, pool)
    [] OTHER           -> Exh(t.a, ns.a, pool)

\* UntilExhausted::next on the state (ns, pool): [some, v, k = root next() calls made, ns, pool]
UeNext(X, t, f, ns, pool) ==
  IF Exh(t, ns, pool) THEN [some |-> FALSE, v |-> EqFrame(f, X.ch), k |-> 0, ns |-> ns, pool |-> pool]
  ELSE LET r == Step(X, t, f, "r", ns, pool) IN [some |-> TRUE, v |-> r.out, k |-> 1, ns |-> r.ns, pool |-> r.pool]
\* Take::next with `left` frames to go
TakeNext(X, t, f, left, ns, pool) ==
  IF left = 0 THEN [some |-> FALSE, v |-> EqFrame(f, X.ch), k |-> 0, left |-> 0, ns |-> ns, pool |-> pool]
  ELSE LET r == Step(X, t, f, "r", ns, pool)
       IN [some |-> TRUE, v |-> r.out, k |-> 1, left |-> left - 1, ns |-> r.ns, pool |-> r.pool]
\* IntoInterleavedSamples::next_sample; cur = [some, fr, idx] is `current_frame: Option<Channels>`
IlNone(f, ch) == [some |-> FALSE, fr |-> EqFrame(f, ch), idx |-> 0]
IlNext(X, t, f, cur, ns, pool) ==
  LET \* if self.current_frame.is_none() && !self.signal.is_exhausted() { current_frame = Some(next().channels()) }
      fill(c, s, q, k0) ==
        IF ~c.some /\ ~Exh(t, s, q)
          THEN LET r == Step(X, t, f, "r", s, q)
               IN [cur |-> [some |-> TRUE, fr |-> r.out, idx |-> 0], k |-> k0 + 1, ns |-> r.ns, pool |-> r.pool]
          ELSE [cur |-> c, k |-> k0, ns |-> s, pool |-> q]
      s1 == fill(cur, ns, pool, 0)
  IN IF ~s1.cur.some THEN [some |-> FALSE, v |-> EqS(f), k |-> s1.k, cur |-> s1.cur, ns |-> s1.ns, pool |-> s1.pool]
     ELSE IF s1.cur.idx < X.ch      \* current_frame.next() is Some
       THEN [some |-> TRUE, v |-> s1.cur.fr[s1.cur.idx + 1], k |-> s1.k,
             cur |-> [s1.cur EXCEPT !.idx = @ + 1], ns |-> s1.ns, pool |-> s1.pool]
     ELSE \* frame used up: current_frame = None; self.next_sample()
       LET s2 == fill(IlNone(f, X.ch), s1.ns, s1.pool, s1.k)
       IN IF ~s2.cur.some THEN [some |-> FALSE, v |-> EqS(f), k |-> s2.k, cur |-> s2.cur, ns |-> s2.ns, pool |-> s2.pool]
          ELSE [some |-> TRUE, v |-> s2.cur.fr[1], k |-> s2.k, cur |-> [s2.cur EXCEPT !.idx = 1], ns |-> s2.ns, pool |-> s2.pool]
=============================================================================
