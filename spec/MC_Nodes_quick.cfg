SPECIFICATION Spec
CONSTANTS
  L = 3
  MaxIn = 3
  MaxBuf = 3
  NCalls = 3
  MaxPick = 2
INVARIANTS Refines Shapes SumSilence SumBufEqual Untouched DelayStreams SignalStreams
CHECK_DEADLOCK FALSE
