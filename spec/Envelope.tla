------------------------------ MODULE Envelope ------------------------------
(***************************************************************************)
(* dasp_peak rectifiers and the dasp_envelope::Detector (envelope          *)
(* follower), property C19.                                                *)
(*                                                                         *)
(* Rectifiers, for every one of the 14 sample formats, in integer          *)
(* arithmetic on the signed image about equilibrium (SampleFormats.tla):   *)
(*   full wave      = |signed amplitude|, in the format's Signed companion *)
(*                    (defined when the negated amplitude is representable)*)
(*   positive half  = the sample limited to the upper side of equilibrium  *)
(*   negative half  = the sample limited to the lower side                 *)
(* Detector (layer 1 = the property's recurrence in EXACT arithmetic):     *)
(*   env' = d + g (env - d),  g = gA if env < d else gR                    *)
(* gA, gR are set by New / SetAttack / SetRelease to Gain(frames), where   *)
(* Gain(0) = 0 and otherwise exp(-1/frames).  exp is never computed: a     *)
(* candidate value g is CHECKED by g^n * e = 1 (GainOK) against a rational *)
(* enclosure of e that is itself verified from the series (EnclosureOK).   *)
(* The model checker replaces Gain by rational stand-ins {0, 1/2, 3/4}.    *)
(***************************************************************************)
EXTENDS Rms

---------------------------------------------------------------------------
(* rectifiers: integer samples are signed Big values, float samples IEEE field records *)
SignedImg(f, v) == Conv(f, SignedOf(f), v)                 \* to_signed_sample
FullWaveDefined(f, v) == IsFloat(f) \/ SCmp(SignedImg(f, v), MinV(SignedOf(f))) # 0
FullWave(f, v) == IF IsFloat(f) THEN [v EXCEPT !.s = 0]    \* |x|
                  ELSE SAbs(SignedImg(f, v))               \* in format SignedOf(f)
\* half waves stay in the sample's own format: FromAmp(max / min (Amp, 0))
PosHalf(f, v) == IF IsFloat(f) THEN (IF v.s = 1 THEN FZeroF(0) ELSE v)
                 ELSE (IF SSign(Amp(f, v)) < 0 THEN FromAmp(f, SZero) ELSE v)
NegHalf(f, v) == IF IsFloat(f) THEN (IF v.s = 0 THEN FZeroF(0) ELSE v)
                 ELSE (IF SSign(Amp(f, v)) > 0 THEN FromAmp(f, SZero) ELSE v)
Rect(kind, f, v) == CASE kind = "full" -> FullWave(f, v)
                      [] kind = "pos"  -> PosHalf(f, v)
                      [] kind = "neg"  -> NegHalf(f, v)
RectDefined(kind, f, v) == kind # "full" \/ FullWaveDefined(f, v)
RectFmt(kind, f) == IF kind = "full" THEN SignedOf(f) ELSE f      \* format of the rectified sample
\* equality of a logged result with the model: integers exactly, floats by value (-0 = +0)
SameSample(f, a, b) == IF IsFloat(f) THEN FEqVal(FmtOf(f), a, b) ELSE a = b

---------------------------------------------------------------------------
(* the detector, one channel, exact arithmetic on dyadics *)
EnvPick(env, d, gA, gR) == IF DLt(env, d) THEN gA ELSE gR   \* attack while the detected value exceeds the envelope
EnvStep(env, d, gA, gR) == DAdd(d, DMul(EnvPick(env, d, gA, gR), DSub(env, d)))

\* implementation-shaped state of a Detector over ch channels: [env, gA, gR]
EnvNew(ch, gA, gR)  == [env |-> [c \in 1..ch |-> DZero], gA |-> gA, gR |-> gR]   \* last_env_frame = EQUILIBRIUM
EnvSetAttack(s, g)  == [s EXCEPT !.gA = g]
EnvSetRelease(s, g) == [s EXCEPT !.gR = g]
EnvNext(s, d)       == LET e2 == [c \in DOMAIN d |-> EnvStep(s.env[c], d[c], s.gA, s.gR)]
                       IN [s |-> [s EXCEPT !.env = e2], out |-> e2]
\* Clone (of the Detector, or of the DetectEnvelope adaptor holding it): the copy carries the WHOLE state of the
\* original at that moment -- the running envelope and both gains (and the state of its detection, e.g. the RMS
\* window) -- so that it continues the same envelope; afterwards the two are independent of each other.
\* Every constructor entry point (Detector::new with a Peak / Rms value, ::peak*, ::peak_from_rectifier, ::rms)
\* denotes EnvNew; moving a detector, putting it on the adaptor or taking the adaptor apart changes nothing.
EnvClone(s)         == [env |-> s.env, gA |-> s.gA, gR |-> s.gR]

---------------------------------------------------------------------------
(* the constant e: 2^-60-wide enclosure, verified from e = sum 1/k! *)
ELoMag == << 21157, 20829, 21592, 23536, 2 >>               \* floor(e 2^60) - 1
EHiMag == << 21160, 20829, 21592, 23536, 2 >>               \* floor(e 2^60) + 2
ELo == DMk(FALSE, ELoMag, -60)
EHi == DMk(FALSE, EHiMag, -60)
\* A_K = sum_{k<=K} K!/k!  (A_0 = 1, A_k = k A_{k-1} + 1);  A_K / K! < e < (A_K + 1) / K!
RECURSIVE FactB(_), SerA(_)
FactB(k) == IF k = 0 THEN << 1 >> ELSE BMulSmall(FactB(k - 1), k)
SerA(k)  == IF k = 0 THEN << 1 >> ELSE BAdd(BMulSmall(SerA(k - 1), k), << 1 >>)
EnclosureOK ==
  /\ BLe(BMul(ELoMag, FactB(22)), BShl(SerA(22), 60))                       \* ELo <= A/K! < e
  /\ BLe(BShl(BAdd(SerA(22), << 1 >>), 60), BMul(EHiMag, FactB(22)))        \* e < (A+1)/K! <= EHi
ASSUME EnclosureOK

RECURSIVE DPowN(_, _)
DPowN(x, k) == IF k = 0 THEN DFromInt(1)
               ELSE IF k % 2 = 0 THEN LET h == DPowN(x, k \div 2) IN DMul(h, h)
               ELSE DMul(x, DPowN(x, k - 1))

\* time constants travel as quarter frames tq (frames = tq / 4): 0, 1/4, 1/2, 1, 2, 5, 64 ...
\* g = exp(-1/frames)  <=>  g^n e = 1 (frames = n), g^m e^2 = 1 (frames = m/2), g^tq e^4 = 1
GainPow(tq) == IF tq % 4 = 0 THEN tq \div 4 ELSE IF tq % 2 = 0 THEN tq \div 2 ELSE tq
GainELo(tq) == IF tq % 4 = 0 THEN ELo ELSE IF tq % 2 = 0 THEN DSq(ELo) ELSE DSq(DSq(ELo))
GainEHi(tq) == IF tq % 4 = 0 THEN EHi ELSE IF tq % 2 = 0 THEN DSq(EHi) ELSE DSq(DSq(EHi))
GainOK(tq, g) ==   \* is the dyadic g an acceptable value of Gain(tq / 4)?  |g^n e^j - 1| <= (n + 2) 2^-22
  IF tq = 0 THEN DIsZero(g)
  ELSE LET n   == GainPow(tq)
           p   == DPowN(g, n)
           tol == DMulInt(n + 2, DPow2(-22))
       IN /\ DSign(g) > 0 /\ DLt(g, DFromInt(1))
          /\ DLe(DSub(DFromInt(1), tol), DMul(p, GainELo(tq)))
          /\ DLe(DMul(p, GainEHi(tq)), DAdd(DFromInt(1), tol))

---------------------------------------------------------------------------
(* trace layer: acceptance of one channel's output *)
\* one unit in the last place of format F at the magnitude of the dyadic x
UlpAt(F, x) ==
  IF DIsZero(x) THEN DPow2(2 - F.bias - F.p)
  ELSE LET E == x.exp + BBitLen(x.mag) - 1
           emin == 1 - F.bias
       IN DPow2((IF E >= emin THEN E ELSE emin) - (F.p - 1))
DMaxAbs(a, b) == DMax(DAbs(a), DAbs(b))

\* Float output.  The code evaluates fl(d + fl(fl(prev - d) g)): three roundings,
\*   |out - exact| <= |g (prev - d)| (2u + u^2) + ulp(out)/2 <= 2.5 ulp at max(|prev|, |d|);
\* l g + d (1 - g) and similar evaluation orders stay below 4 such ulps as well.  The gain is
\* only known to 2^-22 relative (GainOK), which adds 2^-22 |g (prev - d)|.
EnvAcceptF(F, prev, d, gA, gR, out) ==
  LET g     == EnvPick(prev, d, gA, gR)
      exact == EnvStep(prev, d, gA, gR)
      U     == UlpAt(F, DMaxAbs(prev, d))
      tol   == DAdd(DMulInt(4, U), DScale2(DAbs(DMul(g, DSub(prev, d))), -22))
  IN /\ DLe(DAbs(DSub(out, exact)), tol)                          \* the recurrence
     /\ DLe(DSub(DMin(prev, d), U), out) /\ DLe(out, DAdd(DMax(prev, d), U))   \* no overshoot
     \* time 0: the detected value itself -- up to the same single unit of float rounding as the no-overshoot
     \* clause (an algebraically equivalent form such as prev + (1 - g)(d - prev) rounds d - prev once; a gain
     \* that is not 0 at time 0 is off by g |prev - d|, orders of magnitude more)
     /\ (DIsZero(g) => DLe(DAbs(DSub(out, d)), U))
\* Integer output (peak detection on integer frames): the scaled difference passes through the
\* float companion and is truncated back: within 2 LSB of the recurrence, never outside [prev, d]
EnvAcceptI(prev, d, gA, gR, out) ==
  LET g     == EnvPick(prev, d, gA, gR)
      exact == EnvStep(prev, d, gA, gR)
      tol   == DAdd(DFromInt(2), DScale2(DAbs(DMul(g, DSub(prev, d))), -22))
  IN /\ DLe(DAbs(DSub(out, exact)), tol)
     /\ DLe(DMin(prev, d), out) /\ DLe(out, DMax(prev, d))
     /\ (DIsZero(g) => DEq(out, d))
=============================================================================
