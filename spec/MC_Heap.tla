------------------------------- MODULE MC_Heap -------------------------------
(* C07's bus clause on the model: with all outputs pulled in lock step (every *)
(* live output once per round, in any order) the backlog of SharedNode as     *)
(* coded never exceeds one frame and is empty at the end of every round, so   *)
(* its storage stops growing after the first round.                           *)
EXTENDS Heap, TLC, Json, IOUtils, SequencesExt

CONSTANTS MaxOuts, Rounds
VARIABLES n, outs, turn, round, hist
vars == << n, outs, turn, round, hist >>

RECURSIVE Sends(_, _)
Sends(k, m) == IF k = m THEN NInit ELSE NSend(Sends(k, m - 1), m - 1)     \* m sends: keys 0..m-1
SendEvs(m) == [i \in 1..m |-> [ev |-> "send", a |-> [key |-> i - 1]]]
Init == \E m \in 1..MaxOuts :
          /\ outs = 0..(m - 1) /\ n = Sends(0, m) /\ turn = 0..(m - 1) /\ round = 1
          /\ hist = << [ev |-> "reset", comp |-> "bus", cfg |-> [srclen |-> -1, lockstep |-> TRUE]] >> \o SendEvs(m)
Pull == /\ round <= Rounds
        /\ \E o \in turn :
             /\ n' = NNextFrame(n, o).n
             /\ hist' = Append(hist, [ev |-> "next", a |-> [key |-> o]])
                        \o (IF turn = {o} THEN << [ev |-> "mark", a |-> [round |-> round]] >> ELSE << >>)
             /\ IF turn = {o} THEN turn' = outs /\ round' = round + 1
                              ELSE turn' = turn \ {o} /\ round' = round
        /\ UNCHANGED outs
\* between rounds (every live output has pulled, the backlog is empty) outputs may be dropped or attached;
\* the remaining / new set keeps pulling in step
DropAt == /\ round <= Rounds /\ turn = outs /\ Cardinality(outs) > 1
          /\ \E o \in outs :
               /\ n' = NDrop(n, o) /\ outs' = outs \ {o} /\ turn' = outs \ {o}
               /\ hist' = Append(hist, [ev |-> "drop", a |-> [key |-> o]])
          /\ UNCHANGED round
NextKeyOf == 1 + Cardinality({i \in 1..Len(hist) : hist[i].ev = "send"}) - 1
AttachAt == /\ round <= Rounds /\ round > 1 /\ turn = outs /\ Cardinality(outs) < MaxOuts /\ NextKeyOf < MaxOuts + 1
            /\ n' = NSend(n, NextKeyOf) /\ outs' = outs \cup {NextKeyOf} /\ turn' = outs \cup {NextKeyOf}
            /\ hist' = Append(hist, [ev |-> "send", a |-> [key |-> NextKeyOf]])
            /\ UNCHANGED round
Next == Pull \/ DropAt \/ AttachAt
Spec == Init /\ [][Next]_vars

BacklogAtMostOne == Len(n.buffer) <= 1
EmptyAfterRound  == turn = outs => Len(n.buffer) = 0
Emit == round = Rounds + 1 => PrintT("STIM " \o ToJson(hist))
=============================================================================
