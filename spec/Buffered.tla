------------------------------ MODULE Buffered ------------------------------
(***************************************************************************)
(* dasp_signal::Signal::buffered -- prefetching a source through a Bounded *)
(* ring buffer (property C14).                                             *)
(*                                                                         *)
(* The source's k-th pulled frame is the number k for k <= srclen and the  *)
(* equilibrium 0 afterwards; it reports exhaustion once srclen frames have *)
(* been pulled.  The ring buffer may be pre-filled (any valid start/len).  *)
(* Layer 2 = the code (Buffered::next / next_frames / is_exhausted over    *)
(* RingBuffer.tla's Bounded).  Layer 1 = the property: the delivered       *)
(* stream is  prefill \o source \o padding;  the source is pulled exactly  *)
(* one buffer's worth whenever the buffer runs empty and never otherwise.  *)
(***************************************************************************)
EXTENDS RingBuffer

SrcFrame(k, srclen) == IF k <= srclen THEN k ELSE 0

\* ---- layer 2: st = [rb, pulls]
RECURSIVE Refill(_, _, _)
Refill(st, n, srclen) == \* push n source frames
  IF n = 0 THEN st
  ELSE Refill([rb |-> BPush(st.rb, SrcFrame(st.pulls + 1, srclen)).b, pulls |-> st.pulls + 1], n - 1, srclen)
BufNext(st, srclen) ==
  LET p == BPop(st.rb) IN
  IF p.ret.k = "some" THEN [frame |-> p.ret.v, st |-> [st EXCEPT !.rb = p.b]]
  ELSE LET f == Refill(st, BCap(st.rb), srclen)
           q == BPop(f.rb)
       IN [frame |-> q.ret.v, st |-> [f EXCEPT !.rb = q.b]]
\* next_frames(): refill iff empty, then the caller pops up to k items (k may exceed what is there)
BufNextFrames(st, k, srclen) ==
  LET f == IF st.rb.len = 0 THEN Refill(st, BCap(st.rb), srclen) ELSE st
      m == IF k <= f.rb.len THEN k ELSE f.rb.len
      d == BDrain(f.rb, m)
  IN [items |-> d.items, st |-> [f EXCEPT !.rb = d.b]]
BufExhausted(st, srclen) == st.rb.len = 0 /\ st.pulls >= srclen

\* ---- layer 1: a = [prefill (sequence), d (delivered), b (buffered, not yet delivered), pulls]
AInit(prefill) == [prefill |-> prefill, d |-> 0, b |-> Len(prefill), pulls |-> 0]
Stream(a, i, srclen) == IF i <= Len(a.prefill) THEN a.prefill[i] ELSE SrcFrame(i - Len(a.prefill), srclen)
ARefill(a, cap) == IF a.b = 0 THEN [a EXCEPT !.b = cap, !.pulls = @ + cap] ELSE a
ANext(a, cap, srclen) ==
  LET r == ARefill(a, cap) IN
  [frame |-> Stream(a, a.d + 1, srclen), a |-> [r EXCEPT !.d = @ + 1, !.b = @ - 1]]
ANextFrames(a, k, cap, srclen) ==
  LET r == ARefill(a, cap)
      m == IF k <= r.b THEN k ELSE r.b
  IN [items |-> [i \in 1..m |-> Stream(a, a.d + i, srclen)], a |-> [r EXCEPT !.d = @ + m, !.b = @ - m]]
AExhausted(a, srclen) == a.b = 0 /\ a.pulls >= srclen
=============================================================================
