----------------------------- MODULE MC_Signals -----------------------------
(***************************************************************************)
(* Exhaustive check of Signals.tla: for EVERY small adaptor term over a    *)
(* few sources of lengths 0..3, every sequence of `next` / `is_exhausted`  *)
(* calls up to Len + 3, every consumer (take, until_exhausted, lift,       *)
(* interleaved samples; consuming or over `&mut`), and every drop /        *)
(* resume of borrowed sources, the operational semantics (layer 2, the     *)
(* transcription of each `impl Signal`) agrees with the denotation (layer  *)
(* 1, what C04 / C05 state).  Also writes one stimulus execution per       *)
(* (term, sources, call sequence or consumer) to IOEnv.STIM_OUT.           *)
(*                                                                         *)
(* Scenario sets (Tier = "quick" | "thorough"):                            *)
(*   depth <= 1: every adaptor variant (5 map closures, 4 zip_map          *)
(*     closures, 2 gains, 2 delays, ...) over every leaf (from_iter /      *)
(*     interleaved / by_ref of sources 1..4 = lengths 0..3, equilibrium,   *)
(*     gen, gen_mut), in each sort of Sorts1;                              *)
(*   depth 2: every root adaptor kind over every pair / single of          *)
(*     depth <= 1 core terms (one variant per adaptor kind, from_iter      *)
(*     leaves of a few sources [+ equilibrium]), in each sort of Sorts2.   *)
(*   quick: depth <= 1 combiners take their operands from a reduced leaf   *)
(*     set; depth 2 in i16 stereo over sources {2,4} only.                 *)
(*   wide integer formats (samples are limb records, values need more bits *)
(*     than the mantissa of the format's float companion): every adaptor   *)
(*     variant at depth 1 over from_iter of sources {2,4}, i32 stereo and  *)
(*     i64 mono (SortsW).                                                  *)
(*   extreme delay counts: delay(usize::MAX - m) (`delaymax`) alone, under  *)
(*     and over delay(0..2), and stacked on itself (TDelayMax, i16 stereo). *)
(* Every owned source occurs at most once in a term (Rust ownership).      *)
(*                                                                         *)
(* STATIC DISPATCH (Signals!RawSrcs): the model of a term does not depend  *)
(* on how its nesting is typed, so nothing more is explored; but for the   *)
(* sorts the harness builds concretely typed stacks for (StMax) every      *)
(* scenario is ALSO emitted as stimuli with cfg.st = 1 / 2: the receiver   *)
(* chain unboxed, every adaptor method called on the concrete type of the  *)
(* level below.  The depth-2 scenarios contain every ordered pair          *)
(* (method, receiver adaptor) and the depth-1 ones every (method, source   *)
(* type) -- NonVacuous asserts it.                                         *)
(***************************************************************************)
EXTENDS Signals, Json, IOUtils, SequencesExt

CONSTANT Tier
VARIABLES sc,     \* scenario [ch, fmt, srcs, term]
          ns,     \* layer 2: per-node state tree
          pool,   \* layer 2: per-source state (look-ahead, iterator position, next() calls)
          n,      \* next() calls made on the root so far
          rs,     \* resume calls per source (after the adaptor was dropped)
          mode,   \* what is wrapped around the root: [m, n0, tn, left, cur, items, dones, late, byref]
          last    \* the call that produced this state: [op, out, eb, ea, insp, j]
vars == << sc, ns, pool, n, rs, mode, last >>

SrcLens == << 0, 1, 2, 3 >>
NS == Len(SrcLens)
Quick == Tier = "quick"
Sorts1 == { << "i16", 2 >>, << "u8", 1 >>, << "f64", 2 >> }
\* depth-2 scenarios: <<fmt, ch, leaves below depth 1>>; "core" = from_iter of sources {2,4},
\* "coreX" = from_iter of sources {1,3,4}
Sorts2 == IF Quick THEN { << "i16", 2, "core" >> }
          ELSE { << "i16", 2, "coreX" >>, << "u8", 1, "core" >>, << "f64", 2, "core" >> }
SortsW == { << "i32", 2 >>, << "i64", 1 >> }
\* deepest statically typed receiver chain the harness builds per sort (hx_signal: Sort::ST_MAX)
StMax(f, ch) == IF (f = "i16" /\ ch = 2) \/ (f = "f64" /\ ch = 1) THEN 2 ELSE 0
\* (opaque sources have no model: their stimuli come from the harness generator)
LeafSrcM == LeafSrc \ {"opq"}

---------------------------------------------------------------------------
(* parameter and data tables, per sample format *)

Dy(num, sh) == DMk(num < 0, BFromNat(IF num < 0 THEN 0 - num ELSE num), 0 - sh)      \* num / 2^sh
FVal(f, num, sh) == Rne(FmtOf(f), Dy(num, sh))
\* value of "amplitude a" (a in -6..6) in format f: distinct per format, both signs, odd and even
\* (i32: 27 significant bits, more than f32's 24; i64: 59, more than f64's 53.  Sums of two values
\* and an offset stay in range.)
W64(hi, sh, lo) == WJ(SAdd(SShl(SFromInt(hi), sh), SFromInt(lo)))
Val(f, a) == CASE f = "i16" -> a * 257 [] f = "i8" -> a [] f = "u8" -> 128 + a [] IsFloat(f) -> FVal(f, a, 4)
               [] f = "i32" -> WJ(SFromInt(a * 89478487)) [] f = "i64" -> W64(a * 89478487, 32, 7 * a + 1)
AmpAt(j, i, c) == ((5 * j + 3 * i + 7 * c) % 13) - 6
OffsetP(f) == CASE f = "i16" -> 300 [] f \in {"i8", "u8"} -> 3 [] IsFloat(f) -> FVal(f, 1, 3)       \* of format SignedOf(.)
                [] f = "i32" -> WJ(SFromInt(300000001)) [] f = "i64" -> W64(300000001, 30, 5)
ClipP(f)   == CASE f = "i16" -> 600 [] f \in {"i8", "u8"} -> 2 [] IsFloat(f) -> FVal(f, 1, 3)
                [] f = "i32" -> WJ(SFromInt(200000003)) [] f = "i64" -> W64(200000003, 32, 9)
Gain(f, i) == FVal(FloatOf(f), IF i = 1 THEN 3 ELSE -1, IF i = 1 THEN 2 ELSE 1)                     \* 3/4, -1/2
GainPc(f, ch) == [c \in 1..ch |-> IF c % 2 = 1 THEN Gain(f, 1) ELSE Gain(f, 2)]
OffsetPc(f, ch) == [c \in 1..ch |-> IF c % 2 = 1 THEN OffsetP(f) ELSE SAddAmp(SignedOf(f), OffsetP(f), OffsetP(f))]
GenC(f, ch) == [c \in 1..ch |-> Val(f, 2 + c)]
GenCs(f, ch) == << [c \in 1..ch |-> Val(f, c)], [c \in 1..ch |-> Val(f, 0 - 3 - c)] >>

SrcData(j, kind, f, ch) ==
  LET frames == [i \in 1..SrcLens[j] |-> [c \in 1..ch |-> Val(f, AmpAt(j, i, c))]]
  IN IF kind = "srcs"     \* interleaved: the frames flattened, then a partial frame when ch > 1
       THEN Flat(frames) \o [c \in 1..((j + 1) % ch) |-> Val(f, 6)]
       ELSE frames

---------------------------------------------------------------------------
(* term enumeration *)

Src(j) == [k |-> "src", j |-> j]
Leaf0s(f, ch) == {[k |-> "eq"], [k |-> "gen", at |-> f, c |-> GenC(f, ch)], [k |-> "genmut", at |-> f, cs |-> GenCs(f, ch)]}
\* lv = "rich": every leaf kind over every source; "pair": the operands of depth-1 combiners (quick
\* keeps every from_iter leaf, two interleaved and two borrowed ones); "core": leaves below depth 1
Leaves(f, ch, lv) ==
  CASE lv = "rich" -> {[k |-> kk, j |-> j] : kk \in LeafSrcM, j \in 1..NS} \cup Leaf0s(f, ch)
    [] lv = "pair" -> IF Quick THEN {Src(j) : j \in 1..NS} \cup {[k |-> "srcs", j |-> j] : j \in {2, 4}}
                                    \cup {[k |-> "byref", j |-> j] : j \in {1, 3}} \cup Leaf0s(f, ch)
                      ELSE {[k |-> kk, j |-> j] : kk \in LeafSrcM, j \in 1..NS} \cup Leaf0s(f, ch)
    [] lv = "core"  -> {Src(j) : j \in {2, 4}}
    [] lv = "coreX" -> {Src(j) : j \in {1, 3, 4}}

Disjoint(a, b) == SrcsOf(a) \cap SrcsOf(b) = {}
Pairs(A, B) == {p \in A \X B : Disjoint(p[1], p[2])}

\* every root adaptor over operand sets A(format) (single operand) / P(format) (operands of a
\* combiner); rich = all variants, else one per kind
Build(f, ch, rich, A(_), P(_)) ==
  LET Af == A(f)  As == A(SignedOf(f))  Afl == A(FloatOf(f))
      Pf == P(f)  Ps == P(SignedOf(f))  Pfl == P(FloatOf(f))
      sf == SignedOf(f)
  IN {[k |-> "map", f |-> fn, a |-> a] : fn \in (IF rich THEN {"id", "rev", "inv"} ELSE {"inv"}), a \in Af}
     \cup {[k |-> "map", f |-> "from_signed", a |-> a] : a \in (IF rich THEN As ELSE {})}
     \cup {[k |-> "map", f |-> "from_float", a |-> a] : a \in (IF rich THEN Afl ELSE {})}
     \cup {[k |-> "scale", g |-> Gain(f, i), a |-> a] : i \in (IF rich THEN {1, 2} ELSE {1}), a \in Af}
     \cup {[k |-> "offset", at |-> sf, o |-> OffsetP(f), a |-> a] : a \in Af}
     \cup {[k |-> "scalepc", gs |-> GainPc(f, ch), a |-> a] : a \in Af}
     \cup {[k |-> "offsetpc", at |-> sf, os |-> OffsetPc(f, ch), a |-> a] : a \in Af}
     \cup {[k |-> "clip", at |-> sf, th |-> ClipP(f), a |-> a] : a \in Af}
     \cup {[k |-> "inspect", a |-> a] : a \in Af}
     \cup {[k |-> "delay", n |-> d, a |-> a] : d \in (IF rich THEN {1, 2} ELSE {2}), a \in Af}
     \cup {[k |-> "zipmap", f |-> fn, a |-> p[1], b |-> p[2]] :
             fn \in (IF rich THEN {"first", "second", "interleave"} ELSE {"interleave"}), p \in Pairs(Pf, Pf)}
     \cup {[k |-> "zipmap", f |-> "addamp", a |-> p[1], b |-> p[2]] : p \in (IF rich THEN Pairs(Pf, Ps) ELSE {})}
     \cup {[k |-> "add", a |-> p[1], b |-> p[2]] : p \in Pairs(Pf, Ps)}
     \cup {[k |-> "mul", a |-> p[1], b |-> p[2]] : p \in Pairs(Pf, Pfl)}

T1Rich(f, ch) == Leaves(f, ch, "rich")
                 \cup Build(f, ch, TRUE, LAMBDA g : Leaves(g, ch, "rich"), LAMBDA g : Leaves(g, ch, "pair"))
T1Core(f, ch, lv) == Leaves(f, ch, lv)
                     \cup Build(f, ch, FALSE, LAMBDA g : Leaves(g, ch, lv), LAMBDA g : Leaves(g, ch, lv))
T1Wide(f, ch) == Leaves(f, ch, "core")
                 \cup Build(f, ch, TRUE, LAMBDA g : Leaves(g, ch, "core"), LAMBDA g : Leaves(g, ch, "core"))
\* a combiner called on a combiner (the core leaves are two sources: the third operand is a generator)
T2BB(f, ch) ==
  LET inner == {t \in T1Core(f, ch, "core") : t.k \in Binary}
      G(g) == [k |-> "gen", at |-> g, c |-> GenC(g, ch)]
  IN {[k |-> "zipmap", f |-> "interleave", a |-> a, b |-> G(f)] : a \in inner}
     \cup {[k |-> "add", a |-> a, b |-> G(SignedOf(f))] : a \in inner}
     \cup {[k |-> "mul", a |-> a, b |-> G(FloatOf(f))] : a \in inner}
\* delay(usize::MAX - m): alone, below and above a small delay, stacked on itself
DM(m, a) == [k |-> "delaymax", m |-> m, a |-> a]
DL(d, a) == [k |-> "delay", n |-> d, a |-> a]
TDelayMax ==
  LET L == {Src(2), Src(4), [k |-> "byref", j |-> 3]} IN
  {DM(m, a) : m \in {0, 1}, a \in L}
  \cup {DL(d, DM(m, a)) : d \in {0, 1, 2}, m \in {0, 1}, a \in L}
  \cup {DM(m, DL(d, a)) : d \in {0, 1, 2}, m \in {0, 1}, a \in L}
  \cup {DM(m, DM(m2, a)) : m \in {0, 1}, m2 \in {0, 1}, a \in L}
T2(f, ch, lv) == {t \in Build(f, ch, FALSE, LAMBDA g : T1Core(g, ch, lv), LAMBDA g : T1Core(g, ch, lv)) : Depth(t) = 2}

\* the sources of a scenario: the kind and format of source j are those of the leaf using it
SrcsFor(t, f, ch) ==
  LET info == LeafInfo(t, f) IN
  [j \in 1..NS |->
     IF \E x \in info : x[1] = j
       THEN LET x == CHOOSE x \in info : x[1] = j
            IN [fmt |-> x[3], kind |-> IF x[2] = "srcs" THEN "samples" ELSE "frames", xs |-> SrcData(j, x[2], x[3], ch)]
       ELSE [fmt |-> f, kind |-> "frames", xs |-> << >>]]   \* not used by this term
\* (st = depth of the statically typed receiver chain; 0 in every scenario: the model does not depend
\* on it, Execs emits the st > 0 variants)
Scen(t, so) == [ch |-> so[2], fmt |-> so[1], srcs |-> SrcsFor(t, so[1], so[2]), st |-> 0, term |-> t]
\* (an argument keeps TLC from evaluating these big sets eagerly and more than once)
Scenarios(tier) ==
  UNION {{Scen(t, so) : t \in T1Rich(so[1], so[2])} : so \in Sorts1}
  \cup UNION {{Scen(t, so) : t \in T2(so[1], so[2], so[3])} : so \in Sorts2}
  \cup UNION {{Scen(t, so) : t \in T1Wide(so[1], so[2])} : so \in SortsW}
  \cup {Scen(t, << "i16", 2 >>) : t \in TDelayMax \cup T2BB("i16", 2)}

---------------------------------------------------------------------------
(* the state machine: the public calls of Signal and of the iterator adaptors *)

X == [ch |-> sc.ch, srcs |-> sc.srcs]
T == sc.term
F == sc.fmt
LenT == DLen(X, T)
Finite == LenT < Inf
Bnd == (IF Finite THEN LenT ELSE 2) + 3          \* next() calls explored per scenario
EQF == EqFrame(F, sc.ch)

NoLast == [op |-> "init", out |-> EQF, eb |-> FALSE, ea |-> FALSE, insp |-> {}, j |-> 0, p |-> 0]
Sig == [m |-> "sig", n0 |-> 0, tn |-> 0, left |-> 0, cur |-> IlNone(F, sc.ch), items |-> << >>,
        dones |-> 0, late |-> FALSE, byref |-> FALSE]
\* a `src` leaf of the root's own format can be the iterator handed to `lift`
Liftable == {x[1] : x \in {y \in LeafInfo(T, F) : y[2] = "src" /\ y[3] = F}}

Init == /\ sc \in Scenarios(Tier)
        /\ ns = NsInit(sc.term) /\ pool = PoolInit([ch |-> sc.ch, srcs |-> sc.srcs])
        /\ n = 0 /\ rs = [j \in 1..NS |-> 0] /\ mode = Sig /\ last = NoLast

DoNext ==
  /\ mode.m = "sig" /\ n < Bnd
  /\ LET r == Step(X, T, F, "r", ns, pool) IN
     /\ ns' = r.ns /\ pool' = r.pool /\ n' = n + 1
     /\ last' = [op |-> "next", out |-> r.out, eb |-> Exh(T, ns, pool), ea |-> Exh(T, r.ns, r.pool), insp |-> r.insp, j |-> 0, p |-> 0]
  /\ UNCHANGED << sc, rs, mode >>
DoIsExh ==         \* &self: nothing changes
  /\ mode.m = "sig" /\ last.op # "ie"
  /\ last' = [NoLast EXCEPT !.op = "ie", !.ea = Exh(T, ns, pool)]
  /\ UNCHANGED << sc, ns, pool, n, rs, mode >>

\* wrap the root (by value, or `&mut root` when byref) in an iterator adaptor
Start ==      \* consuming adaptors from the fresh term, `&mut` adaptors after one call
  /\ mode.m = "sig" /\ n <= 1 /\ last.op # "ie"
  /\ LET byref == (n = 1) IN
       \/ \E tn \in (IF byref THEN {0, Bnd} ELSE {2}) :
            mode' = [Sig EXCEPT !.m = "take", !.n0 = n, !.tn = tn, !.left = tn, !.byref = byref]
       \/ /\ Finite
          /\ \E m \in {"ue", "il"} : mode' = [Sig EXCEPT !.m = m, !.n0 = n, !.byref = byref]
       \/ /\ Finite /\ ~byref /\ Liftable # {}          \* lift(iter, |s| term) builds the term itself
          /\ mode' = [Sig EXCEPT !.m = "lift"]
  /\ last' = NoLast
  /\ UNCHANGED << sc, ns, pool, n, rs >>
\* Iterator::next of the adaptor, until its second None
Yield(r) == [mode EXCEPT !.items = IF r.some THEN Append(@, r.v) ELSE @,
                         !.dones = IF r.some THEN @ ELSE @ + 1,
                         !.late  = @ \/ (r.some /\ mode.dones > 0)]
TakeStep ==
  /\ mode.m = "take" /\ mode.dones < 2
  /\ LET r == TakeNext(X, T, F, mode.left, ns, pool) IN
     /\ ns' = r.ns /\ pool' = r.pool /\ n' = n + r.k
     /\ mode' = [Yield(r) EXCEPT !.left = r.left]
  /\ last' = NoLast /\ UNCHANGED << sc, rs >>
UeStep ==
  /\ mode.m \in {"ue", "lift"} /\ mode.dones < 2
  /\ LET r == UeNext(X, T, F, ns, pool) IN
     /\ ns' = r.ns /\ pool' = r.pool /\ n' = n + r.k
     /\ mode' = Yield(r)
  /\ last' = NoLast /\ UNCHANGED << sc, rs >>
IlStep ==
  /\ mode.m = "il" /\ mode.dones < 2
  /\ LET r == IlNext(X, T, F, mode.cur, ns, pool) IN
     /\ ns' = r.ns /\ pool' = r.pool /\ n' = n + r.k
     /\ mode' = [Yield(r) EXCEPT !.cur = r.cur]
  /\ last' = NoLast /\ UNCHANGED << sc, rs >>
\* The PROVIDED methods of Iterator on the three adaptors.  Their default bodies (core::iter) are loops
\* over `next`: nth(k) = up to k + 1 calls, stopping at the first None; count / last / fold / for_each /
\* collect = the chain of calls to the first None (the *Step actions above, bounded by TakeN / CollectLen /
\* Interleaved); skip / step_by reach the iterator through next and nth.  Layer 2 runs the nth loop on
\* TakeNext / UeNext / IlNext from every position; IterNth holds it against layer 1 (Signals!ItRet).
CNext(md, s, q) ==
  CASE md.m = "take" -> LET r == TakeNext(X, T, F, md.left, s, q)
                        IN [some |-> r.some, v |-> r.v, k |-> r.k, md |-> [md EXCEPT !.left = r.left], ns |-> r.ns, pool |-> r.pool]
    [] md.m = "il"   -> LET r == IlNext(X, T, F, md.cur, s, q)
                        IN [some |-> r.some, v |-> r.v, k |-> r.k, md |-> [md EXCEPT !.cur = r.cur], ns |-> r.ns, pool |-> r.pool]
    [] OTHER         -> LET r == UeNext(X, T, F, s, q)
                        IN [some |-> r.some, v |-> r.v, k |-> r.k, md |-> md, ns |-> r.ns, pool |-> r.pool]
RECURSIVE NthLoop(_, _, _, _, _)
NthLoop(c, md, s, q, kk) ==
  LET r == CNext(md, s, q)
      md1 == [r.md EXCEPT !.items = IF r.some THEN Append(@, r.v) ELSE @,
                          !.dones = IF r.some THEN @ ELSE @ + 1,
                          !.late  = @ \/ (r.some /\ md.dones > 0)]
  IN IF ~r.some \/ c = 1 THEN [some |-> r.some, v |-> r.v, md |-> md1, ns |-> r.ns, pool |-> r.pool, k |-> kk + r.k]
     ELSE NthLoop(c - 1, md1, r.ns, r.pool, kk + r.k)
\* (quick: from every position of every consumer over the leaf-, delay- and add-rooted i16 scenarios;
\*  thorough: over every leaf-rooted scenario in every sort and every i16 scenario of depth <= 1)
NthScen == IF Quick THEN sc.fmt = "i16" /\ (Depth(T) = 0 \/ T.k \in {"delay", "add"})
           ELSE Depth(T) = 0 \/ (sc.fmt = "i16" /\ Depth(T) <= 1)
NthStep ==
  /\ mode.m \in {"take", "ue", "il"} /\ mode.dones = 0 /\ NthScen
  /\ \E k \in {1, 2} :
       LET r == NthLoop(k + 1, mode, ns, pool, 0) IN
       /\ ns' = r.ns /\ pool' = r.pool /\ n' = n + r.k /\ mode' = r.md
       /\ last' = [NoLast EXCEPT !.op = "nth", !.j = k, !.p = Len(mode.items), !.ea = r.some, !.out = r.v]
  /\ UNCHANGED << sc, rs >>
\* the adaptor over `&mut root` is dropped (at any point): the root carries on
CDrop ==
  /\ mode.m \in {"take", "ue", "il"} /\ mode.byref /\ (mode.dones = 1 \/ (mode.dones = 0 /\ Len(mode.items) = 1))
  /\ mode' = Sig /\ last' = NoLast
  /\ UNCHANGED << sc, ns, pool, n, rs >>
\* the whole term is dropped (at any point): borrowed sources are used directly again
DropAll ==
  /\ ByRefsOf(T) # {}
  /\ mode.m = "sig" \/ (mode.m \in {"take", "ue", "il"} /\ ~mode.byref)
  /\ mode' = [Sig EXCEPT !.m = "dropped"] /\ last' = NoLast
  /\ UNCHANGED << sc, ns, pool, n, rs >>
Resume ==
  /\ mode.m = "dropped"
  /\ \E j \in ByRefsOf(T) :
       /\ rs[j] < SrcLens[j] + 2
       /\ LET r == SrcNext(X.srcs[j], X.ch, pool[j]) IN
          /\ pool' = [pool EXCEPT ![j] = r.s]
          /\ last' = [op |-> "resume", out |-> r.out, eb |-> ~pool[j].some, ea |-> ~r.s.some, insp |-> {}, j |-> j, p |-> 0]
       /\ rs' = [rs EXCEPT ![j] = @ + 1]
  /\ UNCHANGED << sc, ns, n, mode >>

Next == DoNext \/ DoIsExh \/ Start \/ TakeStep \/ UeStep \/ IlStep \/ NthStep \/ CDrop \/ DropAll \/ Resume
Spec == Init /\ [][Next]_vars

---------------------------------------------------------------------------
(* invariants = the clauses of C04 / C05 (layer 2 against layer 1) *)

\* C04: the n-th output is the pointwise function of the n-th source frames (delay shifts);
\*      every inspect closure saw exactly the frame that passed it
PointwiseOK == last.op = "next" => /\ last.out = Den(X, T, F, n)
                                 /\ last.insp = InspDen(X, T, F, "r", n)
\* C04: one pull per source per next, none while a delay above it is silent
OnePull ==
  /\ \A j \in 1..NS : pool[j].calls = Pulls(T, j, n) + rs[j]
  /\ \A j \in SrcsOf(T) : Pulls(T, j, n + 1) - Pulls(T, j, n) = IF Silent(T, j, n + 1) THEN 0 ELSE 1
\* C04: a borrowed source resumes exactly where the adaptor left off (drop at any point)
ResumeAt ==
  /\ \A j \in ByRefsOf(T) :
       SrcNext(X.srcs[j], X.ch, pool[j]).out = SrcDen(X, j, X.srcs[j].fmt, Pulls(T, j, n) + rs[j] + 1)
  /\ last.op = "resume" => last.out = SrcDen(X, last.j, X.srcs[last.j].fmt, pool[last.j].calls)
\* C05: is_exhausted <=> no complete frame remains, at every node of the term:
\*      OR over the operands of a combiner, a delay is live while counting down
RECURSIVE SubExh(_, _, _)
SubExh(t, s, m) ==
  /\ Exh(t, s, pool) = ExhDen(X, t, m)
  /\ CASE t.k \in LeafSrc \cup Leaf0 -> TRUE
       [] t.k \in Binary -> /\ SubExh(t.a, s.a, m) /\ SubExh(t.b, s.b, m)
                            /\ Exh(t, s, pool) = (Exh(t.a, s.a, pool) \/ Exh(t.b, s.b, pool))
                            /\ ExhDen(X, t, m) = (ExhDen(X, t.a, m) \/ ExhDen(X, t.b, m))
       [] IsDelay(t)     -> /\ SubExh(t.a, s.a, MaxI(0, m - DN(t)))
                            /\ (m < DN(t) => ~Exh(t, s, pool))
       [] OTHER          -> SubExh(t.a, s.a, m)
ExhExact ==
  /\ mode.m # "dropped" => SubExh(T, ns, n)
  /\ last.op = "next" => last.eb = ExhDen(X, T, n - 1) /\ last.ea = ExhDen(X, T, n)
  /\ last.op = "ie" => last.ea = ExhDen(X, T, n)
  /\ \A j \in SrcsOf(T) : ~pool[j].some <=> pool[j].calls >= SrcLen(X, j)
  /\ last.op = "resume" => last.eb = (pool[last.j].calls - 1 >= SrcLen(X, last.j))
                           /\ last.ea = (pool[last.j].calls >= SrcLen(X, last.j))
\* C05: after its end a source yields equilibrium for ever and stays exhausted
SilentAfter ==
  /\ \A j \in SrcsOf(T) : ~pool[j].some =>
        LET r == SrcNext(X.srcs[j], X.ch, pool[j]) IN r.out = EqFrame(X.srcs[j].fmt, X.ch) /\ ~r.s.some
  /\ last.op = "next" /\ T.k \in LeafSrc /\ n > LenT => last.out = EQF
  /\ last.op = "resume" /\ pool[last.j].calls > SrcLen(X, last.j) => last.out = EqFrame(X.srcs[last.j].fmt, X.ch)
\* C05: from_iter / from_interleaved_samples_iter deliver exactly the complete frames
SrcFrames ==
  T.k \in LeafSrc /\ mode.m = "ue" /\ mode.n0 = 0 /\ mode.dones >= 1 => mode.items = FramesOf(X.srcs[T.j], X.ch)
\* C05: until_exhausted / lift yield exactly Len(t) frames, then None for good
CollectLen ==
  mode.m \in {"ue", "lift"} =>
    LET full == UeItems(X, T, F, mode.n0) IN
    /\ IsPrefix(mode.items, full) /\ ~mode.late
    /\ mode.dones >= 1 => mode.items = full
    /\ n = mode.n0 + Len(mode.items)
\* C05: take(n) yields exactly n frames (and says so: ExactSizeIterator)
TakeN ==
  mode.m = "take" =>
    LET full == TakeItems(X, T, F, mode.n0, mode.tn) IN
    /\ IsPrefix(mode.items, full) /\ ~mode.late
    /\ mode.dones >= 1 => mode.items = full
    /\ mode.left = mode.tn - Len(mode.items)
    /\ n = mode.n0 + Len(mode.items)
\* C05: frames x channels samples in channel order, then None
Interleaved ==
  mode.m = "il" =>
    LET full == IlItems(X, T, F, mode.n0) IN
    /\ IsPrefix(mode.items, full) /\ ~mode.late
    /\ mode.dones >= 1 => mode.items = full /\ Len(full) = UeCount(X, T, mode.n0) * X.ch

\* C05: nth(k) from any position = k + 1 calls of next: the item it returns (or None past the end),
\*      the items used up, the frames pulled from the root
IterNth ==
  last.op = "nth" =>
    LET full == CASE mode.m = "take" -> TakeItems(X, T, F, mode.n0, mode.tn)
                  [] mode.m = "il"   -> IlItems(X, T, F, mode.n0)
                  [] OTHER           -> UeItems(X, T, F, mode.n0)
    IN /\ (IF last.ea THEN ItSome(last.out) ELSE ItNone) = ItRet(full, last.p, "nth", last.j)
       /\ Len(mode.items) = ItPos(Len(full), last.p, "nth", last.j)
       /\ n = mode.n0 + ItFrames(mode.m, Len(mode.items), X.ch)
       /\ ItRet(full, Len(mode.items), "count", 0) = ItVal(Len(full) - Len(mode.items))
       /\ mode.m = "take" => ItRet(full, Len(mode.items), "len", 0) = ItVal(mode.left)

---------------------------------------------------------------------------
(* the TLC-integer sample operations agree with SampleFormats' limb definitions *)
NativeOK ==
  \A f \in {"i8", "u8", "i16"} :
    \A a \in {0 - HalfI(f), 0 - HalfI(f) + 1, -1542, -771, -129, -128, -127, -7, -5, -2, -1, 0, 1, 2, 5, 126, 127, 128,
              1285, HalfI(f) - 2, HalfI(f) - 1} :
      InRangeI(f, a) =>
        LET v == FromAmpI(f, a) IN
        /\ \A d \in {"i8", "u8", "i16"} : SConv(f, d, v) = SToInt(Conv(f, d, SFromInt(v)))
        /\ EqS(f) = SToInt(Equil(f))
        /\ \A o \in {-5, 0, 3} :
             InRangeI(f, a + o) =>
               /\ SAddDefined(f, v, o) = AddAmpDefined(f, SFromInt(v), SFromInt(o))
               /\ SAddAmp(f, v, o) = SToInt(AddAmp(f, SFromInt(v), SFromInt(o)))
        \* gains: 3/4, -1/2, 1, 0, -0, 5/8, 1/128, 255/256, -255/2^20, 3 * 2^8 (fast path);
        \* 257/256, 1/3, 0.7 rounded, 2^-40 (limb path)
        /\ \A g \in {FVal("f32", 3, 2), FVal("f32", -1, 1), FVal("f32", 1, 0), FZeroF(0), FZeroF(1), FVal("f32", 5, 3),
                     FVal("f32", 1, 7), FVal("f32", 255, 8), FVal("f32", -255, 20), FVal("f32", 768, 0),
                     FVal("f32", 257, 8), FVal("f32", 11184811, 25), FVal("f32", -11744051, 24), FVal("f32", 1, 40)} :
             SMulDefined(f, v, g) => SMulAmp(f, v, g) = SMulAmpLimb(f, v, g)
ASSUME NativeOK

---------------------------------------------------------------------------
(* vacuity: the scenario set exercises every adaptor kind at the root and below it, every leaf   *)
(* kind, finite and infinite terms, borrowed and liftable sources (so every action is enabled)  *)
RECURSIVE KindsOf(_)
KindsOf(t) == {t.k} \cup (IF t.k \in LeafSrc \cup Leaf0 THEN {}
                          ELSE IF t.k \in Binary THEN KindsOf(t.a) \cup KindsOf(t.b) ELSE KindsOf(t.a))
NonVacuous(S) ==
  /\ \A so \in Sorts1 : \A k \in LeafSrcM \cup Leaf0 \cup Unary \cup Binary :
       \E s \in S : s.fmt = so[1] /\ s.ch = so[2] /\ s.term.k = k
  /\ \A k \in Unary \cup Binary : \E s \in S : Depth(s.term) = 2 /\ k \in KindsOf(s.term.a)
  /\ \A so \in SortsW : \A k \in Unary \cup Binary : \E s \in S : s.fmt = so[1] /\ s.ch = so[2] /\ s.term.k = k
  /\ \E s \in S : DLen([ch |-> s.ch, srcs |-> s.srcs], s.term) >= Inf
  /\ \E s \in S : ByRefsOf(s.term) # {} /\ Depth(s.term) = 1
  /\ \E s \in S : s.term.k = "delay" /\ s.term.a.k = "byref"
  /\ \A s \in S : Linear(s.term) /\ Depth(s.term) <= 2
  \* static dispatch: in a sort with concretely typed stacks, every adaptor method on every adaptor type
  \* (ordered pairs along the receiver chain), every adaptor method on every source type, every source
  \* type on its own (the consumers are called on it)
  /\ \A k1 \in Unary \cup Binary : \A k2 \in Unary \cup Binary :
       \E s \in S : StMax(s.fmt, s.ch) >= 2 /\ Depth(s.term) = 2 /\ s.term.k = k1 /\ s.term.a.k = k2
  /\ \A k1 \in Unary \cup Binary : \A k2 \in LeafSrcM \cup Leaf0 :
       \E s \in S : StMax(s.fmt, s.ch) >= 2 /\ Depth(s.term) = 1 /\ s.term.k = k1 /\ s.term.a.k = k2
  /\ \A k \in LeafSrcM \cup Leaf0 : \E s \in S : StMax(s.fmt, s.ch) >= 1 /\ s.term.k = k
  \* the far end of delay's parameter range, stacked both ways round
  /\ \E s \in S : StMax(s.fmt, s.ch) >= 2 /\ s.term.k = "delay" /\ s.term.n = 1 /\ s.term.a.k = "delaymax" /\ s.term.a.m = 0
  /\ \E s \in S : StMax(s.fmt, s.ch) >= 2 /\ s.term.k = "delaymax" /\ s.term.a.k = "delay"
  /\ \E s \in S : StMax(s.fmt, s.ch) >= 2 /\ s.term.k = "delaymax" /\ s.term.a.k = "delaymax"

---------------------------------------------------------------------------
(* stimuli: one execution per (term, sources, call sequence or consumer) *)
EvNext == [ev |-> "next", a |-> [x |-> 0]]
EvIe   == [ev |-> "is_exhausted", a |-> [x |-> 0]]
EvDrop == [ev |-> "drop", a |-> [x |-> 0]]
EvClone == [ev |-> "clone", a |-> [x |-> 0]]
EvResume(j) == [ev |-> "resume", a |-> [src |-> j]]
EvCollect(c, tn, k, byref, j) == [ev |-> "collect", a |-> [consumer |-> c, n |-> tn, k |-> k, cap |-> 64, byref |-> byref, j |-> j]]
Rep(e, k) == [i \in 1..k |-> e]
ItOp(o, k) == [op |-> o, k |-> k]
EvDrive(c, tn, byref, ops) == [ev |-> "drive", a |-> [consumer |-> c, n |-> tn, cap |-> 64, byref |-> byref, ops |-> ops]]
\* programs of Iterator methods (each reaches the end of the stream and says how much was left)
ItProgs == << << ItOp("nth", 1), ItOp("hint", 0), ItOp("drain", 0), ItOp("count", 0) >>,
              << ItOp("next", 0), ItOp("skip", 1) >>,
              << ItOp("step_by", 2) >>,
              << ItOp("nth", 0), ItOp("find", 2), ItOp("hint", 0), ItOp("last", 0) >>,
              << ItOp("any", 2), ItOp("nth", 2), ItOp("fold", 0) >>,
              << ItOp("position", 1), ItOp("all", 2), ItOp("for_each", 0) >>,
              << ItOp("skip", 2) >>,
              << ItOp("nth", 2), ItOp("hint", 0), ItOp("vec", 0) >> >>

\* thorough: every call sequence / consumer variant for the depth <= 1 scenarios, the core ones for
\* depth 2.  quick: the core ones, plus one `&mut` consumer variant and one drop point per scenario
\* (rotating with the shape of the scenario) -- TLC still explores all of them on the model.
\* `Clone` (terms without a borrowed leaf: `&mut S` is not Clone; on the model a clone is a copy of the
\* state, so there is nothing to explore -- these are stimuli for the code): the interleaved-sample
\* iterator cloned INSIDE a frame (after 1 or ch + 1 samples; after 2 ch - 1 as well in thorough),
\* take / until_exhausted cloned after 1 item, the signal cloned between `next` calls.
Execs(s) ==
  LET XX == [ch |-> s.ch, srcs |-> s.srcs]
      len == DLen(XX, s.term)
      fin == len < Inf
      B == (IF fin THEN len ELSE 2) + 3
      reset == [ev |-> "reset", comp |-> "signal", cfg |-> s]
      brs == ByRefsOf(s.term)
      resumes == Flat([j \in 1..NS |-> IF j \in brs THEN Rep(EvResume(j), SrcLens[j] + 2) ELSE << >>])
      lifts == {x[1] : x \in {y \in LeafInfo(s.term, s.fmt) : y[2] = "src" /\ y[3] = s.fmt}}
      shallow == Depth(s.term) <= 1
      sel == (B + Cardinality(SrcsOf(s.term)) + Cardinality(KindsOf(s.term)) + s.ch) % 4
      after(byref) == IF byref THEN << EvNext, EvNext, EvIe >> ELSE resumes
      consR(r, n0, c, tn, byref, j) == << r >> \o Rep(EvNext, n0) \o << EvCollect(c, tn, 0, byref, j) >> \o after(byref)
      cons(n0, c, tn, byref, j) == consR(reset, n0, c, tn, byref, j)
      consCl(c, tn, k) == << reset, EvCollect(c, tn, k, FALSE, 0) >>
      seqCl == << reset >> \o Flat(Rep(<< EvNext, EvClone >>, B)) \o << EvIe >>
      ilCl == IF ~fin \/ brs # {} \/ s.ch < 2 THEN {}
              ELSE {consCl("il_clone", 0, k) : k \in (IF Quick THEN {<< 1, s.ch + 1 >>[(sel % 2) + 1]}
                                                               ELSE {1, s.ch + 1, 2 * s.ch - 1})}
      itCl == IF brs # {} THEN {}
              ELSE IF Quick THEN (IF sel = 1 THEN {IF fin THEN consCl("ue_clone", 0, 1) ELSE consCl("take_clone", B, 1)}
                                  ELSE IF sel = 2 THEN {seqCl} ELSE {})
              ELSE {consCl("take_clone", B, k) : k \in {1, 2}} \cup {seqCl}
                   \cup (IF fin THEN {consCl("ue_clone", 0, k) : k \in {1, 2}} ELSE {})
      \* programs of Iterator methods on the consumers (`drive`): quick one per scenario, rotating
      drv(i) == LET c == IF fin THEN << "take", "ue", "il" >>[((sel + i) % 3) + 1] ELSE "take"
                    byref == (i + B) % 2 = 1
                IN << reset >> \o Rep(EvNext, i % 2) \o << EvDrive(c, B, byref, ItProgs[((sel + 3 * i + B) % Len(ItProgs)) + 1]) >> \o after(byref)
      drives == IF Quick THEN {drv(Cardinality(KindsOf(s.term)) % 2)} ELSE {drv(i) : i \in {0, 1, 2}}
      drops(ds) == {<< reset >> \o Rep(EvNext, d) \o << EvDrop >> \o resumes : d \in (IF brs = {} THEN {} ELSE ds)}
      seqNext == << reset >> \o Rep(EvNext, B)
      seqIe == << reset, EvIe >> \o Flat(Rep(<< EvNext, EvIe >>, B)) \o << EvIe >>
      mutCons == << cons(1, "take", 0, TRUE, 0), cons(0, "take", B, TRUE, 0) >>
                 \o (IF fin THEN << cons(1, "ue", 0, TRUE, 0), cons(1, "il", 0, TRUE, 0) >> ELSE << >>)
      \* the same scenario with its receiver chain statically typed d levels deep (nothing is cloned there)
      dp == Depth(s.term)
      resetS(d) == [ev |-> "reset", comp |-> "signal", cfg |-> [s EXCEPT !.st = d]]
      stSeq(d) == << resetS(d), EvIe >> \o Rep(EvNext, B) \o << EvIe >>
      stConsAll(d) == << consR(resetS(d), 0, "take", 2, FALSE, 0), consR(resetS(d), 1, "take", B, TRUE, 0) >>
                      \o (IF fin THEN << consR(resetS(d), 0, "ue", 0, FALSE, 0), consR(resetS(d), 0, "il", 0, FALSE, 0),
                                         consR(resetS(d), 1, "ue", 0, TRUE, 0), consR(resetS(d), 1, "il", 0, TRUE, 0) >> ELSE << >>)
      stCons(d) == IF Quick THEN {stConsAll(d)[((sel + d + B) % Len(stConsAll(d))) + 1]}
                   ELSE IF dp <= 1 /\ d = 1 THEN {stConsAll(d)[i] : i \in 1..Len(stConsAll(d))}   \* consumers on the concrete type
                   ELSE {stConsAll(d)[((sel + d + B + i) % Len(stConsAll(d))) + 1] : i \in {0, 3}}
      stDrop(d) == IF brs = {} THEN {} ELSE {<< resetS(d) >> \o Rep(EvNext, 1 + (sel % 2)) \o << EvDrop >> \o resumes}
      stLift(d) == IF fin THEN {consR(resetS(d), 0, "lift", 0, FALSE, j) : j \in lifts} ELSE {}
      static == IF StMax(s.fmt, s.ch) = 0 THEN {}
                ELSE IF dp = 0 THEN {stSeq(1)} \cup stCons(1) \cup stDrop(1) \cup stLift(1)
                ELSE IF dp = 1 THEN stCons(1) \cup {stSeq(2)} \cup stDrop(2) \cup stLift(2)
                                    \cup (IF Quick /\ sel % 2 = 0 THEN {} ELSE stCons(2))
                ELSE {stSeq(2)} \cup (IF Quick /\ sel % 2 = 1 THEN {} ELSE stCons(2))
  IN {cons(0, "take", 2, FALSE, 0)} \cup static
     \cup (IF fin THEN {cons(0, "ue", 0, FALSE, 0), cons(0, "il", 0, FALSE, 0)} ELSE {})
     \cup (IF shallow THEN ilCl \cup itCl \cup drives ELSE {})
     \cup (IF ~shallow THEN {seqNext}
           ELSE IF Quick
             THEN {seqIe, mutCons[(sel % Len(mutCons)) + 1]}
                  \cup drops({<< 0, 1, B - 2, B - 2 >>[sel + 1]})
                  \cup (IF fin THEN {cons(0, "lift", 0, FALSE, j) : j \in lifts} ELSE {})
             ELSE {seqNext, seqIe} \cup {mutCons[i] : i \in 1..Len(mutCons)}
                  \cup drops({0, 1, B - 2})
                  \cup (IF fin THEN {cons(0, "lift", 0, FALSE, j) : j \in lifts} ELSE {}))
WriteStimuli ==
  LET S == Scenarios(Tier) IN
  /\ Assert(NonVacuous(S), "scenario set is vacuous")
  /\ IF "STIM_OUT" \in DOMAIN IOEnv
       THEN LET stim == UNION {Execs(s) : s \in S} IN
            /\ ndJsonSerialize(IOEnv.STIM_OUT, SetToSeq(stim))
            /\ PrintT(<< "STIMULI", Cardinality(stim), "SCENARIOS", Cardinality(S) >>)
       ELSE PrintT(<< "SCENARIOS", Cardinality(S) >>)
ASSUME WriteStimuli
=============================================================================
