SPECIFICATION TraceSpec
POSTCONDITION AllConsumed
CHECK_DEADLOCK FALSE
