SPECIFICATION Spec
CONSTANTS
  MaxOuts = 3
  Rounds = 4
INVARIANTS BacklogAtMostOne EmptyAfterRound Emit
CHECK_DEADLOCK FALSE
