---------------------------- MODULE Trace_Nodes ----------------------------
(***************************************************************************)
(* Trace validation for dasp_graph's built-in nodes and node wrappers      *)
(* (property C16).  harness/hx_graph, comp "node": one node under test     *)
(* (cfg.node = descriptor of Nodes.tla, cfg.wrapper = how it is wrapped),  *)
(* fed by cfg.edges (feeder index per edge) from feeders with cfg.feeds[f] *)
(* buffers each, cfg.nout output buffers.  Every `call` line is one        *)
(* Processor::process; a recording slot around the node under test copied  *)
(* what the node was handed and what it left:                              *)
(*   o.src     feeder of each input, in the order presented                *)
(*   o.ins     the inputs' buffers (as exact small integers)               *)
(*   o.before  its output buffers on entry,  o.after  on return            *)
(* A line is accepted iff o.after (and the node state carried to the next  *)
(* call) is the LAYER-1 NodeStep of Nodes.tla -- wrappers are the identity, *)
(* cfg.wrapper is not consulted.                                            *)
(***************************************************************************)
EXTENDS Nodes, TLC, Json, IOUtils

Rec == ndJsonDeserialize(IOEnv.TRACE)

VARIABLES l, cfg, st, prev, calls, skip
vars == << l, cfg, st, prev, calls, skip >>
Ev == Rec[l]

RECURSIVE DescOK(_)
DescOK(d) ==
  /\ KnownKind(d)
  /\ d.kind = "delay" => /\ Len(d.first) = Len(d.rings)
                         /\ \A c \in 1..Len(d.rings) : Len(d.rings[c]) >= 1 /\ d.first[c] < Len(d.rings[c])
  /\ d.kind = "signal" => d.ch >= 1 /\ d.modn >= 1 /\ d.n >= 0
  /\ d.kind = "graph" => /\ Len(d.nb) = Len(d.nodes) /\ Len(d.init) = Len(d.nodes)
                         /\ d.out \in 0..(Len(d.nodes) - 1)
                         /\ \A i \in 1..Len(d.ins) : d.ins[i] \in 0..(Len(d.nodes) - 1)
                         /\ \A i \in 1..Len(d.edges) : d.edges[i][1] \in 0..(Len(d.nodes) - 1) /\ d.edges[i][2] \in 0..(Len(d.nodes) - 1)
                         /\ \A v \in 1..Len(d.nodes) : DescOK(d.nodes[v]) /\ Len(d.init[v]) = d.nb[v]
                         /\ AcyclicModuloSelfLoops(InnerGraph(d), Processed(InnerGraph(d), d.out))
CfgOK(c) ==
  /\ DescOK(c.node) /\ c.len >= 1 /\ c.nout >= 0
  /\ \A i \in 1..Len(c.edges) : c.edges[i] \in 0..(Len(c.feeds) - 1)

BufsOK(bs, n, L) == Len(bs) = n /\ \A c \in 1..Len(bs) : Len(bs[c]) = L

CallResult ==
  LET o == Ev.o
      L == cfg.len
  IN IF /\ Ev.r.k = "unit" /\ o.ok /\ o.exact
        \* the inputs presented = one per edge, each the buffers of that feeder (C09's business, bound here too)
        /\ Len(o.src) = Len(cfg.edges) /\ Len(o.ins) = Len(o.src)
        \* (a feeder without buffers has no storage to be recognised by: logged as -1)
        /\ \A f \in 0..(Len(cfg.feeds) - 1) : cfg.feeds[f + 1] > 0 => SeqCount(o.src, f) = SeqCount(cfg.edges, f)
        /\ \A k \in 1..Len(o.src) :
             IF o.src[k] = -1 THEN o.ins[k] = << >>
             ELSE o.src[k] \in 0..(Len(cfg.feeds) - 1) /\ cfg.feeds[o.src[k] + 1] > 0 /\ BufsOK(o.ins[k], cfg.feeds[o.src[k] + 1], L)
        /\ BufsOK(o.before, cfg.nout, L) /\ BufsOK(o.after, cfg.nout, L)
        /\ (calls > 0 => o.before = prev)       \* nothing but the node itself writes its buffers
        \* a wrapper invokes the node it wraps exactly once per call, whatever its buffers (observed on user nodes)
        /\ (cfg.node.kind = "hold" => o.icalls = calls + 1)
     THEN LET r == NodeStep(cfg.node, st, o.ins, o.before, L)
          IN [ok |-> o.after = r.out, st |-> r.st]
     ELSE [ok |-> FALSE, st |-> st]

Consume == l <= Len(Rec) /\ l' = l + 1
TReset ==
  /\ Consume /\ Ev.ev = "reset"
  /\ IF Ev.comp = "node" /\ CfgOK(Ev.cfg) /\ Ev.r.k = "unit" /\ Ev.o.ok
       THEN /\ cfg' = Ev.cfg /\ st' = NodeInit(Ev.cfg.node, Ev.cfg.len) /\ prev' = << >> /\ calls' = 0 /\ skip' = FALSE
       ELSE /\ PrintT(<< "REJECT", l, Ev.ev >>)
            /\ skip' = TRUE /\ UNCHANGED << cfg, st, prev, calls >>
TCall ==
  /\ Consume /\ Ev.ev = "call" /\ ~skip
  /\ LET r == CallResult IN
     IF r.ok
       THEN /\ st' = r.st /\ prev' = Ev.o.after /\ calls' = calls + 1
            \* C07: after the first call of this processor on this graph no call may touch the heap
            /\ IF Ev.h = << 0, 0, 0 >> \/ calls = 0 THEN TRUE ELSE PrintT(<< "HEAP", l, Ev.ev >>)
            /\ UNCHANGED << cfg, skip >>
       ELSE /\ PrintT(<< "REJECT", l, Ev.ev >>)
            /\ skip' = TRUE /\ UNCHANGED << cfg, st, prev, calls >>
TUnknown ==
  /\ Consume /\ Ev.ev \notin {"reset", "call"} /\ ~skip
  /\ PrintT(<< "REJECT", l, Ev.ev >>)
  /\ skip' = TRUE /\ UNCHANGED << cfg, st, prev, calls >>
TSkip == Consume /\ Ev.ev # "reset" /\ skip /\ UNCHANGED << cfg, st, prev, calls, skip >>

TraceInit == l = 1 /\ cfg = << >> /\ st = 0 /\ prev = << >> /\ calls = 0 /\ skip = TRUE
TraceNext == TReset \/ TCall \/ TUnknown \/ TSkip
TraceSpec == TraceInit /\ [][TraceNext]_vars

AllConsumed == IF TLCGet("stats").diameter - 1 = Len(Rec) THEN TRUE
               ELSE PrintT(<< "STUCK", TLCGet("stats").diameter, Len(Rec) >>) /\ FALSE
=============================================================================
