-------------------------------- MODULE Sinc --------------------------------
(***************************************************************************)
(* dasp_interpolate::sinc::Sinc and its use by the rate Converter at       *)
(* ratio 1 (property C18).                                                 *)
(*                                                                         *)
(* Layer 2 (implementation shaped): the interpolator is                    *)
(*      s = [f : RingBuffer.Fixed of length 2*depth, idx : 0..depth]       *)
(* over the Fixed operators of RingBuffer.tla (instantiated, not           *)
(* idealised: a ring-buffer defect surfaces here too).                     *)
(*   next_source_frame   push; idx counts up to depth                      *)
(*   reset               idx = 0, first = 0, every slot = equilibrium      *)
(*   interpolate(x)      sum over n < max_depth of                         *)
(*                       K(x + n) f[idx - n]  +  K(1 - x + n) f[idx + 1 + n] *)
(*                       with the code's clamp of max_depth while priming. *)
(* The kernel K is NOT specified by the property, except that on the grid  *)
(* it is the unit impulse: K(0) = 1, K(m) = 0 for integers m # 0.  So at   *)
(* x = 0 the output is the centre tap f[idx] (SInterp0); for other x the   *)
(* model says which taps are read (LeftTaps / RightTaps) and that the      *)
(* output is the weighted sum of exactly those frames, for whatever        *)
(* weights (SInterpK, abstract kernel).                                    *)
(*                                                                         *)
(* Layer 1 (property): with the frames pushed since the last reset / start *)
(* as a sequence hist, the output at x = 0 is the frame pushed depth pushes *)
(* ago (hist[Len - depth], 0-based) and silence while fewer than depth     *)
(* frames have been pushed: Grid(hist, depth).  A Converter at ratio 1     *)
(* therefore yields source frame k - depth as its k-th output (k = 0, 1,   *)
(* ...) after pulling exactly k source frames.  At any position the output *)
(* is a linear form over the buffered frames = the last 2*depth frames of  *)
(* the history (BufLin): nothing else the history may have been (how long  *)
(* ago it fell silent, how it was primed) can matter.                      *)
(***************************************************************************)
EXTENDS Naturals, Integers, Sequences
RB == INSTANCE RingBuffer

Silence == 0        \* equilibrium of the (abstract) frame type

---------------------------------------------------------------------------
(* layer 2 *)
SincNew(depth) == [f |-> RB!FFrom([i \in 1..(2 * depth) |-> Silence]), idx |-> 0]
SDepth(s) == RB!FLen(s.f) \div 2
SPush(s, v) == [f |-> RB!FPush(s.f, v).f,
                idx |-> IF s.idx < SDepth(s) THEN s.idx + 1 ELSE s.idx]
\* reset(): idx = 0; set_first(0); every slot written with equilibrium through iter_mut
SReset(s) ==
  LET f1 == RB!FSetFirst(s.f, 0)
      n  == RB!FLen(f1)
      W[i \in 0..n] == IF i = 0 THEN f1 ELSE RB!FSetAt(W[i - 1], i - 1, Silence)
  IN [f |-> W[n], idx |-> 0]

\* the clamp of the kernel half-width as coded (usize / isize arithmetic)
SMaxDepth(s) ==
  LET d == SDepth(s)
      rightmost == s.idx + d
      leftmost == (s.idx + 1) - d              \* isize
  IN IF rightmost >= RB!FLen(s.f) THEN RB!FLen(s.f) - d
     ELSE IF leftmost < 0 THEN d + leftmost
     ELSE d
\* ring indices read by interpolate(x): frames[nl - n] and frames[nr + n], n < max_depth.
\* nl - n is computed in usize: a negative value here is an underflow (panic / wild index).
LeftTaps(s)  == { s.idx - n : n \in 0..(SMaxDepth(s) - 1) }
RightTaps(s) == { s.idx + 1 + n : n \in 0..(SMaxDepth(s) - 1) }
\* at x = 0 the kernel is the unit impulse at the centre tap (left tap n = 0)
SInterp0(s) == RB!FGet(s.f, s.idx)

\* the Converter (dasp_signal::interpolate) at ratio exactly 1:
\*   while acc >= 1 { push(source.next()); acc -= 1 }  out = interpolate(acc);  acc += 1
\* c = [s, acc, pulled]; nxt = the frame the source yields if it is pulled now
ConvNew(depth) == [s |-> SincNew(depth), acc |-> 0, pulled |-> 0]
ConvNext(c, nxt) ==
  LET adv == c.acc >= 1
      s1  == IF adv THEN SPush(c.s, nxt) ELSE c.s
      a1  == IF adv THEN c.acc - 1 ELSE c.acc
  IN [out |-> SInterp0(s1),                    \* a1 = 0 always at ratio 1: on the grid
      c |-> [s |-> s1, acc |-> a1 + 1, pulled |-> IF adv THEN c.pulled + 1 ELSE c.pulled],
      x |-> a1]

\* interpolate(x) for an ABSTRACT kernel: the tap sum as coded, with weight KL[n] on the n-th left tap and KR[n] on
\* the n-th right tap (n = 0 .. depth-1; for a given x the code's weights are K(x + n) and K(1 - x + n)).  The
\* property does not fix K; whatever it is, this is the shape of the computation: no term depends on the VALUE of
\* a frame other than through its product with a weight, and nothing but the ring and idx is read.
SInterpK(s, KL, KR) ==
  LET m == SMaxDepth(s)
      F[n \in 0..m] == IF n = 0 THEN 0
                       ELSE F[n - 1] + KL[n - 1] * RB!FGet(s.f, s.idx - (n - 1))
                                     + KR[n - 1] * RB!FGet(s.f, s.idx + 1 + (n - 1))
  IN F[m]

---------------------------------------------------------------------------
(* layer 1 *)
\* output on the grid after the frames `hist` (oldest first) have been pushed since reset
GridOr(hist, depth, sil) == IF Len(hist) >= depth THEN hist[Len(hist) - depth + 1] ELSE sil   \* depth >= 1
Grid(hist, depth) == GridOr(hist, depth, Silence)
\* k-th output (k >= 0) of a ratio-1 converter over source frames src (a sequence, silence after)
SrcAtOr(src, j, sil) == IF j >= 0 /\ j < Len(src) THEN src[j + 1] ELSE sil
ConvOutOr(src, depth, k, sil) == SrcAtOr(src, k - depth, sil)
ConvOut(src, depth, k) == ConvOutOr(src, depth, k, Silence)
ConvPulled(k) == k                             \* frames pulled when the k-th output is returned

\* "the interpolated frame is a linear function of the buffered frames": the buffer after the frames `hist` is the
\* last 2 depth frames of (2 depth silent frames followed by hist), Buffered(.., i) for i = 0 (oldest) .. 2 depth - 1;
\* the read position is Centre (it moves up while priming), HalfWidth taps on each side are summed, and the
\* outermost right tap of a primed interpolator is the OLDEST buffered frame (index 2 depth wraps to 0; its weight
\* is the kernel's last, near-zero value -- see notes/dsp2.md).  In particular: the output is determined by the
\* buffered frames alone, a silent buffer gives silence, and scaling / superposition of histories carry over.
Buffered(hist, depth, i) == LET j == Len(hist) + i - 2 * depth + 1 IN IF j >= 1 THEN hist[j] ELSE Silence
Centre(hist, depth) == IF Len(hist) <= depth THEN Len(hist) ELSE depth
HalfWidth(hist, depth) == IF Centre(hist, depth) + 1 < depth THEN Centre(hist, depth) + 1 ELSE depth
BufLin(hist, depth, KL, KR) ==
  LET c == Centre(hist, depth)
      m == HalfWidth(hist, depth)
      F[n \in 0..m] == IF n = 0 THEN 0
                       ELSE F[n - 1] + KL[n - 1] * Buffered(hist, depth, c - (n - 1))
                                     + KR[n - 1] * Buffered(hist, depth, (c + 1 + (n - 1)) % (2 * depth))
  IN F[m]
BufSilent(hist, depth) == \A i \in 0..(2 * depth - 1) : Buffered(hist, depth, i) = Silence
=============================================================================
