-------------------------------- MODULE Big --------------------------------
(***************************************************************************)
(* Arbitrary-precision naturals and integers for TLC.                      *)
(*                                                                         *)
(* TLC integers are 32-bit and checked; dasp computes with 64-bit integers *)
(* and IEEE floats.  A natural is a little-endian sequence of 15-bit limbs *)
(* without trailing zero limbs (zero is <<>>).  Limb products stay below   *)
(* 2^30, so no TLC operation overflows.  A signed integer is a record      *)
(* [neg, mag] with mag a natural and neg = FALSE for zero.                 *)
(***************************************************************************)
EXTENDS Naturals, Integers, Sequences

BASE  == 32768
LBITS == 15

Pow2Small(k) == \* 2^k for 0 <= k <= 30
  CASE k = 0 -> 1 [] k = 1 -> 2 [] k = 2 -> 4 [] k = 3 -> 8 [] k = 4 -> 16
    [] k = 5 -> 32 [] k = 6 -> 64 [] k = 7 -> 128 [] k = 8 -> 256 [] k = 9 -> 512
    [] k = 10 -> 1024 [] k = 11 -> 2048 [] k = 12 -> 4096 [] k = 13 -> 8192
    [] k = 14 -> 16384 [] k = 15 -> 32768 [] k = 16 -> 65536 [] k = 17 -> 131072
    [] k = 18 -> 262144 [] k = 19 -> 524288 [] k = 20 -> 1048576 [] k = 21 -> 2097152
    [] k = 22 -> 4194304 [] k = 23 -> 8388608 [] k = 24 -> 16777216
    [] k = 25 -> 33554432 [] k = 26 -> 67108864 [] k = 27 -> 134217728
    [] k = 28 -> 268435456 [] k = 29 -> 536870912 [] k = 30 -> 1073741824

---------------------------------------------------------------------------
(* naturals *)

RECURSIVE BNorm(_)
BNorm(a) == IF Len(a) = 0 THEN a
            ELSE IF a[Len(a)] = 0 THEN BNorm(SubSeq(a, 1, Len(a) - 1)) ELSE a

BZero == << >>
BIsZero(a) == Len(a) = 0

BFromNat(n) == \* 0 <= n < 2^31
  IF n = 0 THEN << >>
  ELSE IF n < BASE THEN << n >>
  ELSE IF n < BASE * BASE THEN << n % BASE, n \div BASE >>
  ELSE << n % BASE, (n \div BASE) % BASE, n \div (BASE * BASE) >>

BFitsNat(a) == Len(a) <= 2 \/ (Len(a) = 3 /\ a[3] < 2)
BToNat(a) == \* only when BFitsNat(a)
  IF Len(a) = 0 THEN 0
  ELSE IF Len(a) = 1 THEN a[1]
  ELSE IF Len(a) = 2 THEN a[1] + BASE * a[2]
  ELSE a[1] + BASE * a[2] + BASE * BASE * a[3]

Limb(a, i) == IF i <= Len(a) THEN a[i] ELSE 0
MaxN(x, y) == IF x >= y THEN x ELSE y
MinN(x, y) == IF x <= y THEN x ELSE y

RECURSIVE BCmpFrom(_, _, _)
BCmpFrom(a, b, i) == \* compare limbs i..1 (same length)
  IF i = 0 THEN 0
  ELSE IF a[i] < b[i] THEN -1
  ELSE IF a[i] > b[i] THEN 1
  ELSE BCmpFrom(a, b, i - 1)

BCmp(a, b) == \* -1, 0, 1 ; arguments normalised
  IF Len(a) < Len(b) THEN -1
  ELSE IF Len(a) > Len(b) THEN 1
  ELSE BCmpFrom(a, b, Len(a))

BLt(a, b) == BCmp(a, b) < 0
BLe(a, b) == BCmp(a, b) <= 0
BEq(a, b) == a = b

RECURSIVE BAddFrom(_, _, _, _, _)
BAddFrom(a, b, i, carry, n) ==
  IF i > n THEN (IF carry = 0 THEN << >> ELSE << carry >>)
  ELSE LET s == Limb(a, i) + Limb(b, i) + carry
       IN << s % BASE >> \o BAddFrom(a, b, i + 1, s \div BASE, n)
BAdd(a, b) == BAddFrom(a, b, 1, 0, MaxN(Len(a), Len(b)))

RECURSIVE BSubFrom(_, _, _, _, _)
BSubFrom(a, b, i, borrow, n) == \* requires a >= b
  IF i > n THEN << >>
  ELSE LET d == Limb(a, i) - Limb(b, i) - borrow
       IN IF d < 0 THEN << d + BASE >> \o BSubFrom(a, b, i + 1, 1, n)
                   ELSE << d >> \o BSubFrom(a, b, i + 1, 0, n)
BSub(a, b) == BNorm(BSubFrom(a, b, 1, 0, Len(a)))

RECURSIVE BMulSmallFrom(_, _, _, _)
BMulSmallFrom(a, k, i, carry) == \* 0 <= k < BASE
  IF i > Len(a) THEN (IF carry = 0 THEN << >> ELSE << carry >>)
  ELSE LET p == a[i] * k + carry
       IN << p % BASE >> \o BMulSmallFrom(a, k, i + 1, p \div BASE)
BMulSmall(a, k) == IF k = 0 THEN << >> ELSE BMulSmallFrom(a, k, 1, 0)

Zeros(n) == [i \in 1..n |-> 0]
BShlLimbs(a, n) == IF Len(a) = 0 THEN a ELSE Zeros(n) \o a
BShrLimbs(a, n) == IF n >= Len(a) THEN << >> ELSE SubSeq(a, n + 1, Len(a))

RECURSIVE BMulFrom(_, _, _)
BMulFrom(a, b, j) == \* sum over limbs j.. of b
  IF j > Len(b) THEN << >>
  ELSE BAdd(BShlLimbs(BMulSmall(a, b[j]), j - 1), BMulFrom(a, b, j + 1))
BMul(a, b) == IF Len(a) = 0 \/ Len(b) = 0 THEN << >>
              ELSE IF Len(a) >= Len(b) THEN BMulFrom(a, b, 1) ELSE BMulFrom(b, a, 1)

BShl(a, k) == \* a * 2^k, k >= 0
  BShlLimbs(BMulSmall(a, Pow2Small(k % LBITS)), k \div LBITS)

RECURSIVE BDivSmallFrom(_, _, _, _)
BDivSmallFrom(a, d, i, rem) == \* quotient limbs i..1 (big-endian walk), 1 <= d <= BASE
  IF i = 0 THEN << >>
  ELSE LET cur == rem * BASE + a[i]
       IN BDivSmallFrom(a, d, i - 1, cur % d) \o << cur \div d >>
BDivSmall(a, d) == BNorm(BDivSmallFrom(a, d, Len(a), 0))
RECURSIVE BModSmallFrom(_, _, _, _)
BModSmallFrom(a, d, i, rem) ==
  IF i = 0 THEN rem ELSE BModSmallFrom(a, d, i - 1, (rem * BASE + a[i]) % d)
BModSmall(a, d) == BModSmallFrom(a, d, Len(a), 0)

BShr(a, k) == \* floor(a / 2^k), k >= 0
  LET t == BShrLimbs(a, k \div LBITS) IN
  IF k % LBITS = 0 THEN t ELSE BDivSmall(t, Pow2Small(k % LBITS))

BLowBits(a, k) == \* a mod 2^k
  LET q == k \div LBITS
      r == k % LBITS
      lo == IF Len(a) <= q THEN a ELSE SubSeq(a, 1, q)
  IN IF Len(a) <= q THEN a
     ELSE IF r = 0 THEN BNorm(lo)
     ELSE BNorm(lo \o << a[q + 1] % Pow2Small(r) >>)

BitLenSmall(n) == \* number of bits of 0 <= n < 2^15
  IF n = 0 THEN 0 ELSE
  IF n < 2 THEN 1 ELSE IF n < 4 THEN 2 ELSE IF n < 8 THEN 3 ELSE IF n < 16 THEN 4 ELSE
  IF n < 32 THEN 5 ELSE IF n < 64 THEN 6 ELSE IF n < 128 THEN 7 ELSE IF n < 256 THEN 8 ELSE
  IF n < 512 THEN 9 ELSE IF n < 1024 THEN 10 ELSE IF n < 2048 THEN 11 ELSE
  IF n < 4096 THEN 12 ELSE IF n < 8192 THEN 13 ELSE IF n < 16384 THEN 14 ELSE 15

BBitLen(a) == IF Len(a) = 0 THEN 0 ELSE (Len(a) - 1) * LBITS + BitLenSmall(a[Len(a)])

BTestBit(a, i) == \* bit i (0-based) set?
  LET q == i \div LBITS IN
  IF q >= Len(a) THEN FALSE ELSE (a[q + 1] \div Pow2Small(i % LBITS)) % 2 = 1

BPow2(k) == BShl(<< 1 >>, k)
BIsEven(a) == Len(a) = 0 \/ a[1] % 2 = 0

IsBig(a) == \* well-formedness of a decoded value
  /\ \A i \in 1..Len(a) : a[i] \in 0..(BASE - 1)
  /\ (Len(a) = 0 \/ a[Len(a)] # 0)

---------------------------------------------------------------------------
(* signed integers *)

SMk(neg, mag) == [neg |-> (neg /\ Len(mag) # 0), mag |-> mag]
SZero == [neg |-> FALSE, mag |-> << >>]
SFromInt(i) == IF i < 0 THEN SMk(TRUE, BFromNat(0 - i)) ELSE SMk(FALSE, BFromNat(i))
SFitsInt(x) == BFitsNat(x.mag)
SToInt(x) == IF x.neg THEN 0 - BToNat(x.mag) ELSE BToNat(x.mag)
SNeg(x) == SMk(~x.neg, x.mag)
SAbs(x) == SMk(FALSE, x.mag)
SIsZero(x) == Len(x.mag) = 0
SSign(x) == IF Len(x.mag) = 0 THEN 0 ELSE IF x.neg THEN -1 ELSE 1

SAdd(x, y) ==
  IF x.neg = y.neg THEN SMk(x.neg, BAdd(x.mag, y.mag))
  ELSE LET c == BCmp(x.mag, y.mag) IN
       IF c = 0 THEN SZero
       ELSE IF c > 0 THEN SMk(x.neg, BSub(x.mag, y.mag))
       ELSE SMk(y.neg, BSub(y.mag, x.mag))
SSub(x, y) == SAdd(x, SNeg(y))
SMul(x, y) == SMk(x.neg # y.neg, BMul(x.mag, y.mag))
SCmp(x, y) ==
  IF x.neg /\ ~y.neg THEN -1
  ELSE IF ~x.neg /\ y.neg THEN 1
  ELSE IF x.neg THEN BCmp(y.mag, x.mag) ELSE BCmp(x.mag, y.mag)
SLt(x, y) == SCmp(x, y) < 0
SLe(x, y) == SCmp(x, y) <= 0
SShl(x, k) == SMk(x.neg, BShl(x.mag, k))
SFloorShr(x, k) == \* floor(x / 2^k)
  IF ~x.neg THEN SMk(FALSE, BShr(x.mag, k))
  ELSE LET q == BShr(x.mag, k) IN
       IF BIsZero(BLowBits(x.mag, k)) THEN SMk(TRUE, q) ELSE SMk(TRUE, BAdd(q, << 1 >>))
STruncShr(x, k) == SMk(x.neg, BShr(x.mag, k))  \* toward zero
SPow2(k) == SMk(FALSE, BPow2(k))
SModPow2(x, k) == \* representative of x mod 2^k in [0, 2^k)
  IF ~x.neg THEN SMk(FALSE, BLowBits(x.mag, k))
  ELSE LET r == BLowBits(x.mag, k) IN
       IF BIsZero(r) THEN SZero ELSE SMk(FALSE, BSub(BPow2(k), r))

(* JSON encoding {"n":0|1,"l":[limbs]} *)
SFromJson(j) == SMk(j.n = 1, j.l)
IsSJson(j) == j.n \in {0, 1} /\ IsBig(j.l) /\ (j.n = 1 => Len(j.l) > 0)
=============================================================================
