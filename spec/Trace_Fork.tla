----------------------------- MODULE Trace_Fork -----------------------------
(* Trace validation for fork branches (C12): accept by layer 1 of Fork.tla. *)
EXTENDS Fork, TLC, Json, IOUtils

Rec == ndJsonDeserialize(IOEnv.TRACE)
VARIABLES l, pos, cap, skip,
          alive,    \* which branches exist (a `drop` event drops one; a re-split brings both back)
          srclen    \* the source ends after srclen frames and continues with equilibrium (0); -1 = never
vars == << l, pos, cap, skip, alive, srclen >>
Ev == Rec[l]
Consume == l <= Len(Rec) /\ l' = l + 1
P0 == [A |-> 0, B |-> 0]

Both == [A |-> TRUE, B |-> TRUE]
ObsOK(o, p, al) == /\ o.ok
                   /\ o.pulls = MaxP(p)                      \* the source was pulled once per distinct frame
                   /\ o.pendA = (IF al.A THEN PPending(p, "A") ELSE -1)
                   /\ o.pendB = (IF al.B THEN PPending(p, "B") ELSE -1)
SrcLenOf(c) == IF "srclen" \in DOMAIN c THEN c.srclen ELSE -1
SrcVal(k) == IF srclen < 0 \/ k <= srclen THEN k ELSE 0    \* source frame k is the number k while the source lasts
AcceptReset == /\ Ev.cfg.cap >= 1 /\ Ev.cfg.start < Ev.cfg.cap
               /\ Ev.r.k = "unit" /\ ObsOK(Ev.o, P0, Both)
X == Ev.a.branch
InAssumption == Ev.ev = "next" => StepAllowed(pos, X, cap)   \* C12 claims nothing once a lead exceeds the capacity
AliveNext == CASE Ev.ev = "resplit" -> Both
               [] Ev.ev = "drop" -> [alive EXCEPT ![X] = FALSE]
               [] OTHER -> alive
AcceptOp ==
  CASE Ev.ev = "next"    -> /\ alive[X]
                            /\ Ev.r.k = "val" /\ Ev.r.v = SrcVal(PFrame(pos, X))   \* in order, none lost / duplicated
                            /\ ObsOK(Ev.o, PNext(pos, X), alive)
    [] Ev.ev = "resplit" -> Ev.r.k = "unit" /\ ObsOK(Ev.o, pos, Both)       \* re-splitting changes nothing
    [] Ev.ev = "drop"    -> alive[X] /\ Ev.r.k = "unit" /\ ObsOK(Ev.o, pos, AliveNext)   \* nor does dropping a branch:
                                                      \* the survivor still gets every frame, in order, from where it was
    [] OTHER -> FALSE
\* C07: branches by reference / Rc never allocate after creation (creating Rc branches allocates once).  The clause
\* is stateless and has no environment assumption: it is judged on every event, also after a branch overran the ring.
HeapOK == (Ev.ev = "resplit" /\ Ev.a.to = "rc") \/ Ev.ev = "drop" \/ Ev.h = << 0, 0, 0 >>   \* (the last Rc branch frees the fork)

TReset == /\ Consume /\ Ev.ev = "reset"
          /\ alive' = Both /\ srclen' = SrcLenOf(Ev.cfg)
          /\ IF AcceptReset THEN pos' = P0 /\ cap' = Ev.cfg.cap /\ skip' = FALSE
             ELSE PrintT(<< "REJECT", l, Ev.ev >>) /\ skip' = TRUE /\ UNCHANGED << pos, cap >>
TOp == /\ Consume /\ Ev.ev # "reset" /\ ~skip /\ UNCHANGED srclen
       /\ IF ~InAssumption THEN /\ skip' = TRUE /\ UNCHANGED << pos, cap, alive >>     \* outside C12: no claim on the frames
                                /\ (IF HeapOK THEN TRUE ELSE PrintT(<< "HEAP", l, Ev.ev >>))
          ELSE IF AcceptOp
            THEN /\ pos' = IF Ev.ev = "next" THEN PNext(pos, X) ELSE pos
                 /\ alive' = AliveNext
                 /\ (IF HeapOK THEN TRUE ELSE PrintT(<< "HEAP", l, Ev.ev >>))
                 /\ UNCHANGED << cap, skip >>
            ELSE PrintT(<< "REJECT", l, Ev.ev >>) /\ skip' = TRUE /\ UNCHANGED << pos, cap, alive >>
TSkip == /\ Consume /\ Ev.ev # "reset" /\ skip /\ UNCHANGED << pos, cap, skip, alive, srclen >>
         /\ (IF HeapOK THEN TRUE ELSE PrintT(<< "HEAP", l, Ev.ev >>))
TraceInit == l = 1 /\ pos = P0 /\ cap = 1 /\ skip = TRUE /\ alive = Both /\ srclen = -1
TraceNext == TReset \/ TOp \/ TSkip
TraceSpec == TraceInit /\ [][TraceNext]_vars
AllConsumed == IF TLCGet("stats").diameter - 1 = Len(Rec) THEN TRUE
               ELSE PrintT(<< "STUCK", TLCGet("stats").diameter, Len(Rec) >>) /\ FALSE
=============================================================================
