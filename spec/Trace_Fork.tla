----------------------------- MODULE Trace_Fork -----------------------------
(* Trace validation for fork branches (C12): accept by layer 1 of Fork.tla. *)
EXTENDS Fork, TLC, Json, IOUtils

Rec == ndJsonDeserialize(IOEnv.TRACE)
VARIABLES l, pos, cap, skip
vars == << l, pos, cap, skip >>
Ev == Rec[l]
Consume == l <= Len(Rec) /\ l' = l + 1
P0 == [A |-> 0, B |-> 0]

ObsOK(o, p) == /\ o.ok
               /\ o.pulls = MaxP(p)                      \* the source was pulled once per distinct frame
               /\ o.pendA = PPending(p, "A") /\ o.pendB = PPending(p, "B")
AcceptReset == /\ Ev.cfg.cap >= 1 /\ Ev.cfg.start < Ev.cfg.cap
               /\ Ev.r.k = "unit" /\ ObsOK(Ev.o, P0)
X == Ev.a.branch
InAssumption == Ev.ev = "next" => StepAllowed(pos, X, cap)   \* C12 claims nothing once a lead exceeds the capacity
AcceptOp ==
  CASE Ev.ev = "next"    -> /\ Ev.r.k = "val" /\ Ev.r.v = PFrame(pos, X)   \* in order, none lost / duplicated
                            /\ ObsOK(Ev.o, PNext(pos, X))
    [] Ev.ev = "resplit" -> Ev.r.k = "unit" /\ ObsOK(Ev.o, pos)             \* re-splitting changes nothing
    [] OTHER -> FALSE
\* C07: branches by reference / Rc never allocate after creation (creating Rc branches allocates once).  The clause
\* is stateless and has no environment assumption: it is judged on every event, also after a branch overran the ring.
HeapOK == (Ev.ev = "resplit" /\ Ev.a.to = "rc") \/ Ev.h = << 0, 0, 0 >>

TReset == /\ Consume /\ Ev.ev = "reset"
          /\ IF AcceptReset THEN pos' = P0 /\ cap' = Ev.cfg.cap /\ skip' = FALSE
             ELSE PrintT(<< "REJECT", l, Ev.ev >>) /\ skip' = TRUE /\ UNCHANGED << pos, cap >>
TOp == /\ Consume /\ Ev.ev # "reset" /\ ~skip
       /\ IF ~InAssumption THEN /\ skip' = TRUE /\ UNCHANGED << pos, cap >>     \* outside C12: no claim on the frames
                                /\ (IF HeapOK THEN TRUE ELSE PrintT(<< "HEAP", l, Ev.ev >>))
          ELSE IF AcceptOp
            THEN /\ pos' = IF Ev.ev = "next" THEN PNext(pos, X) ELSE pos
                 /\ (IF HeapOK THEN TRUE ELSE PrintT(<< "HEAP", l, Ev.ev >>))
                 /\ UNCHANGED << cap, skip >>
            ELSE PrintT(<< "REJECT", l, Ev.ev >>) /\ skip' = TRUE /\ UNCHANGED << pos, cap >>
TSkip == /\ Consume /\ Ev.ev # "reset" /\ skip /\ UNCHANGED << pos, cap, skip >>
         /\ (IF HeapOK THEN TRUE ELSE PrintT(<< "HEAP", l, Ev.ev >>))
TraceInit == l = 1 /\ pos = P0 /\ cap = 1 /\ skip = TRUE
TraceNext == TReset \/ TOp \/ TSkip
TraceSpec == TraceInit /\ [][TraceNext]_vars
AllConsumed == IF TLCGet("stats").diameter - 1 = Len(Rec) THEN TRUE
               ELSE PrintT(<< "STUCK", TLCGet("stats").diameter, Len(Rec) >>) /\ FALSE
=============================================================================
