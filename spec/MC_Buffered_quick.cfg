SPECIFICATION Spec
CONSTANTS
  MaxCap = 3
  SrcLens = {0, 2, 7}
  MaxDelivered = 99
  SeqLen = 3
INVARIANTS StreamIs PullQuantum BufferedOK ExhIff PadLtCap NoPoison Emit
CHECK_DEADLOCK FALSE
