------------------------------- MODULE Nodes -------------------------------
(***************************************************************************)
(* dasp_graph's built-in nodes (property C16): Sum, SumBuffers, Pass,      *)
(* Delay, the `dyn Signal` node, GraphNode; wrappers (&mut N, Box<N>,      *)
(* BoxedNode, BoxedNodeSend, dyn Fn / FnMut, fn pointers) are the identity *)
(* on the node they wrap, so they do not appear in the semantics at all:   *)
(* a descriptor's `wrapper` field is ignored by NodeStep (= "WrapId").      *)
(*                                                                         *)
(* A buffer is a sequence of L small integers (every value the harness     *)
(* uses is an integer of magnitude < 2^24, so f32 arithmetic on it is      *)
(* exact and the integer model predicts the float result bit for bit).     *)
(* `out` / an input = sequence of buffers (one per channel); `ins` =       *)
(* sequence of inputs in the order they are presented to the node.         *)
(*                                                                         *)
(* Node descriptors (records, as they come out of the stimulus JSON):      *)
(*   [kind |-> "sum"] [kind |-> "sumbuf"] [kind |-> "pass"] [kind |-> "hold"] *)
(*   [kind |-> "src", c |-> base]           probe source of the C09 harness *)
(*   [kind |-> "delay", rings |-> <<data..>>, first |-> <<first..>>]        *)
(*   [kind |-> "signal", ch, n, mul, off, modn]                             *)
(*   [kind |-> "graph", nodes |-> <<descriptors>>, nb, init, edges, ins, out]*)
(*                                                                         *)
(* Layer 1 (the property's wording): NodeStep(d, st, ins, out, L).          *)
(* Layer 2 (as coded, loop by loop):  NodeStep2.  Delay instantiates        *)
(* RingBuffer.tla: DPush on the ideal delay line (layer 1), FPush on the    *)
(* [data, first] representation (layer 2).  GraphNode uses Graph.tla:       *)
(* functional evaluation in a topological order (layer 1), every order the *)
(* DFS machine can produce (layer 2).  MC_Nodes checks layer 2 = layer 1.   *)
(***************************************************************************)
EXTENDS Graph, RingBuffer

Min2N(a, b) == IF a <= b THEN a ELSE b
Min3N(a, b, c) == Min2N(a, Min2N(b, c))
ZeroBuf(n) == [i \in 1..n |-> 0]
ConstBuf(n, v) == [i \in 1..n |-> v]
AddInPlace(a, b) == [i \in 1..Len(a) |-> a[i] + b[i]]         \* dasp_slice::add_in_place

RECURSIVE SetSum(_, _)
SetSum(f, S) == IF S = {} THEN 0 ELSE LET x == CHOOSE y \in S : TRUE IN f[x] + SetSum(f, S \ {x})

---------------------------------------------------------------------------
(* layer 1 *)

\* Sum: each output channel = sample-wise sum of that channel over all inputs that have it
SumSem(ins, out) ==
  [c \in 1..Len(out) |->
     LET K == {k \in 1..Len(ins) : Len(ins[k]) >= c}
     IN [i \in 1..Len(out[c]) |-> SetSum([k \in K |-> ins[k][c][i]], K)]]

\* SumBuffers: every output buffer = sum of all buffers of all inputs
SumBufSem(ins, out) ==
  LET P == UNION {{<< k, b >> : b \in 1..Len(ins[k])} : k \in 1..Len(ins)}
  IN [c \in 1..Len(out) |-> [i \in 1..Len(out[c]) |-> SetSum([p \in P |-> ins[p[1]][p[2]][i]], P)]]

\* Pass: the buffers of the first input onto the corresponding outputs; surplus outputs (and, with
\* no input at all, every output) untouched
PassSem(ins, out) ==
  IF Len(ins) = 0 THEN out
  ELSE [c \in 1..Len(out) |-> IF c <= Len(ins[1]) THEN ins[1][c] ELSE out[c]]

\* Delay: channel c is delayed by the length of ring c.  State = one ideal delay line per ring
\* (oldest first); every input sample is pushed, what falls out is the output sample.
RECURSIVE DelayRun(_, _, _)
DelayRun(q, inb, k) ==          \* the first k samples
  IF k = 0 THEN [q |-> q, out |-> << >>]
  ELSE LET r == DelayRun(q, inb, k - 1)
           p == DPush(r.q, inb[k])
       IN [q |-> p.q, out |-> Append(r.out, p.ret)]
DelaySem(st, ins, out) ==
  IF Len(ins) = 0 THEN [st |-> st, out |-> out]
  ELSE LET m == Min3N(Len(st), Len(ins[1]), Len(out))
           R == [c \in 1..m |-> DelayRun(st[c], ins[1][c], Len(out[c]))]
       IN [st  |-> [c \in 1..Len(st)  |-> IF c <= m THEN R[c].q   ELSE st[c]],
           out |-> [c \in 1..Len(out) |-> IF c <= m THEN R[c].out ELSE out[c]]]
\* the same as a law on whole streams: output = (initial ring content, then the input) truncated
DelayLaw(ring0, inStream, outStream) ==
  outStream = SubSeq(ring0 \o inStream, 1, Len(inStream))

\* Signal node: frame i (0-based) of the signal, channel c (1-based); equilibrium once exhausted
SigFrame(d, i, c) == IF i < d.n THEN ((i * d.mul + c * 7 + d.off) % d.modn) - (d.modn \div 2) ELSE 0
SignalSem(d, pos, out, L) ==
  LET m == Min2N(d.ch, Len(out))
  IN [st  |-> pos + L,
      out |-> [c \in 1..Len(out) |-> IF c <= m THEN [i \in 1..L |-> SigFrame(d, pos + i - 1, c)] ELSE out[c]]]

\* probe source of the graph harness: constant base + its own invocation count
SrcSem(d, cnt, out) ==
  [st |-> cnt + 1, out |-> [c \in 1..Len(out) |-> ConstBuf(Len(out[c]), d.c + cnt + 1)]]

InnerGraph(d) == GraphOf(Len(d.nodes), 0..(Len(d.nodes) - 1), d.edges)

RECURSIVE NodeInit(_, _)
NodeInit(d, L) ==
  CASE d.kind = "delay"  -> [c \in 1..Len(d.rings) |-> FAbs([data |-> d.rings[c], first |-> d.first[c]])]
    [] d.kind = "graph"  -> [bufs |-> [v \in 1..Len(d.nodes) |-> [c \in 1..d.nb[v] |-> ConstBuf(L, d.init[v][c])]],
                             sts  |-> [v \in 1..Len(d.nodes) |-> NodeInit(d.nodes[v], L)]]
    [] OTHER -> 0

RECURSIVE NodeStep(_, _, _, _, _), RunOrder(_, _, _, _, _), CopyIn(_, _, _, _, _)

\* GraphNode, step 1: inputs.zip(input_nodes): the buffers of input i onto the buffers of inner node ins[i]
CopyIn(d, bufs, ins, i, m) ==
  IF i > m THEN bufs
  ELSE LET v == d.ins[i] + 1
       IN CopyIn(d, [bufs EXCEPT ![v] = [c \in 1..Len(bufs[v]) |-> IF c <= Len(ins[i]) THEN ins[i][c] ELSE bufs[v][c]]],
                 ins, i + 1, m)
\* invoke the inner nodes of `order` one after the other; s = [bufs, sts]
RunOrder(d, g, s, order, L) ==
  IF order = << >> THEN s
  ELSE LET v  == Head(order)
           iq == LoopInputsCanon(g, v)
           r  == NodeStep(d.nodes[v + 1], s.sts[v + 1], [i \in 1..Len(iq) |-> s.bufs[iq[i] + 1]], s.bufs[v + 1], L)
       IN RunOrder(d, g, [bufs |-> [s.bufs EXCEPT ![v + 1] = r.out], sts |-> [s.sts EXCEPT ![v + 1] = r.st]], Tail(order), L)
\* GraphNode: copy in, process the inner graph up to its output node (C09: the upstream set in
\* topological order -- inner graphs are acyclic and their order-sensitive nodes have at most one
\* input, so the result does not depend on the order chosen), copy the output node's buffers out
GraphSem(d, st, ins, out, L) ==
  LET g   == InnerGraph(d)
      b1  == CopyIn(d, st.bufs, ins, 1, Min2N(Len(ins), Len(d.ins)))
      run == RunOrder(d, g, [bufs |-> b1, sts |-> st.sts], TopoSeq(g, Processed(g, d.out)), L)
      ob  == run.bufs[d.out + 1]
  IN [st |-> run, out |-> [c \in 1..Len(out) |-> IF c <= Len(ob) THEN ob[c] ELSE out[c]]]

NodeStep(d, st, ins, out, L) ==
  CASE d.kind = "sum"    -> [st |-> st, out |-> SumSem(ins, out)]
    [] d.kind = "sumbuf" -> [st |-> st, out |-> SumBufSem(ins, out)]
    [] d.kind = "pass"   -> [st |-> st, out |-> PassSem(ins, out)]
    [] d.kind = "hold"   -> [st |-> st, out |-> out]
    [] d.kind = "src"    -> SrcSem(d, st, out)
    [] d.kind = "delay"  -> DelaySem(st, ins, out)
    [] d.kind = "signal" -> SignalSem(d, st, out, L)
    [] d.kind = "graph"  -> GraphSem(d, st, ins, out, L)

KnownKind(d) == d.kind \in {"sum", "sumbuf", "pass", "hold", "src", "delay", "signal", "graph"}

---------------------------------------------------------------------------
(* layer 2: the loops of dasp_graph/src/node/*.rs *)

\* sum.rs:25-41
RECURSIVE SumChan2(_, _, _, _)
SumChan2(ins, c, acc, k) ==
  IF k > Len(ins) THEN acc
  ELSE SumChan2(ins, c, IF c <= Len(ins[k]) THEN AddInPlace(acc, ins[k][c]) ELSE acc, k + 1)
Sum2(ins, out) == [c \in 1..Len(out) |-> SumChan2(ins, c, ZeroBuf(Len(out[c])), 1)]

\* sum.rs:43-64: accumulate everything into the first output buffer, copy it to the rest
RECURSIVE AddAll2(_, _)
AddAll2(acc, bufs) == IF bufs = << >> THEN acc ELSE AddAll2(AddInPlace(acc, Head(bufs)), Tail(bufs))
RECURSIVE SumBufFirst2(_, _, _)
SumBufFirst2(ins, acc, k) == IF k > Len(ins) THEN acc ELSE SumBufFirst2(ins, AddAll2(acc, ins[k]), k + 1)
SumBuf2(ins, out) ==
  IF Len(out) = 0 THEN out
  ELSE LET first == SumBufFirst2(ins, ZeroBuf(Len(out[1])), 1) IN [c \in 1..Len(out) |-> first]

\* pass.rs:13-23: zip(output, first input's buffers)
Pass2(ins, out) ==
  IF Len(ins) = 0 THEN out
  ELSE LET z == Min2N(Len(out), Len(ins[1])) IN [c \in 1..Len(out) |-> IF c <= z THEN ins[1][c] ELSE out[c]]

\* delay.rs:16-29 over RingBuffer.Fixed's representation f = [data, first]
RECURSIVE DelayRun2(_, _, _)
DelayRun2(f, inb, k) ==
  IF k = 0 THEN [f |-> f, out |-> << >>]
  ELSE LET r == DelayRun2(f, inb, k - 1)
           p == FPush(r.f, inb[k])
       IN [f |-> p.f, out |-> Append(r.out, p.ret)]
Delay2(fs, ins, out) ==
  IF Len(ins) = 0 THEN [st |-> fs, out |-> out]
  ELSE LET z == Min3N(Len(fs), Len(ins[1]), Len(out))          \* rings.zip(input.buffers()).zip(output)
           R == [c \in 1..z |-> DelayRun2(fs[c], ins[1][c], Len(out[c]))]
       IN [st  |-> [c \in 1..Len(fs)  |-> IF c <= z THEN R[c].f   ELSE fs[c]],
           out |-> [c \in 1..Len(out) |-> IF c <= z THEN R[c].out ELSE out[c]]]

\* signal.rs:9-18: LEN times { frame = next(); scatter the first min(CHANNELS, outputs) channels }
RECURSIVE Signal2(_, _, _, _, _)
Signal2(d, pos, out, ix, L) ==
  IF ix > L THEN [st |-> pos, out |-> out]
  ELSE LET channels == Min2N(d.ch, Len(out))
       IN Signal2(d, pos + 1,
                  [c \in 1..Len(out) |-> IF c <= channels THEN [out[c] EXCEPT ![ix] = SigFrame(d, pos, c)] ELSE out[c]],
                  ix + 1, L)

RECURSIVE NodeInit2(_, _)
NodeInit2(d, L) ==
  CASE d.kind = "delay"  -> [c \in 1..Len(d.rings) |-> [data |-> d.rings[c], first |-> d.first[c]]]
    [] d.kind = "graph"  -> [bufs |-> [v \in 1..Len(d.nodes) |-> [c \in 1..d.nb[v] |-> ConstBuf(L, d.init[v][c])]],
                             sts  |-> [v \in 1..Len(d.nodes) |-> NodeInit2(d.nodes[v], L)]]
    [] OTHER -> 0
\* refinement mapping layer-2 state -> layer-1 state
RECURSIVE AbsState(_, _)
AbsState(d, st2) ==
  CASE d.kind = "delay" -> [c \in 1..Len(st2) |-> FAbs(st2[c])]
    [] d.kind = "graph" -> [bufs |-> st2.bufs, sts |-> [v \in 1..Len(d.nodes) |-> AbsState(d.nodes[v], st2.sts[v])]]
    [] OTHER -> st2

RECURSIVE NodeStep2(_, _, _, _, _, _), RunOrder2(_, _, _, _, _, _)
\* `pick` (a number) resolves the traversal's nondeterminism: which member of the set of possible
\* invocation orders is taken (MC_Nodes lets it range over every member)
RECURSIVE NthOf(_, _)
NthOf(S, j) == LET x == CHOOSE y \in S : TRUE IN IF j <= 1 THEN x ELSE NthOf(S \ {x}, j - 1)
PickOrder(S, j) == NthOf(S, ((j - 1) % Cardinality(S)) + 1)
RunOrder2(d, g, s, order, L, pick) ==
  IF order = << >> THEN s
  ELSE LET v  == Head(order)
           iq == LoopInputsCanon(g, v)
           r  == NodeStep2(d.nodes[v + 1], s.sts[v + 1], [i \in 1..Len(iq) |-> s.bufs[iq[i] + 1]], s.bufs[v + 1], L, pick)
       IN RunOrder2(d, g, [bufs |-> [s.bufs EXCEPT ![v + 1] = r.out], sts |-> [s.sts EXCEPT ![v + 1] = r.st]], Tail(order), L, pick)
\* graph.rs:27-58
Graph2(d, st, ins, out, L, pick) ==
  LET g   == InnerGraph(d)
      b1  == CopyIn(d, st.bufs, ins, 1, Min2N(Len(ins), Len(d.ins)))       \* inputs.iter().zip(input_nodes), buffers zipped
      run == RunOrder2(d, g, [bufs |-> b1, sts |-> st.sts], PickOrder(DfsOrders(g, d.out), pick), L, pick)   \* processor.process
      ob  == run.bufs[d.out + 1]
      z   == Min2N(Len(out), Len(ob))                                      \* output.iter_mut().zip(out_node_bufs)
  IN [st |-> run, out |-> [c \in 1..Len(out) |-> IF c <= z THEN ob[c] ELSE out[c]]]

NodeStep2(d, st, ins, out, L, pick) ==
  CASE d.kind = "sum"    -> [st |-> st, out |-> Sum2(ins, out)]
    [] d.kind = "sumbuf" -> [st |-> st, out |-> SumBuf2(ins, out)]
    [] d.kind = "pass"   -> [st |-> st, out |-> Pass2(ins, out)]
    [] d.kind = "hold"   -> [st |-> st, out |-> out]
    [] d.kind = "src"    -> SrcSem(d, st, out)
    [] d.kind = "delay"  -> Delay2(st, ins, out)
    [] d.kind = "signal" -> Signal2(d, st, out, 1, L)
    [] d.kind = "graph"  -> Graph2(d, st, ins, out, L, pick)

---------------------------------------------------------------------------
(* C09's last clause: with an acyclic upstream subgraph, processing in ANY order that respects *)
(* layer 1 yields the functional evaluation of the graph.  Nodes of the graph harness carry    *)
(* nb buffers whose samples are all equal, so a buffer is modelled with L = 1.                 *)
(* desc = [v \in ids |-> descriptor], val = [v |-> sequence of 1-sample buffers], cnt = [v |-> state] *)

\* invoke v with the inputs `iq` (ids, in the order presented)
InvokeNode(desc, val, cnt, v, iq) ==
  LET r == NodeStep(desc[v], cnt[v], [i \in 1..Len(iq) |-> val[iq[i]]], val[v], 1)
  IN [val |-> [val EXCEPT ![v] = r.out], cnt |-> [cnt EXCEPT ![v] = r.st]]
\* functional evaluation (denotational, no traversal, no state threading): the buffers of v after the
\* call = v's function applied to the functionally evaluated buffers of its feeders, each node's own
\* state / previous buffers taken from BEFORE the call; inq[v] = the inputs of v in presentation order.
\* (Memo-free recursion: shared feeders are simply re-evaluated -- same value.)
RECURSIVE FunVal(_, _, _, _, _)
FunVal(desc, val0, cnt0, inq, v) ==
  NodeStep(desc[v], cnt0[v], [i \in 1..Len(inq[v]) |-> FunVal(desc, val0, cnt0, inq, inq[v][i])], val0[v], 1).out
=============================================================================
