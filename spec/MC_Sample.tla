------------------------------ MODULE MC_Sample ------------------------------
(***************************************************************************)
(* Model checking of the sample-format conversions (SampleFormats.tla:     *)
(* C01, C02) and of the custom-width integer types (SampleTypes.tla: C15). *)
(*                                                                         *)
(* The conversions and the type operations are DEFINED by the properties'  *)
(* formulas; what TLC checks here are the COROLLARIES the properties list  *)
(* (losslessness, equilibrium, extremes, monotonicity, range, path         *)
(* independence; float range / exactness / anchors / round trip; closure   *)
(* of the arithmetic), on                                                  *)
(*   * a boundary-structured value set per format (MIN, MAX, 0, +-1,       *)
(*     +-2^k, +-2^k +-1, half-range - 2^k, alternating bits, ...),         *)
(*   * exhaustively on scaled-down widths (integer formats of 2,3,4,6 bits,*)
(*     custom types of 3,4,5 bits) and on the 11-bit types.                *)
(* One state per case: Init holds the source cases (format, value); a step *)
(* chooses the target (and then an intermediate format / second operand).  *)
(* The module also writes the boundary cases as stimuli for the Rust       *)
(* harness (IOEnv.STIM_OUT).  IOEnv.PROP in {C01, C02, C15} restricts the  *)
(* run to one property (default: all three).                               *)
(***************************************************************************)
EXTENDS SampleFormats, SampleTypes, FiniteSets, TLC, Json, IOUtils, SequencesExt

CONSTANT Tier          \* "quick" | "thorough"
VARIABLE kase          \* the case under examination (NOT named c: Big!SAdd has a LET-bound c, and a
                       \* variable of that name makes TLC treat every definition using SAdd as state-level, i.e. uncached)

Thorough == Tier = "thorough"
Props == IF "PROP" \in DOMAIN IOEnv THEN {IOEnv.PROP} ELSE {"C01", "C02", "C15"}
One == SFromInt(1)
Two == SFromInt(2)
Min2(a, b) == IF a <= b THEN a ELSE b
SJson(v) == [n |-> IF v.neg THEN 1 ELSE 0, l |-> v.mag]
\* TLC keeps [x \in S |-> e] as a lambda and re-evaluates e at every application; @@ forces the explicit table
Mat(f) == f @@ << >>

---------------------------------------------------------------------------
(* boundary-structured integer amplitudes of a b-bit format *)
IntWidths == {8, 16, 24, 32, 48, 64}
KSet(b) == IF Thorough THEN 1..(b - 2)
           ELSE {k \in 1..(b - 2) : k <= 2 \/ k >= b - 3 \/ k % 8 \in {0, 7}}
\* ...010101 (n bits): (2^n - 1) / 3 for even n, (2^(n+1) - 1) / 3 for odd n
AltB(n) == SMk(FALSE, BDivSmall(BSub(BPow2(n + (n % 2)), << 1 >>), 3))
AmpSet(b) ==
  LET h == SPow2(b - 1)
      PerK(k) == LET p == SPow2(k)  q == SSub(h, p) IN
                 {p, SAdd(p, One), SSub(p, One), SNeg(p), SNeg(SAdd(p, One)), SNeg(SSub(p, One)),
                  q, SSub(q, One), SNeg(q), SAdd(SNeg(q), One)}
  IN {SFromInt(i) : i \in -3..3}
     \cup {SNeg(h), SAdd(SNeg(h), One), SAdd(SNeg(h), Two), SSub(h, One), SSub(h, Two), SSub(h, SFromInt(3))}
     \cup {AltB(b - 1), SNeg(AltB(b - 1)), SShl(AltB(b - 3), 1), SNeg(SShl(AltB(b - 3), 1))}
     \cup UNION {PerK(k) : k \in KSet(b)}
\* (no sorting anywhere: TLC!SortSeq is an insertion sort, and every worker re-evaluates the cached tables)
AmpSeq == IF Props \cap {"C01", "C02"} # {} THEN Mat([b \in IntWidths |-> SetToSeq(AmpSet(b))]) ELSE << >>
NVals(f) == Len(AmpSeq[Bits(f)])
ValAt(f, i) == FromAmp(f, AmpSeq[Bits(f)][i])

---------------------------------------------------------------------------
(* boundary-structured floats *)
FSuccMag(F, f) == \* the float of next larger magnitude (may be infinity)
  LET n == BAdd(BAdd(BShl(BFromNat(f.e), F.p - 1), f.m), << 1 >>)
  IN [s |-> f.s, e |-> BToNat(BShr(n, F.p - 1)), m |-> BLowBits(n, F.p - 1)]
FPredMag(F, f) == \* the float of next smaller magnitude (f nonzero)
  LET n == BSub(BAdd(BShl(BFromNat(f.e), F.p - 1), f.m), << 1 >>)
  IN [s |-> f.s, e |-> BToNat(BShr(n, F.p - 1)), m |-> BLowBits(n, F.p - 1)]
FNextUp(F, f) == IF FIsZero(f) THEN [s |-> 0, e |-> 0, m |-> << 1 >>]
                 ELSE IF f.s = 0 THEN FSuccMag(F, f) ELSE FPredMag(F, f)

FKs(F) == (IF Thorough THEN 0..(F.p + 12) ELSE {k \in 0..(F.p + 12) : k <= 3 \/ k % 8 \in {0, 7} \/ k \in {F.p - 2, F.p - 1, F.p, F.p + 1}})
          \cup {62, 63, 64, F.bias - 2, F.bias - 1, F.bias, F.bias + F.p - 3, F.bias + F.p - 2}
\* positive dyadics <= 1: 2^-k, 3*2^-k, 1 - 2^-k
FDyadics(F) == {DPow2(0 - k) : k \in FKs(F)}
               \cup {DMk(FALSE, << 3 >>, 0 - k) : k \in {j \in FKs(F) : j >= 2}}
               \cup {DSub(DPow2(0), DPow2(0 - k)) : k \in 1..F.p}
FBase(F) == LET pos == {Rne(F, d) : d \in FDyadics(F)}
                nb  == pos \cup {FSuccMag(F, f) : f \in pos} \cup {FPredMag(F, f) : f \in pos}
            IN nb \cup {FNegF(f) : f \in nb} \cup {FZeroF(0), FZeroF(1)}
FUnitSet(name) == {f \in FBase(FmtOf(name)) : InUnitDomain(FmtOf(name), f)}
FUnitSeq == IF "C02" \in Props THEN Mat([name \in FloatFormats |-> SetToSeq(FUnitSet(name))]) ELSE << >>
\* sources of float -> float: the unit floats, large / tiny magnitudes, and for f64 -> f32 the exact
\* midpoints between adjacent f32 values (ties) with their f64 neighbours
FWide(F) == LET ks == {1, 2, 30, 64, 100, 126, 127, 128, 129, 200, F.bias - 1, F.bias}
                pos == {Rne(F, DPow2(k)) : k \in {k \in ks : k <= F.bias}}
                        \cup {FPredMag(F, Rne(F, DPow2(k))) : k \in {k \in ks : k <= F.bias}}
            IN pos \cup {FNegF(f) : f \in pos}
Ties64 == LET ys == {y \in FBase(F32) \cup FWide(F32) : y.s = 0 /\ FIsFinite(F32, FSuccMag(F32, y))}
              mid(y) == Rne(F64, DScale2(DAdd(Dec(F32, y), Dec(F32, FSuccMag(F32, y))), -1))
              ts == {mid(y) : y \in ys} \cup {Rne(F64, DAdd(Dec(F32, [s |-> 0, e |-> 254, m |-> BSub(BPow2(23), << 1 >>)]), DPow2(103)))}
              nb == ts \cup {FSuccMag(F64, t) : t \in ts} \cup {FPredMag(F64, t) : t \in ts}
          IN nb \cup {FNegF(t) : t \in nb}
FFSet(name) == LET F == FmtOf(name) IN
  {f \in FBase(F) \cup FWide(F) \cup (IF name = "f64" THEN Ties64 ELSE {}) : FIsFinite(F, f)}
FFSeq == IF "C02" \in Props THEN Mat([name \in FloatFormats |-> SetToSeq(FFSet(name))]) ELSE << >>

---------------------------------------------------------------------------
(* boundary values of the custom types *)
TKSet(t) == IF Thorough THEN {k \in 1..(TBits(t) - 1) : TBits(t) = 11 \/ k <= 3 \/ k >= TBits(t) - 4 \/ k % 4 = 0
                                                          \/ k \in {TBits(t) \div 2 - 1, TBits(t) \div 2, TBits(t) \div 2 + 1}}
            ELSE {k \in 1..(TBits(t) - 1) : k <= 1 \/ k >= TBits(t) - 2 \/ k \in {TBits(t) \div 2, (TBits(t) + 1) \div 2}}
TValSet(t) ==
  LET lo == TMin(t)  hi == TMax(t)  eq == TEquil(t)
      PerK(k) == LET p == SPow2(k) IN
                 {p, SAdd(p, One), SSub(p, One), SNeg(p), SNeg(SAdd(p, One)), SSub(hi, p), SAdd(lo, p)}
      all == {SFromInt(i) : i \in -2..3}
             \cup {lo, SAdd(lo, One), SAdd(lo, Two), hi, SSub(hi, One), SSub(hi, Two), SSub(eq, One), eq, SAdd(eq, One)}
             \cup UNION {PerK(k) : k \in TKSet(t)}
  IN {v \in all : TIn(t, v)}
TSeq == IF "C15" \in Props THEN Mat([t \in Types |-> SetToSeq(TValSet(t))]) ELSE << >>
NT(t) == Len(TSeq[t])
\* arguments of `new` / From<backing integer>: around both ends, whole multiples of 2^bits away, the ends of the backing integer
RValSet(t) ==
  LET lo == TMin(t)  hi == TMax(t)  tot == TTotal(t)  rb == TRepBits(t)
      ds == {SFromInt(i) : i \in -3..3}
      bases == {lo, hi, SZero, SAdd(lo, tot), SSub(hi, tot), SSub(lo, tot), SAdd(hi, tot),
                SMul(SFromInt(5), tot), SMul(SFromInt(-7), tot),
                SNeg(SPow2(rb - 1)), SSub(SPow2(rb - 1), One), SPow2(rb - 2), SNeg(SPow2(rb - 2))}
  IN {v \in {SAdd(b, d) : b \in bases, d \in ds} : TRepIn(t, v)}
RSeq == IF "C15" \in Props THEN Mat([t \in Types |-> SetToSeq(RValSet(t))]) ELSE << >>
\* sources of the widening From impls
PrimSources == {"i8", "u8", "i16", "u16", "i32", "u32"}
SrcValSet(u) ==
  IF u \in Types THEN TValSet(u)
  ELSE LET lo == GMin(SrcBits(u), SrcSigned(u))  hi == GMax(SrcBits(u), SrcSigned(u)) IN
       {v \in {SFromInt(i) : i \in -2..2} : SrcIn(u, v)}
       \cup {lo, SAdd(lo, One), hi, SSub(hi, One), SPow2(SrcBits(u) - 2), SSub(SPow2(SrcBits(u) - 1), One)}
WSeq == IF "C15" \in Props THEN Mat([u \in PrimSources \cup Types |-> SetToSeq(SrcValSet(u))]) ELSE << >>

---------------------------------------------------------------------------
(* scaled-down integer formats in native arithmetic: the property's formula once more,     *)
(* exhaustively checkable; FormulaAgree ties it to SampleFormats!ConvII on the real widths *)
KWidths == {2, 3, 4, 6}
HalfK(b) == Pow2Small(b - 1)
MinK(b, sg) == IF sg THEN 0 - HalfK(b) ELSE 0
MaxK(b, sg) == IF sg THEN HalfK(b) - 1 ELSE Pow2Small(b) - 1
EquilK(b, sg) == IF sg THEN 0 ELSE HalfK(b)
AmpK(b, sg, v) == IF sg THEN v ELSE v - HalfK(b)
FromAmpK(b, sg, a) == IF sg THEN a ELSE a + HalfK(b)
ConvK(sb, ss, db, ds, v) ==     \* amplitude * 2^(db - sb), rounded toward negative infinity (TLA+ \div floors)
  LET a == AmpK(sb, ss, v) IN
  FromAmpK(db, ds, IF db >= sb THEN a * Pow2Small(db - sb) ELSE a \div Pow2Small(sb - db))
NamedSmall == {f \in IntFormats : Bits(f) <= 24}
Stride16 == IF Thorough THEN 5 ELSE 97

---------------------------------------------------------------------------
(* the state graph *)
InitI == \E s \in IntFormats : \E i \in 1..NVals(s) :
           kase = [kind |-> "isrc", s |-> s, i |-> i, v |-> ValAt(s, i)]
InitF == \E s \in FloatFormats : \E i \in 1..Len(FUnitSeq[s]) :
           kase = [kind |-> "fsrc", s |-> s, i |-> i, v |-> FUnitSeq[s][i]]
InitFF == \E s \in FloatFormats : \E i \in 1..Len(FFSeq[s]) :
           kase = [kind |-> "ffsrc", s |-> s, i |-> i, v |-> FFSeq[s][i]]
InitK == \E sb \in KWidths : \E ss \in BOOLEAN : \E v \in MinK(sb, ss)..MaxK(sb, ss) :
           kase = [kind |-> "ksrc", sb |-> sb, ss |-> ss, v |-> v]
NVals24 == IF Thorough THEN 4093 ELSE 409
InitN == \E s \in NamedSmall :
           \E v \in (IF Bits(s) = 24
                       THEN {MinK(24, IsSigned(s)) + (16777216 \div NVals24) * k : k \in 0..(NVals24 - 1)}
                            \cup {MaxK(24, IsSigned(s)), EquilK(24, IsSigned(s)), EquilK(24, IsSigned(s)) - 1}
                       ELSE {x \in MinK(Bits(s), IsSigned(s))..MaxK(Bits(s), IsSigned(s)) : Bits(s) = 8 \/ x % Stride16 = 0}) :
           kase = [kind |-> "nsrc", s |-> s, v |-> v]
InitT == \E t \in Types : \E i \in 1..NT(t) : kase = [kind |-> "tsrc", t |-> t, i |-> i, v |-> TSeq[t][i]]
InitR == \E t \in Types : \E i \in 1..Len(RSeq[t]) : kase = [kind |-> "rsrc", t |-> t, i |-> i, v |-> RSeq[t][i]]
InitG == \E b \in {3, 4, 5} : \E sg \in BOOLEAN : \E x \in MinN_(b, sg)..MaxN_(b, sg) :
           kase = [kind |-> "gsrc", b |-> b, sg |-> sg, x |-> x]
InitE == \E t \in {"I11", "U11"} : \E x \in {y \in MinN_(11, TSigned(t))..MaxN_(11, TSigned(t)) :
                                              Thorough \/ y % 16 \in {0, 15}} :
           kase = [kind |-> "esrc", t |-> t, x |-> x]

Init == \/ (Props \cap {"C01", "C02"} # {}) /\ InitI
        \/ "C01" \in Props /\ (InitK \/ InitN)
        \/ "C02" \in Props /\ (InitF \/ InitFF)
        \/ "C15" \in Props /\ (InitT \/ InitR \/ InitG \/ InitE)

\* C01 ------------------------------------------------------------------
StepII  == /\ "C01" \in Props /\ kase.kind = "isrc"
           /\ \E d \in IntFormats \ {kase.s} :
                kase' = [kind |-> "ii", s |-> kase.s, d |-> d, i |-> kase.i, v |-> kase.v, r |-> Conv(kase.s, d, kase.v)]
StepIII == /\ kase.kind = "ii"
           /\ \E m \in IntFormats \ {kase.s, kase.d} :
                /\ Bits(m) >= Min2(Bits(kase.s), Bits(kase.d))
                /\ kase' = [kind |-> "iii", s |-> kase.s, m |-> m, d |-> kase.d, i |-> kase.i, v |-> kase.v, r |-> kase.r,
                         via |-> Conv(m, kase.d, Conv(kase.s, m, kase.v))]
\* to_signed_sample (C01) / to_float_sample (C02): the conversion into the companion format
StepVia == /\ kase.kind = "isrc"
           /\ \E to \in {"signed", "float"} :
                /\ (to = "signed" => "C01" \in Props) /\ (to = "float" => "C02" \in Props)
                /\ LET d == IF to = "signed" THEN SignedOf(kase.s) ELSE FloatOf(kase.s) IN
                   kase' = [kind |-> "via", to |-> to, s |-> kase.s, d |-> d, i |-> kase.i, v |-> kase.v, r |-> Conv(kase.s, d, kase.v)]
StepKK  == /\ kase.kind = "ksrc"
           /\ \E db \in KWidths : \E ds \in BOOLEAN :
                /\ << db, ds >> # << kase.sb, kase.ss >>
                /\ kase' = [kind |-> "kk", sb |-> kase.sb, ss |-> kase.ss, db |-> db, ds |-> ds, v |-> kase.v,
                         r |-> ConvK(kase.sb, kase.ss, db, ds, kase.v)]
StepKKK == /\ kase.kind = "kk"
           /\ \E mb \in KWidths : \E ms \in BOOLEAN :
                /\ << mb, ms >> # << kase.sb, kase.ss >> /\ << mb, ms >> # << kase.db, kase.ds >>
                /\ mb >= Min2(kase.sb, kase.db)
                /\ kase' = [kind |-> "kkk", sb |-> kase.sb, ss |-> kase.ss, mb |-> mb, ms |-> ms, db |-> kase.db, ds |-> kase.ds,
                         v |-> kase.v, r |-> kase.r,
                         via |-> ConvK(mb, ms, kase.db, kase.ds, ConvK(kase.sb, kase.ss, mb, ms, kase.v))]
StepNN  == /\ kase.kind = "nsrc"
           /\ \E d \in NamedSmall \ {kase.s} :
                kase' = [kind |-> "nn", s |-> kase.s, d |-> d, v |-> kase.v,
                      r |-> ConvK(Bits(kase.s), IsSigned(kase.s), Bits(d), IsSigned(d), kase.v),
                      big |-> Conv(kase.s, d, SFromInt(kase.v))]
\* C02 ------------------------------------------------------------------
StepIF  == /\ "C02" \in Props /\ kase.kind = "isrc"
           /\ \E d \in FloatFormats :
                kase' = [kind |-> "if", s |-> kase.s, d |-> d, i |-> kase.i, v |-> kase.v, r |-> Conv(kase.s, d, kase.v)]
StepIFI == /\ kase.kind = "if" /\ InUnitDomain(FmtOf(kase.d), kase.r)
           /\ \E d \in IntFormats :
                /\ Bits(d) >= Bits(kase.s)
                /\ kase' = [kind |-> "ifi", s |-> kase.s, m |-> kase.d, d |-> d, i |-> kase.i, v |-> kase.v, x |-> kase.r,
                         r |-> Conv(kase.d, d, kase.r)]
StepFI  == /\ kase.kind = "fsrc"
           /\ \E d \in IntFormats :
                kase' = [kind |-> "fi", s |-> kase.s, d |-> d, i |-> kase.i, v |-> kase.v, r |-> Conv(kase.s, d, kase.v)]
StepFF  == /\ kase.kind = "ffsrc"
           /\ \E d \in FloatFormats \ {kase.s} :
                kase' = [kind |-> "ff", s |-> kase.s, d |-> d, i |-> kase.i, v |-> kase.v, r |-> Conv(kase.s, d, kase.v)]
\* C15 ------------------------------------------------------------------
StepTOp == /\ kase.kind = "tsrc"
           /\ \E op \in Ops : \E j \in 1..NT(kase.t) : \E dbg \in BOOLEAN :
                /\ HasOp(kase.t, op) /\ (op = "neg" => j = 1)
                /\ kase' = [kind |-> "top", t |-> kase.t, op |-> op, x |-> kase.v, y |-> TSeq[kase.t][j], debug |-> dbg,
                         r |-> Op(kase.t, op, kase.v, TSeq[kase.t][j], dbg)]
StepTCmp == /\ kase.kind = "tsrc"
            /\ \E j \in 1..NT(kase.t) :
                 kase' = [kind |-> "tcmp", t |-> kase.t, x |-> kase.v, y |-> TSeq[kase.t][j], r |-> Cmp(kase.v, TSeq[kase.t][j])]
StepTWiden == /\ kase.kind = "tsrc"
              /\ \E t2 \in Types : /\ kase.t \in WidenSources(t2)
                                   /\ kase' = [kind |-> "twid", t |-> t2, u |-> kase.t, v |-> kase.v, r |-> Widen(t2, kase.t, kase.v)]
StepGOp == /\ kase.kind = "gsrc"
           /\ \E op \in Ops : \E y \in MinN_(kase.b, kase.sg)..MaxN_(kase.b, kase.sg) : \E dbg \in BOOLEAN :
                /\ (op = "neg" => y = 0 /\ kase.sg)
                /\ kase' = [kind |-> "gop", b |-> kase.b, sg |-> kase.sg, op |-> op, x |-> kase.x, y |-> y, debug |-> dbg,
                         r |-> GOp(kase.b, kase.sg, op, SFromInt(kase.x), SFromInt(y), dbg),
                         rn |-> OpN(kase.b, kase.sg, op, kase.x, y, dbg)]
StepEOp == /\ kase.kind = "esrc"
           /\ \E op \in {"add", "sub", "mul"} : \E dbg \in BOOLEAN :
                kase' = [kind |-> "eop", t |-> kase.t, op |-> op, x |-> kase.x, debug |-> dbg]

Next == StepII \/ StepIII \/ StepVia \/ StepKK \/ StepKKK \/ StepNN \/ StepIF \/ StepIFI \/ StepFI \/ StepFF
        \/ StepTOp \/ StepTCmp \/ StepTWiden \/ StepGOp \/ StepEOp
Spec == Init /\ [][Next]_kase

---------------------------------------------------------------------------
(* vacuity guard (instead of -coverage, whose cost model inlines every operator at every call site and needs   *)
(* gigabytes for the Big / Dyadic call graph): each worker reports every kind of case the first time it sees it *)
KindNames == << "via", "isrc", "ii", "iii", "ksrc", "kk", "kkk", "nsrc", "nn", "if", "ifi", "fsrc", "fi", "ffsrc", "ff",
                "tsrc", "top", "tcmp", "twid", "rsrc", "gsrc", "gop", "esrc", "eop" >>
KindIdx(k) == CHOOSE i \in 1..Len(KindNames) : KindNames[i] = k
ASSUME \A i \in 1..Len(KindNames) : TLCSet(i, 0)
Census == LET i == KindIdx(kase.kind) IN
          IF TLCGet(i) = 0 THEN TLCSet(i, 1) /\ PrintT(<< "KIND", kase.kind >>) ELSE TRUE

---------------------------------------------------------------------------
(* C01: corollaries of ConvII over the boundary values *)
\* steps at which order is probed: the next integer and 2^j above, around every shift amount
Steps(f) == {SPow2(j) : j \in {j \in {0, 1, 7, 8, 9, 15, 16, 17, 23, 24, 25, 31, 32, 33, 39, 40, 41, 47, 48, 55, 56, 57, 62} : j <= Bits(f) - 2}}
\* result in range of the target
InRangeII == kase.kind = "ii" => InRange(kase.s, kase.v) /\ InRange(kase.d, kase.r)
\* equilibrium |-> equilibrium
EqToEq == kase.kind = "ii" /\ kase.v = EquilI(kase.s) => kase.r = EquilI(kase.d)
\* MIN |-> MIN; MAX |-> MAX when narrowing, and to the top of the (lossless) image 2^k * MAX-amplitude when
\* widening -- the statement's "matching extreme" cannot mean MAX there (i8 127 -> i16 32512), see notes
ExtToExt == kase.kind = "ii" =>
  /\ (kase.v = MinV(kase.s) => kase.r = MinV(kase.d))
  /\ (kase.v = MaxV(kase.s) => kase.r = IF Bits(kase.d) <= Bits(kase.s) THEN MaxV(kase.d)
                                ELSE SSub(MaxV(kase.d), SSub(SPow2(Bits(kase.d) - Bits(kase.s)), One)))
\* order preserved: against the next integer and against the values 2^j above, for j around every shift amount
Monotone == kase.kind = "ii" =>
  \A st \in Steps(kase.s) :
    LET w == SAdd(kase.v, st) IN
    InRange(kase.s, w) => SLe(kase.r, Conv(kase.s, kase.d, w))
\* widening is lossless (strictly monotone on neighbours) and undone by narrowing back
WidenNarrowId == kase.kind = "ii" /\ Bits(kase.d) >= Bits(kase.s) =>
  /\ Conv(kase.d, kase.s, kase.r) = kase.v
  /\ (kase.v # MaxV(kase.s) /\ Bits(kase.d) > Bits(kase.s) => SLt(kase.r, Conv(kase.s, kase.d, SAdd(kase.v, One))))
\* narrowing floors: the widened-back result is the largest grid point <= v
NarrowFloors == kase.kind = "ii" /\ Bits(kase.d) < Bits(kase.s) =>
  LET back == Conv(kase.d, kase.s, kase.r) IN
  /\ SLe(back, kase.v) /\ SLt(SSub(kase.v, back), SPow2(Bits(kase.s) - Bits(kase.d)))
\* via any intermediate at least as wide as the narrower endpoint = direct
PathIndep == kase.kind = "iii" => kase.via = kase.r

\* the Signed companion holds every sample of the format: to_signed_sample is lossless, keeps the amplitude up to
\* the power-of-two scale, and offsetting by zero (there and back) returns the sample
ViaSigned == kase.kind = "via" /\ kase.to = "signed" =>
  /\ IsSigned(kase.d) /\ ~IsFloat(kase.d) /\ Bits(kase.d) >= Bits(kase.s)
  /\ InRange(kase.d, kase.r)
  /\ kase.r = SShl(Amp(kase.s, kase.v), Bits(kase.d) - Bits(kase.s))
  /\ Conv(kase.d, kase.s, kase.r) = kase.v
  /\ (kase.r = SZero <=> kase.v = EquilI(kase.s))
  /\ AddAmpDefined(kase.s, kase.v, SZero) /\ AddAmp(kase.s, kase.v, SZero) = kase.v
\* the Float companion: to_float_sample is the C02 conversion; scaling by +0.0 gives equilibrium, scaling by 1.0
\* returns the sample whenever the width fits the mantissa
ViaFloat == kase.kind = "via" /\ kase.to = "float" =>
  LET F == FmtOf(kase.d)  one == Rne(F, DFromInt(1)) IN
  /\ IsFloat(kase.d) /\ kase.r = ConvIF(kase.s, kase.d, kase.v)
  /\ MulAmpDefined(kase.s, kase.v, FZeroF(0)) /\ MulAmp(kase.s, kase.v, FZeroF(0)) = EquilI(kase.s)
  /\ (Bits(kase.s) <= F.p => MulAmpDefined(kase.s, kase.v, one) /\ MulAmp(kase.s, kase.v, one) = kase.v)

(* the same corollaries, exhaustively, on the scaled-down formats *)
SmallWidths ==
  /\ (kase.kind = "kk" =>
        /\ MinK(kase.db, kase.ds) <= kase.r /\ kase.r <= MaxK(kase.db, kase.ds)
        /\ (kase.v = EquilK(kase.sb, kase.ss) => kase.r = EquilK(kase.db, kase.ds))
        /\ (kase.v = MinK(kase.sb, kase.ss) => kase.r = MinK(kase.db, kase.ds))
        /\ (kase.v = MaxK(kase.sb, kase.ss) /\ kase.db <= kase.sb => kase.r = MaxK(kase.db, kase.ds))
        /\ (kase.v < MaxK(kase.sb, kase.ss) => kase.r <= ConvK(kase.sb, kase.ss, kase.db, kase.ds, kase.v + 1))
        /\ (kase.db >= kase.sb => ConvK(kase.db, kase.ds, kase.sb, kase.ss, kase.r) = kase.v)
        /\ (kase.db > kase.sb /\ kase.v < MaxK(kase.sb, kase.ss) => kase.r < ConvK(kase.sb, kase.ss, kase.db, kase.ds, kase.v + 1)))
  /\ (kase.kind = "kkk" => kase.via = kase.r)
\* the limb formula of SampleFormats and the native formula are the same function
FormulaAgree == kase.kind = "nn" => kase.big = SFromInt(kase.r)

---------------------------------------------------------------------------
(* C02 *)
FD(name, f) == Dec(FmtOf(name), f)
AmpD(s, v) == DScale2(DFromS(Amp(s, v)), 0 - (Bits(s) - 1))      \* amplitude / 2^(bits-1), exact
I2FRange == kase.kind = "if" => /\ FIsFinite(FmtOf(kase.d), kase.r)
                             /\ DLe(DFromInt(-1), FD(kase.d, kase.r)) /\ DLe(FD(kase.d, kase.r), DFromInt(1))
I2FMono  == kase.kind = "if" =>
  \A st \in Steps(kase.s) :
    LET w == SAdd(kase.v, st) IN
    InRange(kase.s, w) => DLe(FD(kase.d, kase.r), FD(kase.d, Conv(kase.s, kase.d, w)))
\* exact whenever the width fits the mantissa; equilibrium |-> +0.0; MIN |-> -1.0;
\* and (the "only if" half) a width that does not fit rounds MAX up to 1.0
I2FExact == kase.kind = "if" =>
  /\ (Bits(kase.s) <= FmtOf(kase.d).p => DEq(FD(kase.d, kase.r), AmpD(kase.s, kase.v)))
  /\ (kase.v = EquilI(kase.s) => kase.r = FZeroF(0))
  /\ (kase.v = MinV(kase.s) => DEq(FD(kase.d, kase.r), DFromInt(-1)))
  /\ (kase.v = MaxV(kase.s) /\ Bits(kase.s) - 1 > FmtOf(kase.d).p => DEq(FD(kase.d, kase.r), DFromInt(1)))
  /\ (kase.v = MaxV(kase.s) /\ Bits(kase.s) - 1 <= FmtOf(kase.d).p => DLt(FD(kase.d, kase.r), DFromInt(1)))
F2IRange == kase.kind = "fi" => InRange(kase.d, kase.r)
F2IMono  == kase.kind = "fi" =>
  \* against the next float up, and against the float nearest to one target step higher
  /\ LET up == FNextUp(FmtOf(kase.s), kase.v) IN
     (InUnitDomain(FmtOf(kase.s), up) => SLe(kase.r, Conv(kase.s, kase.d, up)))
  /\ LET hi == Rne(FmtOf(kase.s), DAdd(FD(kase.s, kase.v), DPow2(0 - (Bits(kase.d) - 1)))) IN
     (InUnitDomain(FmtOf(kase.s), hi) => SLe(kase.r, Conv(kase.s, kase.d, hi)))
F2IAnchors == kase.kind = "fi" =>
  /\ (FIsZero(kase.v) => kase.r = EquilI(kase.d))                                   \* +0.0 and -0.0
  /\ (DEq(FD(kase.s, kase.v), DFromInt(-1)) => kase.r = MinV(kase.d))
  /\ (kase.v = FPredMag(FmtOf(kase.s), Rne(FmtOf(kase.s), DFromInt(1))) =>             \* the largest float below 1.0
        /\ InRange(kase.d, kase.r)
        /\ (Bits(kase.d) <= FmtOf(kase.s).p => kase.r = MaxV(kase.d)))
  \* truncation toward zero: |x * 2^(bits-1)| - 1 < |amplitude of r| <= |x * 2^(bits-1)|
  /\ LET a == Amp(kase.d, kase.r)  x == DScale2(FD(kase.s, kase.v), Bits(kase.d) - 1) IN
     /\ DLe(DAbs(DFromS(a)), DAbs(x)) /\ DLt(DAbs(x), DAdd(DAbs(DFromS(a)), DFromInt(1)))
     /\ (SIsZero(a) \/ a.neg = x.neg)
\* float -> int inverts int -> float wherever that was exact (and, more generally, lands on the
\* integer conversion for every target at least as wide)
RoundTrip == kase.kind = "ifi" /\ DEq(FD(kase.m, kase.x), AmpD(kase.s, kase.v)) =>
  kase.r = Conv(kase.s, kase.d, kase.v) /\ (kase.d = kase.s => kase.r = kase.v)
\* f32 -> f64 exact (and undone by the way back); f64 -> f32 within half a unit in the last place of the result,
\* order preserving, identity on values f32 can represent
FFExact == kase.kind = "ff" =>
  IF kase.s = "f32"
    THEN DEq(FD("f64", kase.r), FD("f32", kase.v)) /\ Conv("f64", "f32", kase.r) = kase.v
    ELSE /\ (FIsFinite(F32, kase.r) =>
               /\ DLe(DScale2(DAbs(DSub(FD("f64", kase.v), FD("f32", kase.r))), 1), Ulp(F32, kase.r))
               /\ Conv("f64", "f32", Conv("f32", "f64", kase.r)) = kase.r)
         /\ (~FIsFinite(F32, kase.r) => FIsInf(F32, kase.r) /\ kase.r.s = kase.v.s
                                      /\ DLe(DAdd(FD("f32", [s |-> 0, e |-> 254, m |-> BSub(BPow2(23), << 1 >>)]), DPow2(103)),
                                             DAbs(FD("f64", kase.v))))
         /\ LET up == FNextUp(F64, kase.v) IN
            (FIsFinite(F64, up) /\ FIsFinite(F32, kase.r) /\ FIsFinite(F32, Conv("f64", "f32", up)) =>
               DLe(FD("f32", kase.r), FD("f32", Conv("f64", "f32", up))))

---------------------------------------------------------------------------
(* C15 *)
\* add / sub / mul / neg: in range or a panic -- never a value outside [MIN, MAX]; a panic only with debug
\* assertions and only when the exact result is out of range; without them the result is congruent mod 2^bits
Closure == kase.kind = "top" =>
  LET e == Exact(kase.op, kase.x, kase.y) IN
  /\ (kase.r.k = "val" => TIn(kase.t, kase.r.v) /\ GCongruent(TBits(kase.t), kase.r.v, e))
  /\ (kase.r.k = "panic" <=> kase.debug /\ ~TIn(kase.t, e))
  /\ (TIn(kase.t, e) => kase.r = Val(e))
\* From<backing integer> lands in range, congruent, identity on in-range values; new succeeds iff in range
FromInRange == kase.kind = "rsrc" =>
  LET w == FromRep(kase.t, kase.v) IN
  /\ TIn(kase.t, w) /\ GCongruent(TBits(kase.t), w, kase.v)
  /\ (TIn(kase.t, kase.v) => w = kase.v)
  /\ (New(kase.t, kase.v).k = "some" <=> TIn(kase.t, kase.v))
  /\ (New(kase.t, kase.v).k = "some" => New(kase.t, kase.v).v = kase.v)
\* every widening source fits the target, so the value is preserved
WidenId == kase.kind = "twid" => kase.r = kase.v /\ TIn(kase.t, kase.r) /\ SrcIn(kase.u, kase.v)
WidenPrims == \A t \in Types : \A u \in WidenSources(t) : \A i \in 1..Len(WSeq[u]) :
                 TIn(t, Widen(t, u, WSeq[u][i])) /\ Widen(t, u, WSeq[u][i]) = WSeq[u][i]
\* order = numeric order: a total order isomorphic to the integers', compatible with + 1
OrderIso == kase.kind = "tcmp" =>
  /\ kase.r = 0 - Cmp(kase.y, kase.x)
  /\ (kase.r = 0 <=> kase.x = kase.y)
  /\ (kase.r < 0 <=> SLt(kase.x, kase.y))
  /\ (kase.r < 0 => SLe(SAdd(kase.x, One), kase.y))
\* scaled-down types, exhaustively: the limb formulation and the native one agree, closure holds
SmallTypes == kase.kind = "gop" =>
  /\ (kase.r.k = "panic" <=> kase.rn = PanicN)
  /\ (kase.r.k = "val" => kase.r.v = SFromInt(kase.rn) /\ InN(kase.b, kase.sg, kase.rn))
  /\ (kase.r.k = "panic" => kase.debug)
\* the 11-bit types, every second operand: closure in the native formulation, and agreement with the limb one
Eleven == kase.kind = "eop" =>
  LET sg == TSigned(kase.t) IN
  \A y \in MinN_(11, sg)..MaxN_(11, sg) :
    LET rn == OpN(11, sg, kase.op, kase.x, y, kase.debug) IN
    /\ (rn = PanicN \/ InN(11, sg, rn))
    /\ (rn = PanicN <=> kase.debug /\ ~InN(11, sg, ExactN(kase.op, kase.x, y)))
    /\ (rn # PanicN => (rn - ExactN(kase.op, kase.x, y)) % 2048 = 0)
    /\ ((y + kase.x) % 61 = 0 =>
          LET rb == Op(kase.t, kase.op, SFromInt(kase.x), SFromInt(y), kase.debug) IN
          IF rn = PanicN THEN rb.k = "panic" ELSE rb = Val(SFromInt(rn)))

---------------------------------------------------------------------------
(* stimuli for the harness: the boundary cases, one execution per (source, target) *)
Reset(g) == [ev |-> "reset", comp |-> "sample", cfg |-> [grp |-> g]]
ConvEv(s, d, vj) == [ev |-> "conv", a |-> [src |-> s, dst |-> d, v |-> vj]]
Conv2Ev(s, m, d, vj, rt) == [ev |-> "conv2", a |-> [src |-> s, mid |-> m, dst |-> d, v |-> vj, route |-> rt]]
StimC01Pairs == { sd \in IntFormats \X IntFormats : sd[1] # sd[2] }
StimC01Triples == { x \in IntFormats \X IntFormats \X IntFormats : x[2] # x[1] /\ x[2] # x[3] }
StimC01Set ==
  { << Reset("mc " \o sd[1] \o "->" \o sd[2]) >>
       \o [i \in 1..NVals(sd[1]) |-> ConvEv(sd[1], sd[2], SJson(ValAt(sd[1], i)))] : sd \in StimC01Pairs }
  \cup
  { << Reset("mc " \o x[1] \o "->" \o x[2] \o "->" \o x[3]) >>
       \o [k \in 1..(NVals(x[1]) \div 7) |-> Conv2Ev(x[1], x[2], x[3], SJson(ValAt(x[1], 7 * k)), k % 5)]
       : x \in StimC01Triples }
StimC02Set ==
  { << Reset("mc " \o s \o "->" \o d) >> \o [i \in 1..NVals(s) |-> ConvEv(s, d, SJson(ValAt(s, i)))]
       : s \in IntFormats, d \in FloatFormats }
  \cup
  { << Reset("mc " \o s \o "->" \o d) >> \o [i \in 1..Len(FUnitSeq[s]) |-> ConvEv(s, d, FUnitSeq[s][i])]
       : s \in FloatFormats, d \in IntFormats }
  \cup
  { << Reset("mc " \o s \o "->" \o d) >> \o [i \in 1..Len(FFSeq[s]) |-> ConvEv(s, d, FFSeq[s][i])]
       : s \in {"f32"}, d \in {"f64"} }
  \cup
  { << Reset("mc " \o s \o "->" \o d) >> \o [i \in 1..Len(FFSeq[s]) |-> ConvEv(s, d, FFSeq[s][i])]
       : s \in {"f64"}, d \in {"f32"} }
  \cup
  { << Reset("mc " \o s \o "->" \o m \o "->" \o s) >>
       \o [k \in 1..(NVals(s) \div 3) |-> Conv2Ev(s, m, s, SJson(ValAt(s, 3 * k)), k % 5)]
       : s \in IntFormats, m \in FloatFormats }
ViaEv(s, to, vj) == [ev |-> "via", a |-> [src |-> s, to |-> to, v |-> vj]]
AmpEv(s, op, vj, gj) == [ev |-> "amp", a |-> [src |-> s, op |-> op, v |-> vj, g |-> gj]]
SConstEv(f) == [ev |-> "sconst", a |-> [fmt |-> f]]
EqConvEv(s, d) == [ev |-> "eqconv", a |-> [src |-> s, dst |-> d]]
\* gains of add_amp: zero, one step either way, one step of the source format, the ends of the Signed companion
GAdd(s) == LET g == SignedOf(s) IN
           << SZero, One, SNeg(One), SPow2(Bits(g) - Bits(s)), SNeg(SPow2(Bits(g) - Bits(s))), MinV(g), MaxV(g) >>
AddPairs(s) == LET gs == GAdd(s) IN
               SelectSeq([k \in 1..(NVals(s) * 7) |-> << ((k - 1) \div 7) + 1, ((k - 1) % 7) + 1 >>],
                         LAMBDA ig : AddAmpDefined(s, ValAt(s, ig[1]), gs[ig[2]]))
\* gains of mul_amp: +0.0, 1.0, 0.5, -0.5, -1.0 in the Float companion
GMul(s) == LET F == FmtOf(FloatOf(s)) IN
           << FZeroF(0), Rne(F, DFromInt(1)), Rne(F, DPow2(-1)), FNegF(Rne(F, DPow2(-1))), FNegF(Rne(F, DFromInt(1))) >>
MulPairs(s) == LET gs == GMul(s) IN
               SelectSeq([k \in 1..(NVals(s) * 5) |-> << ((k - 1) \div 5) + 1, ((k - 1) % 5) + 1 >>],
                         LAMBDA ig : MulAmpDefined(s, ValAt(s, ig[1]), gs[ig[2]]))
\* (operators with arguments are not cached: bind the filtered pair list and the gain list once per format)
AddExec(s) == LET ap == AddPairs(s)  gs == GAdd(s) IN
  << Reset("mc " \o s \o " add_amp") >>
     \o [k \in 1..Len(ap) |-> AmpEv(s, "add", SJson(ValAt(s, ap[k][1])), SJson(gs[ap[k][2]]))]
MulExec(s) == LET mp == MulPairs(s)  gs == GMul(s) IN
  << Reset("mc " \o s \o " mul_amp") >>
     \o [k \in 1..Len(mp) |-> AmpEv(s, "mul", SJson(ValAt(s, mp[k][1])), gs[mp[k][2]])]
IntFormatSeq == SetToSeq(IntFormats)
FormatSeq == SetToSeq(Formats)
StimC01Extra ==
  { << Reset("mc " \o s \o " to_signed_sample") >> \o [i \in 1..NVals(s) |-> ViaEv(s, "signed", SJson(ValAt(s, i)))] : s \in IntFormats }
  \cup
  { AddExec(s) : s \in IntFormats }
  \cup
  { << Reset("mc const") >> \o [i \in 1..Len(IntFormatSeq) |-> SConstEv(IntFormatSeq[i])] }
  \cup
  { << Reset("mc equilibrium " \o s) >>
       \o SelectSeq([i \in 1..Len(IntFormatSeq) |-> EqConvEv(s, IntFormatSeq[i])], LAMBDA ev : ev.a.dst # s) : s \in IntFormats }
StimC02Extra ==
  { << Reset("mc " \o s \o " to_float_sample") >> \o [i \in 1..NVals(s) |-> ViaEv(s, "float", SJson(ValAt(s, i)))] : s \in IntFormats }
  \cup
  { << Reset("mc " \o s \o " companions") >>
       \o [i \in 1..Len(FFSeq[s]) |-> ViaEv(s, "signed", FFSeq[s][i])] \o [i \in 1..Len(FFSeq[s]) |-> ViaEv(s, "float", FFSeq[s][i])]
       : s \in FloatFormats }
  \cup
  { MulExec(s) : s \in IntFormats }
  \cup
  { << Reset("mc const") >> \o [i \in 1..Len(FormatSeq) |-> SConstEv(FormatSeq[i])] }
  \cup
  { << Reset("mc equilibrium " \o s) >>
       \o SelectSeq([i \in 1..Len(FormatSeq) |-> EqConvEv(s, FormatSeq[i])],
                    LAMBDA ev : ev.a.dst # s /\ (IsFloat(s) \/ IsFloat(ev.a.dst))) : s \in Formats }
TyOpEv(t, op, x, y) == [ev |-> "ty_op", a |-> [ty |-> t, op |-> op, a |-> SJson(x), b |-> SJson(y)]]
WidenPairs == { tu \in Types \X (PrimSources \cup Types) : tu[2] \in WidenSources(tu[1]) }
StimC15Set ==
  { << Reset("mc " \o t \o " " \o op) >>
       \o [k \in 1..(NT(t) * NT(t)) |-> TyOpEv(t, op, TSeq[t][((k - 1) \div NT(t)) + 1], TSeq[t][((k - 1) % NT(t)) + 1])]
       : t \in Types, op \in {"add", "sub", "mul"} }
  \cup
  { << Reset("mc " \o t \o " neg") >> \o [i \in 1..NT(t) |-> TyOpEv(t, "neg", TSeq[t][i], SZero)]
       : t \in {u \in Types : HasOp(u, "neg") /\ u # "I20"} }      \* I20 has no Neg impl at all
  \cup
  { << Reset("mc " \o t \o " new/from") >>
       \o [i \in 1..Len(RSeq[t]) |-> [ev |-> "ty_new", a |-> [ty |-> t, v |-> SJson(RSeq[t][i])]]]
       \o [i \in 1..Len(RSeq[t]) |-> [ev |-> "ty_from", a |-> [ty |-> t, v |-> SJson(RSeq[t][i])]]]
       \o << [ev |-> "ty_const", a |-> [ty |-> t]] >>
       : t \in Types }
  \cup
  { << Reset("mc " \o tu[1] \o " from " \o tu[2]) >>
       \o [i \in 1..Len(WSeq[tu[2]]) |-> [ev |-> "ty_widen", a |-> [ty |-> tu[1], from |-> tu[2], v |-> SJson(WSeq[tu[2]][i])]]]
       : tu \in WidenPairs }
  \cup
  { << Reset("mc " \o t \o " cmp") >>
       \o [k \in 1..(NT(t) * NT(t)) |->
             [ev |-> "ty_cmp", a |-> [ty |-> t, a |-> SJson(TSeq[t][((k - 1) \div NT(t)) + 1]),
                                      b |-> SJson(TSeq[t][((k - 1) % NT(t)) + 1])]]]
       : t \in Types }
Stimuli == (IF "C01" \in Props THEN StimC01Set \cup StimC01Extra ELSE {})
           \cup (IF "C02" \in Props THEN StimC02Set \cup StimC02Extra ELSE {})
           \cup (IF "C15" \in Props THEN StimC15Set ELSE {})
WriteStimuli ==
  IF "STIM_OUT" \in DOMAIN IOEnv
    THEN /\ ndJsonSerialize(IOEnv.STIM_OUT, SetToSeq(Stimuli))
         /\ PrintT(<< "STIMULI", Cardinality(Stimuli) >>)
    ELSE TRUE
ASSUME WriteStimuli
=============================================================================
