------------------------------- MODULE MC_Rms -------------------------------
(***************************************************************************)
(* Exhaustive check of layers 1 and 2 of the RMS model (RmsCore.tla, the   *)
(* definitions Rms.tla instantiates over dyadics): the implementation-     *)
(* shaped running sum over a RingBuffer.Fixed (layer 2) against the        *)
(* last-N-frames window (layer 1) on the exact-arithmetic domain, here     *)
(* with integer arithmetic (inputs in units of 1/4, squares of 1/16).      *)
(*   window lengths 1..MaxWin, one channel, inputs k/4 for k in -2..2,     *)
(*   every history of next / next_squared / current / reset / adaptor      *)
(*   steps of any length (the reachable state set is finite and is         *)
(*   explored completely; depth >= 3N+2 is not needed to close it).        *)
(* Clone: from EVERY reachable state the detector may be cloned            *)
(*   (StepClone); the system then has two instances, each continued on its *)
(*   own (different inputs, reset of one of them) for CloneFuel further    *)
(*   steps with inputs KC.  Every invariant is stated for every instance;  *)
(*   CloneSame / Independent are the clauses about the copy itself.        *)
(* Fmt: rendering a detector with {:?} (StepFmt) is an operation that      *)
(*   changes no instance.                                                  *)
(* Scale: the unit of the inputs is arbitrary -- RmsCore is homogeneous    *)
(*   (squares and sums scale by 4^sc, the clauses are unit-free) --, so    *)
(*   the exploration stands for every value region k/4 * 2^sc; ScaleStim   *)
(*   places the histories in the regions of the float formats (cfg.sc).    *)
(* Also writes the stimuli for the Rust harnesses (IOEnv.STIM_OUT).        *)
(***************************************************************************)
EXTENDS Naturals, Integers, Sequences, FiniteSets, TLC, Json, IOUtils, SequencesExt

CONSTANTS MaxWin,       \* window lengths 1..MaxWin
          CloneFuel     \* steps explored after a clone (over both instances)
K == -2..2              \* inputs k/4
KC == {-1, 2}           \* inputs after a clone
Ch == 1

\* RmsCore over the integers: an input k stands for k/4, a square or a sum s for s/16 (exact)
IAdd(a, b) == a + b
ISub(a, b) == a - b
ISq(a) == a * a
INeg(a) == a < 0
INSTANCE RmsCore WITH Zero <- 0, Add <- IAdd, Sub <- ISub, Sq <- ISq, IsNeg <- INeg

In(k) == k
Frame1(k) == [c \in 1..Ch |-> In(k)]

VARIABLES n,            \* window length of this execution
          ins,          \* the detector instances (1, or 2 after a clone), each
                        \*   [win: layer 1, the last n frames; c1: layer 1 with cached squares / sum (channel 1);
                        \*    l2: layer 2, [rb, sum]]
          last,         \* [op, i, out2, out1, others]: the step that produced this state -- its kind ("root" next/sig_next,
                        \*   "sq" next_squared/..., "cur", "reset", "clone"), the instance it acted on, the outputs of the
                        \*   two layers, and the OTHER instances as they were before the step
          fuel          \* steps left once there are two instances
vars == << n, ins, last, fuel >>

Inst(w, c, s) == [win |-> w, c1 |-> c, l2 |-> s]
Others(i) == [j \in 1..Len(ins) |-> IF j = i THEN << >> ELSE ins[j]]
NoStep == [op |-> "init", i |-> 0, out2 |-> << >>, out1 |-> << >>, others |-> << >>]
Init == /\ n \in 1..MaxWin
        /\ ins = << Inst(L1Init(n, Ch), C1Init(n), L2Init(n, Ch)) >>
        /\ last = NoStep /\ fuel = CloneFuel

L1Out(w, root) == [c \in 1..Ch |-> IF root THEN TrueRms(w, c) ELSE MeanSq(w, c)]

\* a single instance is explored without bound; two instances for CloneFuel steps, with inputs KC
CanStep == Len(ins) = 1 \/ fuel > 0
Burn == fuel' = IF Len(ins) = 1 THEN fuel ELSE fuel - 1
Ks == IF Len(ins) = 1 THEN K ELSE KC
Fed(i, op, k, r) ==    \* outcome of a step of instance i that consumes the frame k/4; r = layer-2 result
  LET x == Frame1(k) w2 == L1Push(ins[i].win, x) IN
  [ins  |-> [ins EXCEPT ![i] = Inst(w2, C1Push(ins[i].c1, x[1]), r.s)],
   last |-> [op |-> op, i |-> i, out2 |-> r.out, out1 |-> L1Out(w2, op = "root"), others |-> Others(i)]]
Take(f) == UNCHANGED n /\ ins' = f.ins /\ last' = f.last /\ Burn
StepNext    == CanStep /\ \E i \in 1..Len(ins), k \in Ks : Take(Fed(i, "root", k, L2Next(ins[i].l2, Frame1(k))))
StepNextSq  == CanStep /\ \E i \in 1..Len(ins), k \in Ks : Take(Fed(i, "sq", k, L2NextSquared(ins[i].l2, Frame1(k))))
\* the adaptor pulls the frame from its source signal
StepSig     == CanStep /\ Len(ins) = 1 /\ \E k \in Ks : LET r == SigNext(ins[1].l2, << Frame1(k) >>) IN
                 r.src = << >> /\ Take(Fed(1, "root", k, r))
StepSigSq   == CanStep /\ Len(ins) = 1 /\ \E k \in Ks : LET r == SigNextSquared(ins[1].l2, << Frame1(k) >>) IN
                 r.src = << >> /\ Take(Fed(1, "sq", k, r))
StepCurrent == CanStep /\ \E i \in 1..Len(ins) :
                 /\ UNCHANGED << n, ins >> /\ Burn
                 /\ last' = [op |-> "cur", i |-> i, out2 |-> L2Current(ins[i].l2).out, out1 |-> L1Out(ins[i].win, TRUE),
                             others |-> Others(i)]
StepReset   == CanStep /\ \E i \in 1..Len(ins) :
                 /\ UNCHANGED n /\ Burn
                 /\ ins' = [ins EXCEPT ![i] = Inst(L1Init(n, Ch), C1Init(n), L2Reset(ins[i].l2).s)]
                 /\ last' = [op |-> "reset", i |-> i, out2 |-> << >>, out1 |-> << >>, others |-> Others(i)]
\* Clone of the detector (or of the adaptor holding it): a second instance, field-by-field copy
StepClone   == /\ Len(ins) = 1 /\ CloneFuel > 0 /\ UNCHANGED << n, fuel >>
               /\ ins' = Append(ins, Inst(L1Clone(ins[1].win), C1Clone(ins[1].c1), L2Clone(ins[1].l2)))
               /\ last' = [op |-> "clone", i |-> 1, out2 |-> << >>, out1 |-> << >>, others |-> << >>]
\* {:?} of an instance (Debug for Rms): an operation of the object that changes nothing
StepFmt     == CanStep /\ \E i \in 1..Len(ins) :
                 /\ UNCHANGED << n, ins >> /\ Burn
                 /\ last' = [op |-> "fmt", i |-> i, out2 |-> << >>, out1 |-> << >>, others |-> Others(i)]
\* no bound on the history length is needed: on the exact domain the reachable state set is finite
\* (window contents x ring rotation), so TLC covers histories of EVERY length (in particular 3N+2)
Next == StepNext \/ StepNextSq \/ StepSig \/ StepSigSq \/ StepCurrent \/ StepReset \/ StepClone \/ StepFmt
Spec == Init /\ [][Next]_vars

---------------------------------------------------------------------------
(* invariants = clauses of C11 on the exact domain, for every instance *)
All(P(_)) == \A i \in 1..Len(ins) : P(ins[i])
RepInv1(s) == RB!FRepOK(s.l2.rb) /\ L2Len(s.l2) = n /\ Len(s.win) = n
RepInv == All(RepInv1)

\* the running sum IS the sum of the squares of the last N frames, and the ring holds those squares
SumIsWindow1(s) ==
  /\ \A c \in 1..Ch : s.l2.sum[c] = SumSq(s.win, c)
  /\ \A i \in 1..n : \A c \in 1..Ch : RB!FAbs(s.l2.rb)[i][c] = ISq(s.win[i][c])
SumIsWindow == All(SumIsWindow1)
\* the cached form used by the trace spec is layer 1
CachedAgrees1(s) ==
  /\ s.c1.sum = SumSq(s.win, 1)
  /\ \A i \in 1..n : s.c1.win[i] = ISq(s.win[i][1])
CachedAgrees == All(CachedAgrees1)
\* every output of layer 2 is the property's value (mean square / its root over exactly n frames)
OutRefines == last.out2 = last.out1
NonNeg1(s) == \A c \in 1..Ch : s.l2.sum[c] >= 0
NonNeg ==
  /\ All(NonNeg1)
  /\ \A c \in DOMAIN last.out2 : last.out2[c].num >= 0 /\ last.out2[c].den = n
\* on the exact domain the clamp never fires: sum + new - evicted is the new window sum, >= 0
ClampIdle1(s) ==
  \A k \in K : \A c \in 1..Ch :
    s.l2.sum[c] + ISq(In(k)) - s.l2.rb.data[s.l2.rb.first + 1][c] >= 0
ClampIdle == All(ClampIdle1)
\* from this state on, layer 2 answers like the detector t (current, and next for every input)
AnswersLike(s, t) ==
  /\ L2Current(s).out = L2Current(t).out
  /\ \A k \in K : L2Next(s, Frame1(k)).out = L2Next(t, Frame1(k)).out
\* reset restores the all-zero state: same outputs as a fresh detector from here on
ResetInit ==
  last.op = "reset" =>
    LET l2 == ins[last.i].l2 IN
    /\ \A c \in 1..Ch : l2.sum[c] = 0
    /\ \A i \in 1..n : \A c \in 1..Ch : RB!FAbs(l2.rb)[i][c] = 0
    /\ AnswersLike(l2, L2Init(n, Ch))
\* a clone is the original at that moment: same window, same sum, same answers from here on
CloneSame ==
  last.op = "clone" =>
    /\ Len(ins) = 2 /\ ins[2].win = ins[1].win /\ ins[2].c1 = ins[1].c1
    /\ RB!FAbs(ins[2].l2.rb) = RB!FAbs(ins[1].l2.rb) /\ ins[2].l2.sum = ins[1].l2.sum
    /\ AnswersLike(ins[2].l2, ins[1].l2)
\* ... and independent of it afterwards: a step changes no instance but its own
Independent == \A j \in 1..Len(last.others) : j # last.i => ins[j] = last.others[j]

---------------------------------------------------------------------------
(* stimuli: for every n, every window content w, every ring rotation j (j junk frames first),   *)
(* a set of continuations; plus one long history per n; through the API and through the adaptor; *)
(* plus CloneStim: a clone at EVERY position of short runs, both copies continued differently.   *)
(* The ring storage handed to Rms::new (Vec, Box<[T]>, &mut [T], [T; n]) is spread over them.    *)
Fmts == << "f32", "f64", "i8", "i16", "i32", "u16" >>
Stores == << "vec", "box", "array", "slice" >>        \* bare detector; the adaptor runs use vec / box
Rot(k, c) == ((k + 2 + c - 1) % 5) - 2                 \* channel c carries a rotated copy of channel 1
Fr(k, ch) == [c \in 1..ch |-> [d |-> << Rot(k, c), 2 >>]]
EvI(e, i, k, ch) == [ev |-> e, a |-> [i |-> i, x |-> Fr(k, ch)]]
Ev0I(e, i) == [ev |-> e, a |-> [i |-> i, z |-> 0]]
Ev(e, k, ch) == EvI(e, 0, k, ch)
Ev0(e) == Ev0I(e, 0)
Clone(e, i, j) == [ev |-> e, a |-> [i |-> i, j |-> j]]
ResetS(nn, f, ch, via, st, src) ==
  [ev |-> "reset", comp |-> "rms", cfg |-> [n |-> nn, fmt |-> f, ch |-> ch, via |-> via, store |-> st, src |-> src]]
Feeds(e, ks, ch) == [i \in 1..Len(ks) |-> Ev(e, ks[i], ch)]
\* continuations after the window has been established; k (derived from the window) picks the values
Tails(ch, k) ==
  { << Ev("next_squared", k, ch), Ev0("current"), Ev0("rms_fmt"), Ev("next", 0 - k, ch) >>,
    << Ev0("rms_reset"), Ev0("current"), Ev("next", k, ch), Ev("next_squared", Rot(k, 3), ch), Ev0("current") >> }
SigTails(ch, k) == { << Ev("sig_next", k, ch), Ev("sig_next_squared", 0 - k, ch), Ev("sig_next", Rot(k, 2), ch) >> }
WSum(w) == LET S[i \in 0..Len(w)] == IF i = 0 THEN 0 ELSE S[i - 1] + w[i] + 2 IN S[Len(w)]
Long(nn, k0) == [i \in 1..(3 * nn + 2) |-> ((k0 + 2 + i * i) % 5) - 2]
BaseStim ==
  UNION { UNION { UNION {
      LET f  == Fmts[((WSum(w) + j) % 6) + 1]
          ch == ((WSum(w) + j) % 2) + 1
          pre == [i \in 1..j |-> 2 - (i % 2) * 4]       \* junk: +-2/4
          kk == ((WSum(w) + 3 * j) % 5) - 2
          st == Stores[((WSum(w) \div 2 + j) % 4) + 1]
      IN { << ResetS(nn, f, ch, "direct", st, "iter") >> \o Feeds("next", pre \o w, ch) \o tl : tl \in Tails(ch, kk) }
         \cup
         { << ResetS(nn, f, ch, "signal", Stores[((WSum(w) + j) % 2) + 1], "iter") >>
              \o Feeds("sig_next", pre \o w, ch) \o tl : tl \in SigTails(ch, kk) }
    : j \in 0..(nn - 1) } : w \in [1..nn -> K] } : nn \in 1..MaxWin }
  \cup
  UNION { { << ResetS(nn, Fmts[((k0 + 2 + nn) % 6) + 1], 1 + (nn % 2), "direct", Stores[((k0 + 2 + nn) % 4) + 1], "iter") >>
              \o Feeds(IF k0 % 2 = 0 THEN "next" ELSE "next_squared", Long(nn, k0), 1 + (nn % 2))
              \o << Ev0("current"), Ev0("rms_reset"), Ev0("current") >> : k0 \in K } : nn \in 1..MaxWin }
\* Clone after m frames, for EVERY m in 0..2n+1 (window empty, partly filled, full, turned over), every start value k0:
\* both copies are continued with different inputs, one of them is reset, and the other must not notice.
\*   bare detector (storages that can be cloned): rms_clone, then the tails below, once resetting the original, once the clone
\*   adaptor over the queue source: sig_clone; later one of the adaptors is taken apart (sig_parts) and goes on as the bare detector
CloneTail(ch, k, a, b) ==      \* a = the instance that is reset, b = the other one
  << EvI("next", b, k, ch), EvI("next_squared", a, 0 - k, ch), Ev0I("current", b), Ev0I("current", a),
     Ev0I("rms_reset", a), EvI("next", a, Rot(k, 2), ch), Ev0I("current", b), EvI("next_squared", b, Rot(k, 3), ch),
     Ev0I("rms_fmt", b), Ev0I("rms_move", b), Ev0I("current", b), Ev0I("rms_fmt", a), Ev0I("current", a) >>
SigCloneTail(ch, k, a, b) ==
  << EvI("sig_next", b, k, ch), EvI("sig_next_squared", a, 0 - k, ch), EvI("sig_next", b, Rot(k, 2), ch),
     Ev0I("sig_move", a), Ev0I("sig_parts", a), Ev0I("rms_fmt", a), Ev0I("current", a), EvI("sig_next_squared", b, Rot(k, 3), ch),
     Ev0I("rms_reset", a), EvI("next", a, k, ch), Clone("rms_clone", a, 2), EvI("next", 2, k, ch), EvI("sig_next", b, 0 - k, ch) >>
CloneStim ==
  UNION { UNION { UNION {
      LET h   == (((k0 + 2) * 31 + m * 7 + nn * 13) * 7919) % 100003     \* mixed, then read as a mixed-radix number
          f   == Fmts[(h % 6) + 1]
          ch  == ((h \div 6) % 2) + 1
          a   == (h \div 12) % 2                                           \* the instance that is reset / taken apart
          kk  == IF k0 = 0 THEN 1 ELSE k0
          pre == SubSeq(Long(nn, k0), 1, m)
      IN { << ResetS(nn, f, ch, "direct", Stores[((h \div 24) % 3) + 1], "iter") >> \o Feeds("next", pre, ch)
             \o << Clone("rms_clone", 0, 1) >> \o CloneTail(ch, kk, a, 1 - a),
           << ResetS(nn, f, ch, "signal", Stores[((h \div 24) % 2) + 1], "gen") >> \o Feeds("sig_next", pre, ch)
             \o << Clone("sig_clone", 0, 1) >> \o SigCloneTail(ch, kk, a, 1 - a) }
    : m \in 0..(2 * nn + 1) } : k0 \in K } : nn \in 1..MaxWin }
\* Value regions of the float formats: the long history of every n placed at scale 2^sc (the driver multiplies every
\* stimulus value by 2^sc, exactly), next / next_squared alternating, then current, reset, a fresh window and current.
\* f64: just below the end of the domain (n x^2 < 2^1022), mean squares above / around f32::MAX (2^128), inside the f32
\* range, below the smallest f32 subnormal (2^-149), squares at the smallest normal f64, subnormal, the smallest
\* subnormal (2^-1074 = (2^-537)^2) and vanishing.  f32: the same landmarks of its own range.
Scales == << << "f64", 508 >>, << "f64", 200 >>, << "f64", 64 >>, << "f64", 40 >>, << "f64", -40 >>, << "f64", -80 >>,
             << "f64", -300 >>, << "f64", -500 >>, << "f64", -515 >>, << "f64", -535 >>, << "f64", -540 >>,
             << "f32", 61 >>, << "f32", 30 >>, << "f32", -30 >>, << "f32", -55 >>, << "f32", -62 >>, << "f32", -70 >>,
             << "f32", -73 >> >>
ResetSc(nn, f, ch, st, sc) ==
  [ev |-> "reset", comp |-> "rms", cfg |-> [n |-> nn, fmt |-> f, ch |-> ch, via |-> "direct", store |-> st, src |-> "iter", sc |-> sc]]
Alt(ks, ch) == [i \in 1..Len(ks) |-> Ev(IF i % 2 = 0 THEN "next" ELSE "next_squared", ks[i], ch)]
ScaleStim ==
  UNION { UNION { { LET ch == 1 + ((nn + k0 + si) % 2) IN
                    << ResetSc(nn, Scales[si][1], ch, Stores[((nn + k0 + si) % 4) + 1], Scales[si][2]) >>
                      \o Alt(Long(nn, k0), ch) \o << Ev0("current"), Ev0("rms_reset"), Ev0("current") >>
                      \o Feeds("next", SubSeq(Long(nn, 0 - k0), 1, nn + 1), ch) \o << Ev0("current") >>
                    : k0 \in {-2, 1} } : si \in 1..Len(Scales) } : nn \in 1..MaxWin }
Stimuli == BaseStim \cup CloneStim \cup ScaleStim
WriteStimuli ==
  IF "STIM_OUT" \in DOMAIN IOEnv
    THEN /\ ndJsonSerialize(IOEnv.STIM_OUT, SetToSeq(Stimuli))
         /\ PrintT(<< "STIMULI", Cardinality(BaseStim), Cardinality(CloneStim), Cardinality(ScaleStim) >>)
    ELSE TRUE
ASSUME WriteStimuli
=============================================================================
