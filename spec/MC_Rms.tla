------------------------------- MODULE MC_Rms -------------------------------
(***************************************************************************)
(* Exhaustive check of layers 1 and 2 of the RMS model (RmsCore.tla, the   *)
(* definitions Rms.tla instantiates over dyadics): the implementation-     *)
(* shaped running sum over a RingBuffer.Fixed (layer 2) against the        *)
(* last-N-frames window (layer 1) on the exact-arithmetic domain, here     *)
(* with integer arithmetic (inputs in units of 1/4, squares of 1/16).      *)
(*   window lengths 1..MaxWin, one channel, inputs k/4 for k in -2..2,       *)
(*   every history of next / next_squared / current / reset / adaptor      *)
(*   steps of any length (the reachable state set is finite and is         *)
(*   explored completely; depth >= 3N+2 is not needed to close it).        *)
(* Also writes the stimuli for the Rust harnesses (IOEnv.STIM_OUT).        *)
(***************************************************************************)
EXTENDS Naturals, Integers, Sequences, FiniteSets, TLC, Json, IOUtils, SequencesExt

CONSTANTS MaxWin        \* window lengths 1..MaxWin
K == -2..2              \* inputs k/4
Ch == 1

\* RmsCore over the integers: an input k stands for k/4, a square or a sum s for s/16 (exact)
IAdd(a, b) == a + b
ISub(a, b) == a - b
ISq(a) == a * a
INeg(a) == a < 0
INSTANCE RmsCore WITH Zero <- 0, Add <- IAdd, Sub <- ISub, Sq <- ISq, IsNeg <- INeg

In(k) == k
Frame1(k) == [c \in 1..Ch |-> In(k)]

VARIABLES n,            \* window length of this execution
          win,          \* layer 1: the last n frames
          c1,           \* layer 1 with cached squares / sum (channel 1)
          l2,           \* layer 2: [rb, sum]
          last          \* [op, out2, out1]: outputs of the step that produced this state
                        \* (op = kind of step: "root" next/sig_next, "sq" next_squared/..., "cur", "reset")
vars == << n, win, c1, l2, last >>

\* integers are canonical: nothing to normalise
NormL2(s) == s
NormC1(s) == s
NormOut(o) == o

NoStep == [op |-> "init", out2 |-> << >>, out1 |-> << >>]
Init == /\ n \in 1..MaxWin
        /\ win = L1Init(n, Ch) /\ c1 = C1Init(n) /\ l2 = L2Init(n, Ch)
        /\ last = NoStep

L1Out(w, root) == [c \in 1..Ch |-> IF root THEN TrueRms(w, c) ELSE MeanSq(w, c)]

Fed(op, k, r) ==       \* outcome of a step that consumes the frame k/4; r = layer-2 result
  LET x == Frame1(k) w2 == L1Push(win, x) IN
  [win |-> w2, c1 |-> NormC1(C1Push(c1, x[1])), l2 |-> NormL2(r.s),
   last |-> [op |-> op, out2 |-> NormOut(r.out), out1 |-> NormOut(L1Out(w2, op = "root"))]]
StepNext    == \E k \in K : LET f == Fed("root", k, L2Next(l2, Frame1(k))) IN
                 UNCHANGED n /\ win' = f.win /\ c1' = f.c1 /\ l2' = f.l2 /\ last' = f.last
StepNextSq  == \E k \in K : LET f == Fed("sq", k, L2NextSquared(l2, Frame1(k))) IN
                 UNCHANGED n /\ win' = f.win /\ c1' = f.c1 /\ l2' = f.l2 /\ last' = f.last
\* the adaptor pulls the frame from its source signal
StepSig     == \E k \in K : LET r == SigNext(l2, << Frame1(k) >>) f == Fed("root", k, r) IN
                 r.src = << >> /\ UNCHANGED n /\ win' = f.win /\ c1' = f.c1 /\ l2' = f.l2 /\ last' = f.last
StepSigSq   == \E k \in K : LET r == SigNextSquared(l2, << Frame1(k) >>) f == Fed("sq", k, r) IN
                 r.src = << >> /\ UNCHANGED n /\ win' = f.win /\ c1' = f.c1 /\ l2' = f.l2 /\ last' = f.last
StepCurrent == /\ UNCHANGED << n, win, c1, l2 >>
               /\ last' = [op |-> "cur", out2 |-> NormOut(L2Current(l2).out), out1 |-> NormOut(L1Out(win, TRUE))]
StepReset   == /\ UNCHANGED n /\ win' = L1Init(n, Ch) /\ c1' = C1Init(n) /\ l2' = NormL2(L2Reset(l2).s)
               /\ last' = [op |-> "reset", out2 |-> << >>, out1 |-> << >>]
\* no bound on the history length is needed: on the exact domain the reachable state set is finite
\* (window contents x ring rotation), so TLC covers histories of EVERY length (in particular 3N+2)
Next == StepNext \/ StepNextSq \/ StepSig \/ StepSigSq \/ StepCurrent \/ StepReset
Spec == Init /\ [][Next]_vars

---------------------------------------------------------------------------
(* invariants = clauses of C11 on the exact domain *)
RepInv == RB!FRepOK(l2.rb) /\ L2Len(l2) = n /\ Len(win) = n

\* the running sum IS the sum of the squares of the last N frames, and the ring holds those squares
SumIsWindow ==
  /\ \A c \in 1..Ch : l2.sum[c] = SumSq(win, c)
  /\ \A i \in 1..n : \A c \in 1..Ch : RB!FAbs(l2.rb)[i][c] = ISq(win[i][c])
\* the cached form used by the trace spec is layer 1
CachedAgrees ==
  /\ c1.sum = SumSq(win, 1)
  /\ \A i \in 1..n : c1.win[i] = ISq(win[i][1])
\* every output of layer 2 is the property's value (mean square / its root over exactly n frames)
OutRefines == last.out2 = last.out1
NonNeg ==
  /\ \A c \in 1..Ch : l2.sum[c] >= 0
  /\ \A c \in DOMAIN last.out2 : last.out2[c].num >= 0 /\ last.out2[c].den = n
\* on the exact domain the clamp never fires: sum + new - evicted is the new window sum, >= 0
ClampIdle ==
  \A k \in K : \A c \in 1..Ch :
    l2.sum[c] + ISq(In(k)) - l2.rb.data[l2.rb.first + 1][c] >= 0
\* reset restores the all-zero state: same outputs as a fresh detector from here on
ResetInit ==
  last.op = "reset" =>
    /\ \A c \in 1..Ch : l2.sum[c] = 0
    /\ \A i \in 1..n : \A c \in 1..Ch : RB!FAbs(l2.rb)[i][c] = 0
    /\ NormOut(L2Current(l2).out) = NormOut(L2Current(L2Init(n, Ch)).out)
    /\ \A k \in K : NormOut(L2Next(l2, Frame1(k)).out) = NormOut(L2Next(L2Init(n, Ch), Frame1(k)).out)

---------------------------------------------------------------------------
(* stimuli: for every n, every window content w, every ring rotation j (j junk frames first),   *)
(* a set of continuations; plus one long history per n; through the API and through the adaptor *)
Fmts == << "f32", "f64", "i8", "i16", "i32", "u16" >>
Rot(k, c) == ((k + 2 + c - 1) % 5) - 2                 \* channel c carries a rotated copy of channel 1
Fr(k, ch) == [c \in 1..ch |-> [d |-> << Rot(k, c), 2 >>]]
Ev(e, k, ch) == [ev |-> e, a |-> [x |-> Fr(k, ch)]]
Ev0(e) == [ev |-> e, a |-> [z |-> 0]]
Reset(nn, f, ch, via) == [ev |-> "reset", comp |-> "rms", cfg |-> [n |-> nn, fmt |-> f, ch |-> ch, via |-> via]]
Feeds(e, ks, ch) == [i \in 1..Len(ks) |-> Ev(e, ks[i], ch)]
\* continuations after the window has been established; k (derived from the window) picks the values
Tails(ch, k) ==
  { << Ev("next_squared", k, ch), Ev0("current"), Ev("next", 0 - k, ch) >>,
    << Ev0("rms_reset"), Ev0("current"), Ev("next", k, ch), Ev("next_squared", Rot(k, 3), ch), Ev0("current") >> }
SigTails(ch, k) == { << Ev("sig_next", k, ch), Ev("sig_next_squared", 0 - k, ch), Ev("sig_next", Rot(k, 2), ch) >> }
WSum(w) == LET S[i \in 0..Len(w)] == IF i = 0 THEN 0 ELSE S[i - 1] + w[i] + 2 IN S[Len(w)]
Long(nn, k0) == [i \in 1..(3 * nn + 2) |-> ((k0 + 2 + i * i) % 5) - 2]
Stimuli ==
  UNION { UNION { UNION {
      LET f  == Fmts[((WSum(w) + j) % 6) + 1]
          ch == ((WSum(w) + j) % 2) + 1
          pre == [i \in 1..j |-> 2 - (i % 2) * 4]       \* junk: +-2/4
          kk == ((WSum(w) + 3 * j) % 5) - 2
      IN { << Reset(nn, f, ch, "direct") >> \o Feeds("next", pre \o w, ch) \o tl : tl \in Tails(ch, kk) }
         \cup
         { << Reset(nn, f, ch, "signal") >> \o Feeds("sig_next", pre \o w, ch) \o tl : tl \in SigTails(ch, kk) }
    : j \in 0..(nn - 1) } : w \in [1..nn -> K] } : nn \in 1..MaxWin }
  \cup
  UNION { { << Reset(nn, Fmts[((k0 + 2 + nn) % 6) + 1], 1 + (nn % 2), "direct") >>
              \o Feeds(IF k0 % 2 = 0 THEN "next" ELSE "next_squared", Long(nn, k0), 1 + (nn % 2))
              \o << Ev0("current"), Ev0("rms_reset"), Ev0("current") >> : k0 \in K } : nn \in 1..MaxWin }
WriteStimuli ==
  IF "STIM_OUT" \in DOMAIN IOEnv
    THEN /\ ndJsonSerialize(IOEnv.STIM_OUT, SetToSeq(Stimuli))
         /\ PrintT(<< "STIMULI", Cardinality(Stimuli) >>)
    ELSE TRUE
ASSUME WriteStimuli
=============================================================================
