----------------------------- MODULE Trace_Sinc -----------------------------
(***************************************************************************)
(* Trace validation for C18: the sinc interpolator (harness/hx_dsp2/src/   *)
(* sinc.rs).  Components:                                                  *)
(*   sinc       direct use: push / interp{x = j/16} / clear; every interp  *)
(*              also reports a twin that was created fresh at the last     *)
(*              clear and fed the same frames since                        *)
(*   sinc_conv  the real Converter at ratio 1 over an instrumented source  *)
(*   sinc_lin   four instances fed a, b, a+b, 2^k a, interpolated at j/16  *)
(* Frame formats f64, f32, i16, i32 (mono / stereo); the i32 frames carry  *)
(* values with more than 24 significant bits, up to full scale on the grid.*)
(* Accepted iff (layer 1 of Sinc.tla, tolerances of the property)          *)
(*   on the grid (x = 0; every converter output) the output is the frame   *)
(*   pushed depth pushes ago, silence before: |out - it| <= 1e-12 * peak   *)
(*   (floats) / <= 2 depth LSB (integers, each tap truncates);             *)
(*   converter: k pulls before the k-th output (k = 0, 1, ...);            *)
(*   every output finite; after clear = a fresh interpolator, bit for bit; *)
(*   constant input, buffer primed, depth >= 4: within 1 % (+ 2 depth LSB);*)
(*   scaling by 2^k exact for floats (2 depth max(1, 2^k) LSB integers),   *)
(*   superposition within 4 depth eps peak (2 depth LSB integers).         *)
(***************************************************************************)
EXTENDS Sinc, SampleFormats, TLC, Json, IOUtils

Rec == ndJsonDeserialize(IOEnv.TRACE)

VARIABLES l, comp, cf, hist, peak, n, skip
vars == << l, comp, cf, hist, peak, n, skip >>
Ev == Rec[l]

Cf0 == [depth |-> 1, fmt |-> "f64", ch |-> 1, k |-> 0, src |-> << >>]
E12 == DMk(FALSE, BMul(BFromNat(1000000), BFromNat(1000000)), 0)
HeapOK == Ev.h = << 0, 0, 0 >>

---------------------------------------------------------------------------
(* samples and frames *)
Flt == IsFloat(cf.fmt)
FF == FmtOf(cf.fmt)
SampOK(x) == IF Flt THEN IsFields(x) /\ FIsFinite(FF, x)                \* finite
             ELSE IsSJson(x) /\ InRange(cf.fmt, SFromJson(x))
VFmt(fmt, x) == IF IsFloat(fmt) THEN Dec(FmtOf(fmt), x) ELSE DFromS(SFromJson(x))  \* exact value (integers: in LSB)
V(x) == VFmt(cf.fmt, x)
FrameOK(f) == Len(f) = cf.ch /\ \A c \in 1..cf.ch : SampOK(f[c])
VF(f) == [c \in 1..cf.ch |-> V(f[c])]
ZeroFrame == [c \in 1..cf.ch |-> DZero]
MaxAbs(p, vf) == LET F[c \in 0..Len(vf)] == IF c = 0 THEN p ELSE DMax(F[c - 1], DAbs(vf[c])) IN F[Len(vf)]

Depth == cf.depth
Lsb(k) == DFromInt(k)
\* on the grid: |out - want| <= 1e-12 peak (floats) / 2 depth LSB (integers)
GridTol(o, w, pk) == LET d == DAbs(DSub(o, w)) IN
                     IF Flt THEN DLe(DMul(d, E12), pk) ELSE DLe(d, Lsb(2 * Depth))
GridFrameOK(f, want, pk) == \A c \in 1..cf.ch : GridTol(V(f[c]), want[c], pk)

\* the last 2 depth pushed frames are one constant frame
Primed == Len(hist) >= 2 * Depth /\ \A i \in (Len(hist) - 2 * Depth + 1)..Len(hist) : hist[i] = hist[Len(hist)]
ConstOK(f) == \A c \in 1..cf.ch :
  LET cv == hist[Len(hist)][c]
      d == DAbs(DSub(V(f[c]), cv))
  IN DLe(DMul(DFromInt(100), d), DAdd(DAbs(cv), IF Flt THEN DZero ELSE Lsb(200 * Depth)))

SrcPeak(c) ==
  LET one(p, f) == LET G[j \in 0..Len(f)] == IF j = 0 THEN p ELSE DMax(G[j - 1], DAbs(VFmt(c.fmt, f[j]))) IN G[Len(f)]
      F[i \in 0..Len(c.src)] == IF i = 0 THEN DZero ELSE one(F[i - 1], c.src[i])
  IN F[Len(c.src)]

---------------------------------------------------------------------------
AcceptReset ==
  LET c == Ev.cfg IN
  /\ Ev.comp \in {"sinc", "sinc_conv", "sinc_lin"} /\ Ev.r.k = "unit" /\ Ev.o.ok
  /\ c.depth >= 1 /\ c.fmt \in {"f64", "f32", "i16", "i32"} /\ c.ch \in 1..2
  /\ (Ev.comp = "sinc_lin" => c.k \in (-8)..8)

AcceptPush == /\ FrameOK(Ev.a.v) /\ Ev.r.k = "unit"
AcceptClear == Ev.r.k = "unit"
AcceptInterp ==
  /\ Ev.a.x \in 0..15 /\ Ev.r.k = "val"
  /\ FrameOK(Ev.r.v.out) /\ FrameOK(Ev.r.v.fresh)                         \* finite
  /\ Ev.r.v.out = Ev.r.v.fresh                                            \* reset = fresh, bit for bit
  /\ (Ev.a.x = 0 => GridFrameOK(Ev.r.v.out, GridOr(hist, Depth, ZeroFrame), peak))
  /\ (Depth >= 4 /\ Primed => ConstOK(Ev.r.v.out))

SrcV == [i \in 1..Len(cf.src) |-> VF(cf.src[i])]
AcceptConv ==
  /\ Ev.r.k = "val" /\ FrameOK(Ev.r.v)
  /\ GridFrameOK(Ev.r.v, ConvOutOr(SrcV, Depth, n, ZeroFrame), peak)     \* output n = source frame n - depth
  /\ Ev.o.pulls = ConvPulled(n)
\* `tail{m}`: the converter consumed through the provided Signal::take(m) on the concrete type: exactly m more
\* outputs n, n+1, ..., the same sequence next() yields, one source frame pulled per output
AcceptTail ==
  /\ Ev.a.m >= 1 /\ Ev.r.k = "items" /\ Len(Ev.r.v) = Ev.a.m
  /\ \A i \in 1..Len(Ev.r.v) :
       /\ FrameOK(Ev.r.v[i])
       /\ GridFrameOK(Ev.r.v[i], ConvOutOr(SrcV, Depth, n + i - 1, ZeroFrame), peak)
  /\ Ev.o.pulls = ConvPulled(n + Ev.a.m - 1)

Eps == DPow2(1 - FF.p)                                                    \* 2^-52 / 2^-23
AcceptLin ==
  LET a == Ev.a
      r == Ev.r.v
      pk == MaxAbs(MaxAbs(MaxAbs(peak, VF(a.va)), VF(a.vb)), VF(a.vab))
      k == cf.k
  IN /\ a.x \in 0..15 /\ Ev.r.k = "val"
     /\ FrameOK(a.va) /\ FrameOK(a.vb) /\ FrameOK(a.vab) /\ FrameOK(a.vka)
     /\ FrameOK(r.oa) /\ FrameOK(r.ob) /\ FrameOK(r.oab) /\ FrameOK(r.oka)   \* finite
     /\ \A c \in 1..cf.ch :
          \* (binding) the third and fourth instance really were fed a + b and 2^k a
          /\ DEq(V(a.vab[c]), DAdd(V(a.va[c]), V(a.vb[c])))
          /\ DEq(V(a.vka[c]), DScale2(V(a.va[c]), k))
          /\ LET sup == DAbs(DSub(V(r.oab[c]), DAdd(V(r.oa[c]), V(r.ob[c]))))
                 scl == DAbs(DSub(V(r.oka[c]), DScale2(V(r.oa[c]), k)))
             IN IF Flt
                  THEN /\ DIsZero(scl)                                   \* power-of-two scaling is exact
                       /\ DLe(sup, DMul(DMul(DFromInt(4 * Depth), Eps), pk))
                  ELSE /\ DLe(sup, Lsb(2 * Depth))
                       /\ DLe(scl, DScale2(Lsb(2 * Depth), IF k > 0 THEN k ELSE 0))

---------------------------------------------------------------------------
Consume == l <= Len(Rec) /\ l' = l + 1
Reject == PrintT(<< "REJECT", l, Ev.ev >>)
HeapNote == IF Ev.r.k = "panic" \/ HeapOK THEN TRUE ELSE PrintT(<< "HEAP", l, Ev.ev >>)
Bad == Reject /\ skip' = TRUE /\ UNCHANGED << comp, cf, hist, peak, n >>

TReset ==
  /\ Consume /\ Ev.ev = "reset"
  /\ IF AcceptReset
       THEN /\ comp' = Ev.comp /\ skip' = FALSE /\ hist' = << >> /\ n' = 0
            /\ cf' = [depth |-> Ev.cfg.depth, fmt |-> Ev.cfg.fmt, ch |-> Ev.cfg.ch,
                      k |-> IF Ev.comp = "sinc_lin" THEN Ev.cfg.k ELSE 0,
                      src |-> IF Ev.comp = "sinc_conv" THEN Ev.cfg.src ELSE << >>]
            \* the converter's peak input amplitude is the peak of its source
            /\ peak' = IF Ev.comp = "sinc_conv" THEN SrcPeak(Ev.cfg) ELSE DZero
       ELSE Reject /\ skip' = TRUE /\ comp' = "none" /\ cf' = Cf0 /\ hist' = << >> /\ peak' = DZero /\ n' = 0


TPush == /\ comp = "sinc" /\ Ev.ev = "push"
         /\ IF AcceptPush
              THEN /\ hist' = Append(hist, VF(Ev.a.v)) /\ peak' = MaxAbs(peak, VF(Ev.a.v))
                   /\ HeapNote /\ UNCHANGED << comp, cf, n, skip >>
              ELSE Bad
TClear == /\ comp = "sinc" /\ Ev.ev = "clear"
          /\ IF AcceptClear
               THEN hist' = << >> /\ peak' = DZero /\ HeapNote /\ UNCHANGED << comp, cf, n, skip >>
               ELSE Bad
TInterp == /\ comp = "sinc" /\ Ev.ev = "interp"
           /\ IF AcceptInterp
                THEN n' = n + 1 /\ HeapNote /\ UNCHANGED << comp, cf, hist, peak, skip >>
                ELSE Bad
TConv == /\ comp = "sinc_conv" /\ Ev.ev = "next"
         /\ IF AcceptConv
              THEN n' = n + 1 /\ HeapNote /\ UNCHANGED << comp, cf, hist, peak, skip >>
              ELSE Bad
\* (the converter is gone afterwards: any further event of the execution is unknown, hence rejected)
TTail == /\ comp = "sinc_conv" /\ Ev.ev = "tail"
         /\ IF AcceptTail
              THEN comp' = "none" /\ n' = n + Ev.a.m /\ HeapNote /\ UNCHANGED << cf, hist, peak, skip >>
              ELSE Bad
TLin == /\ comp = "sinc_lin" /\ Ev.ev = "step"
        /\ IF AcceptLin
             THEN /\ peak' = MaxAbs(MaxAbs(MaxAbs(peak, VF(Ev.a.va)), VF(Ev.a.vb)), VF(Ev.a.vab))
                  /\ n' = n + 1 /\ HeapNote /\ UNCHANGED << comp, cf, hist, skip >>
             ELSE Bad
Known == \/ comp = "sinc" /\ Ev.ev \in {"push", "clear", "interp"}
         \/ comp = "sinc_conv" /\ Ev.ev \in {"next", "tail"}
         \/ comp = "sinc_lin" /\ Ev.ev = "step"
TUnknown == ~Known /\ Bad

TOp == /\ Consume /\ Ev.ev # "reset" /\ ~skip
       /\ (TPush \/ TClear \/ TInterp \/ TConv \/ TTail \/ TLin \/ TUnknown)
TSkip == Consume /\ Ev.ev # "reset" /\ skip /\ UNCHANGED << comp, cf, hist, peak, n, skip >>

TraceInit == l = 1 /\ comp = "none" /\ cf = Cf0 /\ hist = << >> /\ peak = DZero /\ n = 0 /\ skip = TRUE
TraceNext == TReset \/ TOp \/ TSkip
TraceSpec == TraceInit /\ [][TraceNext]_vars

AllConsumed == IF TLCGet("stats").diameter - 1 = Len(Rec) THEN TRUE
               ELSE PrintT(<< "STUCK", TLCGet("stats").diameter, Len(Rec) >>) /\ FALSE
=============================================================================
