----------------------------- MODULE Trace_Sinc -----------------------------
(***************************************************************************)
(* Trace validation for C18: the sinc interpolator (harness/hx_dsp2/src/   *)
(* sinc.rs).  Components:                                                  *)
(*   sinc       direct use: push / interp{x = j/16} / clear; every interp  *)
(*              also reports a twin that was created fresh at the last     *)
(*              clear and fed the same frames since; interpf{xf} = interp  *)
(*              at an exactly given binary64 position (next to the grid)   *)
(*   sinc_conv  the real Converter at ratio 1 over an instrumented source  *)
(*   sinc_lin   four instances fed a, b, a+b, 2^k a, interpolated at j/16  *)
(*              after every push (`step`) and, without pushing, at any     *)
(*              further position (`probe`, `probef` = exact position)      *)
(*   sinc_clin  four real Converters at one ratio num/den (any ratio) over *)
(*              the sources a, b, a+b, 2^k a                               *)
(* Frame formats f64, f32, i8, i16, i32, u8, u16, u32 (mono / stereo); the *)
(* 32-bit frames carry values with more than 24 significant bits, up to    *)
(* full scale on the grid.  Integer samples are read as AMPLITUDES in LSB  *)
(* (distance from the format's equilibrium).                               *)
(* Accepted iff (layer 1 of Sinc.tla, tolerances of the property)          *)
(*   on the grid (x = 0; every ratio-1 converter output) the output is the *)
(*   frame pushed depth pushes ago, silence before:                        *)
(*   |out - it| <= 1e-12 * peak, whatever the format and the depth -- for  *)
(*   the integer formats up to 32 bits that is equality (1e-12 * peak is   *)
(*   less than one LSB);                                                   *)
(*   converter: k pulls before the k-th output (k = 0, 1, ...);            *)
(*   every output finite; after clear = a fresh interpolator, bit for bit; *)
(*   constant input, buffer primed, depth >= 4: within 1 % (+ 2 depth LSB) *)
(*   at every position of [0, 1) - also through a Converter whose last     *)
(*   2 depth pulled frames are one frame, at whatever position its ratio   *)
(*   has accumulated to (sinc_clin);                                       *)
(*   scaling by 2^k exact for floats (2 depth max(1, 2^k) LSB integers),   *)
(*   superposition within 4 depth eps peak (2 depth LSB integers) -- at    *)
(*   every position and whatever the inputs are (runs of exact zeros,      *)
(*   constants, extremes, b = -a: the output is a linear function of the   *)
(*   buffered frames, not of anything else the history may have been).     *)
(***************************************************************************)
EXTENDS Sinc, SampleFormats, TLC, Json, IOUtils

Rec == ndJsonDeserialize(IOEnv.TRACE)

VARIABLES l, comp, cf, hist, peak, n, skip
vars == << l, comp, cf, hist, peak, n, skip >>
Ev == Rec[l]

NoClin == [a |-> << >>, b |-> << >>, ab |-> << >>, ka |-> << >>]
Cf0 == [depth |-> 1, fmt |-> "f64", ch |-> 1, k |-> 0, src |-> << >>, clin |-> NoClin]
E12 == DMk(FALSE, BMul(BFromNat(1000000), BFromNat(1000000)), 0)
HeapOK == Ev.h = << 0, 0, 0 >>

---------------------------------------------------------------------------
(* samples and frames *)
Flt == IsFloat(cf.fmt)
FF == FmtOf(cf.fmt)
SampOK(x) == IF Flt THEN IsFields(x) /\ FIsFinite(FF, x)                \* finite
             ELSE IsSJson(x) /\ InRange(cf.fmt, SFromJson(x))
IntFmts == {"i8", "i16", "i32", "u8", "u16", "u32"}
\* exact value (integers: the amplitude, i.e. the distance from equilibrium, in LSB)
VFmt(fmt, x) == IF IsFloat(fmt) THEN Dec(FmtOf(fmt), x) ELSE DFromS(Amp(fmt, SFromJson(x)))
V(x) == VFmt(cf.fmt, x)
FrameOK(f) == Len(f) = cf.ch /\ \A c \in 1..cf.ch : SampOK(f[c])
VF(f) == [c \in 1..cf.ch |-> V(f[c])]
ZeroFrame == [c \in 1..cf.ch |-> DZero]
MaxAbs(p, vf) == LET F[c \in 0..Len(vf)] == IF c = 0 THEN p ELSE DMax(F[c - 1], DAbs(vf[c])) IN F[Len(vf)]

Depth == cf.depth
Lsb(k) == DFromInt(k)
\* on the grid: |out - want| <= 1e-12 peak -- the property's clause as it stands, for every format (integers: out, want
\* and peak are all in LSB, and 1e-12 peak < 1 LSB: equality) and every depth
GridTol(o, w, pk) == LET d == DAbs(DSub(o, w)) IN DLe(DMul(d, E12), pk)
GridFrameOK(f, want, pk) == \A c \in 1..cf.ch : GridTol(V(f[c]), want[c], pk)

\* the last 2 depth pushed frames are one constant frame
Primed == Len(hist) >= 2 * Depth /\ \A i \in (Len(hist) - 2 * Depth + 1)..Len(hist) : hist[i] = hist[Len(hist)]
ConstOK(f) == \A c \in 1..cf.ch :
  LET cv == hist[Len(hist)][c]
      d == DAbs(DSub(V(f[c]), cv))
  IN DLe(DMul(DFromInt(100), d), DAdd(DAbs(cv), IF Flt THEN DZero ELSE Lsb(200 * Depth)))

SeqPeak(fmt, src, p0) ==
  LET one(p, f) == LET G[j \in 0..Len(f)] == IF j = 0 THEN p ELSE DMax(G[j - 1], DAbs(VFmt(fmt, f[j]))) IN G[Len(f)]
      F[i \in 0..Len(src)] == IF i = 0 THEN p0 ELSE one(F[i - 1], src[i])
  IN F[Len(src)]
SrcPeak(c) == SeqPeak(c.fmt, c.src, DZero)

---------------------------------------------------------------------------
\* a sample / frame of an explicitly given format (the reset line is judged before cf is set)
SampOKF(fmt, x) == IF IsFloat(fmt) THEN IsFields(x) /\ FIsFinite(FmtOf(fmt), x)
                   ELSE IsSJson(x) /\ InRange(fmt, SFromJson(x))
\* sinc_clin: the four sources are finite frames of the format, and the third and fourth really are a + b and 2^k a
ClinSrcOK(c) ==
  /\ c.num >= 1 /\ c.den >= 1 /\ c.ctor \in {"scale", "sample", "hz"}
  /\ Len(c.b) = Len(c.a) /\ Len(c.ab) = Len(c.a) /\ Len(c.ka) = Len(c.a)
  /\ \A i \in 1..Len(c.a) :
       /\ Len(c.a[i]) = c.ch /\ Len(c.b[i]) = c.ch /\ Len(c.ab[i]) = c.ch /\ Len(c.ka[i]) = c.ch
       /\ \A ch \in 1..c.ch :
            /\ SampOKF(c.fmt, c.a[i][ch]) /\ SampOKF(c.fmt, c.b[i][ch])
            /\ SampOKF(c.fmt, c.ab[i][ch]) /\ SampOKF(c.fmt, c.ka[i][ch])
            /\ DEq(VFmt(c.fmt, c.ab[i][ch]), DAdd(VFmt(c.fmt, c.a[i][ch]), VFmt(c.fmt, c.b[i][ch])))
            /\ DEq(VFmt(c.fmt, c.ka[i][ch]), DScale2(VFmt(c.fmt, c.a[i][ch]), c.k))
AcceptReset ==
  LET c == Ev.cfg IN
  /\ Ev.comp \in {"sinc", "sinc_conv", "sinc_lin", "sinc_clin"} /\ Ev.r.k = "unit" /\ Ev.o.ok
  /\ c.depth >= 1 /\ c.fmt \in ({"f64", "f32"} \cup IntFmts) /\ c.ch \in 1..2
  /\ (Ev.comp \in {"sinc_lin", "sinc_clin"} => c.k \in (-8)..8)
  /\ (Ev.comp = "sinc_clin" => ClinSrcOK(c))

AcceptPush == /\ FrameOK(Ev.a.v) /\ Ev.r.k = "unit"
AcceptClear == Ev.r.k = "unit"
AcceptInterp ==
  /\ Ev.a.x \in 0..15 /\ Ev.r.k = "val"
  /\ FrameOK(Ev.r.v.out) /\ FrameOK(Ev.r.v.fresh)                         \* finite
  /\ Ev.r.v.out = Ev.r.v.fresh                                            \* reset = fresh, bit for bit
  /\ (Ev.a.x = 0 => GridFrameOK(Ev.r.v.out, GridOr(hist, Depth, ZeroFrame), peak))
  /\ (Depth >= 4 /\ Primed => ConstOK(Ev.r.v.out))

\* `interpf`: a position given exactly (binary64 fields xf, echoed by the driver): the same clauses at EVERY position
\* of [0, 1), in particular right next to the grid (1 - 2^-k down to the largest double below 1, 2^-k down to the
\* smallest subnormal), where a kernel evaluated through a mathematically equal but cancelling formula goes wrong
DOne == DFromInt(1)
XPos == Dec(F64, Ev.a.xf)
PosOK == /\ IsFields(Ev.a.xf) /\ FIsFinite(F64, Ev.a.xf) /\ DLe(DZero, XPos) /\ DLt(XPos, DOne)      \* the statement's domain
PosClaimOK ==  \* (binding) the echoed position is the one the stimulus names
  CASE Ev.a.kind = "onem" -> Ev.a.k \in 1..53 /\ DEq(XPos, DSub(DOne, DPow2(0 - Ev.a.k)))
    [] Ev.a.kind = "pow"  -> Ev.a.k \in 0..1074 /\ DEq(XPos, DPow2(0 - Ev.a.k))
    [] OTHER -> Ev.a.kind = "bits"
AcceptInterpF ==
  /\ PosOK /\ PosClaimOK /\ Ev.r.k = "val"
  /\ FrameOK(Ev.r.v.out) /\ FrameOK(Ev.r.v.fresh)                         \* finite
  /\ Ev.r.v.out = Ev.r.v.fresh                                            \* reset = fresh, bit for bit
  /\ (DIsZero(XPos) => GridFrameOK(Ev.r.v.out, GridOr(hist, Depth, ZeroFrame), peak))
  /\ (Depth >= 4 /\ Primed => ConstOK(Ev.r.v.out))

SrcV == [i \in 1..Len(cf.src) |-> VF(cf.src[i])]
AcceptConv ==
  /\ Ev.r.k = "val" /\ FrameOK(Ev.r.v)
  /\ GridFrameOK(Ev.r.v, ConvOutOr(SrcV, Depth, n, ZeroFrame), peak)     \* output n = source frame n - depth
  /\ Ev.o.pulls = ConvPulled(n)
\* `tail{m}`: the converter consumed through the provided Signal::take(m) on the concrete type: exactly m more
\* outputs n, n+1, ..., the same sequence next() yields, one source frame pulled per output
AcceptTail ==
  /\ Ev.a.m >= 1 /\ Ev.r.k = "items" /\ Len(Ev.r.v) = Ev.a.m
  /\ \A i \in 1..Len(Ev.r.v) :
       /\ FrameOK(Ev.r.v[i])
       /\ GridFrameOK(Ev.r.v[i], ConvOutOr(SrcV, Depth, n + i - 1, ZeroFrame), peak)
  /\ Ev.o.pulls = ConvPulled(n + Ev.a.m - 1)

Eps == DPow2(1 - FF.p)                                                    \* 2^-52 / 2^-23
\* the four outputs oa, ob, oab, oka of instances fed a, b, a + b, 2^k a at one and the same position (r = the record
\* of the four frames, pk = peak input amplitude so far): finite, scaling and superposition carry over
LinRel(r, pk) ==
  LET k == cf.k IN
  /\ FrameOK(r.oa) /\ FrameOK(r.ob) /\ FrameOK(r.oab) /\ FrameOK(r.oka)      \* finite
  /\ \A c \in 1..cf.ch :
       LET sup == DAbs(DSub(V(r.oab[c]), DAdd(V(r.oa[c]), V(r.ob[c]))))
           scl == DAbs(DSub(V(r.oka[c]), DScale2(V(r.oa[c]), k)))
       IN IF Flt
            THEN /\ DIsZero(scl)                                         \* power-of-two scaling is exact
                 /\ DLe(sup, DMul(DMul(DFromInt(4 * Depth), Eps), pk))
            ELSE /\ DLe(sup, Lsb(2 * Depth))
                 /\ DLe(scl, DScale2(Lsb(2 * Depth), IF k > 0 THEN k ELSE 0))
AcceptLin ==
  LET a == Ev.a
      pk == MaxAbs(MaxAbs(MaxAbs(peak, VF(a.va)), VF(a.vb)), VF(a.vab))
      k == cf.k
  IN /\ a.x \in 0..15 /\ Ev.r.k = "val"
     /\ FrameOK(a.va) /\ FrameOK(a.vb) /\ FrameOK(a.vab) /\ FrameOK(a.vka)
     /\ \A c \in 1..cf.ch :
          \* (binding) the third and fourth instance really were fed a + b and 2^k a
          /\ DEq(V(a.vab[c]), DAdd(V(a.va[c]), V(a.vb[c])))
          /\ DEq(V(a.vka[c]), DScale2(V(a.va[c]), k))
     /\ LinRel(Ev.r.v, pk)
\* `probe{x}`: the four instances interpolated at x = j/16 without being fed: the same relations at every position of
\* every buffer content (interpolate is a function of the buffered frames and x)
AcceptProbe == /\ Ev.a.x \in 0..15 /\ Ev.r.k = "val" /\ LinRel(Ev.r.v, peak)
AcceptProbeF == /\ PosOK /\ Ev.r.k = "val" /\ LinRel(Ev.r.v, peak)
\* sinc_clin, constant clause: a converter whose last 2 depth pulled source frames are one and the same frame c holds a
\* primed constant buffer - whatever position its accumulated phase has reached (ratios like 1/10, 7/10, 1/7 reach
\* positions a few ulp below 1, 11/10 or 1/9 a few ulp above 0, by themselves): its output is c to within 1 %
\* (frames past the end of the source are equilibrium, as the driver's source yields them)
ClinSrcAt(src, i) == IF i <= Len(src) THEN VF(src[i]) ELSE ZeroFrame
ClinConstOK(src, outf, p) ==
  (Depth >= 4 /\ p >= 2 * Depth /\ \A i \in (p - 2 * Depth + 1)..p : ClinSrcAt(src, i) = ClinSrcAt(src, p)) =>
     \A c \in 1..cf.ch :
        LET cv == ClinSrcAt(src, p)[c]
            d == DAbs(DSub(V(outf[c]), cv))
        IN DLe(DMul(DFromInt(100), d), DAdd(DAbs(cv), IF Flt THEN DZero ELSE Lsb(200 * Depth)))
\* sinc_clin `next`: the four converters (same ratio) have pulled the same number of source frames -- the schedule
\* does not depend on the values -- and their frames are related as above (peak = the peak of the sources)
AcceptCLin ==
  /\ Ev.r.k = "val" /\ Len(Ev.o.pulls) = 4
  /\ \A i \in 2..4 : Ev.o.pulls[i] = Ev.o.pulls[1]
  /\ Ev.o.pulls[1] >= n                                                  \* (n = pulls so far) never decreases
  /\ LinRel(Ev.r.v, peak)
  /\ ClinConstOK(cf.clin.a, Ev.r.v.oa, Ev.o.pulls[1]) /\ ClinConstOK(cf.clin.b, Ev.r.v.ob, Ev.o.pulls[1])
  /\ ClinConstOK(cf.clin.ab, Ev.r.v.oab, Ev.o.pulls[1]) /\ ClinConstOK(cf.clin.ka, Ev.r.v.oka, Ev.o.pulls[1])

---------------------------------------------------------------------------
Consume == l <= Len(Rec) /\ l' = l + 1
Reject == PrintT(<< "REJECT", l, Ev.ev >>)
HeapNote == IF Ev.r.k = "panic" \/ HeapOK THEN TRUE ELSE PrintT(<< "HEAP", l, Ev.ev >>)
Bad == Reject /\ skip' = TRUE /\ UNCHANGED << comp, cf, hist, peak, n >>

TReset ==
  /\ Consume /\ Ev.ev = "reset"
  /\ IF AcceptReset
       THEN /\ comp' = Ev.comp /\ skip' = FALSE /\ hist' = << >> /\ n' = 0
            /\ cf' = [depth |-> Ev.cfg.depth, fmt |-> Ev.cfg.fmt, ch |-> Ev.cfg.ch,
                      k |-> IF Ev.comp \in {"sinc_lin", "sinc_clin"} THEN Ev.cfg.k ELSE 0,
                      src |-> IF Ev.comp = "sinc_conv" THEN Ev.cfg.src ELSE << >>,
                      clin |-> IF Ev.comp = "sinc_clin"
                                 THEN [a |-> Ev.cfg.a, b |-> Ev.cfg.b, ab |-> Ev.cfg.ab, ka |-> Ev.cfg.ka] ELSE NoClin]
            \* the converter's peak input amplitude is the peak of its source
            /\ peak' = IF Ev.comp = "sinc_conv" THEN SrcPeak(Ev.cfg)
                       ELSE IF Ev.comp = "sinc_clin"
                         THEN SeqPeak(Ev.cfg.fmt, Ev.cfg.ab, SeqPeak(Ev.cfg.fmt, Ev.cfg.b, SeqPeak(Ev.cfg.fmt, Ev.cfg.a, DZero)))
                       ELSE DZero
       ELSE Reject /\ skip' = TRUE /\ comp' = "none" /\ cf' = Cf0 /\ hist' = << >> /\ peak' = DZero /\ n' = 0


TPush == /\ comp = "sinc" /\ Ev.ev = "push"
         /\ IF AcceptPush
              THEN /\ hist' = Append(hist, VF(Ev.a.v)) /\ peak' = MaxAbs(peak, VF(Ev.a.v))
                   /\ HeapNote /\ UNCHANGED << comp, cf, n, skip >>
              ELSE Bad
TClear == /\ comp = "sinc" /\ Ev.ev = "clear"
          /\ IF AcceptClear
               THEN hist' = << >> /\ peak' = DZero /\ HeapNote /\ UNCHANGED << comp, cf, n, skip >>
               ELSE Bad
TInterp == /\ comp = "sinc" /\ Ev.ev = "interp"
           /\ IF AcceptInterp
                THEN n' = n + 1 /\ HeapNote /\ UNCHANGED << comp, cf, hist, peak, skip >>
                ELSE Bad
TInterpF == /\ comp = "sinc" /\ Ev.ev = "interpf"
            /\ IF AcceptInterpF
                 THEN n' = n + 1 /\ HeapNote /\ UNCHANGED << comp, cf, hist, peak, skip >>
                 ELSE Bad
TProbeF == /\ comp = "sinc_lin" /\ Ev.ev = "probef"
           /\ IF AcceptProbeF
                THEN n' = n + 1 /\ HeapNote /\ UNCHANGED << comp, cf, hist, peak, skip >>
                ELSE Bad
TConv == /\ comp = "sinc_conv" /\ Ev.ev = "next"
         /\ IF AcceptConv
              THEN n' = n + 1 /\ HeapNote /\ UNCHANGED << comp, cf, hist, peak, skip >>
              ELSE Bad
\* (the converter is gone afterwards: any further event of the execution is unknown, hence rejected)
TTail == /\ comp = "sinc_conv" /\ Ev.ev = "tail"
         /\ IF AcceptTail
              THEN comp' = "none" /\ n' = n + Ev.a.m /\ HeapNote /\ UNCHANGED << cf, hist, peak, skip >>
              ELSE Bad
TLin == /\ comp = "sinc_lin" /\ Ev.ev = "step"
        /\ IF AcceptLin
             THEN /\ peak' = MaxAbs(MaxAbs(MaxAbs(peak, VF(Ev.a.va)), VF(Ev.a.vb)), VF(Ev.a.vab))
                  /\ n' = n + 1 /\ HeapNote /\ UNCHANGED << comp, cf, hist, skip >>
             ELSE Bad
TProbe == /\ comp = "sinc_lin" /\ Ev.ev = "probe"
          /\ IF AcceptProbe
               THEN n' = n + 1 /\ HeapNote /\ UNCHANGED << comp, cf, hist, peak, skip >>
               ELSE Bad
TCLin == /\ comp = "sinc_clin" /\ Ev.ev = "next"
         /\ IF AcceptCLin
              THEN n' = Ev.o.pulls[1] /\ HeapNote /\ UNCHANGED << comp, cf, hist, peak, skip >>
              ELSE Bad
Known == \/ comp = "sinc" /\ Ev.ev \in {"push", "clear", "interp", "interpf"}
         \/ comp = "sinc_conv" /\ Ev.ev \in {"next", "tail"}
         \/ comp = "sinc_lin" /\ Ev.ev \in {"step", "probe", "probef"}
         \/ comp = "sinc_clin" /\ Ev.ev = "next"
TUnknown == ~Known /\ Bad

TOp == /\ Consume /\ Ev.ev # "reset" /\ ~skip
       /\ (TPush \/ TClear \/ TInterp \/ TInterpF \/ TProbeF \/ TConv \/ TTail \/ TLin \/ TProbe \/ TCLin \/ TUnknown)
TSkip == Consume /\ Ev.ev # "reset" /\ skip /\ UNCHANGED << comp, cf, hist, peak, n, skip >>

TraceInit == l = 1 /\ comp = "none" /\ cf = Cf0 /\ hist = << >> /\ peak = DZero /\ n = 0 /\ skip = TRUE
TraceNext == TReset \/ TOp \/ TSkip
TraceSpec == TraceInit /\ [][TraceNext]_vars

AllConsumed == IF TLCGet("stats").diameter - 1 = Len(Rec) THEN TRUE
               ELSE PrintT(<< "STUCK", TLCGet("stats").diameter, Len(Rec) >>) /\ FALSE
=============================================================================
