---------------------------- MODULE BufferedAbs ----------------------------
(***************************************************************************)
(* Integer abstraction of Buffered.tla for Apalache: the ring buffer holds *)
(* the stream positions d+1 .. d+b.  IndInv is inductive for ANY capacity, *)
(* pre-fill length P <= Cap and history length.  It says that nothing is   *)
(* lost or duplicated (d + b = P + pulls: every pre-filled or pulled frame *)
(* is either delivered or still buffered, and the frame handed out is the  *)
(* next stream position) and that pulls happen only on an empty buffer, a  *)
(* whole buffer at a time (rounds).                                        *)
(***************************************************************************)
EXTENDS Integers

CONSTANTS
  \* @type: Int;
  Cap,
  \* @type: Int;
  P
VARIABLES
  \* @type: Int;
  d,
  \* @type: Int;
  b,
  \* @type: Int;
  pulls,
  \* @type: Int;
  lastFrame,
  \* @type: Int;
  lastWant

ConstInit == Cap \in Nat /\ Cap >= 1 /\ P \in Nat /\ P <= Cap

Init == d = 0 /\ b = P /\ pulls = 0 /\ lastFrame = 0 /\ lastWant = 0

\* position (in the stream prefill \o source) of the frame a pop hands out
Front(bb, pp) == P + pp - bb + 1
NextOne ==  \* Buffered::next
  IF b = 0 THEN /\ pulls' = pulls + Cap /\ b' = Cap - 1
                /\ lastFrame' = Front(Cap, pulls + Cap)
           ELSE /\ pulls' = pulls /\ b' = b - 1 /\ lastFrame' = Front(b, pulls)
NextStep == NextOne /\ lastWant' = d + 1 /\ d' = d + 1
\* next_frames() refilling an empty buffer and the caller taking nothing
RefillOnly == b = 0 /\ pulls' = pulls + Cap /\ b' = Cap /\ UNCHANGED << d, lastFrame, lastWant >>
Next == NextStep \/ RefillOnly

IndInv == /\ d >= 0 /\ b >= 0 /\ b <= Cap /\ pulls >= 0
          /\ d + b = P + pulls
          /\ lastFrame = lastWant
IndInit == /\ d \in Int /\ b \in Int /\ pulls \in Int /\ lastFrame \in Int /\ lastWant \in Int
           /\ IndInv
=============================================================================
