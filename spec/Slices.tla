------------------------------- MODULE Slices -------------------------------
(***************************************************************************)
(* dasp_slice: viewing a slice of interleaved samples as a slice of        *)
(* N-channel frames and back (shared, mutable, boxed), and the in-place    *)
(* slice operations.  Property C10.                                        *)
(*                                                                         *)
(* Layer 1 (what the property talks about): pure functions on sequences.   *)
(*   SlToFrames(n, xs)  = Some(frames) iff n divides Len(xs); frame i       *)
(*                        channel c (0-based) = sample i*n + c              *)
(*   SlToSamples(n, fs) = its inverse (always defined)                      *)
(*   in-place ops       = element-wise frame operation of Frames.tla;       *)
(*                        two-slice ops panic on a length mismatch and      *)
(*                        leave the destination as it was                   *)
(* Layer 2 (memory shaped): a slice is a VIEW [ptr, w, len] onto a memory   *)
(* of sample cells; converting a view changes w and len and nothing else    *)
(* (same address, no copy), so writes through one view are seen through     *)
(* the other; a boxed slice additionally owns its allocation: a successful  *)
(* conversion hands the same allocation on (no allocator call), a FAILED    *)
(* boxed conversion has consumed the box and therefore frees it.            *)
(* MC_Frame checks that layer 2 refines layer 1 for N in 1..32 and          *)
(* L in 0..2N+1; Trace_Frame accepts recorded calls by layer 1 plus the     *)
(* observable part of layer 2 (pointer equality, write-through, heap).      *)
(***************************************************************************)
EXTENDS Frames

---------------------------------------------------------------------------
(* layer 1 *)
Divides(n, l) == l % n = 0
SlToFrames(n, xs) ==
  IF Divides(n, Len(xs))
    THEN RSome([i \in 1..(Len(xs) \div n) |-> [c \in 1..n |-> xs[(i - 1) * n + c]]])
    ELSE RNone
SlToSamples(n, fs) == [k \in 1..(Len(fs) * n) |-> fs[((k - 1) \div n) + 1][((k - 1) % n) + 1]]

\* in-place operations on a slice of frames `a` (destination) and a slice `b`
SlMapInPlace(Op(_), a)         == [i \in 1..Len(a) |-> Op(a[i])]
SlEquilibrium(f, n, a)         == [i \in 1..Len(a) |-> FrEquilibrium(f, n)]
SlZipMapInPlace(Op(_, _), a, b) ==
  IF Len(a) = Len(b) THEN [ret |-> RUnit,  a |-> [i \in 1..Len(a) |-> Op(a[i], b[i])]]
                     ELSE [ret |-> RPanic, a |-> a]                   \* refuses before modifying anything
SlWrite(a, b)              == SlZipMapInPlace(LAMBDA x, y : y, a, b)
SlAdd(f, a, b)             == SlZipMapInPlace(LAMBDA x, y : FrAdd(f, x, y), a, b)      \* b in SignedOf(f)
\* add_in_place_with_amp_per_channel: b (in SignedOf(f)) is scaled channel-wise by the frame `amp`
\* (in FloatOf(SignedOf(f))) and then summed onto a
SlAddAmp(f, a, b, amp)     == SlZipMapInPlace(LAMBDA x, y : FrAdd(f, x, FrMul(SignedOf(f), y, amp)), a, b)
SlAddDefined(f, a, b)      == \A i \in 1..Len(a) : FrAddDefined(f, a[i], b[i])
SlAddAmpDefined(f, a, b, amp) ==
  \A i \in 1..Len(a) : /\ FrMulDefined(SignedOf(f), b[i], amp)
                       /\ FrAddDefined(f, a[i], FrMul(SignedOf(f), b[i], amp))
\* The same operation as a RELATION between the destination before and after (equal lengths), which also speaks about
\* the gain 1.0 on the top values of the Signed format (Frames.tla, AddMulOk): wherever SlAddAmpDefined holds it is
\* exactly `after = SlAddAmp(f, a, b, amp).a`.
SlAddAmpClaimed(f, a, b, amp) ==
  \A i \in 1..Len(a) : \A c \in 1..Len(a[i]) : AddMulClaimed(f, a[i][c], b[i][c], amp[c])
SlAddAmpOk(f, a, b, amp, after) ==
  /\ Len(after) = Len(a)
  /\ \A i \in 1..Len(a) : /\ Len(after[i]) = Len(a[i])
                          /\ \A c \in 1..Len(a[i]) : AddMulOk(f, a[i][c], b[i][c], amp[c], after[i][c])
\* closures of map_in_place / zip_map_in_place are FnMut: called once per element, first to last
SlMapCalls(a)       == a
SlZipMapCalls(a, b) == IF Len(a) = Len(b) THEN [i \in 1..Len(a) |-> << a[i], b[i] >>] ELSE << >>

---------------------------------------------------------------------------
(* layer 2: views onto a memory of sample cells.  mem is a sequence; a view *)
(* [ptr, w, len]: ptr = number of cells before the first one, w = 0 for a   *)
(* slice of samples and n for a slice of n-channel frames, len = elements.  *)
SView(ptr, len)    == [ptr |-> ptr, w |-> 0, len |-> len]
FView(ptr, n, len) == [ptr |-> ptr, w |-> n, len |-> len]
ViewCells(v) == IF v.w = 0 THEN v.len ELSE v.len * v.w
ViewInBounds(mem, v) == v.ptr + ViewCells(v) <= Len(mem)
ReadView(mem, v) ==
  IF v.w = 0 THEN [k \in 1..v.len |-> mem[v.ptr + k]]
             ELSE [i \in 1..v.len |-> [c \in 1..v.w |-> mem[v.ptr + (i - 1) * v.w + c]]]
\* store `vals` (shaped like ReadView's result) through the view
WriteView(mem, v, vals) ==
  [a \in 1..Len(mem) |->
     IF a <= v.ptr \/ a > v.ptr + ViewCells(v) THEN mem[a]
     ELSE IF v.w = 0 THEN vals[a - v.ptr]
     ELSE vals[((a - v.ptr - 1) \div v.w) + 1][((a - v.ptr - 1) % v.w) + 1]]
\* the conversions as coded: divisibility test, then raw-parts reinterpretation
ViewToFrames(v, n) == IF v.len % n = 0 THEN RSome(FView(v.ptr, n, v.len \div n)) ELSE RNone
ViewToSamples(v)   == SView(v.ptr, v.len * v.w)

\* boxed slices: the view owns an allocation of `bytes` bytes.  Outcome of the conversion:
\* h = <<allocs, reallocs, frees>> inside the call, dlive = change of live heap bytes
BoxToFrames(v, bytes, n) ==
  IF v.len % n = 0 THEN [ret |-> RSome(FView(v.ptr, n, v.len \div n)), h |-> << 0, 0, 0 >>, dlive |-> 0]
                   ELSE [ret |-> RNone,                               h |-> << 0, 0, 1 >>, dlive |-> 0 - bytes]
BoxToSamples(v, bytes) == [ret |-> ViewToSamples(v), h |-> << 0, 0, 0 >>, dlive |-> 0]
=============================================================================
