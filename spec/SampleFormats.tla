---------------------------- MODULE SampleFormats ----------------------------
(***************************************************************************)
(* dasp_sample: the fourteen sample formats and their conversions, as the  *)
(* DEFINING FORMULAS of properties C01 / C02 / C03 in exact arithmetic.    *)
(*                                                                         *)
(* An integer sample is a signed Big integer (Big.tla) holding the value   *)
(* of the Rust type (for u8: 0..255, for I24: -2^23..2^23-1, ...); a float *)
(* sample is its IEEE field record (Dyadic.tla).  A format is named by the *)
(* strings "i8" "i16" "i24" "i32" "i48" "i64" "u8" ... "u64" "f32" "f64".  *)
(*                                                                         *)
(* Nothing here is copied from conv.rs: integer conversion is "signed      *)
(* amplitude times 2^(target bits - source bits), floored", float          *)
(* conversion is "amplitude / 2^(bits-1) correctly rounded" resp.          *)
(* "x * 2^(bits-1) truncated toward zero, re-offset".                      *)
(***************************************************************************)
EXTENDS Dyadic

IntFormats   == {"i8", "i16", "i24", "i32", "i48", "i64", "u8", "u16", "u24", "u32", "u48", "u64"}
FloatFormats == {"f32", "f64"}
Formats      == IntFormats \cup FloatFormats

IsFloat(f) == f \in FloatFormats
Bits(f) == CASE f \in {"i8", "u8"} -> 8 [] f \in {"i16", "u16"} -> 16 [] f \in {"i24", "u24"} -> 24
             [] f \in {"i32", "u32", "f32"} -> 32 [] f \in {"i48", "u48"} -> 48 [] f \in {"i64", "u64", "f64"} -> 64
IsSigned(f) == f \in {"i8", "i16", "i24", "i32", "i48", "i64", "f32", "f64"}

\* the associated-type table of `impl_sample!` (dasp_sample/src/lib.rs) as the property states it:
\* Signed = the signed format used for offsets, Float = the float format used for gains
SignedOf(f) == CASE f \in {"i8", "u8"} -> "i8" [] f \in {"i16", "u16"} -> "i16" [] f = "i24" -> "i24"
                 [] f \in {"i32", "u24", "u32"} -> "i32" [] f = "i48" -> "i48"
                 [] f \in {"i64", "u48", "u64"} -> "i64" [] f = "f32" -> "f32" [] f = "f64" -> "f64"
FloatOf(f)  == IF f \in {"i48", "i64", "u48", "u64", "f64"} THEN "f64" ELSE "f32"

Half(f)  == SPow2(Bits(f) - 1)                                   \* half range 2^(bits-1)
MinV(f)  == IF IsSigned(f) THEN SNeg(Half(f)) ELSE SZero
MaxV(f)  == IF IsSigned(f) THEN SSub(Half(f), SFromInt(1)) ELSE SSub(SPow2(Bits(f)), SFromInt(1))
EquilI(f) == IF IsSigned(f) THEN SZero ELSE Half(f)              \* integer formats
InRange(f, v) == SLe(MinV(f), v) /\ SLe(v, MaxV(f))

\* signed amplitude about equilibrium, and back
Amp(f, v)     == IF IsSigned(f) THEN v ELSE SSub(v, Half(f))
FromAmp(f, a) == IF IsSigned(f) THEN a ELSE SAdd(a, Half(f))

---------------------------------------------------------------------------
(* C01: integer <-> integer *)
ConvII(s, d, v) ==
  LET a == Amp(s, v) IN
  FromAmp(d, IF Bits(d) >= Bits(s) THEN SShl(a, Bits(d) - Bits(s))
                                   ELSE SFloorShr(a, Bits(s) - Bits(d)))

(* C02: integer -> float: amplitude / 2^(bits-1), correctly rounded *)
ConvIF(s, d, v) == Rne(FmtOf(d), DScale2(DFromS(Amp(s, v)), 0 - (Bits(s) - 1)))

(* C02: float -> integer on the documented domain [-1, 1): x * 2^(bits-1) truncated toward zero *)
InUnitDomain(F, x) == FIsFinite(F, x) /\ DLe(DFromInt(-1), Dec(F, x)) /\ DLt(Dec(F, x), DFromInt(1))
ConvFI(s, d, x) == FromAmp(d, DTrunc(DScale2(Dec(FmtOf(s), x), Bits(d) - 1)))

(* C02: float <-> float *)
ConvFF(s, d, x) == IF s = d THEN x ELSE FCast(FmtOf(s), FmtOf(d), x)

\* one conversion operator over all 14 x 14 pairs (identity on equal formats)
Conv(s, d, v) ==
  IF s = d THEN v
  ELSE IF IsFloat(s) THEN (IF IsFloat(d) THEN ConvFF(s, d, v) ELSE ConvFI(s, d, v))
  ELSE (IF IsFloat(d) THEN ConvIF(s, d, v) ELSE ConvII(s, d, v))

Equil(f) == IF IsFloat(f) THEN FZeroF(0) ELSE EquilI(f)

---------------------------------------------------------------------------
(* C03: amplitude arithmetic = native operation on the Signed / Float image, converted back *)
\* offset: defined when the sum is representable in the Signed format (no overflow)
AddAmpDefined(f, s, a) ==
  IsFloat(f) \/ InRange(SignedOf(f), SAdd(Conv(f, SignedOf(f), s), a))
AddAmp(f, s, a) ==
  IF IsFloat(f) THEN FAdd(FmtOf(f), s, a)
  ELSE Conv(SignedOf(f), f, SAdd(Conv(f, SignedOf(f), s), a))
\* scale: product in the Float format (one rounding), converted back (float -> int truncates);
\* defined when the product lies in [-1, 1)
MulAmpProduct(f, s, g) == FMul(FmtOf(FloatOf(f)), Conv(f, FloatOf(f), s), g)
MulAmpDefined(f, s, g) == IsFloat(f) \/ InUnitDomain(FmtOf(FloatOf(f)), MulAmpProduct(f, s, g))
MulAmp(f, s, g) == Conv(FloatOf(f), f, MulAmpProduct(f, s, g))

\* JSON decoding of a sample of format f: integers {"n","l"}, floats {"s","e","m"}
SampleFromJson(f, j) == IF IsFloat(f) THEN j ELSE SFromJson(j)
\* equality of samples: integers exactly; floats bit for bit
SampleEq(f, x, y) == x = y
=============================================================================
