----------------------------- MODULE MC_Window -----------------------------
(***************************************************************************)
(* Exhaustive check of the Windower model (C20) for every L in 0..MaxL,    *)
(* b in 2..MaxB, h in 1..MaxH: layer 2 (remaining-slice representation)    *)
(* against layer 1 (chunk k at offset k*h while k*h + b <= L):             *)
(*   ChunkContent  the k-th chunk starts at k*h and lies inside 0..L-1     *)
(*   ChunkCount    the iteration ends after exactly Count(L,b,h) chunks    *)
(*   HintOK        the exact size hint equals the number of chunks still   *)
(*                 to come, at every step                                  *)
(*   Coverage      consecutive chunks are h apart; with h <= b every frame *)
(*                 before the last chunk's end is covered                  *)
(*   NthOK         nth(j) (= j times next, then next: layer 2) returns the *)
(*                 (k+j)-th chunk iff it exists and leaves min(k+j+1,      *)
(*                 Count) chunks consumed (layer 1), for j in 1..MaxJ      *)
(*                 interleaved freely with next()                          *)
(*   ConsumeOK     count() / last() (= next until None: layer 2), at every *)
(*                 reachable state: the number of chunks to come and     *)
(*                 chunk Count-1 (layer 1)                                 *)
(*   FieldsOK, and all of the above across SetBin / SetHop / SetFrames:    *)
(*                 the public fields assigned between calls (at most       *)
(*                 MaxSet times); layer 1 re-bases (Window.tla, VSetBin..) *)
(* (HintPinnedOK -- the size_hint formula of the pinned code -- is NOT an  *)
(* invariant of the gating configurations: MC_Window_ascoded.cfg shows TLC *)
(* refuting it, e.g. L = b.)  Also checks the Hann table and writes the    *)
(* stimuli for the Rust harness (IOEnv.STIM_OUT).                          *)
(***************************************************************************)
EXTENDS Window, FiniteSets, TLC, Json, IOUtils, SequencesExt

CONSTANTS MaxL, MaxB, MaxH, MaxJ,
          MaxSet    \* assignments to the public fields per behaviour
VARIABLES L,        \* length of the caller's frame array
          b, h,     \* layer 2: the public fields bin, hop (w is the public field `frames`)
          w,        \* layer 2: [off, rem]
          k,        \* layer 2: chunks yielded since the last assignment (counted while stepping)
          v,        \* layer 1: [base, len, b, h, k] (Window.tla)
          last,     \* [some, at] of the last next() / nth(), and what layer 1 wants [wsome, wat]
          done,     \* next() / nth() has returned None
          nset      \* assignments so far
vars == << L, b, h, w, k, v, last, done, nset >>

NoLast == [some |-> FALSE, at |-> 0, wsome |-> FALSE, wat |-> 0]
Init == /\ L \in 0..MaxL /\ b \in 2..MaxB /\ h \in 1..MaxH
        /\ w = WNew(L) /\ k = 0 /\ v = VNew(L, b, h) /\ done = FALSE /\ nset = 0
        /\ last = NoLast
\* nth(j); j = 0 is next()
Advance(j) ==
  /\ LET r == WNth(w, b, h, j) IN
     /\ w' = r.w /\ k' = k + r.cnt /\ done' = ~r.some
     /\ v' = VNthAfter(v, j)
     /\ last' = [some |-> r.some, at |-> r.at,
                 wsome |-> VNthHas(v, j), wat |-> IF VNthHas(v, j) THEN VChunkStart(v, v.k + j) ELSE r.at]
  /\ UNCHANGED << L, b, h, nset >>
NextChunk == ~done /\ Advance(0)
NthChunk == ~done /\ \E j \in 1..MaxJ : Advance(j)
\* None is sticky
After == done /\ WNext(w, b, h).some = FALSE /\ UNCHANGED vars
\* the public fields assigned between calls (layer 2: the field changes, nothing else; layer 1: re-based)
Assigned == /\ nset < MaxSet /\ nset' = nset + 1 /\ k' = 0 /\ done' = FALSE /\ last' = NoLast /\ UNCHANGED L
SetBin == /\ Assigned /\ \E nb \in (2..MaxB) \ {b} : b' = nb /\ v' = VSetBin(v, nb)
          /\ UNCHANGED << h, w >>
SetHop == /\ Assigned /\ \E nh \in (1..MaxH) \ {h} : h' = nh /\ v' = VSetHop(v, nh)
          /\ UNCHANGED << b, w >>
SetFrames == /\ Assigned /\ \E o \in 0..L : \E n \in 0..(L - o) : w' = [off |-> o, rem |-> n] /\ v' = VSetFrames(v, o, n)
             /\ UNCHANGED << b, h >>
Next == NextChunk \/ NthChunk \/ After \/ SetBin \/ SetHop \/ SetFrames
Spec == Init /\ [][Next]_vars

ChunkContent == last.some => /\ last.at = VChunkStart(v, k - 1)
                             /\ last.at + b <= v.base + v.len /\ HasChunk(v.len, b, h, k - 1)
ChunkCount == /\ k <= VCount(v)
              /\ (done => k = VCount(v) /\ ~HasChunk(v.len, b, h, k))
HintOK == WHint(w, b, h) = VRemaining(v)                       \* also after the end: 0
NthOK == k = v.k /\ last.some = last.wsome /\ last.at = last.wat
FieldsOK == v.b = b /\ v.h = h /\ v.base + v.len <= L
HintPinnedOK == ~done => HintConsistent(WHintPinned(w, b, h), TRUE, WHintPinned(w, b, h), VRemaining(v))
Coverage == \* the remaining slice is exactly what layer 1 has not consumed (at every state, also after assignments)
  /\ w.off = v.base + VConsumed(v) /\ w.rem = v.len - VConsumed(v)
  /\ (w.rem = 0 /\ k > 0 => k * h >= v.len)
\* the consuming provided methods, from every reachable state: count() = chunks still to come, last() = chunk Count-1
ConsumeOK ==
  LET d == WDrain(w, b, h) IN
  /\ d.cnt = VRemaining(v) /\ d.some = VLastHas(v)
  /\ (d.some => d.at = VChunkStart(v, VLastIdx(v)) /\ d.at + b <= v.base + v.len)

ASSUME HannTableOK
ASSUME SineTableOK

---------------------------------------------------------------------------
(* stimuli: every (L, b, h) for both windows on f32 / f64 / i16 (mono; i16 and f32 also stereo) *)
FrameVal(i, ch) == [c \in 1..ch |-> (IF i % 2 = 0 THEN 1 ELSE -1) * (1024 * ((i % 13) + 1) + 4096 * (c - 1) + 37 * i)]
Fmts == { << "f64", 1 >>, << "f32", 1 >>, << "i16", 1 >>, << "i16", 2 >> }
Ops(n) == [i \in 1..(2 * n) |-> IF i % 2 = 1 THEN [ev |-> "size_hint", a |-> [x |-> 0]] ELSE [ev |-> "next", a |-> [x |-> 0]]]
WReset(kd, fc, LL, bb, hh) ==
  [ev |-> "reset", comp |-> "windower",
   cfg |-> [kind |-> kd, fmt |-> fc[1], ch |-> fc[2], b |-> bb, h |-> hh,
            frames |-> [i \in 1..LL |-> FrameVal(i, fc[2])]]]
\* schedules through nth / skip / step_by: for every (L, b, h) every nth(j) up to one past the last chunk from
\* the start, the two around the last chunk after one next(), skip and step_by; a size hint after each
\* (kind and frame format rotate with L + b + h + j instead of being multiplied in)
Hint == [ev |-> "size_hint", a |-> [x |-> 0]]
Nx == [ev |-> "next", a |-> [x |-> 0]]
NthOp(j) == [ev |-> "nth", a |-> [k |-> j]]
SkipOp(j) == [ev |-> "skip", a |-> [k |-> j]]
StepOp(st, m) == [ev |-> "step_by", a |-> [s |-> st, m |-> m]]
KF == << << "hann", << "f64", 1 >> >>, << "rect", << "i16", 2 >> >>, << "hann", << "i16", 1 >> >>, << "rect", << "f32", 1 >> >>,
         << "hann", << "f32", 1 >> >>, << "rect", << "f64", 1 >> >>, << "hann", << "i16", 2 >> >>, << "rect", << "i16", 1 >> >> >>
NthScheds(c) ==
  { << 0, j, << Hint, NthOp(j), Hint, Nx, Hint >> >> : j \in 0..(c + 1) }
  \cup { << 1, j, << Nx, NthOp(j), Hint, Nx >> >> : j \in { x \in {c - 2, c - 1} : x >= 0 } }
  \cup { << 2, j, << SkipOp(j), Hint, Nx, Hint >> >> : j \in { x \in {0, c - 1, c} : x >= 0 } }
  \cup { << 3, st, << StepOp(st, c + 1), Hint, Nx >> >> : st \in 1..3 }
NthStim ==
  UNION { { LET kf == KF[((LL + bb + hh + sc[1] + sc[2]) % 8) + 1] IN << WReset(kf[1], kf[2], LL, bb, hh) >> \o sc[3]
            : sc \in NthScheds(Count(LL, bb, hh)) }
          : LL \in 0..MaxL, bb \in 2..MaxB, hh \in 1..MaxH }
\* the window functions themselves (dasp_window::Window::window) at the phases k/24, one ulp either side of
\* the ends, and -- the rectangle is 1 EVERYWHERE -- outside [0, 1]
EvalOp(nm, dn, u) == [ev |-> "eval", a |-> [num |-> nm, den |-> dn, ulps |-> u]]
EvalIn == [i \in 1..25 |-> EvalOp(i - 1, 24, 0)] \o << EvalOp(1, 1, 0), EvalOp(1, 2, 0), EvalOp(0, 1, 0),
            EvalOp(1, 1, -1), EvalOp(0, 1, 1), EvalOp(1, 3, 0), EvalOp(2, 7, 0), EvalOp(1, 2, 1), EvalOp(1, 2, -1) >>
EvalOut == << EvalOp(1, 1, 1), EvalOp(0, 1, -1), EvalOp(-1, 4, 0), EvalOp(5, 4, 0), EvalOp(2, 1, 0), EvalOp(-1, 1, 0),
              EvalOp(3, 2, 0), EvalOp(-1, 24, 0), EvalOp(25, 24, 0) >>
FnStim == { << [ev |-> "reset", comp |-> "winfn", cfg |-> [kind |-> kd, fmt |-> f]] >>
            \o (IF kd = "rect" THEN EvalIn \o EvalOut ELSE EvalIn)
            : kd \in {"hann", "rect"}, f \in {"f64", "f32", "i16"} }
---------------------------------------------------------------------------
(* round 4: the other ways a windower VALUE is used.  Ops carry the slot `w` of the windower they address  *)
(* (0 = the one built by the reset line; clone{w, to} fills another slot), `via` = how the frames of a     *)
(* yielded chunk are read (0 next, 1 by_ref().take(b), 2 nth(0), 3 half from a clone of the chunk, 4 nth(1) *)
(* repeated, 5 step_by(2), 6 skip(1): Trace_Window ViaPos), and                                             *)
(* the reset line `ctor` = "new" (Windower::new) or "named" (Windower::hann / Windower::rectangle).        *)
(* hops beyond L + 1 all behave alike (one chunk iff L >= b): these families take h <= L + 1.              *)
Trip == { t \in (0..MaxL) \X (2..MaxB) \X (1..MaxH) : t[3] <= t[1] + 1 }
Rep(n, s) == [i \in 1..(n * Len(s)) |-> s[((i - 1) % Len(s)) + 1]]
NxW(s, vi) == [ev |-> "next", a |-> [w |-> s, via |-> vi]]
HintW(s) == [ev |-> "size_hint", a |-> [w |-> s]]
CloneOp(s, to) == [ev |-> "clone", a |-> [w |-> s, to |-> to]]
TermOp(e, s, vi) == [ev |-> e, a |-> [w |-> s, via |-> vi]]                  \* last, count, fold, for_each: consume slot s
JOp(e, s, j, vi) == [ev |-> e, a |-> [w |-> s, k |-> j, via |-> vi]]         \* find, position, any, all (predicate fires at call j)
TakeOp(s, m, vi) == [ev |-> "take", a |-> [w |-> s, m |-> m, via |-> vi]]    \* the first m items of by_ref().take(m)
SetBinOp(s, nb) == [ev |-> "set_bin", a |-> [w |-> s, b |-> nb]]
SetHopOp(s, nh) == [ev |-> "set_hop", a |-> [w |-> s, h |-> nh]]
SetFramesOp(s, o, n) == [ev |-> "set_frames", a |-> [w |-> s, off |-> o, len |-> n]]
WResetC(kf, ct, LL, bb, hh) ==
  [ev |-> "reset", comp |-> "windower",
   cfg |-> [kind |-> kf[1], fmt |-> kf[2][1], ch |-> kf[2][2], b |-> bb, h |-> hh, ctor |-> ct,
            frames |-> [i \in 1..LL |-> FrameVal(i, kf[2][2])]]]
KFof(x) == KF[(x % 8) + 1]
Ctor(x) == IF x % 2 = 0 THEN "new" ELSE "named"
Terms == << "last", "count", "fold", "for_each" >>
JOps == << "find", "position", "any", "all" >>
\* consuming methods after p chunks (last: p = 0 and 1; the others: one of the two), and the searching
\* methods / take aimed at the last chunk and one past it
ProvStim ==
  UNION { LET LL == t[1]  bb == t[2]  hh == t[3]  c == Count(LL, bb, hh)  x == LL + bb + hh IN
          { LET e == ep[1]  p == ep[2] IN
            << WResetC(KFof(x + e + p), Ctor(x + p), LL, bb, hh) >> \o Rep(p, << NxW(0, p) >>)
               \o << HintW(0), TermOp(Terms[e], 0, (x + e) % 7) >>
            : ep \in { y \in (1..4) \X (0..1) : y[2] <= c /\ (y[1] = 1 \/ y[2] = Min2(c, (x + y[1]) % 2)) } }
          \cup
          { LET p == IF c >= 2 THEN (x + e + j) % 2 ELSE 0 IN
            << WResetC(KFof(x + e + j), Ctor(x + j), LL, bb, hh) >> \o Rep(p, << NxW(0, 0) >>)
               \o << (IF e = 5 THEN TakeOp(0, j - p + 1, (x + j) % 7) ELSE JOp(JOps[e], 0, j - p, (x + j) % 7)),
                      HintW(0), NxW(0, 1), HintW(0) >>
            : e \in 1..5, j \in { y \in {c - 1, c} : y >= 0 } }
          : t \in Trip }
\* a clone taken after p chunks; both continue, interleaved, to their ends; a consuming method on the clone
\* leaves the original where it was; a clone of a clone
CloneStim ==
  UNION { LET LL == t[1]  bb == t[2]  hh == t[3]  c == Count(LL, bb, hh)  x == LL + bb + hh IN
          { << WResetC(KFof(x + p), Ctor(x), LL, bb, hh) >> \o Rep(p, << NxW(0, 0) >>) \o << CloneOp(0, 1) >>
               \o Rep(c - p + 1, << HintW(1), NxW(1, p + 4), HintW(0), NxW(0, 0) >>)
            : p \in { q \in 0..2 : q <= c } }
          \cup
          { << WResetC(KFof(x + p + 3), Ctor(x + 1), LL, bb, hh) >> \o Rep(p, << NxW(0, 0) >>)
               \o << CloneOp(0, 1), TermOp(Terms[1 + ((x + p) % 2)], 1, 0), HintW(0), NxW(0, 3), HintW(0) >>
            : p \in { q \in 0..1 : q <= c } }
          \cup
          { << WResetC(KFof(x + 5), "new", LL, bb, hh), NxW(0, 0), CloneOp(0, 1), NxW(1, 0), CloneOp(1, 2),
               HintW(2), NxW(2, 0), HintW(1), NxW(1, 0), NxW(0, 0), HintW(2), NxW(2, 2) >> }
          : t \in Trip }
\* the public fields assigned after p chunks; afterwards the windower is asked to its (new) end.  The tail
\* length comes from layer 1 (VSet*).
TailOf(vv) == Rep(VCount(vv) + 1, << HintW(0), NxW(0, 0) >>)
VAt(LL, bb, hh, p) == IF p = 0 THEN VNew(LL, bb, hh) ELSE [VNew(LL, bb, hh) EXCEPT !.k = Min2(p, Count(LL, bb, hh))]
SetStim ==
  UNION { LET LL == t[1]  bb == t[2]  hh == t[3]  c == Count(LL, bb, hh)  x == LL + bb + hh IN
          { LET v0 == VAt(LL, bb, hh, p) IN
            << WResetC(KFof(2 * (x + nb + p)), Ctor(x + nb), LL, bb, hh) >> \o Rep(p, << NxW(0, 0) >>)
               \o << SetBinOp(0, nb) >> \o TailOf(VSetBin(v0, nb))
            : nb \in (2..(MaxB + 1)) \ {bb}, p \in { q \in 0..1 : q <= c } }
          \cup
          { LET p == IF c >= 1 THEN (x + nh) % 2 ELSE 0
                v0 == VAt(LL, bb, hh, p) IN
            << WResetC(KFof(x + nh), Ctor(x), LL, bb, hh) >> \o Rep(p, << NxW(0, 0) >>)
               \o << SetHopOp(0, nh) >> \o TailOf(VSetHop(v0, nh))
            : nh \in {1, hh + 1, bb, LL + 1} \ {hh} }
          \cup
          { LET p == Min2(c, sf[3])
                v0 == VAt(LL, bb, hh, p) IN
            << WResetC(KFof(x + sf[1] + sf[2]), Ctor(x + 1), LL, bb, hh) >> \o Rep(p, << NxW(0, 0) >>)
               \o << SetFramesOp(0, sf[1], sf[2]) >> \o TailOf(VSetFrames(v0, sf[1], sf[2]))
            : sf \in { << 0, LL, 1 >>, << 0, LL, 2 >>, << Min2(1, LL), LL - Min2(1, LL), 0 >>,
                       << 0, LL - Min2(1, LL), 1 >>, << LL \div 2, LL - (LL \div 2), 1 >> } }
          \cup
          \* two assignments, a chunk in between, and a clone taken after the first
          { LET p == Min2(c, 1)
                v1 == VSetBin(VAt(LL, bb, hh, p), bb + 1)
                v2 == VSetHop(VNthAfter(v1, 0), hh + 1) IN
            << WResetC(KFof(2 * x), "new", LL, bb, hh) >> \o Rep(p, << NxW(0, 0) >>)
               \o << SetBinOp(0, bb + 1), HintW(0), CloneOp(0, 1), NxW(0, 0), SetHopOp(0, hh + 1) >> \o TailOf(v2)
               \o Rep(VCount(v1) + 1, << HintW(1), NxW(1, 0) >>) }
          : t \in Trip }
\* the stand-alone Window iterator reached in other ways than next(): a second instance (slot 1, built by
\* `new`), clones, nth / step_by / by_ref().take, size_hint, the public `phase` field re-assigned (`rewind`)
WOp(e, s) == [ev |-> e, a |-> [w |-> s]]
WNthOp(s, j) == [ev |-> "nth", a |-> [w |-> s, k |-> j]]
WinWalk(nn) ==
  << WOp("new", 1), WOp("size_hint", 1), WOp("next", 1), [ev |-> "clone", a |-> [w |-> 1, to |-> 2]],
     WNthOp(1, 1), WNthOp(2, 0), [ev |-> "step_by", a |-> [w |-> 2, s |-> 2, m |-> 2]],
     [ev |-> "takeby", a |-> [w |-> 1, m |-> 2]], WNthOp(1, nn \div 2), WOp("size_hint", 1),
     WOp("rewind", 2), WOp("next", 2), WNthOp(2, nn - 2), WOp("size_hint", 2), WOp("next", 0) >>
WinStim ==
  { << [ev |-> "reset", comp |-> "window", cfg |-> [kind |-> kd, fmt |-> f, n |-> nn, ctor |-> Ctor(nn)]],
       [ev |-> "take", a |-> [n |-> nn]] >> \o (IF (nn + (IF f = "f64" THEN 0 ELSE 1)) % 2 = 0 THEN WinWalk(nn) ELSE << >>)
    : kd \in {"hann", "rect"}, f \in {"f64", "f32"}, nn \in 2..25 }
---------------------------------------------------------------------------
(* round 5: the VALUES of the frames.  Every family above uses FrameVal: no frame is silent, no two are equal.    *)
(* The chunk clause holds for every frame sequence, so: exact silence (every channel at equilibrium) at every     *)
(* frame index - hence at every position of every chunk -, in one channel only, runs of silence (2 frames, b - 1, *)
(* b, b + 1, the whole array = all-zero chunks), every second frame silent, runs of equal frames, a constant      *)
(* array.  Frame formats incl. the unsigned ones, whose equilibrium is not 0 (u8: 128, u16: 32768).               *)
PatIn(pt, i) == i >= pt.z /\ i < pt.z + pt.r
PatFrame(pt, i, ch) ==
  CASE pt.kind = "zero" /\ PatIn(pt, i) -> [c \in 1..ch |-> 0]
    [] pt.kind = "chan" /\ PatIn(pt, i) -> [c \in 1..ch |-> IF c = 1 + (i % ch) THEN 0 ELSE FrameVal(i, ch)[c]]
    [] pt.kind = "equal" /\ PatIn(pt, i) -> FrameVal(pt.z, ch)
    [] pt.kind = "alt" /\ (i + pt.z) % 2 = 0 -> [c \in 1..ch |-> 0]
    [] OTHER -> FrameVal(i, ch)
Pat(kd, z, r) == [kind |-> kd, z |-> z, r |-> r]
Patterns(LL, bb) ==
  { Pat("zero", z, 1) : z \in 1..LL } \cup { Pat("chan", z, 1) : z \in 1..LL }
  \cup { Pat("zero", z, r) : z \in {1, 2, LL - bb + 1}, r \in {2, bb - 1, bb, bb + 1, LL} }
  \cup { Pat("equal", z, r) : z \in {1, 2}, r \in {2, bb, LL} }
  \cup { Pat("alt", 0, 0), Pat("alt", 1, 0) }
PatValid(pt, LL) == pt.kind = "alt" \/ (pt.z >= 1 /\ pt.r >= 1 /\ pt.z + pt.r - 1 <= LL)
ValFmts == << << "f64", 1 >>, << "i16", 2 >>, << "f32", 2 >>, << "u8", 1 >>, << "i16", 1 >>, << "f64", 2 >>,
              << "u16", 2 >>, << "f32", 1 >> >>
ValTrip == { t \in (2..MaxL) \X (2..MaxB) \X (1..MaxB) :
             /\ t[1] \in {t[2], t[2] + 1, 2 * t[2], MaxL} /\ t[3] \in {1, 2, t[2]} }
PatSeed(pt) == pt.z + 3 * pt.r + (IF pt.kind = "zero" THEN 0 ELSE IF pt.kind = "chan" THEN 1 ELSE 2)
ValueStim ==
  UNION { LET LL == t[1]  bb == t[2]  hh == t[3]  x == LL + bb + hh IN
          { LET fc == ValFmts[((x + PatSeed(pt)) % Len(ValFmts)) + 1]
                kd == IF (x + pt.z) % 4 = 0 THEN "rect" ELSE "hann"
                via == IF pt.r = 1 THEN 0 ELSE (x + pt.z) % 7 IN
            << [ev |-> "reset", comp |-> "windower",
                cfg |-> [kind |-> kd, fmt |-> fc[1], ch |-> fc[2], b |-> bb, h |-> hh, ctor |-> Ctor(x + pt.z),
                         frames |-> [i \in 1..LL |-> PatFrame(pt, i, fc[2])]]] >>
            \o Rep(Count(LL, bb, hh) + 1, << HintW(0), NxW(0, via) >>)
            : pt \in { q \in Patterns(LL, bb) : PatValid(q, LL) } }
          : t \in ValTrip }
\* layer 2 (Window.tla Wd*): the chunk iterator advances its window cursor with every frame, whatever its value -
\* checked for every pattern above; and a shortcut keyed on silence is refuted by the very first pattern
ValueLockStep ==
  \A t \in ValTrip : \A pt \in { q \in Patterns(t[1], t[2]) : PatValid(q, t[1]) } :
     LET fr == [i \in 1..t[1] |-> PatFrame(pt, i, 1)] IN
     \A ck \in 0..(Count(t[1], t[2], t[3]) - 1) : WdLockStep(fr, ck * t[3], t[2])
ShortcutRefuted ==
  LET fr == [i \in 1..3 |-> PatFrame(Pat("zero", 1, 1), i, 1)] IN
  WdPairsR(fr, WdNew(0), 3, << >>, TRUE) # [p \in 1..3 |-> << p - 1, p - 1 >>]
ASSUME ValueLockStep /\ ShortcutRefuted

Stimuli ==
  ValueStim \cup
  { << WReset(kd, fc, LL, bb, hh) >> \o Ops(Count(LL, bb, hh) + 2)
    : LL \in 0..MaxL, bb \in 2..MaxB, hh \in 1..MaxH, kd \in {"hann", "rect"}, fc \in Fmts }
  \cup NthStim \cup FnStim \cup ProvStim \cup CloneStim \cup SetStim \cup WinStim
WriteStimuli ==
  IF "STIM_OUT" \in DOMAIN IOEnv
    THEN /\ ndJsonSerialize(IOEnv.STIM_OUT, SetToSeq(Stimuli))
         /\ PrintT(<< "STIMULI", Cardinality(Stimuli) >>)
    ELSE TRUE
ASSUME WriteStimuli
=============================================================================
