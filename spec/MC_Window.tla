----------------------------- MODULE MC_Window -----------------------------
(***************************************************************************)
(* Exhaustive check of the Windower model (C20) for every L in 0..MaxL,    *)
(* b in 2..MaxB, h in 1..MaxH: layer 2 (remaining-slice representation)    *)
(* against layer 1 (chunk k at offset k*h while k*h + b <= L):             *)
(*   ChunkContent  the k-th chunk starts at k*h and lies inside 0..L-1     *)
(*   ChunkCount    the iteration ends after exactly Count(L,b,h) chunks    *)
(*   HintOK        the exact size hint equals the number of chunks still   *)
(*                 to come, at every step                                  *)
(*   Coverage      consecutive chunks are h apart; with h <= b every frame *)
(*                 before the last chunk's end is covered                  *)
(* (HintPinnedOK -- the size_hint formula of the pinned code -- is NOT an  *)
(* invariant of the gating configurations: MC_Window_ascoded.cfg shows TLC *)
(* refuting it, e.g. L = b.)  Also checks the Hann table and writes the    *)
(* stimuli for the Rust harness (IOEnv.STIM_OUT).                          *)
(***************************************************************************)
EXTENDS Window, FiniteSets, TLC, Json, IOUtils, SequencesExt

CONSTANTS MaxL, MaxB, MaxH
VARIABLES L, b, h,
          w,        \* layer 2: [off, rem]
          k,        \* chunks yielded so far
          last,     \* [some, at] of the last next()
          done      \* next() has returned None
vars == << L, b, h, w, k, last, done >>

Init == /\ L \in 0..MaxL /\ b \in 2..MaxB /\ h \in 1..MaxH
        /\ w = WNew(L) /\ k = 0 /\ last = [some |-> FALSE, at |-> 0] /\ done = FALSE
NextChunk ==
  /\ ~done
  /\ LET r == WNext(w, b, h) IN
     /\ w' = r.w /\ last' = [some |-> r.some, at |-> r.at]
     /\ k' = IF r.some THEN k + 1 ELSE k
     /\ done' = ~r.some
  /\ UNCHANGED << L, b, h >>
\* None is sticky
After == done /\ WNext(w, b, h).some = FALSE /\ UNCHANGED vars
Next == NextChunk \/ After
Spec == Init /\ [][Next]_vars

ChunkContent == last.some => /\ last.at = ChunkOffset(k - 1, h)
                             /\ last.at + b <= L /\ HasChunk(L, b, h, k - 1)
ChunkCount == /\ k <= Count(L, b, h)
              /\ (done => k = Count(L, b, h) /\ ~HasChunk(L, b, h, k))
HintOK == ~done => WHint(w, b, h) = Remaining(L, b, h, k)
HintPinnedOK == ~done => HintConsistent(WHintPinned(w, b, h), TRUE, WHintPinned(w, b, h), Remaining(L, b, h, k))
Coverage == \* the remaining slice is exactly what layer 1 has not consumed
  ~done => (w.off + w.rem = L) /\ (w.rem > 0 => w.off = k * h) /\ (w.rem = 0 /\ k > 0 => k * h >= L)

ASSUME HannTableOK
ASSUME SineTableOK

---------------------------------------------------------------------------
(* stimuli: every (L, b, h) for both windows on f32 / f64 / i16 (mono; i16 and f32 also stereo) *)
FrameVal(i, ch) == [c \in 1..ch |-> (IF i % 2 = 0 THEN 1 ELSE -1) * (1024 * ((i % 13) + 1) + 4096 * (c - 1) + 37 * i)]
Fmts == { << "f64", 1 >>, << "f32", 1 >>, << "i16", 1 >>, << "i16", 2 >> }
Ops(n) == [i \in 1..(2 * n) |-> IF i % 2 = 1 THEN [ev |-> "size_hint", a |-> [x |-> 0]] ELSE [ev |-> "next", a |-> [x |-> 0]]]
Stimuli ==
  { << [ev |-> "reset", comp |-> "windower",
        cfg |-> [kind |-> kd, fmt |-> fc[1], ch |-> fc[2], b |-> bb, h |-> hh,
                 frames |-> [i \in 1..LL |-> FrameVal(i, fc[2])]]] >>
    \o Ops(Count(LL, bb, hh) + 2)
    : LL \in 0..MaxL, bb \in 2..MaxB, hh \in 1..MaxH, kd \in {"hann", "rect"}, fc \in Fmts }
  \cup
  { << [ev |-> "reset", comp |-> "window", cfg |-> [kind |-> kd, fmt |-> f, n |-> nn]],
       [ev |-> "take", a |-> [n |-> nn]] >>
    : kd \in {"hann", "rect"}, f \in {"f64", "f32"}, nn \in 2..25 }
WriteStimuli ==
  IF "STIM_OUT" \in DOMAIN IOEnv
    THEN /\ ndJsonSerialize(IOEnv.STIM_OUT, SetToSeq(Stimuli))
         /\ PrintT(<< "STIMULI", Cardinality(Stimuli) >>)
    ELSE TRUE
ASSUME WriteStimuli
=============================================================================
