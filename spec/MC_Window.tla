----------------------------- MODULE MC_Window -----------------------------
(***************************************************************************)
(* Exhaustive check of the Windower model (C20) for every L in 0..MaxL,    *)
(* b in 2..MaxB, h in 1..MaxH: layer 2 (remaining-slice representation)    *)
(* against layer 1 (chunk k at offset k*h while k*h + b <= L):             *)
(*   ChunkContent  the k-th chunk starts at k*h and lies inside 0..L-1     *)
(*   ChunkCount    the iteration ends after exactly Count(L,b,h) chunks    *)
(*   HintOK        the exact size hint equals the number of chunks still   *)
(*                 to come, at every step                                  *)
(*   Coverage      consecutive chunks are h apart; with h <= b every frame *)
(*                 before the last chunk's end is covered                  *)
(*   NthOK         nth(j) (= j times next, then next: layer 2) returns the *)
(*                 (k+j)-th chunk iff it exists and leaves min(k+j+1,      *)
(*                 Count) chunks consumed (layer 1), for j in 1..MaxJ      *)
(*                 interleaved freely with next()                          *)
(* (HintPinnedOK -- the size_hint formula of the pinned code -- is NOT an  *)
(* invariant of the gating configurations: MC_Window_ascoded.cfg shows TLC *)
(* refuting it, e.g. L = b.)  Also checks the Hann table and writes the    *)
(* stimuli for the Rust harness (IOEnv.STIM_OUT).                          *)
(***************************************************************************)
EXTENDS Window, FiniteSets, TLC, Json, IOUtils, SequencesExt

CONSTANTS MaxL, MaxB, MaxH, MaxJ
VARIABLES L, b, h,
          w,        \* layer 2: [off, rem]
          k,        \* layer 2: chunks consumed so far (counted while stepping)
          k1,       \* layer 1: chunks consumed so far (NthAfter)
          last,     \* [some, at] of the last next() / nth(), and what layer 1 wants [wsome, wat]
          done      \* next() / nth() has returned None
vars == << L, b, h, w, k, k1, last, done >>

Init == /\ L \in 0..MaxL /\ b \in 2..MaxB /\ h \in 1..MaxH
        /\ w = WNew(L) /\ k = 0 /\ k1 = 0 /\ done = FALSE
        /\ last = [some |-> FALSE, at |-> 0, wsome |-> FALSE, wat |-> 0]
\* nth(j); j = 0 is next()
Advance(j) ==
  /\ LET r == WNth(w, b, h, j) IN
     /\ w' = r.w /\ k' = k + r.cnt /\ done' = ~r.some
     /\ k1' = NthAfter(L, b, h, k1, j)
     /\ last' = [some |-> r.some, at |-> r.at,
                 wsome |-> NthHas(L, b, h, k1, j), wat |-> IF NthHas(L, b, h, k1, j) THEN ChunkOffset(k1 + j, h) ELSE r.at]
  /\ UNCHANGED << L, b, h >>
NextChunk == ~done /\ Advance(0)
NthChunk == ~done /\ \E j \in 1..MaxJ : Advance(j)
\* None is sticky
After == done /\ WNext(w, b, h).some = FALSE /\ UNCHANGED vars
Next == NextChunk \/ NthChunk \/ After
Spec == Init /\ [][Next]_vars

ChunkContent == last.some => /\ last.at = ChunkOffset(k - 1, h)
                             /\ last.at + b <= L /\ HasChunk(L, b, h, k - 1)
ChunkCount == /\ k <= Count(L, b, h)
              /\ (done => k = Count(L, b, h) /\ ~HasChunk(L, b, h, k))
HintOK == WHint(w, b, h) = Remaining(L, b, h, k)              \* also after the end: 0
NthOK == k = k1 /\ last.some = last.wsome /\ last.at = last.wat
HintPinnedOK == ~done => HintConsistent(WHintPinned(w, b, h), TRUE, WHintPinned(w, b, h), Remaining(L, b, h, k))
Coverage == \* the remaining slice is exactly what layer 1 has not consumed
  ~done => (w.off + w.rem = L) /\ (w.rem > 0 => w.off = k * h) /\ (w.rem = 0 /\ k > 0 => k * h >= L)

ASSUME HannTableOK
ASSUME SineTableOK

---------------------------------------------------------------------------
(* stimuli: every (L, b, h) for both windows on f32 / f64 / i16 (mono; i16 and f32 also stereo) *)
FrameVal(i, ch) == [c \in 1..ch |-> (IF i % 2 = 0 THEN 1 ELSE -1) * (1024 * ((i % 13) + 1) + 4096 * (c - 1) + 37 * i)]
Fmts == { << "f64", 1 >>, << "f32", 1 >>, << "i16", 1 >>, << "i16", 2 >> }
Ops(n) == [i \in 1..(2 * n) |-> IF i % 2 = 1 THEN [ev |-> "size_hint", a |-> [x |-> 0]] ELSE [ev |-> "next", a |-> [x |-> 0]]]
WReset(kd, fc, LL, bb, hh) ==
  [ev |-> "reset", comp |-> "windower",
   cfg |-> [kind |-> kd, fmt |-> fc[1], ch |-> fc[2], b |-> bb, h |-> hh,
            frames |-> [i \in 1..LL |-> FrameVal(i, fc[2])]]]
\* schedules through nth / skip / step_by: for every (L, b, h) every nth(j) up to one past the last chunk from
\* the start, the two around the last chunk after one next(), skip and step_by; a size hint after each
\* (kind and frame format rotate with L + b + h + j instead of being multiplied in)
Hint == [ev |-> "size_hint", a |-> [x |-> 0]]
Nx == [ev |-> "next", a |-> [x |-> 0]]
NthOp(j) == [ev |-> "nth", a |-> [k |-> j]]
SkipOp(j) == [ev |-> "skip", a |-> [k |-> j]]
StepOp(st, m) == [ev |-> "step_by", a |-> [s |-> st, m |-> m]]
KF == << << "hann", << "f64", 1 >> >>, << "rect", << "i16", 2 >> >>, << "hann", << "i16", 1 >> >>, << "rect", << "f32", 1 >> >>,
         << "hann", << "f32", 1 >> >>, << "rect", << "f64", 1 >> >>, << "hann", << "i16", 2 >> >>, << "rect", << "i16", 1 >> >> >>
NthScheds(c) ==
  { << 0, j, << Hint, NthOp(j), Hint, Nx, Hint >> >> : j \in 0..(c + 1) }
  \cup { << 1, j, << Nx, NthOp(j), Hint, Nx >> >> : j \in { x \in {c - 2, c - 1} : x >= 0 } }
  \cup { << 2, j, << SkipOp(j), Hint, Nx, Hint >> >> : j \in { x \in {0, c - 1, c} : x >= 0 } }
  \cup { << 3, st, << StepOp(st, c + 1), Hint, Nx >> >> : st \in 1..3 }
NthStim ==
  UNION { { LET kf == KF[((LL + bb + hh + sc[1] + sc[2]) % 8) + 1] IN << WReset(kf[1], kf[2], LL, bb, hh) >> \o sc[3]
            : sc \in NthScheds(Count(LL, bb, hh)) }
          : LL \in 0..MaxL, bb \in 2..MaxB, hh \in 1..MaxH }
\* the window functions themselves (dasp_window::Window::window) at the phases k/24, one ulp either side of
\* the ends, and -- the rectangle is 1 EVERYWHERE -- outside [0, 1]
EvalOp(nm, dn, u) == [ev |-> "eval", a |-> [num |-> nm, den |-> dn, ulps |-> u]]
EvalIn == [i \in 1..25 |-> EvalOp(i - 1, 24, 0)] \o << EvalOp(1, 1, 0), EvalOp(1, 2, 0), EvalOp(0, 1, 0),
            EvalOp(1, 1, -1), EvalOp(0, 1, 1), EvalOp(1, 3, 0), EvalOp(2, 7, 0), EvalOp(1, 2, 1), EvalOp(1, 2, -1) >>
EvalOut == << EvalOp(1, 1, 1), EvalOp(0, 1, -1), EvalOp(-1, 4, 0), EvalOp(5, 4, 0), EvalOp(2, 1, 0), EvalOp(-1, 1, 0),
              EvalOp(3, 2, 0), EvalOp(-1, 24, 0), EvalOp(25, 24, 0) >>
FnStim == { << [ev |-> "reset", comp |-> "winfn", cfg |-> [kind |-> kd, fmt |-> f]] >>
            \o (IF kd = "rect" THEN EvalIn \o EvalOut ELSE EvalIn)
            : kd \in {"hann", "rect"}, f \in {"f64", "f32", "i16"} }
Stimuli ==
  { << WReset(kd, fc, LL, bb, hh) >> \o Ops(Count(LL, bb, hh) + 2)
    : LL \in 0..MaxL, bb \in 2..MaxB, hh \in 1..MaxH, kd \in {"hann", "rect"}, fc \in Fmts }
  \cup NthStim \cup FnStim
  \cup
  { << [ev |-> "reset", comp |-> "window", cfg |-> [kind |-> kd, fmt |-> f, n |-> nn]],
       [ev |-> "take", a |-> [n |-> nn]] >>
    : kd \in {"hann", "rect"}, f \in {"f64", "f32"}, nn \in 2..25 }
WriteStimuli ==
  IF "STIM_OUT" \in DOMAIN IOEnv
    THEN /\ ndJsonSerialize(IOEnv.STIM_OUT, SetToSeq(Stimuli))
         /\ PrintT(<< "STIMULI", Cardinality(Stimuli) >>)
    ELSE TRUE
ASSUME WriteStimuli
=============================================================================
