SPECIFICATION Spec
CONSTANTS
  MaxDepth = 4
  MaxResets = 3
  BigDepths = {36, 50, 64}
  MaxZ = 9
  GridDepths = {33, 35, 36, 37, 48, 50, 64, 96, 128}
  NearDepths = {4, 5, 6, 7, 8, 16, 36}
INVARIANTS GridDelay ConvDelay TapRange ResetInit RingOK IdxLaw KernelForm SilentOut
CHECK_DEADLOCK FALSE
