SPECIFICATION Spec
CONSTANTS
  MaxDepth = 4
  MaxResets = 3
INVARIANTS GridDelay ConvDelay TapRange ResetInit RingOK IdxLaw
CHECK_DEADLOCK FALSE
