SPECIFICATION Spec
CONSTANTS
  MaxL = 12
  MaxB = 6
  MaxH = 14
  MaxJ = 4
INVARIANTS ChunkContent ChunkCount HintOK Coverage NthOK
CHECK_DEADLOCK FALSE
