SPECIFICATION Spec
CONSTANTS
  MaxL = 12
  MaxB = 6
  MaxH = 14
INVARIANTS ChunkContent ChunkCount HintOK Coverage
CHECK_DEADLOCK FALSE
