SPECIFICATION Spec
CONSTANTS
  MaxL = 12
  MaxB = 6
  MaxH = 14
  MaxJ = 4
  MaxSet = 2
INVARIANTS ChunkContent ChunkCount HintOK Coverage NthOK FieldsOK ConsumeOK
CHECK_DEADLOCK FALSE
