SPECIFICATION Spec
CONSTANTS
  MaxLog = 4
  MaxHz = 40
  Frames = 24
  NoiseM = 4
  NoiseLen = 3
  Thorough = FALSE
INVARIANTS PhaseRange PhaseStep SawRel SquareRel AmpRange HzPulls SineSpecial NoiseDeterministic NoiseTopSeeds
VIEW View
CHECK_DEADLOCK FALSE
