SPECIFICATION Spec
CONSTANTS
  MaxL = 10
  MaxB = 5
  MaxH = 12
  MaxJ = 3
  MaxSet = 1
INVARIANTS ChunkContent ChunkCount HintOK Coverage NthOK FieldsOK ConsumeOK
CHECK_DEADLOCK FALSE
