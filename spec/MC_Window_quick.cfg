SPECIFICATION Spec
CONSTANTS
  MaxL = 10
  MaxB = 5
  MaxH = 12
  MaxJ = 3
INVARIANTS ChunkContent ChunkCount HintOK Coverage NthOK
CHECK_DEADLOCK FALSE
