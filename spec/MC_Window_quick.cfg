SPECIFICATION Spec
CONSTANTS
  MaxL = 10
  MaxB = 5
  MaxH = 12
INVARIANTS ChunkContent ChunkCount HintOK Coverage
CHECK_DEADLOCK FALSE
