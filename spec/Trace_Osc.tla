----------------------------- MODULE Trace_Osc -----------------------------
(***************************************************************************)
(* Trace validation for C17: dasp_signal oscillators and noise.            *)
(*                                                                         *)
(* Components (harness/hx_dsp2/src/osc.rs):                                *)
(*   osc    one `next` line per frame; all oscillator kinds run in lock    *)
(*          step on the same frequency sequence.  Logged: hz (and hzi when *)
(*          it is an integer), ph = Phase::next_phase, q = Step::step,     *)
(*          sine, saw, square, simplex, the half-period twin (anti, aph),  *)
(*          pull counts of every instrumented frequency signal.            *)
(*          cfg.exh >= 0 (hz mode): every frequency signal reports         *)
(*          is_exhausted() once it has been pulled exh times and goes on   *)
(*          yielding its frequencies (o.exhd = what each reports now).     *)
(*          The property does not let the oscillator off: still one pull   *)
(*          per output and the same phase recurrence.                      *)
(*          `agg` = a long run reported as extremes.                       *)
(*          `peek{m}` = the next m frames of a CLONE of every oscillator,  *)
(*          each read through the provided Signal::take on the concrete    *)
(*          type; the originals are not advanced.  The following m `next`  *)
(*          lines must reproduce the look-ahead bit for bit (a clone taken *)
(*          mid-run continues as the original does).                       *)
(*   noise  `next` on instance 0 (original), 1 (restart), 2 (clone);       *)
(*          `peek{inst,m}` = the next m values of a clone of the instance  *)
(*          through Signal::take (the instance itself does not advance).   *)
(* Accepted iff (layer 1 of Osc.tla)                                       *)
(*   ph_0 = 0; ph' = (ph + q) mod 1 within 2 ulp of the sum, exactly when  *)
(*   the sum is representable; q = hz/rate within 2 ulp (by the inverse),  *)
(*   exactly for power-of-two rates; ph in [0, 1);                         *)
(*   saw within 2 ulp of 1 - 2 ph (exact when representable); square exact;*)
(*   sine at a special phase k/24 matches the algebraic class to 1e-12,    *)
(*   always: range, half-cycle sign, antisymmetry with the twin;           *)
(*   every output finite and in [-1, 1]; pulls = frames (twins: + 1);      *)
(*   noise in [-1, 1] and one value per index across all instances, in     *)
(*   every build profile, at every counter - in particular where an        *)
(*   operation of the hash chain crosses 2^64 (reset cfg.cross, verified). *)
(***************************************************************************)
EXTENDS Osc, TLC, Json, IOUtils

Rec == ndJsonDeserialize(IOEnv.TRACE)

VARIABLES l, comp, st, nz, skip
vars == << l, comp, st, nz, skip >>
Ev == Rec[l]

FZ == FZeroF(0)
NoPeek == [ph |-> << >>, q |-> << >>, sine |-> << >>, saw |-> << >>, square |-> << >>, simplex |-> << >>]
\* pkv / pki: the look-ahead of the last `peek` (values a clone of every oscillator yielded through
\* Signal::take) and the index of the entry the next frame has to reproduce (pki > Len: nothing pending)
St0 == [mode |-> "none", rate |-> FZ, ratei |-> -1, exh |-> -1, pn |-> -1, n |-> 0, pk |-> "start", ph |-> FZ, q |-> FZ, chz |-> FZ,
        pkv |-> NoPeek, pki |-> 1]
Nz0 == [log |-> << >>, idx |-> << -1, -1, -1 >>]

Pow2s == {Pow2Small(k) : k \in 0..24}
Log2(x) == CHOOSE k \in 0..24 : Pow2Small(k) = x
AllEq(s, v) == \A i \in 1..Len(s) : s[i] = v
HeapOK == Ev.h = << 0, 0, 0 >>

---------------------------------------------------------------------------
(* osc *)
D(f) == Dec(F64, f)
Fin(f) == IsFields(f) /\ FIsFinite(F64, f)

AcceptResetOsc ==
  LET c == Ev.cfg IN
  /\ c.mode \in {"const", "hz"} /\ Ev.r.k = "unit" /\ Ev.o.ok
  /\ Fin(c.rate) /\ DSign(D(c.rate)) = 1                      \* domain: rate > 0
  /\ (c.ratei >= 0 => DEq(D(c.rate), DFromInt(c.ratei)))
  /\ c.exh >= -1 /\ (c.mode = "const" => c.exh = -1)

\* frequency argument: finite, non-negative, hzi (when given) is the same number
HzOK(a) == /\ Fin(a.hz) /\ DSign(D(a.hz)) >= 0
           /\ (a.hzi >= 0 => DEq(D(a.hz), DFromInt(a.hzi)))

StepOK(hz, q) ==
  /\ Fin(q)
  /\ IF st.ratei \in Pow2s
       THEN FEqVal(F64, q, StepPow2F(hz, Log2(st.ratei)))      \* exact domain: no tolerance
       ELSE StepAccept(hz, st.rate, q, 2)

PhaseOK(ph) ==
  /\ Fin(ph) /\ DLe(DZero, D(ph)) /\ DLt(D(ph), DOne)
  /\ CASE st.pk = "start" -> DIsZero(D(ph))                    \* the phase starts at 0
       [] st.pk = "known" -> PhaseAccept(st.ph, st.q, ph, 0)
       [] OTHER -> TRUE

\* exact rational phase pn / ratei of THIS frame (integer domain), -1 otherwise
\* (binding) after `pulled` pulls every frequency signal reports exhaustion iff its threshold is reached
SrcExhausted(pulled) == st.exh >= 0 /\ pulled >= st.exh
ExhOK(pulled) == Len(Ev.o.exhd) = 6 /\ AllEq(Ev.o.exhd, SrcExhausted(pulled))

NextPn(a) == IF st.pn >= 0 /\ a.hzi >= 0 /\ st.ratei >= 1 THEN (st.pn + a.hzi) % st.ratei ELSE -1

SineOK(v, has_anti) ==
  LET y == D(v.sine)
      p == D(v.ph)
      onGrid == st.pn >= 0 /\ (24 * st.pn) % st.ratei = 0
      k == IF onGrid THEN (24 * st.pn) \div st.ratei ELSE 0
      \* the observed phase really is k/24 (up to 2^-40 / 24): rounding at non-dyadic rates accumulates
      special == onGrid /\ DLe(DAbs(DSub(DMul(DFromInt(24), p), DFromInt(k))), DPow2(-40))
      dA == DAbs(DSub(DSub(D(v.aph), p), DHalf))
      dB == DAbs(DAdd(DSub(D(v.aph), p), DHalf))
      dd == DMin(dA, dB)                                        \* | aph - (ph + 1/2 mod 1) |
  IN /\ RangeAccept(v.sine)
     /\ SineSignOK(p, y)
     /\ (special => IsSin24(y, k))
     /\ (has_anti =>
           /\ Fin(v.anti) /\ Fin(v.aph)
           \* |sin 2 pi p + sin 2 pi aph| <= 1e-12 + 2 pi |aph - p - 1/2|
           /\ DLe(DMul(DAbs(DAdd(y, D(v.anti))), DE12), DAdd(DOne, DMul(DMul(DFromInt(7), dd), DE12))))

\* a clone taken mid-run continues exactly as the original does: the frame after a peek reproduces the
\* clone's look-ahead bit for bit (all six observed quantities)
PeekPending == st.pki <= Len(st.pkv.ph)
PeekMatch(v) ==
  PeekPending =>
    /\ v.ph = st.pkv.ph[st.pki] /\ v.q = st.pkv.q[st.pki] /\ v.sine = st.pkv.sine[st.pki]
    /\ v.saw = st.pkv.saw[st.pki] /\ v.square = st.pkv.square[st.pki] /\ v.simplex = st.pkv.simplex[st.pki]
AcceptPeek ==
  LET v == Ev.r.v IN
  /\ Ev.a.m \in 1..64 /\ Ev.r.k = "val" /\ Ev.o.ok
  /\ \A s \in { v.ph, v.q, v.sine, v.saw, v.square, v.simplex } : Len(s) = Ev.a.m /\ \A i \in 1..Len(s) : Fin(s[i])
  \* looking ahead through clones pulls nothing from the originals' frequency signals
  /\ IF st.mode = "hz" THEN Len(Ev.o.pulls) = 6 /\ AllEq(Ev.o.pulls, st.n) ELSE Len(Ev.o.pulls) = 0

AcceptNext ==
  LET a == Ev.a
      v == Ev.r.v
      n1 == st.n + 1
  IN /\ HzOK(a) /\ Ev.r.k = "val" /\ Ev.o.ok
     /\ PeekMatch(v)
     /\ (st.mode = "const" => st.n = 0 \/ a.hz = st.chz)     \* (binding) constant frequency
     /\ StepOK(a.hz, v.q)
     /\ PhaseOK(v.ph)
     /\ SawAccept(v.ph, v.saw) /\ RangeAccept(v.saw)
     /\ SquareAccept(v.ph, v.square)
     /\ RangeAccept(v.simplex)
     /\ SineOK(v, Ev.o.has_anti)
     /\ IF st.mode = "hz"
          THEN /\ Len(Ev.o.pulls) = 6 /\ AllEq(Ev.o.pulls, n1)          \* one frequency frame per output,
               /\ ExhOK(n1)                                              \* exhausted-reporting signal or not
               /\ Ev.o.has_anti /\ Len(Ev.o.apulls) = 2 /\ AllEq(Ev.o.apulls, n1 + 1)
          ELSE Len(Ev.o.pulls) = 0 /\ ~Ev.o.has_anti

AcceptAgg ==
  LET a == Ev.a
      v == Ev.r.v
  IN /\ HzOK(a) /\ a.n >= 1 /\ Ev.r.k = "val" /\ Ev.o.ok
     /\ v.nonfinite = 0 /\ Len(v.lo) = 5 /\ Len(v.hi) = 5
     /\ \A i \in 1..5 : Fin(v.lo[i]) /\ Fin(v.hi[i]) /\ DLe(D(v.lo[i]), D(v.hi[i]))
     /\ DLe(DZero, D(v.lo[1])) /\ DLt(D(v.hi[1]), DOne)                \* phase in [0, 1)
     /\ \A i \in 2..5 : DLe(DFromInt(-1), D(v.lo[i])) /\ DLe(D(v.hi[i]), DOne)
     /\ (st.mode = "hz" => Len(Ev.o.pulls) = 6 /\ AllEq(Ev.o.pulls, st.n + a.n) /\ ExhOK(st.n + a.n))
     /\ (st.mode = "const" => Len(Ev.o.pulls) = 0)

---------------------------------------------------------------------------
(* noise *)
\* cfg.cross / cfg.at: the stimulus claims that the counter seed + at takes the listed operations of the hash
\* chain across 2^64 (or yields the all-ones output): verified here on exact naturals (Osc.tla NoiseCross), so the
\* constants of the generator are not taken on trust.  The expectation is the same in every build profile:
\* a value in [-1, 1] at every index (AcceptNoiseNext: a panic is not an output).
AcceptResetNoise ==
  /\ Ev.r.k = "unit" /\ Ev.o.ok /\ IsSJson(Ev.cfg.seed) /\ Ev.cfg.seed.n = 0
  /\ BCmp(Ev.cfg.seed.l, BPow2(64)) < 0 /\ Ev.cfg.at \in 0..64
  /\ \A i \in 1..Len(Ev.cfg.cross) : NoiseLabelOK(U64(BAdd(Ev.cfg.seed.l, BFromNat(Ev.cfg.at))), Ev.cfg.cross[i])
InstOK(i) == i \in 0..2
AcceptNoiseNext ==
  /\ InstOK(Ev.a.inst) /\ nz.idx[Ev.a.inst + 1] >= 0
  /\ Ev.r.k = "val"                                             \* a panic is not an output
  /\ RangeAccept(Ev.r.v)
  /\ NoiseConsistent(nz.log, nz.idx[Ev.a.inst + 1], Ev.r.v)    \* pure function of (seed, index)
AcceptNoiseAgg ==
  /\ InstOK(Ev.a.inst) /\ nz.idx[Ev.a.inst + 1] >= 0 /\ Ev.r.k = "val"
  /\ Ev.r.v.nonfinite = 0 /\ Fin(Ev.r.v.lo) /\ Fin(Ev.r.v.hi)
  /\ DLe(DFromInt(-1), D(Ev.r.v.lo)) /\ DLe(D(Ev.r.v.lo), D(Ev.r.v.hi)) /\ DLe(D(Ev.r.v.hi), DOne)

---------------------------------------------------------------------------
Consume == l <= Len(Rec) /\ l' = l + 1
Reject == PrintT(<< "REJECT", l, Ev.ev >>)
HeapNote == IF Ev.r.k = "panic" \/ HeapOK THEN TRUE ELSE PrintT(<< "HEAP", l, Ev.ev >>)

TReset ==
  /\ Consume /\ Ev.ev = "reset"
  /\ IF Ev.comp = "osc" /\ AcceptResetOsc
       THEN /\ comp' = "osc" /\ skip' = FALSE /\ nz' = Nz0
            /\ st' = [St0 EXCEPT !.mode = Ev.cfg.mode, !.rate = Ev.cfg.rate, !.ratei = Ev.cfg.ratei, !.exh = Ev.cfg.exh,
                                 !.pn = IF Ev.cfg.ratei >= 1 THEN 0 ELSE -1]
     ELSE IF Ev.comp = "noise" /\ AcceptResetNoise
       THEN comp' = "noise" /\ skip' = FALSE /\ st' = St0 /\ nz' = [log |-> << >>, idx |-> << 0, -1, -1 >>]
     ELSE Reject /\ skip' = TRUE /\ comp' = "none" /\ st' = St0 /\ nz' = Nz0

OscNext ==
  /\ comp = "osc" /\ Ev.ev = "next"
  /\ IF AcceptNext
       THEN /\ st' = [st EXCEPT !.n = st.n + 1, !.pk = "known", !.ph = Ev.r.v.ph,
                                !.q = Ev.r.v.q, !.chz = Ev.a.hz,
                                !.pn = NextPn(Ev.a), !.pki = IF PeekPending THEN st.pki + 1 ELSE st.pki]
            /\ HeapNote /\ UNCHANGED << comp, nz, skip >>
       ELSE Reject /\ skip' = TRUE /\ UNCHANGED << comp, st, nz >>
OscAgg ==
  /\ comp = "osc" /\ Ev.ev = "agg"
  /\ IF AcceptAgg
       THEN /\ st' = [st EXCEPT !.n = st.n + Ev.a.n, !.pk = "unknown", !.pn = -1, !.pkv = NoPeek, !.pki = 1]
            /\ HeapNote /\ UNCHANGED << comp, nz, skip >>
       ELSE Reject /\ skip' = TRUE /\ UNCHANGED << comp, st, nz >>

OscPeek ==
  /\ comp = "osc" /\ Ev.ev = "peek"
  /\ IF AcceptPeek
       THEN /\ st' = [st EXCEPT !.pkv = Ev.r.v, !.pki = 1]
            /\ HeapNote /\ UNCHANGED << comp, nz, skip >>
       ELSE Reject /\ skip' = TRUE /\ UNCHANGED << comp, st, nz >>

\* noise: the next m values of a clone (Signal::take) are the values of the indices idx .. idx + m - 1
RECURSIVE NoisePeekOK(_, _, _, _)
NoisePeekOK(log, idx, vs, i) ==
  IF i > Len(vs) THEN TRUE
  ELSE /\ RangeAccept(vs[i]) /\ NoiseConsistent(log, idx, vs[i])
       /\ NoisePeekOK(NoiseLog(log, idx, vs[i]), idx + 1, vs, i + 1)
RECURSIVE NoisePeekLog(_, _, _, _)
NoisePeekLog(log, idx, vs, i) == IF i > Len(vs) THEN log ELSE NoisePeekLog(NoiseLog(log, idx, vs[i]), idx + 1, vs, i + 1)
NoisePeekEv ==
  /\ comp = "noise" /\ Ev.ev = "peek"
  /\ IF /\ InstOK(Ev.a.inst) /\ nz.idx[Ev.a.inst + 1] >= 0 /\ Ev.a.m \in 1..64 /\ Ev.r.k = "val" /\ Len(Ev.r.v) = Ev.a.m
        /\ NoisePeekOK(nz.log, nz.idx[Ev.a.inst + 1], Ev.r.v, 1)
       THEN /\ nz' = [nz EXCEPT !.log = NoisePeekLog(nz.log, nz.idx[Ev.a.inst + 1], Ev.r.v, 1)]
            /\ HeapNote /\ UNCHANGED << comp, st, skip >>
       ELSE Reject /\ skip' = TRUE /\ UNCHANGED << comp, st, nz >>

NoiseNextEv ==
  /\ comp = "noise" /\ Ev.ev = "next"
  /\ IF AcceptNoiseNext
       THEN /\ nz' = [log |-> NoiseLog(nz.log, nz.idx[Ev.a.inst + 1], Ev.r.v),
                      idx |-> [nz.idx EXCEPT ![Ev.a.inst + 1] = @ + 1]]
            /\ HeapNote /\ UNCHANGED << comp, st, skip >>
       ELSE Reject /\ skip' = TRUE /\ UNCHANGED << comp, st, nz >>
NoiseCloneEv ==
  /\ comp = "noise" /\ Ev.ev = "clone"
  /\ IF InstOK(Ev.a.inst) /\ InstOK(Ev.a.from) /\ nz.idx[Ev.a.from + 1] >= 0 /\ Ev.r.k = "unit"
       THEN nz' = [nz EXCEPT !.idx[Ev.a.inst + 1] = nz.idx[Ev.a.from + 1]] /\ UNCHANGED << comp, st, skip >>
       ELSE Reject /\ skip' = TRUE /\ UNCHANGED << comp, st, nz >>
NoiseRestartEv ==
  /\ comp = "noise" /\ Ev.ev = "restart"
  /\ IF InstOK(Ev.a.inst) /\ Ev.r.k = "unit"
       THEN nz' = [nz EXCEPT !.idx[Ev.a.inst + 1] = 0] /\ UNCHANGED << comp, st, skip >>
       ELSE Reject /\ skip' = TRUE /\ UNCHANGED << comp, st, nz >>
NoiseAggEv ==
  /\ comp = "noise" /\ Ev.ev = "agg"
  /\ IF AcceptNoiseAgg
       THEN nz' = [nz EXCEPT !.idx[Ev.a.inst + 1] = -1] /\ HeapNote /\ UNCHANGED << comp, st, skip >>
       ELSE Reject /\ skip' = TRUE /\ UNCHANGED << comp, st, nz >>

Known == \/ comp = "osc" /\ Ev.ev \in {"next", "agg", "peek"}
         \/ comp = "noise" /\ Ev.ev \in {"next", "clone", "restart", "agg", "peek"}
TUnknown == ~Known /\ Reject /\ skip' = TRUE /\ UNCHANGED << comp, st, nz >>

TOp == /\ Consume /\ Ev.ev # "reset" /\ ~skip
       /\ (OscNext \/ OscAgg \/ OscPeek \/ NoisePeekEv \/ NoiseNextEv \/ NoiseCloneEv \/ NoiseRestartEv \/ NoiseAggEv \/ TUnknown)
TSkip == Consume /\ Ev.ev # "reset" /\ skip /\ UNCHANGED << comp, st, nz, skip >>

TraceInit == l = 1 /\ comp = "none" /\ st = St0 /\ nz = Nz0 /\ skip = TRUE
TraceNext == TReset \/ TOp \/ TSkip
TraceSpec == TraceInit /\ [][TraceNext]_vars

AllConsumed == IF TLCGet("stats").diameter - 1 = Len(Rec) THEN TRUE
               ELSE PrintT(<< "STUCK", TLCGet("stats").diameter, Len(Rec) >>) /\ FALSE
=============================================================================
