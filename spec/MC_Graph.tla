------------------------------ MODULE MC_Graph ------------------------------
(***************************************************************************)
(* Exhaustive check of property C09 on the model: for EVERY small directed *)
(* multigraph (self-loops, parallel edges, vacant slots), every output     *)
(* node and every neighbour order petgraph may use, the layer-2 traversal  *)
(* (DfsPostOrder over the reversed graph + the processor's loop) satisfies *)
(* layer 1: invokes exactly Ancestors*(out) \cup {out}, once each; hands    *)
(* every invocation one input per incoming edge from a different node,     *)
(* each showing that neighbour's current buffers, never its own; with an   *)
(* acyclic upstream set the order is topological and the buffers equal the *)
(* functional evaluation (Nodes.tla semantics of source / Sum / Pass).     *)
(* One Processor is reused for `calls` consecutive process calls with any  *)
(* output nodes.                                                           *)
(*                                                                         *)
(* Also writes the stimuli for the Rust harness: every enumerated graph    *)
(* ONCE (the code decides the traversal; Trace_Graph judges the logged     *)
(* order by layer 1), processed at every output node, followed by a second *)
(* differently shaped graph on the same Processor.                         *)
(***************************************************************************)
EXTENDS Nodes, TLC, Json, IOUtils, SequencesExt

CONSTANTS Shapes       \* set of << N, MaxMult, calls >>
VARIABLES g, out, d, order, ver0, ver, val0, val, call, lastEmit,
          desc, up      \* constants of the graph / of the call, kept in the state so they are computed once
vars == << g, out, d, order, ver0, ver, val0, val, call, lastEmit, desc, up >>

QuickShapes    == {<< 2, 2, 2 >>, << 3, 1, 2 >>}     \* multigraphs on <= 2 nodes, simple digraphs on 3
ThoroughShapes == {<< 3, 2, 2 >>, << 4, 1, 1 >>}     \* multigraphs on 3 nodes (19 683), simple digraphs on 4 (65 536)

\* graphs over the index range 0..N-1 with live set L (vacant slots carry no edges)
GraphWith(N, L, f) ==
  [n |-> N, live |-> L,
   mult |-> [u \in 0..(N - 1) |-> [v \in 0..(N - 1) |-> IF u \in L /\ v \in L THEN f[u][v] ELSE 0]]]
FullGraphsOn(N, M) ==
  {[n |-> N, live |-> 0..(N - 1), mult |-> m] : m \in [0..(N - 1) -> [0..(N - 1) -> 0..M]]}

---------------------------------------------------------------------------
(* node kinds of the graph harness, a function of the graph: feeder-less nodes are sources *)
KindOf(gg, v) == IF InDegree(gg, v) = 0 THEN "src"
                 ELSE IF (v + InDegree(gg, v)) % 2 = 0 THEN "sum" ELSE "pass"
DescOf(gg) == [v \in GIds(gg) |-> [kind |-> KindOf(gg, v), c |-> v + 1]]
NbOf(v) == (v % 2) + 1
InitOf(v) == 10 * (v + 1)
InitVal(gg) == [v \in GIds(gg) |-> [b \in 1..NbOf(v) |-> << InitOf(v) >>]]
Zeros(gg) == [v \in GIds(gg) |-> 0]

---------------------------------------------------------------------------
\* (no UNION of big sets anywhere: TLC's union is quadratic)
Init == /\ \E sh \in Shapes : \E L \in (SUBSET (0..(sh[1] - 1))) \ {{}} : \E f \in [L -> [L -> 0..sh[2]]] :
              g = GraphWith(sh[1], L, f)
        /\ out \in g.live
        /\ d = DfsStart(out)
        /\ order = << >> /\ lastEmit = -1 /\ call = 1
        /\ ver0 = Zeros(g) /\ ver = Zeros(g)
        /\ val0 = InitVal(g) /\ val = InitVal(g)
        /\ desc = DescOf(g) /\ up = Processed(g, out)

CallsOf(gg) == (CHOOSE sh \in Shapes : sh[1] = gg.n)[3]

\* one iteration of DfsPostOrder::next's loop; when it yields a node, the processor's loop body
\* runs Node::process on it (inputs = pointers to the feeders' live buffers)
Step == /\ ~DfsDone(d)
        /\ \E r \in DfsStep(g, d) :
             /\ d' = r.d
             /\ order' = order \o r.emit
             /\ IF r.emit = << >>
                  THEN lastEmit' = -1 /\ UNCHANGED << ver, val >>
                  ELSE LET n == r.emit[1]
                           x == InvokeNode(desc, val, ver, n, LoopInputsCanon(g, n))
                       IN /\ lastEmit' = n
                          /\ ver' = [ver EXCEPT ![n] = @ + 1]
                          /\ val' = x.val
        /\ UNCHANGED << g, out, ver0, val0, call, desc, up >>

\* the same Processor processes again (reset + move_to), any output node
Again == /\ DfsDone(d) /\ call < CallsOf(g)
         /\ \E o2 \in g.live : out' = o2 /\ d' = DfsStart(o2) /\ up' = Processed(g, o2)
         /\ order' = << >> /\ lastEmit' = -1 /\ call' = call + 1
         /\ ver0' = ver /\ val0' = val
         /\ UNCHANGED << g, ver, val, desc >>

Next == Step \/ Again
Spec == Init /\ [][Next]_vars

---------------------------------------------------------------------------
(* invariants = the clauses of C09 *)
WellFormed == (call = 1 /\ order = << >> /\ Len(d.stack) = 1 /\ d.disc = {} => GWellFormed(g) /\ desc = DescOf(g)) /\ out \in g.live

\* nothing is invoked twice, nothing outside the upstream set is invoked
Partial == /\ \A i \in 1..Len(order) : \A j \in 1..Len(order) : order[i] = order[j] => i = j
           /\ SeqRange(order) \subseteq up

\* every invocation: one input per incoming edge from a different node, whatever order the edges are
\* enumerated in; each input shows the feeder's current buffers; never the node's own buffers
Inputs == lastEmit # -1 =>
            \A ins \in LoopInputs(g, lastEmit) :
               /\ InputsOK(g, lastEmit, ins)
               /\ lastEmit \notin SeqRange(ins)
               /\ SeenOK(ver0, order, Len(order), ins, [i \in 1..Len(ins) |-> ver[ins[i]]])

\* at the end of a call: exactly the upstream set, once each; topological if acyclic
Final == DfsDone(d) =>
           /\ up = Processed(g, out)
           /\ OrderOK(g, out, order)
           /\ ver = VerAfter(g, ver0, order)
\* (model fact, stronger than the property: self-loops never disturb the order)
FinalModuloSelfLoops == DfsDone(d) /\ AcyclicModuloSelfLoops(g, up) => Topological(g, order)

\* acyclic upstream => the buffers of every processed node equal the functional evaluation;
\* nodes outside the upstream set keep their buffers
Functional ==
  DfsDone(d) =>
    /\ \A v \in GIds(g) \ up : val[v] = val0[v]
    /\ Acyclic(g, up) =>
         LET inq == [v \in GIds(g) |-> LoopInputsCanon(g, v)]
         IN \A v \in up : val[v] = FunVal(desc, val0, ver0, inq, v)

\* helpers (layer 1 only; the coded index scan is NOT a refinement once slots are vacant)
HelpersOnFullGraphs == g.live = GIds(g) => CodedHelpersAgree(g)
\* expected to FAIL (MC_Graph_helpers.cfg): the model-level counterexample to sources()/sinks() as coded
HelpersAsCoded == CodedHelpersAgree(g)

---------------------------------------------------------------------------
(* stimuli *)
RECURSIVE EdgesFrom(_, _)
EdgesFrom(gg, pairs) ==
  IF pairs = << >> THEN << >>
  ELSE LET p == Head(pairs) IN [i \in 1..gg.mult[p[1]][p[2]] |-> << p[1], p[2] >>] \o EdgesFrom(gg, Tail(pairs))
EdgesOf(gg) == EdgesFrom(gg, SetToSeq(GIds(gg) \X GIds(gg)))
IdSeq(gg) == [i \in 1..gg.n |-> i - 1]
CfgOf(gg, k) ==
  [slots |-> gg.n, live |-> IdSeq(gg), edges |-> EdgesOf(gg),
   kinds |-> [i \in 1..gg.n |-> KindOf(gg, i - 1)], c |-> [i \in 1..gg.n |-> i],
   nb |-> [i \in 1..gg.n |-> NbOf(i - 1)], init |-> [i \in 1..gg.n |-> InitOf(i - 1)],
   vacpat |-> k % 5, cap |-> IF k % 3 = 0 THEN 0 ELSE gg.n]
ProcessAll(gg) == [i \in 1..gg.n |-> [ev |-> "process", a |-> [out |-> i - 1]]]
                    \o << [ev |-> "process", a |-> [out |-> gg.n - 1]] >>
Queries == << [ev |-> "sources", a |-> [x |-> 0]], [ev |-> "sinks", a |-> [x |-> 0]] >>

RECURSIVE GraphSeqs(_)
GraphSeqs(shs) == IF shs = << >> THEN << >>
                  ELSE SetToSeq(FullGraphsOn(Head(shs)[1], Head(shs)[2])) \o GraphSeqs(Tail(shs))
StimGraphs == GraphSeqs(SetToSeq(Shapes))
\* graphs on <= 3 slots: all three containers, then a second, differently shaped graph on the same Processor;
\* graphs on 4 slots (65 536 of them): one container each (in rotation), one graph per Processor
ExecOf(G, k) ==
  LET g1 == G[k]
      g2 == G[((k * 7919) % Len(G)) + 1]
      Reset(vs) == [ev |-> "reset", comp |-> "graph", cfg |-> CfgOf(g1, k) @@ [variants |-> vs]]
  IN IF g1.n <= 3
       THEN << Reset(<< 0, 1, 2 >>) >> \o Queries \o ProcessAll(g1)
            \o << [ev |-> "graph", a |-> [cfg |-> CfgOf(g2, k + 1)]] >> \o Queries \o ProcessAll(g2)
       ELSE << Reset(<< k % 3 >>) >> \o Queries \o ProcessAll(g1)
WriteStimuli ==
  IF "STIM_OUT" \in DOMAIN IOEnv
    THEN LET G == StimGraphs      \* evaluated once
         IN /\ ndJsonSerialize(IOEnv.STIM_OUT, [k \in 1..Len(G) |-> ExecOf(G, k)])
            /\ PrintT(<< "STIMULI", Len(G) >>)
    ELSE TRUE
ASSUME WriteStimuli
=============================================================================
