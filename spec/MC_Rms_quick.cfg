SPECIFICATION Spec
CONSTANTS
  MaxWin = 3
  CloneFuel = 2
INVARIANTS RepInv SumIsWindow CachedAgrees OutRefines NonNeg ClampIdle ResetInit CloneSame Independent
CHECK_DEADLOCK FALSE
