SPECIFICATION Spec
CONSTANTS
  MaxWin = 3
INVARIANTS RepInv SumIsWindow CachedAgrees OutRefines NonNeg ClampIdle ResetInit
CHECK_DEADLOCK FALSE
