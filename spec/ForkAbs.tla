------------------------------ MODULE ForkAbs ------------------------------
(***************************************************************************)
(* Integer abstraction of Fork.tla for Apalache: the ring buffer holds the *)
(* frames (pulled - qlen, pulled], so only its length matters.  IndInv is  *)
(* an inductive invariant for ANY capacity Cap >= 1 and histories of any   *)
(* length (C12's unbounded quantifier); it implies InOrder / PullOnce /     *)
(* PendingOK of MC_Fork.  Checked by:                                      *)
(*   apalache-mc check --cinit=ConstInit --inv=IndInv --init=Init --length=0    *)
(*   apalache-mc check --cinit=ConstInit --inv=IndInv --init=IndInit --length=1 *)
(***************************************************************************)
EXTENDS Integers

CONSTANT
  \* @type: Int;
  Cap
VARIABLES
  \* @type: Int;
  qlen,
  \* @type: Bool;
  pendA,
  \* @type: Int;
  pulled,
  \* @type: Int;
  posA,
  \* @type: Int;
  posB,
  \* @type: Int;
  lastFrame,
  \* @type: Int;
  lastWant

ConstInit == Cap \in Nat /\ Cap >= 1

Init == qlen = 0 /\ pendA = FALSE /\ pulled = 0 /\ posA = 0 /\ posB = 0 /\ lastFrame = 0 /\ lastWant = 0

\* pull one source frame and push it (evicting the oldest when full)
PullPush == /\ pulled' = pulled + 1
            /\ qlen' = IF qlen = Cap THEN Cap ELSE qlen + 1
            /\ lastFrame' = pulled + 1
Pop == /\ lastFrame' = pulled - qlen + 1 /\ qlen' = qlen - 1 /\ pulled' = pulled

NextA == /\ posA + 1 - posB <= Cap                       \* C12's assumption
         /\ IF pendA /\ qlen > 0 THEN Pop /\ pendA' = pendA
            ELSE PullPush /\ pendA' = FALSE
         /\ lastWant' = posA + 1 /\ posA' = posA + 1 /\ posB' = posB
NextB == /\ posB + 1 - posA <= Cap
         /\ IF ~pendA /\ qlen > 0 THEN Pop /\ pendA' = pendA
            ELSE PullPush /\ pendA' = TRUE
         /\ lastWant' = posB + 1 /\ posB' = posB + 1 /\ posA' = posA
Next == NextA \/ NextB

IndInv == /\ qlen >= 0 /\ qlen <= Cap /\ pulled >= 0 /\ posA >= 0 /\ posB >= 0
          /\ lastFrame = lastWant                          \* InOrder: each branch sees 1,2,3,...
          /\ IF pendA THEN posB = pulled /\ posA = pulled - qlen
                      ELSE posA = pulled /\ posB = pulled - qlen   \* PullOnce, PendingOK

IndInit == /\ qlen \in Int /\ pendA \in BOOLEAN /\ pulled \in Int /\ posA \in Int /\ posB \in Int
           /\ lastFrame \in Int /\ lastWant \in Int
           /\ IndInv
=============================================================================
