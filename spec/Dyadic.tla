------------------------------- MODULE Dyadic -------------------------------
(***************************************************************************)
(* Dyadic rationals (-1)^neg * mag * 2^exp over Big naturals, and the IEEE *)
(* 754 binary32 / binary64 encodings dasp computes with.                   *)
(*                                                                         *)
(* A finite float is exactly a dyadic rational; IEEE + - * and the `as`    *)
(* casts are correctly rounded, so "exact result, then round to nearest    *)
(* even" IS the hardware result.  Floats travel through traces as their    *)
(* three raw fields {"s":sign,"e":biased exponent,"m":[mantissa limbs]},   *)
(* never as JSON decimals (TLC's JSON reader truncates those).             *)
(***************************************************************************)
EXTENDS Big

F32 == [p |-> 24, eb |-> 8,  bias |-> 127]
F64 == [p |-> 53, eb |-> 11, bias |-> 1023]
FmtOf(name) == IF name = "f32" THEN F32 ELSE F64

DMk(neg, mag, exp) == [neg |-> (neg /\ Len(mag) # 0), mag |-> mag, exp |-> exp]
DZero == [neg |-> FALSE, mag |-> << >>, exp |-> 0]
DIsZero(d) == Len(d.mag) = 0
DFromS(x) == DMk(x.neg, x.mag, 0)                 \* signed Big integer
DFromInt(i) == DFromS(SFromInt(i))
DPow2(k) == DMk(FALSE, << 1 >>, k)                \* 2^k, any integer k
DNeg(d) == DMk(~d.neg, d.mag, d.exp)
DAbs(d) == DMk(FALSE, d.mag, d.exp)
DScale2(d, k) == DMk(d.neg, d.mag, d.exp + k)     \* d * 2^k
DSign(d) == IF Len(d.mag) = 0 THEN 0 ELSE IF d.neg THEN -1 ELSE 1

\* signed mantissa of d at exponent e <= d.exp
AtExp(d, e) == SMk(d.neg, BShl(d.mag, d.exp - e))
MinE(x, y) == IF DIsZero(x) THEN y.exp ELSE IF DIsZero(y) THEN x.exp
              ELSE IF x.exp <= y.exp THEN x.exp ELSE y.exp

DAdd(x, y) == LET e == MinE(x, y)
                  s == SAdd(AtExp(x, e), AtExp(y, e))
              IN DMk(s.neg, s.mag, e)
DSub(x, y) == DAdd(x, DNeg(y))
DMul(x, y) == DMk(x.neg # y.neg, BMul(x.mag, y.mag), x.exp + y.exp)
DCmp(x, y) == LET e == MinE(x, y) IN SCmp(AtExp(x, e), AtExp(y, e))
DLt(x, y) == DCmp(x, y) < 0
DLe(x, y) == DCmp(x, y) <= 0
DEq(x, y) == DCmp(x, y) = 0
DMin(x, y) == IF DLe(x, y) THEN x ELSE y
DMax(x, y) == IF DLe(x, y) THEN y ELSE x
DBetween(lo, x, hi) == DLe(lo, x) /\ DLe(x, hi)

\* integer part
DTrunc(d) == IF d.exp >= 0 THEN SMk(d.neg, BShl(d.mag, d.exp))
             ELSE SMk(d.neg, BShr(d.mag, 0 - d.exp))
DFloor(d) == IF d.exp >= 0 THEN SMk(d.neg, BShl(d.mag, d.exp))
             ELSE SFloorShr(SMk(d.neg, d.mag), 0 - d.exp)
DIsInt(d) == d.exp >= 0 \/ BIsZero(BLowBits(d.mag, 0 - d.exp))

---------------------------------------------------------------------------
(* IEEE fields *)

EMax(F) == Pow2Small(F.eb) - 1                    \* all-ones exponent
IsFields(f) == f.s \in {0, 1} /\ f.e \in 0..2047 /\ IsBig(f.m)
FIsNan(F, f) == f.e = EMax(F) /\ Len(f.m) # 0
FIsInf(F, f) == f.e = EMax(F) /\ Len(f.m) = 0
FIsFinite(F, f) == f.e < EMax(F)
FIsZero(f) == f.e = 0 /\ Len(f.m) = 0

\* decode a finite float
Dec(F, f) ==
  IF f.e = 0 THEN DMk(f.s = 1, f.m, 2 - F.bias - F.p)
  ELSE DMk(f.s = 1, BAdd(f.m, BPow2(F.p - 1)), f.e - F.bias - F.p + 1)

FZeroF(s) == [s |-> s, e |-> 0, m |-> << >>]
FInfF(F, s) == [s |-> s, e |-> EMax(F), m |-> << >>]

\* round |mag * 2^exp| to nearest even in format F; mode "rne" or "trunc"
RoundMag(F, s, mag, exp, mode) ==
  IF Len(mag) = 0 THEN FZeroF(s) ELSE
  LET L    == BBitLen(mag)
      E    == exp + L - 1                          \* exponent of leading bit
      emin == 1 - F.bias
      q    == (IF E >= emin THEN E ELSE emin) - (F.p - 1)   \* quantum exponent
      sh   == q - exp
      m0   == IF sh <= 0 THEN BShl(mag, 0 - sh) ELSE BShr(mag, sh)
      rem  == IF sh <= 0 THEN << >> ELSE BLowBits(mag, sh)
      half == IF sh <= 0 THEN << >> ELSE BPow2(sh - 1)
      up   == /\ mode = "rne" /\ sh > 0
              /\ LET c == BCmp(rem, half) IN c > 0 \/ (c = 0 /\ ~BIsEven(m0))
      m1   == IF up THEN BAdd(m0, << 1 >>) ELSE m0
      ovf  == BBitLen(m1) > F.p                    \* rounded up to 2^p
      m2   == IF ovf THEN BShr(m1, 1) ELSE m1
      q2   == IF ovf THEN q + 1 ELSE q
  IN IF BBitLen(m2) < F.p
       THEN [s |-> s, e |-> 0, m |-> m2]           \* subnormal (or zero after rounding)
     ELSE LET be == q2 + F.p - 1 + F.bias IN
          IF be >= EMax(F) THEN (IF mode = "rne" THEN FInfF(F, s)
                                 ELSE [s |-> s, e |-> EMax(F) - 1, m |-> BSub(BPow2(F.p - 1), << 1 >>)])
          ELSE [s |-> s, e |-> be, m |-> BSub(m2, BPow2(F.p - 1))]

Rne(F, d) == RoundMag(F, IF d.neg THEN 1 ELSE 0, d.mag, d.exp, "rne")
RneS(F, s, d) == RoundMag(F, s, d.mag, d.exp, "rne")  \* explicit sign (for zeros)
IsExactIn(F, d) == DIsZero(d) \/ DEq(Dec(F, Rne(F, d)), d)

\* hardware operations on finite operands (fields in, fields out)
FMul(F, a, b) == RneS(F, IF a.s # b.s THEN 1 ELSE 0, DMul(Dec(F, a), Dec(F, b)))
FAdd(F, a, b) == LET d == DAdd(Dec(F, a), Dec(F, b)) IN
                 IF DIsZero(d) THEN FZeroF(IF a.s = 1 /\ b.s = 1 THEN 1 ELSE 0)
                 ELSE Rne(F, d)
FNegF(a) == [a EXCEPT !.s = 1 - a.s]
FSub(F, a, b) == FAdd(F, a, FNegF(b))
FFromS(F, x) == Rne(F, DFromS(x))                 \* integer `as` float
FCast(Fs, Fd, a) == RneS(Fd, a.s, Dec(Fs, a))     \* float `as` float (finite)

\* value equality identifying +0 and -0; bit equality is plain =
FEqVal(F, a, b) == FIsFinite(F, a) /\ FIsFinite(F, b) /\ DEq(Dec(F, a), Dec(F, b))

\* one unit in the last place of a finite float (as a dyadic)
Ulp(F, f) == IF f.e = 0 THEN DPow2(2 - F.bias - F.p) ELSE DPow2(f.e - F.bias - F.p + 1)
\* |x - y| <= k ulp(y)
WithinUlps(F, x, y, k) == DLe(DAbs(DSub(x, Dec(F, y))), DMul(DFromInt(k), Ulp(F, y)))

\* y = RNE(a / b) checked by the inverse: |a - y*b| <= ulp(y)/2 * |b|  (b # 0)
\* (slack of half an ulp on each side; ties are accepted either way)
IsQuotient(F, a, b, y) ==
  LET yd == Dec(F, y)
      err == DAbs(DSub(a, DMul(yd, b)))
  IN DLe(DScale2(err, 1), DMul(Ulp(F, y), DAbs(b)))
\* same with k ulps of slack
IsQuotientWithin(F, a, b, y, k) ==
  LET yd == Dec(F, y)
      err == DAbs(DSub(a, DMul(yd, b)))
  IN DLe(err, DMul(DMul(DFromInt(k), Ulp(F, y)), DAbs(b)))

\* y = sqrt(x) within k ulp, checked by squaring: (y - k ulp)^2 <= x <= (y + k ulp)^2, y >= 0
IsSqrtWithin(F, x, y, k) ==
  LET yd == Dec(F, y)
      u  == DMul(DFromInt(k), Ulp(F, y))
      lo == DSub(yd, u)
      hi == DAdd(yd, u)
  IN /\ y.s = 0 \/ FIsZero(y)
     /\ (DSign(lo) <= 0 \/ DLe(DMul(lo, lo), x))
     /\ DLe(x, DMul(hi, hi))
=============================================================================
