#!/usr/bin/env python3
"""mutcheck.py <patch.diff> <Cnn> [<Cnn> ...] [--tier quick|thorough] [--keep]

Mutation testing without touching /repo: makes a scratch git worktree of /repo's HEAD, applies the
patch, copies the harness workspaces with their path dependencies redirected to the scratch tree
(own target dirs), and runs the registered checks there.  Evidence, replays and work files go to
the scratch directory.  Everything is removed afterwards (unless --keep).  Prints one line per check:
  <Cnn> rc=<0|1|2> <first VIOLATION/KNOWN-FINDING line or last log line>"""
import os, shutil, subprocess, sys, tempfile
V = os.path.dirname(os.path.dirname(os.path.abspath(__file__)))
args = [a for a in sys.argv[1:] if not a.startswith("--")]
tier = "quick"
if "--tier" in sys.argv:
    tier = sys.argv[sys.argv.index("--tier") + 1]
    args.remove(tier)
keep = "--keep" in sys.argv
patch, pids = os.path.abspath(args[0]), args[1:]
base = tempfile.mkdtemp(prefix="mutcheck_", dir="/tmp")
repo = os.path.join(base, "repo")
rc_all = 0
try:
    subprocess.run(["git", "-C", "/repo", "worktree", "add", "--detach", "-f", repo, "HEAD"], check=True,
                   stdout=subprocess.DEVNULL, stderr=subprocess.DEVNULL)
    r = subprocess.run(["git", "-C", repo, "apply", patch], capture_output=True, text=True)
    if r.returncode != 0:
        print("patch does not apply:", r.stderr)
        sys.exit(2)
    for name in ("harness", "harness_nostd"):
        src = os.path.join(V, name)
        if not os.path.isdir(src):
            continue
        dst = os.path.join(base, name)
        shutil.copytree(src, dst, ignore=shutil.ignore_patterns("target"))
        for root, _, files in os.walk(dst):
            for f in files:
                if f == "Cargo.toml":
                    p = os.path.join(root, f)
                    t = open(p).read()
                    t2 = t.replace('"/repo/', '"%s/' % repo).replace('"../harness/', '"%s/harness/' % base)
                    if t2 != t:
                        open(p, "w").write(t2)
    env = dict(os.environ, VERIF_HARNESS=os.path.join(base, "harness"),
               VERIF_HARNESS_NOSTD=os.path.join(base, "harness_nostd"),
               VERIF_EVIDENCE_DIR=os.path.join(base, "evidence"), VERIF_REPLAY_DIR=os.path.join(base, "replays"),
               VERIF_WORK_DIR=os.path.join(base, "work"))
    for pid in pids:
        p = subprocess.run(["python3", os.path.join(V, "check.py"), pid, "--tier", tier], cwd=V, env=env,
                           capture_output=True, text=True)
        lines = [l for l in p.stdout.splitlines() if l.startswith(("VIOLATION", "KNOWN-FINDING"))]
        tail = (p.stderr.strip().splitlines() or [""])[-1]
        print("%s rc=%d %s" % (pid, p.returncode, (lines[0] if lines else tail)[:300]), flush=True)
        if p.returncode == 2:
            print(p.stderr[-1500:])
        rc_all = max(rc_all, p.returncode)
finally:
    if not keep:
        subprocess.run(["git", "-C", "/repo", "worktree", "remove", "--force", repo],
                       stdout=subprocess.DEVNULL, stderr=subprocess.DEVNULL)
        shutil.rmtree(base, ignore_errors=True)
        subprocess.run(["git", "-C", "/repo", "worktree", "prune"])
    else:
        print("kept", base)
sys.exit(rc_all)
