#!/usr/bin/env python3
"""run_equiv_c07.py [names...]: every equivalent refactor must also stay silent under C07 (no new heap activity,
lock-step clause).  C07 runs the pipelines of all families; for this batch each patch is run only against the
families that can reach the files it touches (VERIF_C07_ONLY), three patches at a time."""
import concurrent.futures as cf, glob, os, re, subprocess, sys
V = os.path.dirname(os.path.dirname(os.path.abspath(__file__)))
ALL = "ring,fork,buffered,bus-lockstep,graph,nodes,frame,slice,sample-C01,sample-C02,sample-C15,signal,rms,envelope,converter,osc,sinc,window"
REACH = [
    (r"dasp_ring_buffer/", "ring,fork,buffered,rms,envelope,converter,sinc,signal"),
    (r"dasp_sample/", ALL),
    (r"dasp_frame/", "frame,slice,signal,rms,envelope,converter,osc,sinc,window,fork,buffered,bus-lockstep"),
    (r"dasp_slice/", "frame,slice"),
    (r"dasp_signal/src/bus.rs", "bus-lockstep,signal"),
    (r"dasp_signal/src/window", "window"),
    (r"dasp_signal/src/rms.rs", "rms"),
    (r"dasp_signal/src/envelope.rs", "envelope"),
    (r"dasp_signal/src/interpolate.rs", "converter,sinc"),
    (r"dasp_signal/src/lib.rs", "signal,fork,buffered,osc,converter,sinc,rms,envelope,window"),
    (r"dasp_signal/src/ops.rs", "signal,osc"),
    (r"dasp_graph/", "graph,nodes"),
    (r"dasp_rms/", "rms,envelope"),
    (r"dasp_envelope/", "envelope"),
    (r"dasp_peak/", "envelope"),
    (r"dasp_interpolate/", "converter,sinc"),
    (r"dasp_window/", "window"),
]
def patch_of(name):
    f = os.path.join(V, "seeded/equivalent", name)
    return os.path.join(f, "patch.diff") if os.path.isdir(f) else f
def run(name):
    pf = patch_of(name)
    files = re.findall(r"^diff --git a/(\S+)", open(pf).read(), re.M)
    fams = []
    for f in files:
        hit = [fam for pat, fam in REACH if f.startswith(pat)]
        for x in (hit[0] if hit else ALL).split(","):
            if x not in fams:
                fams.append(x)
    env = dict(os.environ, VERIF_C07_ONLY=",".join(fams))
    p = subprocess.run(["python3", os.path.join(V, "tools/mutcheck.py"), pf, "C07"], capture_output=True, text=True, env=env)
    line = [l for l in p.stdout.splitlines() if l.startswith("C07 rc=")]
    return "%s [%s]: %s" % (name, ",".join(fams), (line[0] if line else (p.stdout[-200:] + p.stderr[-200:]))[:160])
names = sys.argv[1:] or sorted(n for n in os.listdir(os.path.join(V, "seeded/equivalent")) if re.match(r"(C\d+-r\d+$)|(e\d+.*\.diff$)", n))
with cf.ThreadPoolExecutor(max_workers=int(os.environ.get("EQUIV_JOBS", "3"))) as ex:
    for l in ex.map(run, names):
        print(l, flush=True)
