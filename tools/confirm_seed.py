#!/usr/bin/env python3
"""confirm_seed.py <seed_out_dir> <worktree>: independent confirmation of one seeded change.
1. clean worktree: demo passes;  2. patch applied: workspace tests pass (demo absent), demo fails.
The demo location and command are taken from demo.txt (`cp ... <dest>` and the first `cargo test ... --test` line)."""
import os, re, subprocess, sys
out, wt = sys.argv[1], sys.argv[2]
txt = open(os.path.join(out, "demo.txt")).read()
dest = re.search(r"cp \S+demo\.rs (\S+)", txt).group(1)
cmd = re.search(r"(cargo test [^\n`]*--test \S+)", txt).group(1).strip()
def sh(c, **k): return subprocess.run(c, shell=True, cwd=wt, capture_output=True, text=True, **k)
def clean():
    sh("git checkout -- . && git clean -fdq -e target")
clean()
destp = os.path.join(wt, dest)
os.makedirs(os.path.dirname(destp), exist_ok=True)
res = {}
sh("cp %s %s" % (os.path.join(out, "demo.rs"), destp))
r = sh(cmd); res["demo_clean_passes"] = r.returncode == 0
os.remove(destp)
a = sh("git apply %s" % os.path.join(out, "patch.diff")); res["applies"] = a.returncode == 0
r = sh("cargo test --workspace --offline 2>&1 | grep -E '^test result|error(\\[|:)' ")
lines = r.stdout.strip().splitlines()
res["suite_passes_with_patch"] = bool(lines) and all("test result: ok" in l for l in lines)
res["suite_result_lines"] = len(lines)
sh("cp %s %s" % (os.path.join(out, "demo.rs"), destp))
r = sh(cmd); res["demo_fails_with_patch"] = r.returncode != 0
clean()
print(out, res)
ok = res["demo_clean_passes"] and res["applies"] and res["suite_passes_with_patch"] and res["demo_fails_with_patch"]
sys.exit(0 if ok else 1)
