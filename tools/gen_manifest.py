#!/usr/bin/env python3
"""Regenerates /verif/MANIFEST.json from the table below (single source of truth for the
claimed checks) and validates it against the schema when jsonschema is importable."""
import json, os, subprocess, sys
V = os.path.dirname(os.path.dirname(os.path.abspath(__file__)))
PROPS = [json.loads(l)["id"] for l in open(os.path.join(V, "properties.jsonl"))]

TECH = ("explicit TLA+ specification checked with TLC (exhaustive small configurations) + TLC trace "
        "validation of executions of the real code driven by TLC-enumerated and random stimuli")

CLAIMED = {
 "C06": dict(
   text="RingBuffer.tla models Bounded/Fixed at two layers (code-shaped representation, ideal queue/delay line). "
        "TLC checks that every operation from EVERY valid representation state (capacity 1..3 quick / 1..4 thorough) "
        "refines the ideal queue (return value, content, views, no dead slot exposed); every such (state, operation) pair "
        "is executed on the real types over four storage kinds plus seeded random histories (capacity up to 64), and TLC "
        "validates every logged call, view and raw part against the ideal queue.",
   note="Trusted: TLC, the harness loggers, i32 as representative element type. Memory safety is observed only via guard "
        "words, sentinels in dead slots and process crashes (unsafe-precondition aborts are attributed to the stimulus); "
        "UB without observable effect is out of reach. Capacities above 4 are covered by random histories, not exhaustively.",
   design="5/C06"),
}
NOT_YET = "framework under construction in this session; check not built yet (will be claimed, see DESIGN.md section 5)"

m = {
 "version": 1,
 "setup_cmd": "cd /verif/harness && cargo build --offline --workspace -q && cargo build --offline --workspace --release -q",
 "hooks": {
  "guard": "rustaudio_dasp_verif",
  "enable": "rustflags --cfg rustaudio_dasp_verif in /verif/harness/.cargo/config.toml (cargo is always run from /verif/harness)",
  "baseline_off_cmd": "cd /repo && cargo test --workspace --no-fail-fast --offline",
  "source_commits": [],
  "add_only": True,
 },
 "engines": [
  {"name": "tlc-exhaustive", "path": "spec/MC_*.tla", "serves_properties": sorted(CLAIMED),
   "kind_free_text": "TLC exhaustive model checking of the TLA+ specification on small constants; emits stimuli"},
  {"name": "tlc-trace-validation", "path": "spec/Trace_*.tla", "serves_properties": sorted(CLAIMED),
   "kind_free_text": "TLC validates ndjson traces recorded from the real code against the specification's actions"},
  {"name": "rust-harness", "path": "harness/", "serves_properties": sorted(CLAIMED),
   "kind_free_text": "drivers + loggers only (no oracle); path dependencies on /repo's working tree"},
 ],
 "checks": [],
 "not_applicable": [],
 "notes": "DESIGN.md explains the approach; known_findings.json lists repaired and recorded defects.",
}
for pid in PROPS:
    if pid in CLAIMED:
        c = CLAIMED[pid]
        m["checks"].append({
            "property_id": pid,
            "quick_cmd": "python3 check.py %s --tier quick" % pid,
            "thorough_cmd": "python3 check.py %s --tier thorough" % pid,
            "evidence_file": "/verif/evidence/%s.json" % pid,
            "replay_cmd_template": "python3 check.py %s --replay {path}" % pid,
            "engine": "tlc-exhaustive + tlc-trace-validation + rust-harness",
            "level_claimed": {"category": "model_checking", "text": c["text"], "design_ref": c["design"]},
            "level_note": c["note"],
            "technique": TECH,
        })
    else:
        m["not_applicable"].append({"property_id": pid, "reason": NOT_YET})
json.dump(m, open(os.path.join(V, "MANIFEST.json"), "w"), indent=1)
try:
    import jsonschema
    jsonschema.validate(m, json.load(open("/root/.vp/MANIFEST.schema.json")))
    print("MANIFEST.json valid;", len(m["checks"]), "checks,", len(m["not_applicable"]), "not claimed")
except ImportError:
    print("written (run with python3-vt to validate)")
