#!/usr/bin/env python3
"""Regenerates /verif/MANIFEST.json from the table below (single source of truth for the
claimed checks) and validates it against the schema when jsonschema is importable."""
import json, os, subprocess, sys
V = os.path.dirname(os.path.dirname(os.path.abspath(__file__)))
PROPS = [json.loads(l)["id"] for l in open(os.path.join(V, "properties.jsonl"))]

TECH = ("explicit TLA+ specification checked with TLC (exhaustive small configurations) + TLC trace "
        "validation of executions of the real code driven by TLC-enumerated and random stimuli")

CLAIMED = {
 "C01": dict(
   text="SampleFormats.tla states integer conversion as its defining formula (signed amplitude x 2^(target bits - source bits), floored) in exact "
        "limb arithmetic. TLC checks the property's corollaries on it (widen-narrow identity, equilibrium and extremes, monotonicity, range, path "
        "independence through every admissible intermediate) for all 132 format pairs over boundary-structured value sets and exhaustively on "
        "scaled-down widths, and emits the boundary cases; the harness executes every case through all three API routes (to_sample, from_sample, "
        "conv::<src>::to_<dst>) plus exhaustive 8-bit sources, strided (quick) / exhaustive (thorough) 16-bit sources and random wide values, and TLC "
        "judges every result bit-exactly against the formula (including range of the 24/48-bit types).",
   note="Trusted: TLC, Big.tla (cross-checked against numpy), harness loggers. Sources wider than 16 bits are sampled (boundary + random), not exhausted.",
   design="5/C01"),
 "C02": dict(
   text="SampleFormats.tla/Dyadic.tla state int->float as amplitude / 2^(bits-1) correctly rounded, float->int as x 2^(bits-1) truncated toward zero "
        "and re-offset, f32<->f64 as exact / correctly rounded. TLC checks the corollaries (within [-1,1], monotone, equilibrium, exactness iff the "
        "width fits the mantissa, float->int inverts exact int->float, anchors) over boundary sets and emits them; the harness executes them and "
        "exhaustive 8/16-bit sources, random floats in [-1,1) incl. subnormals and grid points +-1 ulp, ties/overflow for f64->f32 through all API "
        "routes; TLC judges every result bit for bit from the IEEE fields.",
   note="Trusted: TLC, Big/Dyadic (cross-checked against numpy), harness loggers, rustc's IEEE semantics. The 2^32 f32 patterns x 12 targets are sampled.",
   design="5/C02"),
 "C15": dict(
   text="SampleTypes.tla models the eight custom-width types (checked new, From<backing> wrapping mod 2^bits, widening From, order, Add/Sub/Mul/Neg "
        "with panic-on-overflow under debug assertions and wrap otherwise). TLC checks closure (every result in [MIN,MAX] or a panic) over boundary "
        "sets and emits them; the harness is built and run in BOTH the debug and the release profile (each event logs cfg!(debug_assertions)) on "
        "boundary pairs, random pairs, far out-of-range From inputs, every widening From, comparisons, and in thorough all 2048^2 I11/U11 pairs x 3 "
        "ops; TLC judges every result exactly (value or panic according to the build).",
   note="Trusted: TLC, Big.tla, harness loggers. Wider types are sampled (boundary + random). Neg of the unsigned U11 is outside the statement ('negation "
        "of signed ones') and reported as out-of-domain, not judged.",
   design="5/C15"),
 "C03": dict(
   text="Frames.tla defines every frame operation as the per-channel lifting, in channel order, of the sample operation of SampleFormats.tla (offset / "
        "scale = native addition / multiplication on the Signed / Float image converted back; the associated-type table is part of the spec). TLC checks "
        "the identities (offset 0, scale 0.0, scale 1.0 exact iff the format fits the float companion's mantissa else within 2^(bits-p-2), unsigned "
        "re-centring, sample = 1-frame) over boundary values of all 14 formats and emits small cases; the harness instantiates one generic driver for "
        "every width N = 1..32 on all 14 formats and the bare-sample frame (map, zip_map, offset, scale, add, mul, to_signed, to_float, equilibrium, "
        "from_fn with call order, from_samples with consumed count, channels, channel(i)), logging the type names of the associated types, and TLC judges "
        "every channel of every result bit for bit.",
   note="Trusted: TLC, Big/Dyadic/SampleFormats, harness loggers. Offsets/gains are chosen so that the mathematical result is representable (events "
        "outside that domain are not judged). Values are boundary + random, not exhaustive.",
   design="5/C03"),
 "C10": dict(
   text="Slices.tla models the sample<->frame views (Some iff N divides L, layout frame i channel c = sample iN+c, same address, write-through, inverse), "
        "the boxed variants (allocation reused with no heap activity; a failed conversion frees exactly the box) and the in-place operations (element-wise "
        "frame operation; a length mismatch panics with the destination unchanged). TLC checks round trip and layout for N 1..32, L 0..2N+1 and emits "
        "every (N, L) and every pair of lengths for the two-slice operations; the harness runs them for shared, mutable and boxed slices (all 32 widths on "
        "i16/f32, all 14 formats on N in {1,2,3,32}) plus random long slices, logging option-ness, length, contents, pointer identity, write-through, heap "
        "counters and live-byte deltas, and TLC judges each event.",
   note="Trusted: TLC, harness loggers, the counting allocator. Memory identity is observed through pointer equality and heap counters; aliasing UB with "
        "no observable effect is out of reach.",
   design="5/C10"),
 "C04": dict(
   text="Signals.tla gives adaptor terms (map, zip_map, add/mul/scale/offset and per-channel variants, clip, inspect, delay, by_ref, sources, consumers) "
        "two independent semantics: an operational one mirroring each impl Signal (per-node state, shared source cursors, from_iter look-ahead) and a "
        "denotational one (n-th output = pointwise function of the n-th source frames, pulls per source). TLC enumerates all well-sorted terms to depth "
        "2 over sources of length 0..4 and checks operational = denotational, one pull per source per next (none during delay silence) and resume-after-"
        "by_ref; every term is then built from the REAL adaptor structs by a dynamic term builder over instrumented sources (plus random terms to depth "
        "5, 20 frame types) and TLC validates every frame and every per-source pull count against the denotation.",
   note="Trusted: TLC, Big/Dyadic/SampleFormats, harness loggers and its boxed-dyn term builder. Depth-3 terms are covered by random depth-5 terms, not "
        "exhaustively. Events whose arithmetic leaves the defined domain (overflow) are not judged.",
   design="5/C04 / C05"),
 "C05": dict(
   text="Same model and pipeline as C04 (Signals.tla); the C05 pass judges the exhaustion conjuncts: is_exhausted before/after every next equals the "
        "denotational length (min over sources, + k for delay; OR for combiners; delay live during its silence), equilibrium forever after the end of a "
        "source, until_exhausted / lift yield exactly Len(t) frames then None for good, take(n) yields n, interleaved sources drop a trailing partial "
        "frame and interleaved output yields frames x channels samples in channel order then None.",
   note="Trusted: as C04. MulHz's exhaustion (OR of source and control) is checked with C08.",
   design="5/C04 / C05"),
 "C06": dict(
   text="RingBuffer.tla models Bounded/Fixed at two layers (code-shaped representation, ideal queue/delay line). "
        "TLC checks that every operation from EVERY valid representation state (capacity 1..3 quick / 1..4 thorough) "
        "refines the ideal queue (return value, content, views, no dead slot exposed); every such (state, operation) pair "
        "is executed on the real types over four storage kinds plus seeded random histories (capacity up to 64), and TLC "
        "validates every logged call, view and raw part against the ideal queue. Thorough adds an Apalache inductive-invariant "
        "check of the integer abstraction RingIdxAbs (slot arithmetic of push/pop/evict for ANY capacity and unbounded histories).",
   note="Trusted: TLC, Apalache (thorough), the harness loggers, i32 as representative element type. Memory safety is observed only via guard "
        "words, sentinels in dead slots and process crashes (unsafe-precondition aborts are attributed to the stimulus); "
        "UB without observable effect is out of reach. Capacities above 4 are covered by random histories, not exhaustively.",
   design="5/C06"),
 "C07": dict(
   text="Heap.tla states the discipline: every trace specification of every component conjoins a heap predicate over the counters a counting "
        "global allocator measured strictly inside each call (steady-state operations: no allocation, reallocation or free; constructors, Fork::by_rc, "
        "boxed-slice conversions and the bus exempt; Processor::process judged once the same graph/output was processed before). This check runs the "
        "pipelines of ALL families concurrently (their TLC-enumerated and random stimuli on the real code: ring buffers, fork, buffered, sample/frame/"
        "slice operations, adaptor terms, converter, graph and nodes, rms, envelope, oscillators, sinc, windows) and reports the events on which only the "
        "heap conjunct fails. For the bus, MC_Heap model-checks that under lock-step pulling the backlog never exceeds one frame and is empty after every "
        "round, emits all lock-step schedules, and Trace_Bus validates backlog <= 1 and a heap footprint that stops growing after round 1.",
   note="Trusted: TLC, the counting allocator and the harness's discipline of allocating its own buffers before the measured window. Absence of allocation "
        "is established on the executions run (every operation kind, many values/lengths/orders), not proved value-independent. Functional rejections "
        "met on the way are left to the component's own property.",
   design="5/C07"),
 "C08": dict(
   text="Converter.tla models the rate converter at two layers: the code's accumulator loop over Floor / Linear interpolators, from_iter's look-ahead, "
        "the setters and MulHz (layer 2), and the closed-form source position P_n = sum of ratios (layer 1). TLC checks Position, FloorOut, LinearOut, "
        "InHull, Unity, ExhIff, Count and one-control-pull-per-output on dyadic ratios {1/4..3, 17/16} changing per frame, source lengths 0..8, and "
        "emits the behaviours; the harness runs them through every constructor route (from_hz_to_hz, scale_hz, scale_playback_hz, scale_sample_hz, "
        "the three setters, mul_hz) on f64/f32/i16/u8 mono and stereo over instrumented sources, plus random non-dyadic ratios and long runs "
        "(10k / 100k outputs); TLC validates pull counts and exhaustion flags exactly (the f64 accumulator is modelled bit-exactly), Floor frames "
        "exactly and Linear frames exactly on the exact domain, else within 4 ulp at the operands' scale / < 1 LSB. Thorough adds the Apalache "
        "inductive invariant of ConverterAbs (the accumulator loop in fixed point for ANY unit, per-frame ratio sequence and number of outputs).",
   note="Trusted: TLC, Apalache (thorough), Big/Dyadic, the fixed-point accumulator model (cross-checked against Dyadic by MC_ConverterFix), harness loggers. "
        "Ratios restricted to 0 or [2^-31, 2^23). Sinc interpolation is C18.",
   design="5/C08"),
 "C09": dict(
   text="Graph.tla models petgraph's DfsPostOrder on the reversed graph plus the processor loop (layer 2) and the relational property (processed set = "
        "ancestors of the output + output, once each, topological when acyclic, inputs = one per incoming edge from a different node showing the "
        "neighbour's current buffers, never its own; sources/sinks = live nodes without in/out edges). TLC checks that layer 2 refines layer 1 on all "
        "multigraphs on <= 2 nodes (multiplicity <= 2) and all digraphs with self-loops on 3 nodes, every live subset and output node (thorough: 3-node "
        "multigraphs and 4-node digraphs), and emits each graph; the harness builds it as Graph and StableGraph (with and without vacant slots), processes "
        "two differently shaped graphs with one Processor using instrumented nodes that stamp buffers, plus random graphs up to 12 nodes; TLC validates "
        "invocation order, per-invocation input lists and stamps, final buffers, and the sources()/sinks() lists.",
   note="Trusted: TLC, harness loggers and instrumented nodes. Exhaustive only for the stated node counts; larger graphs randomly. Traversal order is "
        "left free (any order satisfying the property is accepted).",
   design="5/C09"),
 "C16": dict(
   text="Nodes.tla models Sum, SumBuffers, Pass, Delay (over RingBuffer.tla's Fixed, state across calls), the signal node (position across calls), "
        "GraphNode and the wrappers as identity. TLC explores inputs 0..3 x buffers per node 0..3 (matching or not) x 3 consecutive calls at buffer "
        "length 3 and emits every case; the harness replays them at the real Buffer::LEN = 64 through every wrapper (&mut, Box, BoxedNode, BoxedNodeSend, "
        "dyn Fn/FnMut, fn pointers, nested GraphNode), with random integer contents, per-channel delay lengths and 50-call runs; TLC validates the "
        "output buffers after every call exactly.",
   note="Trusted: TLC, harness loggers. Buffers hold small integers (exact in f32). Delay rings and boxed signals are the crates.io 0.11.0 copies that "
        "dasp_graph links at the pinned commit (DESIGN section 2).",
   design="5/C16"),
 "C11": dict(
   text="RmsCore.tla holds the RMS model once (layer 1: the last N frames as exact values, true mean square; layer 2: the running sum over "
        "RingBuffer.tla's Fixed); MC_Rms instantiates it over integers and TLC checks SumIsWindow/NonNeg/ResetInit for N 1..3 (1..4 thorough) and all "
        "histories with resets to length 3N+2, emitting them as exact-domain stimuli; Rms.tla instantiates the same definitions over dyadic rationals "
        "for trace validation. The harness runs next/next_squared/current/reset and the signal adaptor (N <= 64, 1-4 channels, f32/f64/i8/i16/i32/u16, "
        "exact-domain and full-precision bursts) in the std build and, from a separate no_std workspace, the f32/f64 detector in the no_std build; TLC "
        "validates each output against the exact window sum with a rigorous running error budget, sqrt by squaring (std: correctly rounded within the "
        "budget; no_std: within 7% + negligible absolute term), non-negativity, finiteness and reset = fresh detector.",
   note="Trusted: TLC, Big/Dyadic, harness loggers. The error budget is rigorous for running-sum and recomputing implementations (constant 4u per step, "
        "see Trace_Rms header), not for arbitrary ones. The signal adaptor is not built under no_std (dasp_signal needs nightly there).",
   design="5/C11"),
 "C19": dict(
   text="Envelope.tla models the rectifiers on the signed image of every format and the one-pole detector env' = d + g(env - d) with attack/release "
        "selection and gains set by new/set_attack/set_release. TLC checks Between/ZeroTime/Monotone/SetLater on rational gains {0, 1/2, 3/4} and emits "
        "the histories; the harness runs all three rectifiers on boundary values of all 14 formats x 1-4 channels, and peak/RMS envelope detection on "
        "f32/f64/i16 frames with attack/release in {0, 1/4, 1/2, 1, 2, 5, 64} frames changed mid-run, logging the gain as a hint that the trace spec "
        "first verifies (hint^n * e = 1 within (n+2) 2^-22 via a rational enclosure of e); TLC validates rectifier outputs exactly and every envelope "
        "output against the recurrence (4 ulp at the operands' magnitude), between-ness, exact equality at time 0, and that setters only affect later frames.",
   note="Trusted: TLC, Big/Dyadic/SampleFormats, harness loggers. Time constants are limited to the listed values (the gain law is pinned by g^n e = 1); "
        "i16 input -32768 is excluded (negating it overflows inside the detector: outside 'negated amplitude is representable').",
   design="5/C19"),
 "C12": dict(
   text="Fork.tla models the fork at two layers (ForkShared as coded over RingBuffer.tla's Bounded; per-branch positions). TLC explores "
        "the whole tree of branch schedules (length 9 quick / 11 thorough, capacity 1..3 / 1..4, every start offset, with re-splits, lead <= capacity) "
        "checking InOrder/PullOnce/PendingOK/Content in every state and emits every complete schedule as a stimulus; each is executed on the real "
        "by_ref and by_rc branches over an instrumented source (plus long random schedules, capacity <= 16) and TLC validates frame, both pending "
        "counts and the source pull count after every call. Thorough adds an Apalache inductive-invariant check of the integer abstraction ForkAbs "
        "for ANY capacity and unbounded histories.",
   note="Trusted: TLC, Apalache (thorough), harness loggers. Frames are i32; schedules violating the property's own lead assumption are not judged. "
        "Exhaustive only up to the stated schedule length/capacity; beyond that random schedules and the abstraction's inductive invariant.",
   design="5/C12"),
 "C13": dict(
   text="Bus.tla models SharedNode as coded (backlog, frames_read map, pulled) and the property layer (attach point, received count per output). "
        "TLC explores the tree of all send/next/drop sequences (length 8 quick / 10 thorough, <= 3 live outputs) checking GapFree, Pending, PullOnce, "
        "Backlog, Content in every state and emits every maximal sequence; each runs on the real Bus (plus random histories with up to 6 live outputs, "
        "finite and infinite sources) and TLC validates frame, every live output's pending count and exhaustion flag, the pull count and the backlog "
        "length (verification hook) after every operation. Thorough adds the Apalache inductive invariant of BusAbs (unbounded histories).",
   note="Trusted: TLC, Apalache (thorough), harness loggers, the one-line cfg-guarded accessor Bus::verif_backlog_len. Outputs are identified by creation "
        "order. Exhaustive to the stated depth with <= 3 live outputs; more outputs only randomly.",
   design="5/C13"),
 "C14": dict(
   text="Buffered.tla models Buffered::next/next_frames/is_exhausted over RingBuffer.tla's Bounded and the property layer (stream = prefill, source, "
        "padding; buffered count; pulls). TLC explores the tree of all call sequences (length 3 quick / 4 thorough over next, next_frames taking "
        "0/1/cap/cap+1, is_exhausted) from every valid pre-fill/start offset, capacity 1..3 / 1..4 and several source lengths, checking StreamIs, "
        "PullQuantum, ExhIff, PadLtCap, NoPoison, and emits every sequence; each runs on the real type (plus random histories, capacity <= 32) and TLC "
        "validates frames/batches, the pull count and the exhaustion flag after every call. Thorough adds the Apalache inductive invariant of BufferedAbs.",
   note="Trusted: TLC, Apalache (thorough), harness loggers. The source is an instrumented user Signal (frame k = k, exhausted after srclen pulls). "
        "Exhaustive to the stated depth/capacity only.",
   design="5/C14"),
 "C17": dict(
   text="Osc.tla models phase accumulation (integer/dyadic layer 1, binary64 layer 2), saw, square, sine at algebraic special points and noise as an "
        "uninterpreted function of (seed, index). TLC checks PhaseRange/PhaseStep/SawRel/SquareRel/AmpRange/HzPulls/SineSpecial and noise determinism on "
        "rates {1..16}, per-frame frequencies 0..40 and histories of any length, emits exact-domain stimuli; the harness runs Phase, Sine, Saw, Square, "
        "NoiseSimplex, Noise (incl. the top seeds, clones, restarts) on these and on random rates/frequencies, and TLC validates every frame in dyadic "
        "arithmetic (phase recurrence within 2 ulp / exactly when representable, saw, square, range, sine special points to 1e-12, antisymmetry, "
        "frequency pulls, noise determinism).",
   note="Trusted: TLC, Big/Dyadic arithmetic modules (cross-checked against numpy), harness loggers. Sine accuracy away from phases k/24 and simplex "
        "noise beyond its range are not decided; the oscillators' private phase is observed through a Phase built on an identical source.",
   design="5/C17"),
 "C18": dict(
   text="Sinc.tla models the sinc interpolator over RingBuffer.tla's Fixed (idx, priming clamp, reset, unit impulse on the grid) and the converter at "
        "ratio 1. TLC checks GridDelay/ConvDelay/TapRange/ResetInit on depth 1..3 / 1..4 for all push/reset histories and emits them; the harness runs "
        "them and random runs (depth <= 32; f64, f32, i16; fractional positions; four interleaved instances fed a, b, a+b, 2^k a; constant passages; "
        "reset vs fresh twin) and TLC validates transparency on the grid (1e-12 peak), exact power-of-two scaling, superposition, finiteness, the 1% "
        "constant-input clause for depth >= 4 and reset = fresh, in dyadic arithmetic.",
   note="Trusted: TLC, Big/Dyadic, harness loggers. The kernel's shape is not fixed by the property and not checked; the superposition tolerance is "
        "head-room (4*depth*eps*peak), not a worst-case bound.",
   design="5/C18"),
 "C20": dict(
   text="Window.tla models the Window iterator (phases i/(n-1)), Hann via the sine table, Rectangle, and the Windower schedule (count, offsets, size "
        "hint). TLC checks ChunkCount/ChunkContent/Coverage/HintOK for L 0..10, b 2..5, h 1..12 (quick; larger thorough) and emits every (L,b,h) x "
        "window x frame format; the harness runs them and random L <= 4096, and TLC validates the chunk schedule, every chunk sample bit for bit "
        "against SampleFormats.MulAmp with the window values observed from the stand-alone Window, the Hann shape (special points, symmetry, ends, "
        "centre, monotone, range) and the size hint before every next(). Thorough adds the Apalache inductive invariant of WindowerAbs (schedule and "
        "size hint for ANY slice length, bin and hop, unbounded call sequences).",
   note="Trusted: TLC, Apalache (thorough), Big/Dyadic/SampleFormats, harness loggers. Hann accuracy away from special points is bounded only by symmetry/range/monotonicity.",
   design="5/C20"),
}
NOT_YET = "not claimed"

m = {
 "version": 1,
 "setup_cmd": "cd /verif/harness && cargo build --offline --workspace -q && cargo build --offline --workspace --release -q && cd /verif/harness_nostd && cargo build --offline -q -p hx_rms_nostd && cargo build --offline --release -q -p hx_rms_nostd",
 "hooks": {
  "guard": "rustaudio_dasp_verif",
  "enable": "rustflags --cfg rustaudio_dasp_verif in /verif/harness/.cargo/config.toml (cargo is always run from /verif/harness)",
  "baseline_off_cmd": "cd /repo && cargo test --workspace --no-fail-fast --offline",
  "source_commits": ["eb4e423"],
  "add_only": True,
 },
 "engines": [
  {"name": "tlc-exhaustive", "path": "spec/MC_*.tla", "serves_properties": sorted(CLAIMED),
   "kind_free_text": "TLC exhaustive model checking of the TLA+ specification on small constants; emits stimuli"},
  {"name": "tlc-trace-validation", "path": "spec/Trace_*.tla", "serves_properties": sorted(CLAIMED),
   "kind_free_text": "TLC validates ndjson traces recorded from the real code against the specification's actions"},
  {"name": "rust-harness", "path": "harness/", "serves_properties": sorted(CLAIMED),
   "kind_free_text": "drivers + loggers only (no oracle); path dependencies on /repo's working tree"},
 ],
 "checks": [],
 "not_applicable": [],
 "notes": "DESIGN.md explains the approach; known_findings.json lists repaired and recorded defects.",
}
for pid in PROPS:
    if pid in CLAIMED:
        c = CLAIMED[pid]
        m["checks"].append({
            "property_id": pid,
            "quick_cmd": "python3 check.py %s --tier quick" % pid,
            "thorough_cmd": "python3 check.py %s --tier thorough" % pid,
            "evidence_file": "/verif/evidence/%s.json" % pid,
            "replay_cmd_template": "python3 check.py %s --replay {path}" % pid,
            "engine": "tlc-exhaustive + tlc-trace-validation + rust-harness",
            "level_claimed": {"category": "model_checking", "text": c["text"], "design_ref": c["design"]},
            "level_note": c["note"],
            "technique": TECH,
        })
    else:
        m["not_applicable"].append({"property_id": pid, "reason": NOT_YET})
json.dump(m, open(os.path.join(V, "MANIFEST.json"), "w"), indent=1)
try:
    import jsonschema
    jsonschema.validate(m, json.load(open("/root/.vp/MANIFEST.schema.json")))
    print("MANIFEST.json valid;", len(m["checks"]), "checks,", len(m["not_applicable"]), "not claimed")
except ImportError:
    print("written (run with python3-vt to validate)")
