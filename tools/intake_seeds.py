#!/usr/bin/env python3
"""intake_seeds.py <PID>[tag] ...   e.g.  intake_seeds.py C03 C06r2
For every /tmp/seed_<PID><tag>/out/m*: confirm the change independently (tools/confirm_seed.py), store it as
/verif/seeded/<PID>-<tag>m<i>/ (patch.diff, demo.rs, demo.txt, meta.json + confirmation record), remove the
scratch worktree, then run the property's check against each stored change (tools/mutcheck.py, quick tier)."""
import glob, json, os, re, shutil, subprocess, sys
V = os.path.dirname(os.path.dirname(os.path.abspath(__file__)))
head = subprocess.run(["git", "-C", "/repo", "rev-parse", "--short", "HEAD"], capture_output=True, text=True).stdout.strip()
stored = []
for arg in sys.argv[1:]:
    m = re.match(r"(C\d+)(.*)", arg)
    pid, tag = m.group(1), m.group(2)
    base = "/tmp/seed_%s%s" % (pid, tag)
    keep = False
    for out in sorted(glob.glob(base + "/out/m*")):
        name = "%s-%s%s" % (pid, tag, os.path.basename(out))
        r = subprocess.run(["python3", os.path.join(V, "tools/confirm_seed.py"), out, base + "/repo"], capture_output=True, text=True)
        ok = r.returncode == 0
        print("confirm %s: %s %s" % (name, "OK" if ok else "NOT CONFIRMED", (r.stdout.strip().splitlines() or [r.stderr[-300:]])[-1][:250]), flush=True)
        if not ok:
            keep = True
            continue
        d = os.path.join(V, "seeded", name)
        os.makedirs(d, exist_ok=True)
        for f in ("patch.diff", "demo.rs", "demo.txt", "meta.json"):
            shutil.copy(os.path.join(out, f), d)
        meta = json.load(open(os.path.join(d, "meta.json")))
        meta["confirmed_by_lead"] = {"tool": "tools/confirm_seed.py", "demo_passes_on_clean_tree": True,
                                     "workspace_suite_passes_with_patch": True, "demo_fails_with_patch": True,
                                     "base_commit": head}
        json.dump(meta, open(os.path.join(d, "meta.json"), "w"), indent=1)
        stored.append(name)
    if keep:
        print("kept %s (something was not confirmed: look at it by hand)" % base)
        continue
    subprocess.run(["git", "-C", "/repo", "worktree", "remove", "--force", base + "/repo"], capture_output=True)
    shutil.rmtree(base, ignore_errors=True)
subprocess.run(["git", "-C", "/repo", "worktree", "prune"])
if stored:
    r = subprocess.run([os.path.join(V, "tools/run_seeded.sh")] + stored, capture_output=True, text=True)
    print("\n".join(sorted(r.stdout.strip().splitlines())))
