#!/bin/sh
# run_seeded.sh [ids...]: run each seeded change against the check of the property it breaks (quick tier)
# in a scratch worktree (tools/mutcheck.py); prints one line per seed.  4 at a time.
cd /verif
ids="$@"; [ -z "$ids" ] && ids=$(ls seeded)
echo $ids | tr ' ' '\n' | xargs -P 3 -I{} sh -c 'p=$(echo {} | cut -d- -f1 | cut -c1-3); echo "{}: $(python3 tools/mutcheck.py seeded/{}/patch.diff $p 2>&1 | grep -E "^C[0-9]+ rc=" | head -1)"'
