#!/usr/bin/env python3
"""Regenerates the table of seeded changes in DESIGN.md (section 13) from seeded/*/meta.json and seeded/RESULTS.txt."""
import glob, json, os, re
V = os.path.dirname(os.path.dirname(os.path.abspath(__file__)))
res = {}
for l in open(os.path.join(V, "seeded/RESULTS.txt")):
    m = re.match(r"(\S+): (C\d+) rc=(\d)", l)
    if m:
        res[m.group(1)] = (m.group(2), m.group(3))
FIRST_MISS = {
 "C12-m1": "by_ref -> by_rc re-split added to MC_Fork / hx_stream",
 "C11-m1": "absorb-then-reset scenario added to the RMS generator",
 "C11-m2": "adaptor over a finite source read past its end added",
 "C02-m1": "rounding-midpoint amplitudes at every exponent added",
 "C04-m1": "sources holding the extreme samples of the format through every adaptor added",
 "C04-r2m2": "float frames beyond full scale with clip thresholds >= 1.0 added",
 "C05-r2m1": "harness source iterators made non-fused (ghost items after the first None)",
 "C16-r2m3": "invocations of the wrapped node counted under every wrapper (zero output buffers included)",
 "C17-r2m1": "step must be the exact quotient when it is representable; rates r with r*(1/r) != 1 added",
 "C17-r2m3": "sample rates below 1 added",
 "C07-r2m3": "lock-step bus model with drop/attach between rounds; heap clause judged even after a C13 rejection",
 "C03-r3m2": "channel iterators driven through nth / skip / step_by / rev / last / count (Frames.tla iterator model)",
 "C04-r3m1": "i32 / u32 / i64 frame sorts (values beyond the float mantissa) added to the term builder and generators",
 "C05-r3m3": "clone consumers (il_clone / ue_clone / take_clone) and `clone` events added",
 "C17-r3m1": "frequency source that reports exhaustion while still yielding frequencies",
 "C18-r3m3": "i32 frames (more than 24 significant bits) added to the sinc drivers",
 "C19-r3m2": "envelope adaptor over a finite source read past its end",
 "C19-r3m3": "negative-zero attack / release times (constructor and setters)",
 "C20-r3m2": "Windower driven through nth / skip / step_by (Window.tla NthAfter)",
 "C20-r3m3": "direct evaluation of the window functions at given phases (1.0 and outside [0,1] included)",
 "C07-r4m1": "fork heap clause judged beyond C12's lead assumption; random schedules that overrun the ring",
 "C03-r4m2": "identity gain/offset judged at the top values whose float image is 1.0",
 "C04-r4m1": "statically typed adaptor stacks (no boxing between levels)",
 "C04-r4m2": "statically typed adaptor stacks (no boxing between levels), extreme delay counts",
 "C19-r4m2": "clone-and-continue action for detectors / RMS",
 "C20-r4m1": "Iterator provided methods (last, count, fold ...) on Windower / Window",
 "C20-r4m2": "clone-and-continue action for Windower / Window",
 "C20-r4m3": "public fields bin / hop / frames assigned between chunks (SetBin / SetHop / SetFrames actions)",
 "C06-r4m2": "(covered from the agent's report, before intake) provided Iterator methods of the draining iterator as queue actions",
 "C09-r4m2": "(covered from the agent's report, before intake) the free function dasp_graph::process driven alternately with the method",
 "C12-r4m2": "finite sources under a fork (frames after the end are equilibrium)",
 "C12-r4m3": "`drop` events: one branch dropped while leading / lagging, the survivor judged from where it was",
 "C13-r4m3": "`drop_bus` event: the Bus handle dropped while outputs lag",
 "C15-r4m1": "U11's Neg impl (outside 'negation of signed ones') now judged for the range invariant only: panic or a value inside [MIN, MAX]",
 "C18-r4m1": "ratio-1 transparency of integer formats at depths >= 36",
 "C18-r4m2": "superposition over inputs with runs of exact zeros (depth <= run < 2*depth) at fractional positions",
 "C11-r4m1": "(covered before intake by the clone actions added for C19-r4m2) clone of Rms / of the rms adaptor continued independently",
 "C06-r5m1": "release build profile executed too (debug_assert-only checks)",
 "C06-r5m3": "index_mut driven as one IndexMut call (the harness read through Index first, which hid it)",
 "C09-r5m2": "process{abort: k}: the k-th node panics, the caller catches it and reuses the processor (Trace_Graph TAbort / PrefixOK)",
 "C12-r5m2": "resplit {to: clone}: Fork::clone of a used fork",
 "C12-r5m3": "release build profile executed too",
 "C13-r5m2": "release build profile executed too",
 "C13-r5m3": "an output more than 4096 frames behind the leader",
 "C14-r5m3": "batches consumed by internal iteration (fold / for_each / count / last)",
 "C07-r5m2": "Debug formatting into a non-allocating sink as an operation (`fmt` events)",
 "C01-r5m1": "Sample's associated constants judged (`sconst`, `eqconv` events)",
 "C01-r5m2": "every conversion entry point: five routes per pair plus to_signed_sample / to_float_sample (`via`) and add_amp / mul_amp (`amp`)",
 "C01-r5m3": "every custom-type conversion result must be accepted by its checked constructor (`o.nw`)",
 "C03-r5m2": "release build profile executed too; offsets landing exactly on MIN / MAX of every integer format",
 "C03-r5m3": "clone / cycle of the channel iterators mid-iteration (Frames.tla ItOp clone, cycle)",
 "C10-r5m1": "release build profile executed too; longer-than mismatches in executions of their own (crash attribution)",
 "C05-r5m1": "`drive` events: provided Iterator methods on take / until_exhausted / interleaved samples as repeated next (Signals.tla ITERATOR METHODS)",
 "C05-r5m2": "C05 also runs the bus pipeline with only the is_exhausted conjunct of Trace_Bus allowed to reject (BUS_PROP=C05); C13 caught it already",
 "C11-r5m3": "RMS over the whole float value range (domain ends where N*x^2 overflows; format-dependent no_std absolute term)",
 "C17-r5m3": "noise hash chain on exact naturals: witness counters at which each u64 operation crosses 2^64 (spec-verified), debug build panics judged",
 "C18-r5m2": "exact positions next to the grid (1-2^-k, 2^-k, subnormals) and the constant clause through converters at near-integer phases",
 "C20-r5m1": "frame value patterns in windower input (silence at every position, per channel, runs, equal frames), u8/u16 frames",
 "C09-r3m1": "nodes without buffers anywhere in random graphs (counted per incoming edge when they are inputs)",
}
rows = []
for d in sorted(glob.glob(os.path.join(V, "seeded/C*"))):
    name = os.path.basename(d)
    m = json.load(open(os.path.join(d, "meta.json")))
    summ = re.sub(r"\s+", " ", str(m.get("summary", "")))[:170]
    needs = re.sub(r"\s+", " ", str(m.get("needs", "")))[:150]
    chk, rc = res.get(name, ("?", "?"))
    verdict = "caught (VIOLATION)" if rc == "1" else "MISSED" if rc == "0" else "?"
    if name in FIRST_MISS:
        verdict += "; missed at first: " + FIRST_MISS[name]
    rows.append("| %s | %s | %s | %s: %s |" % (name, summ.replace("|", "/"), needs.replace("|", "/"), chk, verdict))
table = "| seed | change | needs | check and outcome |\n|---|---|---|---|\n" + "\n".join(rows)
p = os.path.join(V, "DESIGN.md")
t = open(p).read()
start, end = "<!-- SEED-TABLE-BEGIN -->", "<!-- SEED-TABLE-END -->"
if start in t:
    t = t[:t.index(start) + len(start)] + "\n" + table + "\n" + t[t.index(end):]
    open(p, "w").write(t)
print(len(rows), "rows")
