#!/usr/bin/env python3
"""intake_refactors.py <PID> ...: for every /tmp/ref_<PID>/out/r*: check the patch applies and the workspace
suite passes with it (in the agent's worktree), store it as /verif/seeded/equivalent/<PID>-r<i>/, remove the
worktree, then run the property's check against it (tools/mutcheck.py).  Expected: rc=0 (silent).
rc=1 needs a human decision: false alarm of the check, or a refactoring that did change what the property fixes."""
import glob, json, os, shutil, subprocess, sys
V = os.path.dirname(os.path.dirname(os.path.abspath(__file__)))
stored = []
for pid in sys.argv[1:]:
    base = "/tmp/ref_%s" % pid
    wt = base + "/repo"
    for out in sorted(glob.glob(base + "/out/r*")):
        name = "%s-%s" % (pid, os.path.basename(out))
        def sh(c):
            return subprocess.run(c, shell=True, cwd=wt, capture_output=True, text=True)
        sh("git checkout -- . && git clean -fdq -e target")
        a = sh("git apply %s/patch.diff" % out)
        r = sh("cargo test --workspace --offline 2>&1 | grep -E '^test result|error(\\[|:)'")
        lines = r.stdout.strip().splitlines()
        ok = a.returncode == 0 and bool(lines) and all("test result: ok" in l for l in lines)
        sh("git checkout -- . && git clean -fdq -e target")
        print("suite %s: %s (%d result lines)" % (name, "ok" if ok else "FAILS", len(lines)), flush=True)
        if not ok:
            continue
        d = os.path.join(V, "seeded", "equivalent", name)
        os.makedirs(d, exist_ok=True)
        shutil.copy(os.path.join(out, "patch.diff"), d)
        shutil.copy(os.path.join(out, "meta.json"), d)
        stored.append((pid, name))
    subprocess.run(["git", "-C", "/repo", "worktree", "remove", "--force", wt], capture_output=True)
    shutil.rmtree(base, ignore_errors=True)
subprocess.run(["git", "-C", "/repo", "worktree", "prune"])
import concurrent.futures as cf
def run(x):
    pid, name = x
    p = subprocess.run(["python3", os.path.join(V, "tools/mutcheck.py"), os.path.join(V, "seeded/equivalent", name, "patch.diff"), pid],
                       capture_output=True, text=True)
    line = [l for l in p.stdout.splitlines() if l.startswith(pid + " rc=")]
    return "%s: %s" % (name, (line[0] if line else p.stdout[-300:] + p.stderr[-300:])[:260])
with cf.ThreadPoolExecutor(max_workers=4) as ex:
    for l in ex.map(run, stored):
        print(l, flush=True)
