#!/bin/sh
# every equivalent refactor must also stay silent under C07 (no new heap activity, lock-step clause)
cd /verif
ls seeded/equivalent | grep -E "^C[0-9]+-r[0-9]$|\.diff$" | xargs -P 3 -I{} sh -c 'f=seeded/equivalent/{}; [ -d $f ] && f=$f/patch.diff; echo "{}: $(python3 tools/mutcheck.py $f C07 2>&1 | grep -E "^C07 rc=" | cut -c1-120)"'
