fn main() {
    let _rb = rb_reg::Fixed::from(vec![0.0f32; 4]);
    let _d: dasp_graph::node::Delay<Vec<f32>> = dasp_graph::node::Delay(vec![_rb]);
    println!("ok");
}
