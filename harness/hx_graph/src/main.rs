//! Driver + logger for dasp_graph (properties C09 and C16).  No oracle logic: stimuli (from TLC's
//! MC_Graph / MC_Nodes or from `gen`) are executed on the real crate and everything the code did is
//! logged; Trace_Graph.tla / Trace_Nodes.tla judge the log.
//!
//! comp "graph" (C09): a graph of instrumented `Probe` nodes is built as petgraph `Graph` or
//!   `StableGraph` (with vacant slots made by adding and removing extra nodes), node weights
//!   `NodeData<Probe>`, `NodeData<BoxedNode>` or `NodeData<BoxedNodeSend>`.  A probe logs, per
//!   invocation, the inputs it is handed (identity by the stamp found in the input's buffers AND by
//!   pointer, the stamp's call counter, the number of buffers, the first sample), runs its function
//!   (source / dasp Sum / dasp Pass) and stamps its own buffers with (id, call#).  ONE Processor is
//!   used for every process call of an execution, across `graph` events that replace the graph.
//! comp "node" (C16): one node under test (any built-in kind, any wrapper) fed by no-op feeder
//!   nodes whose buffers the driver fills; a recording slot around the node under test copies what it
//!   is handed (inputs, output buffers before) and what it leaves (output buffers after).
use dasp_graph::node::{Delay, GraphNode, Pass, Sum, SumBuffers};
use dasp_graph::{BoxedNode, BoxedNodeSend, Buffer, Input, Node, NodeData, Processor};
use frame_reg::Frame;
use hx_common::*;
use petgraph::graph::{Graph, NodeIndex};
use petgraph::stable_graph::StableGraph;
use petgraph::visit::NodeIndexable;
use serde_json::{json, Value};
use sig_reg::Signal;
use std::cell::RefCell;
use std::marker::PhantomData;

#[global_allocator]
static A: CountingAlloc = CountingAlloc;

const LEN: usize = Buffer::LEN;
const ST_ID: usize = LEN - 2; // the two last samples of every probe buffer carry the stamp (id, call#)
const ST_CNT: usize = LEN - 1;

/// f32 -> the exact small integer it is; anything else clears `exact` (the spec then rejects).
fn fi(x: f32, exact: &mut bool) -> i64 {
    if x.is_finite() && x.fract() == 0.0 && x.abs() < 16_777_216.0 {
        x as i64
    } else {
        *exact = false;
        0
    }
}
fn us(v: &Value) -> usize {
    v.as_u64().expect("unsigned") as usize
}
fn uss(v: &Value) -> Vec<usize> {
    v.as_array().expect("array").iter().map(us).collect()
}
fn const_buf(v: f32) -> Buffer {
    Buffer::from([v; LEN])
}

// ============================================================================================
// C09: instrumented graph
// ============================================================================================

struct Rec9 {
    ptrs: Vec<(usize, i64)>,
    log: Vec<i64>,
    exact: bool,
    overflow: bool,
    /// process{abort: k}: the k-th probe invoked in this call panics after logging its inputs (0 = nobody)
    abort_at: i64,
    calls: i64,
}
impl Rec9 {
    fn push(&mut self, v: i64) {
        if self.log.len() == self.log.capacity() {
            self.overflow = true; // never allocate inside the measured window
        } else {
            self.log.push(v);
        }
    }
}
thread_local! {
    static R9: RefCell<Rec9> = RefCell::new(Rec9 { ptrs: Vec::new(), log: Vec::new(), exact: true, overflow: false, abort_at: 0, calls: 0 });
}

#[derive(Clone, Copy)]
enum PK {
    Src(i64),
    Sum,
    Pass,
}
struct Probe {
    id: i64,
    kind: PK,
    cnt: i64,
}
impl Node for Probe {
    fn process(&mut self, inputs: &[Input], output: &mut [Buffer]) {
        let abort = R9.with(|r| {
            let mut r = r.borrow_mut();
            r.calls += 1;
            r.abort_at > 0 && r.calls == r.abort_at
        });
        R9.with(|r| {
            let mut r = r.borrow_mut();
            r.push(self.id);
            r.push(inputs.len() as i64);
            for inp in inputs {
                let b = inp.buffers();
                let p = b.as_ptr() as usize;
                let pid = r.ptrs.iter().find(|(q, _)| *q == p).map(|(_, i)| *i).unwrap_or(-1);
                let mut ex = true;
                let (sid, scnt, v) = if b.is_empty() {
                    (-1, -1, 0)
                } else {
                    (fi(b[0][ST_ID], &mut ex), fi(b[0][ST_CNT], &mut ex), fi(b[0][0], &mut ex))
                };
                if !ex {
                    r.exact = false;
                }
                r.push(sid);
                r.push(scnt);
                r.push(pid);
                r.push(b.len() as i64);
                r.push(v);
            }
        });
        if abort {
            panic!("probe: requested abort");
        }
        match self.kind {
            PK::Src(c) => {
                let v = (c + self.cnt + 1) as f32;
                for b in output.iter_mut() {
                    for s in b.iter_mut() {
                        *s = v;
                    }
                }
            }
            PK::Sum => Sum.process(inputs, output),
            PK::Pass => Pass.process(inputs, output),
        }
        self.cnt += 1;
        for b in output.iter_mut() {
            b[ST_ID] = self.id as f32;
            b[ST_CNT] = self.cnt as f32;
        }
    }
}

/// Final buffer state of one node: per buffer the stamp and the run-length form of samples 0..LEN-2.
fn buf_obs(id: usize, bufs: &[Buffer], exact: &mut bool) -> Value {
    let mut st = Vec::new();
    let mut runs = Vec::new();
    for b in bufs {
        st.push(json!([fi(b[ST_ID], exact), fi(b[ST_CNT], exact)]));
        let mut rs: Vec<Value> = Vec::new();
        let mut i = 0;
        while i < ST_ID {
            let mut j = i;
            while j < ST_ID && b[j].to_bits() == b[i].to_bits() {
                j += 1;
            }
            rs.push(json!([fi(b[i], exact), j - i]));
            i = j;
        }
        runs.push(Value::Array(rs));
    }
    json!({"id": id, "st": st, "runs": runs})
}

fn probe_kind(cfg: &Value, i: usize) -> PK {
    match cfg["kinds"][i].as_str().unwrap_or("none") {
        "sum" => PK::Sum,
        "pass" => PK::Pass,
        _ => PK::Src(cfg["c"][i].as_i64().unwrap_or(0)),
    }
}

static EXECS: std::sync::atomic::AtomicUsize = std::sync::atomic::AtomicUsize::new(0);

macro_rules! c09_runner {
    ($fname:ident, $G:ident, $T:ty, $mk:expr, $stable:expr) => {
        fn $fname(out: &mut Out, ex: &[Value]) {
            type GT = $G<NodeData<$T>, (), petgraph::Directed, u32>;
            let mut proc: Option<Processor<GT>> = None;
            // both public entry points are driven: the `Processor::process` method and the free function
            // `dasp_graph::process`, alternating within an execution and starting with either
            let xn = EXECS.fetch_add(1, std::sync::atomic::Ordering::Relaxed);
            let mut pc = 0usize;
            let mut g: GT = <GT>::default();
            let mut slots = 0usize;
            let mut live: Vec<usize> = Vec::new();
            let mut maxin = 0usize;
            let mut nedges = 0usize;
            for ev in ex {
                let name = ev["ev"].as_str().unwrap();
                match name {
                    "reset" | "graph" => {
                        let cfg = if name == "reset" { &ev["cfg"] } else { &ev["a"]["cfg"] };
                        slots = us(&cfg["slots"]);
                        live = uss(&cfg["live"]);
                        let edges: Vec<(usize, usize)> =
                            cfg["edges"].as_array().unwrap().iter().map(|e| (us(&e[0]), us(&e[1]))).collect();
                        let vacant: Vec<usize> = (0..slots).filter(|i| !live.contains(i)).collect();
                        if !$stable && !vacant.is_empty() {
                            panic!("stimulus asks for vacant slots in a plain Graph");
                        }
                        g = <GT>::default();
                        for i in 0..slots {
                            let nb = if live.contains(&i) { us(&cfg["nb"][i]) } else { 1 };
                            let init = if live.contains(&i) { cfg["init"][i].as_i64().unwrap() as f32 } else { 0.0 };
                            let mut bufs = vec![const_buf(init); nb];
                            for b in bufs.iter_mut() {
                                b[ST_ID] = i as f32;
                                b[ST_CNT] = 0.0;
                            }
                            let p = Probe { id: i as i64, kind: probe_kind(cfg, i), cnt: 0 };
                            let ix = g.add_node(NodeData::new($mk(p), bufs));
                            assert_eq!(ix.index(), i, "harness: unexpected node index");
                        }
                        // extra nodes get edges to and from everything, so that removing them has work to do
                        let decoy = |g: &mut GT, v: usize| {
                            for &u in live.iter() {
                                g.add_edge(NodeIndex::new(v), NodeIndex::new(u), ());
                                g.add_edge(NodeIndex::new(u), NodeIndex::new(v), ());
                            }
                            g.add_edge(NodeIndex::new(v), NodeIndex::new(v), ());
                        };
                        for &v in vacant.iter().filter(|v| *v % 2 == 0) {
                            decoy(&mut g, v);
                        }
                        for (k, &(u, v)) in edges.iter().enumerate() {
                            g.add_edge(NodeIndex::new(u), NodeIndex::new(v), ());
                            if k == edges.len() / 2 {
                                for &v in vacant.iter().filter(|v| *v % 2 == 1) {
                                    decoy(&mut g, v);
                                }
                            }
                        }
                        if edges.is_empty() {
                            for &v in vacant.iter().filter(|v| *v % 2 == 1) {
                                decoy(&mut g, v);
                            }
                        }
                        let mut rm = vacant.clone();
                        if cfg["vacpat"].as_u64().unwrap_or(0) % 2 == 1 {
                            rm.reverse();
                        }
                        for v in rm {
                            g.remove_node(NodeIndex::new(v));
                        }
                        maxin = live.iter().map(|&v| edges.iter().filter(|e| e.1 == v && e.0 != v).count()).max().unwrap_or(0);
                        nedges = edges.len();
                        if proc.is_none() {
                            proc = Some(Processor::with_capacity(us(&cfg["cap"])));
                        }
                        let mut exact = true;
                        let bufs: Vec<Value> = (0..slots)
                            .map(|i| match g.node_weight(NodeIndex::new(i)) {
                                Some(w) => buf_obs(i, &w.buffers, &mut exact),
                                None => json!({"id": i, "st": [], "runs": []}),
                            })
                            .collect();
                        let o = json!({"ok": true, "exact": exact, "bound": g.node_bound(), "count": g.node_count(),
                                       "edges": g.edge_count(), "maxin": maxin, "bufs": bufs});
                        if name == "reset" {
                            out.line(&json!({"ev":"reset","comp":"graph","cfg":cfg,"r":r_unit(),"o":o}));
                        } else {
                            out.ev("graph", json!({"cfg": cfg}), r_unit(), o, [0, 0, 0]);
                        }
                    }
                    "process" => {
                        let o_ix = us(&ev["a"]["out"]);
                        let ptrs: Vec<(usize, i64)> = live
                            .iter()
                            .map(|&i| (g.node_weight(NodeIndex::new(i)).unwrap().buffers.as_ptr() as usize, i as i64))
                            .collect();
                        R9.with(|r| {
                            let mut r = r.borrow_mut();
                            r.ptrs = ptrs;
                            r.log = Vec::with_capacity(2 * slots + 5 * (nedges + 2 * slots * slots) + 16);
                            r.exact = true;
                            r.overflow = false;
                            r.abort_at = ev["a"]["abort"].as_i64().unwrap_or(0);
                            r.calls = 0;
                        });
                        let p = proc.as_mut().unwrap();
                        let free = (pc + xn) % 2 == 1;
                        pc += 1;
                        let (res, h, _) = measured(|| {
                            catch(|| {
                                if free {
                                    dasp_graph::process(p, &mut g, NodeIndex::new(o_ix))
                                } else {
                                    p.process(&mut g, NodeIndex::new(o_ix))
                                }
                            })
                        });
                        let (log, mut exact, overflow) = R9.with(|r| {
                            let r = r.borrow();
                            (r.log.clone(), r.exact, r.overflow)
                        });
                        let (mut order, mut src, mut cnt, mut ptr, mut nbs, mut val) =
                            (Vec::new(), Vec::new(), Vec::new(), Vec::new(), Vec::new(), Vec::new());
                        let mut i = 0;
                        while i + 1 < log.len() {
                            order.push(log[i]);
                            let k = log[i + 1] as usize;
                            let f = |off: usize| -> Vec<i64> { (0..k).map(|j| log[i + 2 + 5 * j + off]).collect() };
                            src.push(f(0));
                            cnt.push(f(1));
                            ptr.push(f(2));
                            nbs.push(f(3));
                            val.push(f(4));
                            i += 2 + 5 * k;
                        }
                        let bufs: Vec<Value> = (0..slots)
                            .map(|i| match g.node_weight(NodeIndex::new(i)) {
                                Some(w) => buf_obs(i, &w.buffers, &mut exact),
                                None => json!({"id": i, "st": [], "runs": []}),
                            })
                            .collect();
                        let o = json!({"ok": res.is_some() && !overflow, "exact": exact, "order": order, "src": src, "cnt": cnt,
                                       "ptr": ptr, "nbs": nbs, "val": val, "bufs": bufs,
                                       "bound": g.node_bound(), "maxin": maxin, "edges": nedges});
                        let abort_at = ev["a"]["abort"].as_i64().unwrap_or(0);
                        out.ev("process", json!({"out": o_ix, "via": if free { "fn" } else { "method" }, "abort": abort_at}), if res.is_some() { r_unit() } else { r_panic() }, o, h);
                    }
                    "sources" | "sinks" => {
                        let mut items: Vec<usize> = Vec::with_capacity(4 * slots + 16);
                        let gr = &g;
                        let (res, h, _) = measured(|| {
                            catch(|| {
                                if name == "sources" {
                                    for n in dasp_graph::sources(&gr) {
                                        if items.len() < items.capacity() {
                                            items.push(n.index());
                                        }
                                    }
                                } else {
                                    for n in dasp_graph::sinks(&gr) {
                                        if items.len() < items.capacity() {
                                            items.push(n.index());
                                        }
                                    }
                                }
                            })
                        });
                        let r = if res.is_some() { r_items(json!(items)) } else { r_panic() };
                        // slots / count let a reader (and known_findings predicates) see whether the graph has vacant slots
                        out.ev(name, json!({"x": 0}), r, json!({"ok": res.is_some(), "slots": slots, "count": g.node_count()}), h);
                    }
                    other => panic!("unknown graph event {}", other),
                }
            }
        }
    };
}
c09_runner!(c09_graph_plain, Graph, Probe, |p: Probe| p, false);
c09_runner!(c09_graph_boxed, Graph, BoxedNode, |p: Probe| BoxedNode::new(p), false);
c09_runner!(c09_graph_send, Graph, BoxedNodeSend, |p: Probe| BoxedNodeSend::new(p), false);
c09_runner!(c09_stable_plain, StableGraph, Probe, |p: Probe| p, true);
c09_runner!(c09_stable_boxed, StableGraph, BoxedNode, |p: Probe| BoxedNode::new(p), true);
c09_runner!(c09_stable_send, StableGraph, BoxedNodeSend, |p: Probe| BoxedNodeSend::new(p), true);

/// Where the real nodes of a k-node model graph go when extra (later removed) nodes are mixed in.
fn vac_layout(k: usize, pat: u64) -> (usize, Vec<usize>) {
    let mut slot_of = Vec::new();
    let mut next = 0usize;
    match pat % 5 {
        0 => next = 1,                       // V r0 r1 ...
        4 => next = 2,                       // V V r0 r1 ...
        2 => next = 1,                       // V r0 V r1 ... V
        _ => {}
    }
    for i in 0..k {
        slot_of.push(next);
        next += 1;
        if (pat % 5 == 1 && i == 0) || (pat % 5 == 2 && i == 0 && k > 1) {
            next += 1;                       // r0 V r1 ...
        }
    }
    let slots = match pat % 5 {
        2 | 3 => next + 1,                   // ... V at the end (a trailing vacancy shrinks node_bound)
        1 if k == 1 => next,
        _ => next,
    };
    (slots, slot_of)
}

/// A stimulus cfg in model coordinates (all slots live, no container) -> the cfg of one concrete variant
/// in index space, plus the map real node -> index.
fn remap_cfg(cfg: &Value, container: &str, weight: &str, vac: bool) -> (Value, Vec<usize>) {
    let k = us(&cfg["slots"]);
    let pat = cfg["vacpat"].as_u64().unwrap_or(0);
    let (slots, slot_of) = if vac { vac_layout(k, pat) } else { (k, (0..k).collect()) };
    let mut kinds = vec![json!("none"); slots];
    let mut c = vec![json!(0); slots];
    let mut nb = vec![json!(1); slots];
    let mut init = vec![json!(0); slots];
    for i in 0..k {
        kinds[slot_of[i]] = cfg["kinds"][i].clone();
        c[slot_of[i]] = cfg["c"][i].clone();
        nb[slot_of[i]] = cfg["nb"][i].clone();
        init[slot_of[i]] = cfg["init"][i].clone();
    }
    let edges: Vec<Value> =
        cfg["edges"].as_array().unwrap().iter().map(|e| json!([slot_of[us(&e[0])], slot_of[us(&e[1])]])).collect();
    let out = json!({"slots": slots, "live": slot_of, "edges": edges, "kinds": kinds, "c": c, "nb": nb, "init": init,
                     "vacpat": pat, "cap": cfg["cap"], "container": container, "weight": weight});
    (out, slot_of)
}

fn c09_variant(ex: &[Value], container: &str, weight: &str, vac: bool) -> Vec<Value> {
    let mut map: Vec<usize> = Vec::new();
    ex.iter()
        .map(|ev| match ev["ev"].as_str().unwrap() {
            "reset" => {
                let (cfg, m) = remap_cfg(&ev["cfg"], container, weight, vac);
                map = m;
                json!({"ev":"reset","comp":"graph","cfg":cfg})
            }
            "graph" => {
                let (cfg, m) = remap_cfg(&ev["a"]["cfg"], container, weight, vac);
                map = m;
                json!({"ev":"graph","a":{"cfg":cfg}})
            }
            "process" => json!({"ev":"process","a":{"out": map[us(&ev["a"]["out"])], "abort": ev["a"]["abort"].as_i64().unwrap_or(0)}}),
            _ => ev.clone(),
        })
        .collect()
}

fn c09_exec(out: &mut Out, ex: &[Value]) {
    let cfg = &ev_cfg(&ex[0]);
    if cfg["container"].is_string() {
        // already concrete (a replay file, or a `gen` stimulus)
        let c = cfg["container"].as_str().unwrap();
        let w = cfg["weight"].as_str().unwrap_or("plain");
        match (c, w) {
            ("graph", "plain") => c09_graph_plain(out, ex),
            ("graph", "boxed") => c09_graph_boxed(out, ex),
            ("graph", _) => c09_graph_send(out, ex),
            (_, "plain") => c09_stable_plain(out, ex),
            (_, "boxed") => c09_stable_boxed(out, ex),
            (_, _) => c09_stable_send(out, ex),
        }
        return;
    }
    // model coordinates: every container
    let pat = cfg["vacpat"].as_u64().unwrap_or(0);
    let w1 = ["plain", "boxed", "boxed_send"][(pat % 3) as usize];
    let w2 = ["boxed", "boxed_send", "plain"][(pat % 3) as usize];
    let w3 = ["boxed_send", "plain", "boxed"][(pat % 3) as usize];
    // cfg.variants (optional) selects which of the three containers to run; default all
    let which: Vec<u64> = match cfg["variants"].as_array() {
        Some(v) => v.iter().map(|x| x.as_u64().unwrap()).collect(),
        None => vec![0, 1, 2],
    };
    if which.contains(&0) {
        c09_exec(out, &c09_variant(ex, "graph", w1, false));
    }
    if which.contains(&1) {
        c09_exec(out, &c09_variant(ex, "stable", w2, false));
    }
    if which.contains(&2) {
        c09_exec(out, &c09_variant(ex, "stable", w3, true));
    }
}
fn ev_cfg(ev: &Value) -> Value {
    ev["cfg"].clone()
}

// ============================================================================================
// C16: one node under test
// ============================================================================================

struct Rec16 {
    ptrs: Vec<(usize, i64)>,
    src: Vec<i64>,
    shape: Vec<usize>,
    ins: Vec<f32>,
    before: Vec<f32>,
    after: Vec<f32>,
    nout: usize,
    calls: usize,
    overflow: bool,
}
thread_local! {
    static R16: RefCell<Rec16> = RefCell::new(Rec16 { ptrs: Vec::new(), src: Vec::new(), shape: Vec::new(), ins: Vec::new(),
        before: Vec::new(), after: Vec::new(), nout: 0, calls: 0, overflow: false });
}
fn put(v: &mut Vec<f32>, b: &[f32], overflow: &mut bool) {
    if v.len() + b.len() > v.capacity() {
        *overflow = true;
    } else {
        v.extend_from_slice(b);
    }
}

/// A user node that writes nothing (feeders whose buffers the driver writes, `hold` nodes of nested
/// graphs, and the node under test of kind "hold").  Its invocations are counted: a wrapper must call
/// the node it wraps exactly once per process call even when there is nothing to write to.
static HOLD_CALLS: std::sync::atomic::AtomicUsize = std::sync::atomic::AtomicUsize::new(0);
#[derive(Clone)]
struct Hold;
impl Node for Hold {
    fn process(&mut self, _inputs: &[Input], _output: &mut [Buffer]) {
        HOLD_CALLS.fetch_add(1, std::sync::atomic::Ordering::Relaxed);
    }
}

enum Slot<W> {
    Feed,
    Test(W),
}
impl<W: Node> Node for Slot<W> {
    fn process(&mut self, inputs: &[Input], output: &mut [Buffer]) {
        let w = match self {
            Slot::Feed => return,
            Slot::Test(w) => w,
        };
        R16.with(|r| {
            let r = &mut *r.borrow_mut();
            r.calls += 1;
            r.nout = output.len();
            for inp in inputs {
                let b = inp.buffers();
                let p = b.as_ptr() as usize;
                // an input without buffers has no storage to be identified by
                let id = if b.is_empty() { -1 } else { r.ptrs.iter().find(|(q, _)| *q == p).map(|(_, i)| *i).unwrap_or(-2) };
                if r.src.len() < r.src.capacity() && r.shape.len() < r.shape.capacity() {
                    r.src.push(id);
                    r.shape.push(b.len());
                } else {
                    r.overflow = true;
                }
                for x in b {
                    put(&mut r.ins, &x[..], &mut r.overflow);
                }
            }
            for x in output.iter() {
                put(&mut r.before, &x[..], &mut r.overflow);
            }
        });
        w.process(inputs, output);
        R16.with(|r| {
            let r = &mut *r.borrow_mut();
            for x in output.iter() {
                put(&mut r.after, &x[..], &mut r.overflow);
            }
        });
    }
}

fn ints_of(xs: &[f32], exact: &mut bool) -> Value {
    Value::Array(xs.iter().map(|x| json!(fi(*x, exact))).collect())
}

macro_rules! c16_runner {
    ($fname:ident, $G:ident, $stable:expr) => {
        fn $fname<W: Node>(w: W, out: &mut Out, cfg: &Value, ops: &[Value]) {
            let mut g: $G<NodeData<Slot<W>>, (), petgraph::Directed, u32> = Default::default();
            let feeds = uss(&cfg["feeds"]);
            let nout = us(&cfg["nout"]);
            let mut rng = Rng::new(cfg["seed"].as_u64().unwrap_or(0));
            let dummy = if $stable { Some(g.add_node(NodeData::new(Slot::Feed, vec![Buffer::SILENT]))) } else { None };
            let fix: Vec<NodeIndex> = feeds.iter().map(|&nb| g.add_node(NodeData::new(Slot::Feed, vec![Buffer::SILENT; nb]))).collect();
            let mut obufs = vec![Buffer::SILENT; nout];
            for b in obufs.iter_mut() {
                for s in b.iter_mut() {
                    *s = rng.range(-9, 9) as f32;
                }
            }
            let t = g.add_node(NodeData::new(Slot::Test(w), obufs));
            if let Some(d) = dummy {
                g.add_edge(d, t, ());
                g.add_edge(t, d, ());
            }
            for e in uss(&cfg["edges"]) {
                g.add_edge(fix[e], t, ());
            }
            if let Some(d) = dummy {
                g.remove_node(d);
            }
            let nin = uss(&cfg["edges"]).len();
            let cap = if cfg["seed"].as_u64().unwrap_or(0) % 2 == 0 { feeds.len() + 2 } else { 0 };
            let mut proc = Processor::with_capacity(cap);
            let mut c2 = cfg.clone();
            c2["len"] = json!(LEN);
            out.line(&json!({"ev":"reset","comp":"node","cfg":c2,"r":r_unit(),"o":{"ok":true}}));
            let is_hold = cfg["node"]["kind"] == "hold";
            HOLD_CALLS.store(0, std::sync::atomic::Ordering::Relaxed);
            for op in ops {
                let mut r2 = Rng::new(op["a"]["seed"].as_u64().unwrap_or(0));
                for &f in fix.iter() {
                    for b in g.node_weight_mut(f).unwrap().buffers.iter_mut() {
                        for s in b.iter_mut() {
                            *s = r2.range(-9, 9) as f32;
                        }
                    }
                }
                let ptrs: Vec<(usize, i64)> =
                    fix.iter().enumerate().map(|(k, &f)| (g.node_weight(f).unwrap().buffers.as_ptr() as usize, k as i64)).collect();
                let maxb = feeds.iter().cloned().max().unwrap_or(0);
                R16.with(|r| {
                    let mut r = r.borrow_mut();
                    r.ptrs = ptrs;
                    r.src = Vec::with_capacity(nin + 4);
                    r.shape = Vec::with_capacity(nin + 4);
                    r.ins = Vec::with_capacity((nin + 1) * (maxb + 1) * LEN);
                    r.before = Vec::with_capacity((nout + 1) * LEN);
                    r.after = Vec::with_capacity((nout + 1) * LEN);
                    r.calls = 0;
                    r.overflow = false;
                });
                let (res, h, _) = measured(|| catch(|| proc.process(&mut g, t)));
                let mut exact = true;
                let o = R16.with(|r| {
                    let r = r.borrow();
                    let mut ins = Vec::new();
                    let mut p = 0;
                    for &nb in r.shape.iter() {
                        let mut bs = Vec::new();
                        for _ in 0..nb {
                            bs.push(ints_of(&r.ins[p..p + LEN], &mut exact));
                            p += LEN;
                        }
                        ins.push(Value::Array(bs));
                    }
                    let before: Vec<Value> = r.before.chunks(LEN).map(|c| ints_of(c, &mut exact)).collect();
                    let after: Vec<Value> = r.after.chunks(LEN).map(|c| ints_of(c, &mut exact)).collect();
                    json!({"ok": res.is_some() && !r.overflow && r.calls == 1, "exact": exact, "src": r.src, "ins": ins,
                           "before": before, "after": after})
                });
                let mut o = o;
                if is_hold {
                    o["icalls"] = json!(HOLD_CALLS.load(std::sync::atomic::Ordering::Relaxed));
                }
                out.ev("call", op["a"].clone(), if res.is_some() { r_unit() } else { r_panic() }, o, h);
            }
        }
    };
}
c16_runner!(c16_graph, Graph, false);
c16_runner!(c16_stable, StableGraph, true);

struct Case<'a> {
    out: &'a mut Out,
    cfg: &'a Value,
    ops: &'a [Value],
}
impl<'a> Case<'a> {
    fn run<W: Node>(self, w: W) {
        if self.cfg["container"] == "stable" {
            c16_stable(w, self.out, self.cfg, self.ops)
        } else {
            c16_graph(w, self.out, self.cfg, self.ops)
        }
    }
}

fn wrap<N: Node + 'static>(n: N, wrapper: &str, case: Case) {
    match wrapper {
        "ref" => {
            let mut n = n;
            case.run(&mut n)
        }
        "box" => case.run(Box::new(n)),
        "boxed" => case.run(BoxedNode::new(n)),
        "dyn_node" => {
            let b: Box<dyn Node> = Box::new(n);
            case.run(b)
        }
        "dyn_fnmut" => {
            let mut n = n;
            let f: Box<dyn FnMut(&[Input], &mut [Buffer])> = Box::new(move |i: &[Input], o: &mut [Buffer]| n.process(i, o));
            case.run(f)
        }
        _ => case.run(n), // "plain"
    }
}
fn wrap_send<N: Node + Send + 'static>(n: N, wrapper: &str, case: Case) {
    match wrapper {
        "boxed_send" => case.run(BoxedNodeSend::new(n)),
        _ => wrap(n, wrapper, case),
    }
}
fn wrap_stateless<N: Node + Clone + Send + 'static>(n: N, wrapper: &str, case: Case, f: fn(&[Input], &mut [Buffer])) {
    match wrapper {
        "dyn_fn" => {
            let b: Box<dyn Fn(&[Input], &mut [Buffer])> = Box::new(move |i: &[Input], o: &mut [Buffer]| n.clone().process(i, o));
            case.run(b)
        }
        "fn" => case.run(f),
        _ => wrap_send(n, wrapper, case),
    }
}
fn sum_fn(i: &[Input], o: &mut [Buffer]) {
    Sum.process(i, o)
}
fn sumbuf_fn(i: &[Input], o: &mut [Buffer]) {
    SumBuffers.process(i, o)
}
fn pass_fn(i: &[Input], o: &mut [Buffer]) {
    Pass.process(i, o)
}
fn hold_fn(_i: &[Input], _o: &mut [Buffer]) {
    HOLD_CALLS.fetch_add(1, std::sync::atomic::Ordering::Relaxed);
}

/// Which wrappers exist for a kind (the type system decides; anything else falls back to "plain").
fn wrapper_ok(kind: &str, w: &str) -> bool {
    match kind {
        "sum" | "sumbuf" | "pass" | "hold" => {
            ["plain", "ref", "box", "boxed", "boxed_send", "dyn_node", "dyn_fn", "dyn_fnmut", "fn"].contains(&w)
        }
        "delay" => ["plain", "ref", "box", "boxed", "boxed_send", "dyn_node", "dyn_fnmut"].contains(&w),
        "signal" => ["plain", "ref", "ref_dyn", "box", "boxed", "dyn_node", "dyn_fnmut"].contains(&w),
        _ => ["plain", "ref", "box", "boxed", "dyn_node", "dyn_fnmut"].contains(&w),
    }
}

fn sig_val(d: &Value, i: i64, c: i64) -> f32 {
    let (n, mul, off, modn) = (d["n"].as_i64().unwrap(), d["mul"].as_i64().unwrap(), d["off"].as_i64().unwrap(), d["modn"].as_i64().unwrap());
    if i < n {
        (((i * mul + c * 7 + off) % modn) - modn / 2) as f32
    } else {
        0.0
    }
}
/// The stimulus' signal: frame i, channel c (1-based) = sig_val; silent (equilibrium) after n frames.
fn mk_signal<const C: usize>(d: &Value) -> Box<dyn Signal<Frame = [f32; C]>>
where
    [f32; C]: Frame<Sample = f32>,
{
    let dd = d.clone();
    let n = d["n"].as_i64().unwrap();
    Box::new(sig_reg::from_iter((0..n).map(move |i| {
        let mut a = [0.0f32; C];
        for c in 0..C {
            a[c] = sig_val(&dd, i, c as i64 + 1);
        }
        a
    })))
}
fn mk_signal_mono(d: &Value) -> Box<dyn Signal<Frame = f32>> {
    let dd = d.clone();
    let n = d["n"].as_i64().unwrap();
    Box::new(sig_reg::from_iter((0..n).map(move |i| sig_val(&dd, i, 1))))
}
fn sig_case<const C: usize>(d: &Value, wrapper: &str, case: Case)
where
    [f32; C]: Frame<Sample = f32>,
{
    let mut s = mk_signal::<C>(d);
    match wrapper {
        "ref_dyn" => {
            let r: &mut (dyn Signal<Frame = [f32; C]> + 'static) = &mut *s;
            case.run(r)
        }
        _ => wrap(s, wrapper, case),
    }
}

fn rings_of<S>(d: &Value, mk: impl Fn(Vec<f32>) -> S) -> Vec<rb_reg::Fixed<S>>
where
    S: rb_reg::Slice<Element = f32>,
{
    d["rings"]
        .as_array()
        .unwrap()
        .iter()
        .enumerate()
        .map(|(c, r)| {
            let data: Vec<f32> = r.as_array().unwrap().iter().map(|x| x.as_i64().unwrap() as f32).collect();
            rb_reg::Fixed::from_raw_parts(us(&d["first"][c]), mk(data))
        })
        .collect()
}

/// Inner nodes of nested graphs are `BoxedNode`s.
fn build_boxed(d: &Value) -> BoxedNode {
    match d["kind"].as_str().unwrap() {
        "sum" => BoxedNode::new(Sum),
        "sumbuf" => BoxedNode::new(SumBuffers),
        "pass" => BoxedNode::new(Pass),
        "hold" => BoxedNode::new(Hold),
        "delay" => {
            if d["storage"] == "boxed" {
                BoxedNode::new(Delay(rings_of(d, |v| v.into_boxed_slice())))
            } else {
                BoxedNode::new(Delay(rings_of(d, |v| v)))
            }
        }
        "signal" => match us(&d["ch"]) {
            1 => BoxedNode::new(mk_signal_mono(d)),
            2 => BoxedNode::new(mk_signal::<2>(d)),
            3 => BoxedNode::new(mk_signal::<3>(d)),
            _ => BoxedNode::new(mk_signal::<4>(d)),
        },
        "graph" => {
            if d["container"] == "stable" {
                BoxedNode::new(mk_graphnode_s(d))
            } else {
                BoxedNode::new(mk_graphnode_g(d))
            }
        }
        k => panic!("unknown node kind {}", k),
    }
}
macro_rules! mk_graphnode {
    ($fname:ident, $G:ident, $stable:expr) => {
        fn $fname(d: &Value) -> GraphNode<$G<NodeData<BoxedNode>, (), petgraph::Directed, u32>, BoxedNode> {
            let mut g: $G<NodeData<BoxedNode>, (), petgraph::Directed, u32> = Default::default();
            let dummy = if $stable { Some(g.add_node(NodeData::boxed1(Hold))) } else { None };
            let nodes = d["nodes"].as_array().unwrap();
            let ix: Vec<NodeIndex> = nodes
                .iter()
                .enumerate()
                .map(|(v, nd)| {
                    let bufs: Vec<Buffer> = (0..us(&d["nb"][v])).map(|c| const_buf(d["init"][v][c].as_i64().unwrap() as f32)).collect();
                    g.add_node(NodeData::new(build_boxed(nd), bufs))
                })
                .collect();
            for e in d["edges"].as_array().unwrap() {
                g.add_edge(ix[us(&e[0])], ix[us(&e[1])], ());
                if let Some(dm) = dummy {
                    g.add_edge(dm, ix[us(&e[1])], ());
                }
            }
            if let Some(dm) = dummy {
                g.remove_node(dm);
            }
            GraphNode {
                processor: Processor::with_capacity(us(&d["cap"])),
                graph: g,
                input_nodes: uss(&d["ins"]).into_iter().map(|v| ix[v]).collect(),
                output_node: ix[us(&d["out"])],
                node_type: PhantomData,
            }
        }
    };
}
mk_graphnode!(mk_graphnode_g, Graph, false);
mk_graphnode!(mk_graphnode_s, StableGraph, true);

fn c16_exec(out: &mut Out, ex: &[Value]) {
    let mut cfg = ex[0]["cfg"].clone();
    let d = cfg["node"].clone();
    let kind = d["kind"].as_str().unwrap().to_string();
    let mut wrapper = cfg["wrapper"].as_str().unwrap_or("plain").to_string();
    if !wrapper_ok(&kind, &wrapper) {
        wrapper = "plain".to_string();
        cfg["wrapper"] = json!("plain");
    }
    let case = Case { out, cfg: &cfg, ops: &ex[1..] };
    let w = wrapper.as_str();
    match kind.as_str() {
        "sum" => wrap_stateless(Sum, w, case, sum_fn),
        "sumbuf" => wrap_stateless(SumBuffers, w, case, sumbuf_fn),
        "pass" => wrap_stateless(Pass, w, case, pass_fn),
        "hold" => wrap_stateless(Hold, w, case, hold_fn),
        "delay" => {
            if d["storage"] == "boxed" {
                wrap_send(Delay(rings_of(&d, |v| v.into_boxed_slice())), w, case)
            } else {
                wrap_send(Delay(rings_of(&d, |v| v)), w, case)
            }
        }
        "signal" => match us(&d["ch"]) {
            1 => {
                if cfg["seed"].as_u64().unwrap_or(0) % 2 == 0 {
                    sig_case::<1>(&d, w, case)
                } else if w == "ref_dyn" {
                    let mut s = mk_signal_mono(&d);
                    let r: &mut (dyn Signal<Frame = f32> + 'static) = &mut *s;
                    case.run(r)
                } else {
                    wrap(mk_signal_mono(&d), w, case)
                }
            }
            2 => sig_case::<2>(&d, w, case),
            3 => sig_case::<3>(&d, w, case),
            _ => sig_case::<4>(&d, w, case),
        },
        "graph" => {
            if d["container"] == "stable" {
                wrap(mk_graphnode_s(&d), w, case)
            } else {
                wrap(mk_graphnode_g(&d), w, case)
            }
        }
        k => panic!("unknown node kind {}", k),
    }
}

// ============================================================================================
// random stimuli
// ============================================================================================

/// Upper bound on |sample| after `calls` process calls, whatever the traversal order (keeps every value
/// an exactly representable integer; NOT an expected value).
fn magnitude_bound(n: usize, edges: &[(usize, usize)], kinds: &[&str], c: &[i64], init: &[i64], calls: usize) -> f64 {
    let mut b: Vec<f64> = init.iter().map(|x| x.abs() as f64).collect();
    for call in 0..calls {
        for _round in 0..n {
            for v in 0..n {
                let f = match kinds[v] {
                    "src" => (c[v].abs() + call as i64 + 1) as f64,
                    "sum" => edges.iter().filter(|e| e.1 == v && e.0 != v).map(|e| b[e.0]).sum(),
                    _ => edges.iter().filter(|e| e.1 == v && e.0 != v).map(|e| b[e.0]).fold(0.0, f64::max),
                };
                if f > b[v] {
                    b[v] = f;
                }
            }
        }
    }
    b.iter().cloned().fold(0.0, f64::max)
}

fn gen_graph_cfg(rng: &mut Rng, max_nodes: u64, max_edges: u64, container: &str, weight: &str, calls: usize) -> Value {
    let k = rng.range(1, max_nodes as i64) as usize;
    // index space: real nodes interleaved with vacant slots (stable graphs only)
    let mut live = Vec::new();
    let mut slots = 0usize;
    for _ in 0..k {
        while container == "stable" && rng.chance(1, 4) {
            slots += 1;
        }
        live.push(slots);
        slots += 1;
    }
    while container == "stable" && rng.chance(1, 4) {
        slots += 1;
    }
    let ne = rng.below(max_edges + 1) as usize;
    let style = rng.below(4);
    let mut edges: Vec<(usize, usize)> = Vec::new();
    for _ in 0..ne {
        let (a, b) = (rng.below(k as u64) as usize, rng.below(k as u64) as usize);
        let (a, b) = match style {
            0 => (a.min(b), a.max(b)),            // acyclic apart from self-loops
            1 if a == b => continue,              // no self-loops
            _ => (a, b),
        };
        if style == 0 && a == b && rng.chance(2, 3) {
            continue;
        }
        edges.push((live[a], live[b]));
        if rng.chance(1, 6) {
            edges.push((live[a], live[b])); // parallel edge
        }
    }
    let mut kinds: Vec<&str> = vec!["none"; slots];
    let mut c = vec![0i64; slots];
    let mut nb = vec![1i64; slots];
    let mut init = vec![0i64; slots];
    for &v in live.iter() {
        let fed = edges.iter().any(|e| e.1 == v && e.0 != v);
        kinds[v] = if !fed && rng.chance(3, 4) { "src" } else { *rng.pick(&["src", "sum", "sum", "pass", "pass"]) };
        c[v] = rng.range(-5, 5);
        nb[v] = rng.range(1, 3);
        // a node may have no buffers at all (a meter at the end of a chain, a clock feeding others): it must
        // still be invoked, and still be presented as an input on every edge that leaves it
        if (rng.chance(1, 3) && !edges.iter().any(|e| e.0 == v && e.1 != v)) || rng.chance(1, 8) {
            nb[v] = 0;
        }
        init[v] = rng.range(-9, 9);
    }
    // keep every sample an exact small integer: demote sums until the bound is comfortable
    while magnitude_bound(slots, &edges, &kinds, &c, &init, calls) > 1_000_000.0 {
        let sums: Vec<usize> = (0..slots).filter(|&v| kinds[v] == "sum").collect();
        let v = *rng.pick(&sums);
        kinds[v] = "pass";
    }
    let e: Vec<Value> = edges.iter().map(|e| json!([e.0, e.1])).collect();
    json!({"slots": slots, "live": live, "edges": e, "kinds": kinds, "c": c, "nb": nb, "init": init,
           "vacpat": rng.below(5), "cap": *rng.pick(&[0usize, 1, k, 16, 64]), "container": container, "weight": weight})
}

fn gen_graph_exec(rng: &mut Rng, max_nodes: u64, max_edges: u64) -> Vec<Value> {
    let container = *rng.pick(&["graph", "stable", "stable"]);
    let weight = *rng.pick(&["plain", "boxed", "boxed_send"]);
    let phases = rng.range(1, 3);
    let mut ex = Vec::new();
    for ph in 0..phases {
        let calls = rng.range(1, 4) as usize;
        let cfg = gen_graph_cfg(rng, max_nodes, max_edges, container, weight, calls);
        let live = uss(&cfg["live"]);
        if ph == 0 {
            ex.push(json!({"ev":"reset","comp":"graph","cfg":cfg}));
        } else {
            ex.push(json!({"ev":"graph","a":{"cfg":cfg}}));
        }
        let mut left = calls;
        while left > 0 {
            match rng.below(6) {
                0 => ex.push(json!({"ev":"sources","a":{"x":0}})),
                1 => ex.push(json!({"ev":"sinks","a":{"x":0}})),
                _ => {
                    // one call in ten is cut short by a panicking node (caught by the caller); the processor is used again
                    let abort = if rng.chance(1, 10) { rng.range(1, 4) } else { 0 };
                    ex.push(json!({"ev":"process","a":{"out": *rng.pick(&live), "abort": abort}}));
                    left -= 1;
                }
            }
        }
        ex.push(json!({"ev":"sources","a":{"x":0}}));
        ex.push(json!({"ev":"sinks","a":{"x":0}}));
    }
    ex
}

fn gen_inner_graph(rng: &mut Rng, depth: u32) -> Value {
    // acyclic; order-sensitive nodes (pass, delay, nested graph) get at most one feeder
    let n = rng.range(2, 6) as usize;
    let mut nodes = Vec::new();
    let mut nb = Vec::new();
    let mut init = Vec::new();
    let mut edges: Vec<Value> = Vec::new();
    for v in 0..n {
        let kind = if v == 0 { "hold" } else { *rng.pick(&["hold", "sum", "sum", "sumbuf", "pass", "delay", "graph"]) };
        let kind = if kind == "graph" && depth == 0 { "sum" } else { kind };
        let b = rng.range(if kind == "hold" { 1 } else { 0 }, 3) as usize;
        let d = match kind {
            "delay" => gen_delay(rng, 3, 9),
            "graph" => gen_inner_graph(rng, depth - 1),
            k => json!({"kind": k}),
        };
        if v > 0 && kind != "hold" {
            let many = kind == "sum" || kind == "sumbuf";
            let cnt = if many { rng.range(1, 3) } else { 1 };
            for _ in 0..cnt {
                edges.push(json!([rng.below(v as u64), v]));
            }
            if many && rng.chance(1, 4) {
                edges.push(json!([v, v]));
            }
        }
        nodes.push(d);
        nb.push(b);
        init.push((0..b).map(|_| rng.range(-9, 9)).collect::<Vec<i64>>());
    }
    let holds: Vec<usize> = (0..n).filter(|&v| nodes[v]["kind"] == "hold").collect();
    let nins = rng.range(0, 3) as usize;
    let ins: Vec<usize> = (0..nins).map(|_| if rng.chance(4, 5) { *rng.pick(&holds) } else { rng.below(n as u64) as usize }).collect();
    json!({"kind":"graph","container": *rng.pick(&["graph","stable"]), "cap": *rng.pick(&[0usize, n, 8]),
           "nodes": nodes, "nb": nb, "init": init, "edges": edges, "ins": ins, "out": rng.below(n as u64)})
}
fn gen_delay(rng: &mut Rng, max_rings: i64, max_len: i64) -> Value {
    let nr = rng.range(0, max_rings) as usize;
    let mut rings = Vec::new();
    let mut first = Vec::new();
    for _ in 0..nr {
        let len = match rng.below(6) {
            0 => 1,
            1 => LEN as i64,
            2 => LEN as i64 + rng.range(1, 40),
            _ => rng.range(1, max_len),
        };
        rings.push((0..len).map(|_| rng.range(-9, 9)).collect::<Vec<i64>>());
        first.push(rng.below(len as u64));
    }
    json!({"kind":"delay","rings":rings,"first":first,"storage": *rng.pick(&["vec","boxed"])})
}

fn gen_node_exec(rng: &mut Rng, calls: usize, k: u64) -> Vec<Value> {
    let kind = *rng.pick(&["sum", "sumbuf", "pass", "delay", "delay", "signal", "graph", "graph"]);
    let d = match kind {
        "delay" => gen_delay(rng, 4, 130),
        "signal" => json!({"kind":"signal","ch": rng.range(1, 4), "n": rng.range(0, (calls * LEN) as i64 + 70),
                           "mul": rng.range(1, 97), "off": rng.range(0, 50), "modn": rng.range(2, 19)}),
        "graph" => gen_inner_graph(rng, 2),
        k => json!({"kind": k}),
    };
    let wrappers = ["plain", "ref", "ref_dyn", "box", "boxed", "boxed_send", "dyn_node", "dyn_fn", "dyn_fnmut", "fn"];
    let ok: Vec<&str> = wrappers.iter().cloned().filter(|w| wrapper_ok(kind, w)).collect();
    // every sixth execution has a wide fan-in (17..24 inputs, over parallel edges): thresholds on the input count
    let wide = k % 6 == 5;
    let nf = if wide { rng.range(1, 6) as usize } else { rng.range(0, 4) as usize };
    let feeds: Vec<usize> = (0..nf).map(|_| rng.range(0, 4) as usize).collect();
    let mut edges: Vec<usize> = Vec::new();
    if nf > 0 {
        for _ in 0..(if wide { rng.range(17, 24) } else { rng.range(0, 5) }) {
            edges.push(rng.below(nf as u64) as usize); // parallel edges from one feeder allowed
        }
    }
    let mut ex = vec![json!({"ev":"reset","comp":"node","cfg":{"node": d, "wrapper": *rng.pick(&ok), "nout": rng.range(0, 4),
        "feeds": feeds, "edges": edges, "seed": k, "container": *rng.pick(&["graph","stable"])}})];
    for j in 0..calls {
        ex.push(json!({"ev":"call","a":{"seed": 100_000 + 1000 * k + j as u64}}));
    }
    ex
}

fn gen(seed: u64, size: &str, path: &str, what: &str) {
    let mut rng = Rng::new(seed);
    let thorough = size == "thorough";
    let mut execs = Vec::new();
    if what != "node" {
        let n = if thorough { 6000 } else { 1200 };
        for i in 0..n {
            let (mn, me) = if thorough || i % 4 == 0 { (12, 40) } else { (7, 16) };
            execs.push(gen_graph_exec(&mut rng, mn, me));
        }
    }
    if what != "graph" {
        let n = if thorough { 400 } else { 60 };
        for k in 0..n {
            execs.push(gen_node_exec(&mut rng, 50, k));
        }
    }
    write_stimuli(path, &execs);
}

fn main() {
    let c = cli();
    silence_panics();
    match c.mode.as_str() {
        "gen" => {
            let what = std::env::args().nth(5).unwrap_or_default();
            gen(c.a1.parse().unwrap(), &c.a2, &c.a3, &what)
        }
        "run" => {
            let n = drive(&c.a1, &c.a2, |out, ex| match ex[0]["comp"].as_str().unwrap() {
                "graph" => c09_exec(out, ex),
                "node" => c16_exec(out, ex),
                c => panic!("unknown component {}", c),
            });
            eprintln!("hx_graph: {} events", n);
        }
        _ => {
            eprintln!("usage: hx_graph run <stimuli> <trace> | gen <seed> <quick|thorough> <stimuli> [graph|node]");
            std::process::exit(2);
        }
    }
}
