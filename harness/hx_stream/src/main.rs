//! Driver + logger for the three "one source, shared stream" components of dasp_signal:
//! fork (C12), buffered (C14) and bus (C13).  The source is instrumented: its k-th pulled frame
//! is the number k (equilibrium 0 after `srclen` frames) and it counts pulls.
use dasp_ring_buffer::Bounded;
use dasp_signal::bus::SignalBus;
use dasp_signal::Signal;
use hx_common::*;
use serde_json::{json, Value};
use std::cell::Cell;
use std::rc::Rc;

#[global_allocator]
static A: CountingAlloc = CountingAlloc;

#[derive(Clone)]
struct Src {
    pulls: Rc<Cell<usize>>,
    len: usize, // usize::MAX = never exhausted
}
impl Signal for Src {
    type Frame = i32;
    fn next(&mut self) -> i32 {
        let k = self.pulls.get() + 1;
        self.pulls.set(k);
        if k <= self.len {
            k as i32
        } else {
            0
        }
    }
    fn is_exhausted(&self) -> bool {
        self.pulls.get() >= self.len
    }
}
fn src(cfg: &Value) -> (Src, Rc<Cell<usize>>) {
    let pulls = Rc::new(Cell::new(0));
    let len = match cfg["srclen"].as_i64() {
        Some(n) if n >= 0 => n as usize,
        _ => usize::MAX,
    };
    (Src { pulls: pulls.clone(), len }, pulls)
}

// ---------------------------------------------------------------------------- fork

fn fork_exec(out: &mut Out, ex: &[Value]) {
    let cfg = &ex[0]["cfg"];
    let cap = cfg["cap"].as_u64().unwrap() as usize;
    let start = cfg["start"].as_u64().unwrap() as usize;
    let variant = cfg["variant"].as_str().unwrap();
    let (s, pulls) = src(cfg);
    let built = catch(|| s.fork(Bounded::from_raw_parts(start, 0, vec![-777i32; cap])));
    let mut fork = match built {
        Some(f) => f,
        None => {
            out.line(&json!({"ev":"reset","comp":"fork","cfg":cfg,"r":r_panic(),"o":{"ok":false}}));
            return;
        }
    };
    // a `drop` event drops one branch (the other goes on alone; a later re-split borrows both anew);
    // a dropped branch's pending count is logged as -1
    macro_rules! pend {
        ($x:ident) => {
            $x.as_ref().map(|x| x.pending_frames() as i64).unwrap_or(-1)
        };
    }
    macro_rules! run_ops {
        ($a0:ident, $b0:ident, $ops:expr) => {
            let (mut $a0, mut $b0) = (Some($a0), Some($b0));
            for op in $ops {
                let branch = op["a"]["branch"].as_str().unwrap_or("A");
                if op["ev"] == "drop" {
                    let (_, h, _) = measured(|| if branch == "A" { drop($a0.take()) } else { drop($b0.take()) });
                    let o = json!({"ok": true, "pendA": pend!($a0), "pendB": pend!($b0), "pulls": pulls.get()});
                    out.ev("drop", op["a"].clone(), r_unit(), o, h);
                    continue;
                }
                let (r, h, _) = measured(|| {
                    catch(|| if branch == "A" { $a0.as_mut().expect("live branch").next() } else { $b0.as_mut().expect("live branch").next() })
                });
                let o = json!({"ok": true, "pendA": pend!($a0), "pendB": pend!($b0), "pulls": pulls.get()});
                out.ev("next", op["a"].clone(), match r { Some(f) => r_val(json!(f)), None => r_panic() }, o, h);
            }
        };
    }
    if variant == "rc" {
        let (a, b) = fork.by_rc();
        let o = json!({"ok": true, "pendA": a.pending_frames(), "pendB": b.pending_frames(), "pulls": pulls.get()});
        out.line(&json!({"ev":"reset","comp":"fork","cfg":cfg,"r":r_unit(),"o":o}));
        let ops: Vec<&Value> = ex[1..].iter().filter(|e| e["ev"] == "next" || e["ev"] == "drop").collect();
        run_ops!(a, b, ops);
        return;
    }
    // segments between `resplit` events each borrow the fork anew; a resplit {to: "rc"} consumes
    // the (already used) fork into reference-counted branches for the rest of the execution
    let mut first = true;
    let mut i = 1;
    let mut to_rc = false;
    let mut to_clone = false;
    loop {
        let mut j = i;
        while j < ex.len() && ex[j]["ev"] != "resplit" {
            j += 1;
        }
        if to_rc {
            let (split, hs, _) = measured(|| fork.by_rc());
            let (a, b) = split;
            let o = json!({"ok": true, "pendA": a.pending_frames(), "pendB": b.pending_frames(), "pulls": pulls.get()});
            out.ev("resplit", json!({"to":"rc"}), r_unit(), o, hs);
            let ops: Vec<&Value> = ex[i..].iter().filter(|e| e["ev"] == "next" || e["ev"] == "drop").collect();
            run_ops!(a, b, ops);
            return;
        }
        if to_clone {
            // a resplit {to: "clone"}: the used fork is cloned (`Fork: Clone`) and the clone is split from here on
            fork = fork.clone();
        }
        {
            let (split, hs, _) = measured(|| fork.by_ref());
            let (a, b) = split;
            let o = json!({"ok": true, "pendA": a.pending_frames(), "pendB": b.pending_frames(), "pulls": pulls.get()});
            if first {
                out.line(&json!({"ev":"reset","comp":"fork","cfg":cfg,"r":r_unit(),"o":o}));
                first = false;
            } else {
                out.ev("resplit", json!({"to": if to_clone { "clone" } else { "ref" }}), r_unit(), o, hs);
            }
            let ops: Vec<&Value> = ex[i..j].iter().collect();
            run_ops!(a, b, ops);
        }
        if j >= ex.len() {
            break;
        }
        to_rc = ex[j]["a"]["to"] == "rc";
        to_clone = ex[j]["a"]["to"] == "clone";
        i = j + 1;
    }
}

// ---------------------------------------------------------------------------- buffered

fn buffered_exec(out: &mut Out, ex: &[Value]) {
    let cfg = &ex[0]["cfg"];
    let start = cfg["start"].as_u64().unwrap() as usize;
    let len = cfg["len"].as_u64().unwrap() as usize;
    let data: Vec<i32> = ints(&cfg["data"]).into_iter().map(|x| x as i32).collect();
    let cap = data.len();
    let (s, pulls) = src(cfg);
    let built = catch(|| s.buffered(Bounded::from_raw_parts(start, len, data)));
    let mut b = match built {
        Some(b) => b,
        None => {
            out.line(&json!({"ev":"reset","comp":"buffered","cfg":cfg,"r":r_panic(),"o":{"ok":false}}));
            return;
        }
    };
    out.line(&json!({"ev":"reset","comp":"buffered","cfg":cfg,"r":r_unit(),
                     "o":{"ok":true,"pulls":pulls.get(),"exh":b.is_exhausted()}}));
    for op in &ex[1..] {
        let ev = op["ev"].as_str().unwrap();
        let k = op["a"]["k"].as_u64().unwrap_or(0) as usize;
        let mut items: Vec<i32> = Vec::with_capacity(cap + k + 2);
        let (r, h, _) = measured(|| {
            catch(|| match ev {
                "next" => Some(b.next()),
                "next_frames" => {
                    let mut it = b.next_frames();
                    for _ in 0..k {
                        match it.next() {
                            Some(f) => items.push(f),
                            None => break,
                        }
                    }
                    None
                }
                "is_exhausted" => Some(b.is_exhausted() as i32),
                // the batch consumed through the provided Iterator methods (internal iteration)
                "nf_fold" => {
                    b.next_frames().fold((), |_, f| items.push(f));
                    None
                }
                "nf_for_each" => {
                    b.next_frames().for_each(|f| items.push(f));
                    None
                }
                "nf_count" => Some(b.next_frames().count() as i32),
                "nf_last" => Some(b.next_frames().last().unwrap_or(-1)),
                "clone" => {
                    // continue with the clone (the instrumented source shares its pull counter with it)
                    b = b.clone();
                    Some(0)
                }
                _ => panic!("unknown op"),
            })
        });
        let r = match r {
            None => r_panic(),
            Some(Some(f)) => r_val(json!(f)),
            Some(None) => r_items(json!(items)),
        };
        let o = json!({"ok":true,"pulls":pulls.get(),"exh":b.is_exhausted()});
        out.ev(ev, op["a"].clone(), r, o, h);
    }
}

// ---------------------------------------------------------------------------- bus

fn bus_exec(out: &mut Out, ex: &[Value]) {
    let cfg = &ex[0]["cfg"];
    let (s, pulls) = src(cfg);
    // a `drop_bus` event drops the Bus handle itself: the outputs stay usable, no output can be attached any more
    // and the backlog hook is gone (logged as -1)
    let mut bus = Some(s.bus());
    let mut outs: Vec<Option<dasp_signal::bus::Output<Src>>> = Vec::with_capacity(ex.len());
    let live0 = heap_now().0[3];
    let obs = |outs: &Vec<Option<dasp_signal::bus::Output<Src>>>, bus: &Option<dasp_signal::bus::Bus<Src>>| {
        let live = heap_now().0[3] - live0; // heap footprint of the bus (and its outputs) since construction began
        let pend: Vec<Value> = outs.iter().enumerate()
            .filter_map(|(k, o)| o.as_ref().map(|o| json!([k, o.pending_frames(), o.is_exhausted()]))).collect();
        json!({"ok": true, "pend": pend, "pulls": pulls.get(), "backlog": bus.as_ref().map(|b| b.verif_backlog_len() as i64).unwrap_or(-1), "live": live})
    };
    out.line(&json!({"ev":"reset","comp":"bus","cfg":cfg,"r":r_unit(),"o":obs(&outs, &bus)}));
    for op in &ex[1..] {
        let ev = op["ev"].as_str().unwrap();
        if ev == "mark" {
            // end of a lock-step round: observation only
            out.ev(ev, op["a"].clone(), r_unit(), obs(&outs, &bus), [0, 0, 0]);
            continue;
        }
        let key = op["a"]["key"].as_u64().unwrap_or(0) as usize;
        let (r, h, _) = measured(|| {
            catch(|| match ev {
                "drop_bus" => {
                    drop(bus.take());
                    None
                }
                "send" => {
                    let o = bus.as_ref().expect("bus handle").send();
                    outs.push(Some(o)); // capacity reserved above: no reallocation by the driver
                    None
                }
                "next" => Some(outs[key].as_mut().expect("live output").next()),
                "drop" => {
                    drop(outs[key].take());
                    None
                }
                _ => panic!("unknown op"),
            })
        });
        let r = match r {
            None => r_panic(),
            Some(Some(f)) => r_val(json!(f)),
            Some(None) => r_unit(),
        };
        out.ev(ev, op["a"].clone(), r, obs(&outs, &bus), h);
    }
}

// ---------------------------------------------------------------------------- random stimuli

fn gen(seed: u64, size: &str, path: &str) {
    let mut rng = Rng::new(seed);
    let thorough = size == "thorough";
    let mut execs = Vec::new();
    // fork: long schedules whose lead keeps changing sign and touches exactly +-cap; every fourth one leaves the
    // environment assumption half way (a branch overruns the ring): C12 claims nothing from there on, C07 still does
    for h in 0..(if thorough { 60 } else { 12 }) {
        let cap = if h % 3 == 0 { rng.range(1, 3) } else { rng.range(1, 16) } as i64;
        let start = rng.below(cap as u64);
        let variant = if h % 2 == 0 { "ref" } else { "rc" };
        let n = if thorough { 3000 } else { 600 };
        // every third source is finite and ends somewhere inside the schedule (equilibrium from then on)
        let srclen: i64 = if h % 3 == 1 { rng.range(0, n as i64 / 2) } else { -1 };
        let mut ex = vec![json!({"ev":"reset","comp":"fork","cfg":{"cap":cap,"start":start,"variant":variant,"srclen":srclen}})];
        let (mut pa, mut pb) = (0i64, 0i64);
        let mut bias = 50;
        // a branch may be dropped while it leads, lags or is level; the survivor goes on alone
        // (by reference: until the next re-split brings both back; by Rc: for good)
        let (mut live_a, mut live_b, mut rc) = (true, true, variant == "rc");
        for it in 0..n {
            if rng.chance(1, 40) { bias = *rng.pick(&[10, 50, 90, 0, 100]); }
            if !rc && rng.chance(1, 50) {
                let to_rc = rng.chance(1, 6);
                let to_clone = !to_rc && rng.chance(1, 4);
                ex.push(json!({"ev":"resplit","a":{"to": if to_rc {"rc"} else if to_clone {"clone"} else {"ref"}}}));
                rc = to_rc;
                live_a = true;
                live_b = true;
                continue;
            }
            if live_a && live_b && rng.chance(1, if rc { 1200 } else { 150 }) {
                let da = rng.chance(1, 2);
                ex.push(json!({"ev":"drop","a":{"branch": if da {"A"} else {"B"}}}));
                if da { live_a = false } else { live_b = false }
                continue;
            }
            let mut a = (rng.below(100) as i64) < bias;
            if !live_a { a = false; }
            if !live_b { a = true; }
            let wild = h % 3 == 2 && it > n / 2;      // (by iteration, not by length: dropped branches shorten executions)
            if !wild && a && pa + 1 - pb > cap { if live_b { a = false } else { continue } }
            if !wild && !a && pb + 1 - pa > cap { if live_a { a = true } else { continue } }
            if a { pa += 1 } else { pb += 1 }
            ex.push(json!({"ev":"next","a":{"branch": if a {"A"} else {"B"}}}));
        }
        execs.push(ex);
    }
    // fork, fixed scenarios: the leading branch is dropped while the other still has k frames pending, the survivor
    // collects them and goes on; both flavours, either branch, k = 1 and k = capacity
    for &(cap, variant, leader, k) in [(1i64, "rc", "A", 1i64), (3, "rc", "A", 3), (3, "rc", "B", 1), (4, "rc", "B", 4),
                                       (3, "ref", "A", 3), (4, "ref", "B", 1)].iter() {
        let other = if leader == "A" { "B" } else { "A" };
        let mut ex = vec![json!({"ev":"reset","comp":"fork","cfg":{"cap":cap,"start":cap - 1,"variant":variant,"srclen":-1}})];
        ex.push(json!({"ev":"next","a":{"branch":leader}}));
        ex.push(json!({"ev":"next","a":{"branch":other}}));
        for _ in 0..k { ex.push(json!({"ev":"next","a":{"branch":leader}})); }
        ex.push(json!({"ev":"drop","a":{"branch":leader}}));
        for _ in 0..k + 3 { ex.push(json!({"ev":"next","a":{"branch":other}})); }
        execs.push(ex);
    }
    // buffered
    for _ in 0..(if thorough { 400 } else { 60 }) {
        let cap = if rng.chance(1, 2) { rng.range(1, 4) } else { rng.range(5, 32) } as usize;
        let start = rng.below(cap as u64) as usize;
        let len = rng.below(cap as u64 + 1) as usize;
        let data: Vec<i64> = (0..cap).map(|k| { let j = (k + cap - start) % cap; if j < len { 900 + j as i64 + 1 } else { -777 } }).collect();
        let srclen = *rng.pick(&[0i64, 1, 3, 17, 64, 200, -1]);
        let mut ex = vec![json!({"ev":"reset","comp":"buffered","cfg":{"cap":cap,"start":start,"len":len,"data":data,"srclen":srclen}})];
        for _ in 0..rng.range(10, if thorough { 300 } else { 120 }) {
            let k = rng.below(10);
            ex.push(if rng.chance(1, 20) { json!({"ev":"clone","a":{"x":0}}) }
                    else if rng.chance(1, 12) { json!({"ev": *rng.pick(&["nf_fold", "nf_for_each", "nf_count", "nf_last"]), "a":{"x":0}}) }
                    else if k < 5 { json!({"ev":"next","a":{"x":0}}) }
                    else if k < 9 { json!({"ev":"next_frames","a":{"k": rng.below(cap as u64 + 3)}}) }
                    else { json!({"ev":"is_exhausted","a":{"x":0}}) });
        }
        execs.push(ex);
    }
    // bus: one output stays more than 4096 frames behind the leader (a power-of-two backlog length and beyond), then
    // catches up completely; a second laggard attached late is dropped half way
    for (lag, srclen) in [(4100usize, -1i64), (4097, 5000)].iter().copied().take(if thorough { 2 } else { 1 }) {
        let mut ex = vec![json!({"ev":"reset","comp":"bus","cfg":{"srclen":srclen}})];
        ex.push(json!({"ev":"send","a":{"key":0}}));
        ex.push(json!({"ev":"send","a":{"key":1}}));
        for _ in 0..lag { ex.push(json!({"ev":"next","a":{"key":0}})); }
        ex.push(json!({"ev":"send","a":{"key":2}}));
        for _ in 0..5 { ex.push(json!({"ev":"next","a":{"key":0}})); }
        for _ in 0..lag / 2 { ex.push(json!({"ev":"next","a":{"key":1}})); }
        ex.push(json!({"ev":"drop","a":{"key":2}}));
        for _ in 0..lag / 2 + 10 { ex.push(json!({"ev":"next","a":{"key":1}})); }
        execs.push(ex);
    }
    // bus: up to 6 live outputs; never-pulling outputs, drop slowest / fastest, re-attach after all dropped, lock-step runs
    for h in 0..(if thorough { 120 } else { 20 }) {
        let srclen = if h % 4 == 3 { rng.range(0, 50) } else { -1 };
        let mut ex = vec![json!({"ev":"reset","comp":"bus","cfg":{"srclen":srclen}})];
        let mut live: Vec<usize> = Vec::new();
        let mut nk = 0usize;
        let n = if thorough { 1500 } else { 400 };
        let max_live = rng.range(1, 6) as usize;
        let mut mode = 0;
        let mut t = 0;
        // every third history drops the Bus handle somewhere in its second half (with outputs at any lag)
        let bus_drop_at = if h % 3 == 2 { n / 2 + rng.below(n as u64 / 4) as usize } else { usize::MAX };
        let mut bus_alive = true;
        while t < n {
            if rng.chance(1, 30) { mode = rng.below(4); }
            let k = rng.below(100);
            if bus_alive && t >= bus_drop_at && !live.is_empty() {
                ex.push(json!({"ev":"drop_bus","a":{"key":0}}));
                bus_alive = false;
                t += 1;
            } else if !bus_alive && live.is_empty() {
                break;
            } else if bus_alive && (live.is_empty() || (k < 8 && live.len() < max_live)) {
                ex.push(json!({"ev":"send","a":{"key":nk}}));
                live.push(nk);
                nk += 1;
                t += 1;
            } else if k < 14 {
                let i = rng.below(live.len() as u64) as usize;
                ex.push(json!({"ev":"drop","a":{"key":live.remove(i)}}));
                t += 1;
            } else if mode == 0 {
                // lock step: every live output pulls once
                for &o in &live { ex.push(json!({"ev":"next","a":{"key":o}})); t += 1; }
            } else if mode == 1 {
                // one output runs ahead
                let o = live[0];
                for _ in 0..rng.range(1, 12) { ex.push(json!({"ev":"next","a":{"key":o}})); t += 1; }
            } else {
                let o = *rng.pick(&live);
                ex.push(json!({"ev":"next","a":{"key":o}}));
                t += 1;
            }
        }
        execs.push(ex);
    }
    // bus pulled in lock step (C07: bounded backlog, footprint stops growing after round 1)
    for _ in 0..(if thorough { 24 } else { 6 }) {
        let m = rng.range(1, 6) as usize;
        let mut ex = vec![json!({"ev":"reset","comp":"bus","cfg":{"srclen":-1,"lockstep":true}})];
        for k in 0..m { ex.push(json!({"ev":"send","a":{"key":k}})); }
        for round in 1..=(if thorough { 300 } else { 60 }) {
            let mut order: Vec<usize> = (0..m).collect();
            for i in (1..m).rev() { let j = rng.below(i as u64 + 1) as usize; order.swap(i, j); }
            for o in order { ex.push(json!({"ev":"next","a":{"key":o}})); }
            ex.push(json!({"ev":"mark","a":{"round":round}}));
        }
        execs.push(ex);
    }
    write_stimuli(path, &execs);
}

fn main() {
    let c = cli();
    silence_panics();
    match c.mode.as_str() {
        "gen" => gen(c.a1.parse().unwrap(), &c.a2, &c.a3),
        "run" => {
            let n = drive(&c.a1, &c.a2, |out, ex| match ex[0]["comp"].as_str().unwrap() {
                "fork" => fork_exec(out, ex),
                "buffered" => buffered_exec(out, ex),
                "bus" => bus_exec(out, ex),
                c => panic!("unknown component {}", c),
            });
            eprintln!("hx_stream: {} events", n);
        }
        _ => {
            eprintln!("usage: hx_stream run <stimuli> <trace> | gen <seed> <quick|thorough> <stimuli>");
            std::process::exit(2);
        }
    }
}
