//! C20 driver: the stand-alone `Window` iterator (`window`: values and the phases read through
//! its public `phase` field), the `Windower` (`windower`: `size_hint`, `next`, and the other ways an
//! iterator is advanced -- `nth{k}`, `skip{k}` = `by_ref().skip(k).next()`, `step_by{s,m}` = the first m
//! items of `by_ref().step_by(s)`; the first `bin` frames of every chunk are logged) and the window
//! FUNCTIONS evaluated directly (`winfn`: `eval` = `dasp_window::Window::window(p)` for Hann / Rectangle
//! on f64 / f32 / i16 phases, inside, at the ends of and outside [0, 1]).  Drivers and loggers only.
use crate::enc::*;
use dasp_frame::Frame;
use dasp_sample::Sample;
use dasp_signal::window::{Window, Windower};
use dasp_window::{Hann, Rectangle, Window as WindowType};
use hx_common::*;
use serde_json::{json, Value};

fn take_window<S, W>(out: &mut Out, cfg: &Value, ops: &[Value])
where
    S: Enc,
    [S; 1]: Frame<Sample = S>,
    W: WindowType<f64, Output = f64>,
{
    let n = cfg["n"].as_u64().unwrap() as usize;
    let built = catch(|| Window::<[S; 1], W>::new(n));
    let mut w = match built {
        None => {
            out.line(&json!({"ev":"reset","comp":"window","cfg":cfg,"r":r_panic(),"o":{"ok":false}}));
            return;
        }
        Some(w) => w,
    };
    out.line(&json!({"ev":"reset","comp":"window","cfg":cfg,"r":r_unit(),"o":{"ok":true}}));
    for op in ops {
        assert_eq!(op["ev"], "take");
        let k = op["a"]["n"].as_u64().unwrap() as usize;
        let mut vals: Vec<S> = Vec::with_capacity(k);
        let mut phs: Vec<f64> = Vec::with_capacity(k);
        let mut ended = false;
        let (r, h, _) = measured(|| {
            catch(|| {
                for _ in 0..k {
                    // the phase the next value will be sampled at (public field; a clone is stepped)
                    phs.push(w.phase.clone().next_phase());
                    match w.next() {
                        Some(f) => vals.push(*f.channel(0).unwrap()),
                        None => {
                            ended = true;
                            break;
                        }
                    }
                }
            })
        });
        let r = match r {
            None => r_panic(),
            Some(()) => r_items(Value::Array(vals.iter().map(|v| v.enc()).collect())),
        };
        out.ev(
            "take",
            json!({"n": k}),
            r,
            json!({"ok": true, "ended": ended, "ph": Value::Array(phs.iter().map(|p| f64f(*p)).collect())}),
            h,
        );
    }
}

fn windower<F, W>(out: &mut Out, cfg: &Value, ops: &[Value], hann: bool)
where
    F: Frame,
    F::Sample: Enc,
    <F::Sample as Sample>::Float: Enc,
    [<F::Sample as Sample>::Float; 1]: Frame<Sample = <F::Sample as Sample>::Float>,
    W: WindowType<f64, Output = f64>,
{
    let bin = cfg["b"].as_u64().unwrap() as usize;
    let hop = cfg["h"].as_u64().unwrap() as usize;
    let frames: Vec<F> = cfg["frames"].as_array().unwrap().iter().map(|v| dec_frame(v)).collect();
    let mut echo = cfg.clone();
    echo["frames"] = enc_frames(&frames);
    echo["L"] = json!(frames.len());
    echo["ffmt"] = json!(<<F::Sample as Sample>::Float as Enc>::FMT);
    // the window values as the stand-alone Window iterator yields them, in the Float companion format
    let wv = catch(|| {
        Window::<[<F::Sample as Sample>::Float; 1], W>::new(bin).take(bin).map(|f| f.channel(0).unwrap().enc()).collect::<Vec<Value>>()
    });
    let built = catch(|| {
        let _ = hann;
        Windower::<F, W>::new(&frames[..], bin, hop)
    });
    let (mut wr, wv) = match (built, wv) {
        (Some(w), Some(v)) => (w, v),
        _ => {
            out.line(&json!({"ev":"reset","comp":"windower","cfg":echo,"r":r_panic(),"o":{"ok":false,"wv":[]}}));
            return;
        }
    };
    out.line(&json!({"ev":"reset","comp":"windower","cfg":echo,"r":r_unit(),"o":{"ok":true,"wv":wv}}));
    // the first `bin` frames of a chunk, into a buffer allocated beforehand
    fn head<I: Iterator>(mut c: I, bin: usize, buf: &mut Vec<I::Item>) {
        for _ in 0..bin {
            match c.next() {
                Some(f) => buf.push(f),
                None => break,
            }
        }
    }
    for op in ops {
        let ev = op["ev"].as_str().unwrap();
        match ev {
            "nth" | "skip" => {
                // Iterator::nth(k) directly, or through the Skip adaptor (whose first next() is nth(k))
                let k = op["a"]["k"].as_u64().unwrap() as usize;
                let mut chunk: Vec<F> = Vec::with_capacity(bin);
                let (r, h, _) = measured(|| {
                    catch(|| {
                        let got = if ev == "nth" { wr.nth(k) } else { wr.by_ref().skip(k).next() };
                        match got {
                            None => false,
                            Some(c) => {
                                head(c, bin, &mut chunk);
                                true
                            }
                        }
                    })
                });
                let r = match r {
                    None => r_panic(),
                    Some(true) => r_some(enc_frames(&chunk)),
                    Some(false) => json!({"k":"none","v":[]}),
                };
                out.ev(ev, json!({"k": k}), r, json!({"ok": true}), h);
            }
            "step_by" => {
                let st = op["a"]["s"].as_u64().unwrap() as usize;
                let m = op["a"]["m"].as_u64().unwrap() as usize;
                let mut chunks: Vec<Vec<F>> = (0..m).map(|_| Vec::with_capacity(bin)).collect();
                let mut got = 0usize;
                let (r, h, _) = measured(|| {
                    catch(|| {
                        for c in wr.by_ref().step_by(st).take(m) {
                            head(c, bin, &mut chunks[got]);
                            got += 1;
                        }
                    })
                });
                let r = match r {
                    None => r_panic(),
                    Some(()) => r_items(Value::Array(chunks[..got].iter().map(|c| enc_frames(c)).collect())),
                };
                out.ev("step_by", json!({"s": st, "m": m}), r, json!({"ok": true}), h);
            }
            "size_hint" => {
                let (r, h, _) = measured(|| catch(|| wr.size_hint()));
                let r = match r {
                    None => r_panic(),
                    Some((lo, hi)) => r_val(json!({"lo": big_u(lo as u128), "hi": match hi {
                        Some(x) => r_some(big_u(x as u128)),
                        None => json!({"k":"none","v": big_u(0)}),
                    }})),
                };
                out.ev("size_hint", json!({"x":0}), r, json!({"ok": true}), h);
            }
            "next" => {
                let mut chunk: Vec<F> = Vec::with_capacity(bin);
                let (r, h, _) = measured(|| {
                    catch(|| match wr.next() {
                        None => false,
                        Some(mut c) => {
                            for _ in 0..bin {
                                match c.next() {
                                    Some(f) => chunk.push(f),
                                    None => break,
                                }
                            }
                            true
                        }
                    })
                });
                let r = match r {
                    None => r_panic(),
                    Some(true) => r_some(enc_frames(&chunk)),
                    Some(false) => json!({"k":"none","v":[]}),
                };
                out.ev("next", json!({"x":0}), r, json!({"ok": true}), h);
            }
            _ => panic!("unknown windower op {}", ev),
        }
    }
}

/// phases for the direct evaluation of the window functions: a rational num/den rounded into the
/// format, then moved by `ulps` units in the last place (floats) / LSBs (integers)
trait PhaseArg: Enc {
    fn from_ratio(num: i64, den: i64) -> Self;
    fn step(self, ulps: i64) -> Self;
}
fn key64(b: i64) -> i64 {
    // sign-magnitude bit pattern <-> monotone integer (an involution)
    if b < 0 { i64::MIN - b } else { b }
}
impl PhaseArg for f64 {
    fn from_ratio(num: i64, den: i64) -> f64 {
        num as f64 / den as f64
    }
    fn step(self, ulps: i64) -> f64 {
        f64::from_bits(key64(key64(self.to_bits() as i64) + ulps) as u64)
    }
}
impl PhaseArg for f32 {
    fn from_ratio(num: i64, den: i64) -> f32 {
        (num as f64 / den as f64) as f32
    }
    fn step(self, ulps: i64) -> f32 {
        let key = |b: i32| if b < 0 { i32::MIN - b } else { b };
        f32::from_bits(key(key(self.to_bits() as i32) + ulps as i32) as u32)
    }
}
impl PhaseArg for i16 {
    fn from_ratio(num: i64, den: i64) -> i16 {
        (num as f64 / den as f64 * 32768.0).round().clamp(-32768.0, 32767.0) as i16
    }
    fn step(self, ulps: i64) -> i16 {
        (self as i64 + ulps).clamp(-32768, 32767) as i16
    }
}

fn winfn<S, W>(out: &mut Out, cfg: &Value, ops: &[Value])
where
    S: PhaseArg,
    W: WindowType<S, Output = S>,
{
    out.line(&json!({"ev":"reset","comp":"winfn","cfg":cfg,"r":r_unit(),"o":{"ok":true}}));
    for op in ops {
        assert_eq!(op["ev"], "eval");
        let a = &op["a"];
        // either an explicit phase `p` (num/den then only name the rational it is meant to be, den = 0: none)
        // or num/den (+ ulps)
        let num = a["num"].as_i64().unwrap_or(0);
        let den = a["den"].as_i64().unwrap_or(0);
        let ulps = a["ulps"].as_i64().unwrap_or(0);
        let p: S = if a["p"].is_null() { S::from_ratio(num, den).step(ulps) } else { S::dec(&a["p"]) };
        let (r, h, _) = measured(|| catch(|| W::window(p)));
        let r = match r {
            None => r_panic(),
            Some(v) => r_val(v.enc()),
        };
        out.ev("eval", json!({"p": p.enc(), "num": num, "den": den, "ulps": ulps}), r, json!({"ok": true}), h);
    }
}

pub fn exec(out: &mut Out, ex: &[Value]) {
    let comp = ex[0]["comp"].as_str().unwrap();
    let cfg = &ex[0]["cfg"];
    let kind = cfg["kind"].as_str().unwrap();
    let fmt = cfg["fmt"].as_str().unwrap();
    let ops = &ex[1..];
    match comp {
        "window" => match (kind, fmt) {
            ("hann", "f64") => take_window::<f64, Hann>(out, cfg, ops),
            ("hann", "f32") => take_window::<f32, Hann>(out, cfg, ops),
            ("rect", "f64") => take_window::<f64, Rectangle>(out, cfg, ops),
            ("rect", "f32") => take_window::<f32, Rectangle>(out, cfg, ops),
            _ => panic!("unsupported window {} {}", kind, fmt),
        },
        "winfn" => match (kind, fmt) {
            ("hann", "f64") => winfn::<f64, Hann>(out, cfg, ops),
            ("hann", "f32") => winfn::<f32, Hann>(out, cfg, ops),
            ("hann", "i16") => winfn::<i16, Hann>(out, cfg, ops),
            ("rect", "f64") => winfn::<f64, Rectangle>(out, cfg, ops),
            ("rect", "f32") => winfn::<f32, Rectangle>(out, cfg, ops),
            ("rect", "i16") => winfn::<i16, Rectangle>(out, cfg, ops),
            _ => panic!("unsupported window function {} {}", kind, fmt),
        },
        "windower" => {
            let ch = cfg["ch"].as_u64().unwrap_or(1);
            macro_rules! go {
                ($w:ty, $hann:expr) => {
                    match (fmt, ch) {
                        ("f64", 1) => windower::<[f64; 1], $w>(out, cfg, ops, $hann),
                        ("f32", 1) => windower::<[f32; 1], $w>(out, cfg, ops, $hann),
                        ("i16", 1) => windower::<[i16; 1], $w>(out, cfg, ops, $hann),
                        ("f64", 2) => windower::<[f64; 2], $w>(out, cfg, ops, $hann),
                        ("f32", 2) => windower::<[f32; 2], $w>(out, cfg, ops, $hann),
                        ("i16", 2) => windower::<[i16; 2], $w>(out, cfg, ops, $hann),
                        _ => panic!("unsupported frame type {} x {}", fmt, ch),
                    }
                };
            }
            match kind {
                "hann" => go!(Hann, true),
                "rect" => go!(Rectangle, false),
                _ => panic!("unknown window kind {}", kind),
            }
        }
        _ => panic!("unknown window component {}", comp),
    }
}

// ---------------------------------------------------------------------------------------- gen

pub fn gen(rng: &mut Rng, tier: &str, execs: &mut Vec<Vec<Value>>) {
    let thorough = tier == "thorough";
    // stand-alone windows: every n with (n-1) | 24 (special points), small n, random n <= 4096
    let mut ns: Vec<u64> = vec![2, 3, 4, 5, 7, 9, 13, 25];
    ns.extend(6..=(if thorough { 64 } else { 20 }));
    for _ in 0..(if thorough { 24 } else { 6 }) {
        ns.push(2 + rng.below(1023));
    }
    ns.push(4096);
    for n in ns {
        for (kind, fmt) in [("hann", "f64"), ("hann", "f32"), ("rect", "f64"), ("rect", "f32")] {
            if n > 64 && kind == "rect" && fmt == "f32" {
                continue;
            }
            execs.push(vec![
                json!({"ev":"reset","comp":"window","cfg":{"kind":kind,"fmt":fmt,"n":n}}),
                json!({"ev":"take","a":{"n":n}}),
            ]);
        }
    }
    // windowers: random L <= 4096, bins 2..64, hops chosen so that the number of chunks stays moderate
    let count = if thorough { 240 } else { 36 };
    let combos: [(&str, usize); 6] = [("f64", 1), ("f32", 1), ("i16", 1), ("f64", 2), ("f32", 2), ("i16", 2)];
    for k in 0..count {
        let (fmt, ch) = combos[k % 6];
        let kind = if (k / 6) % 2 == 0 { "hann" } else { "rect" };
        let l = match rng.below(6) {
            0 => rng.below(8),
            1 => 4096,
            2 => rng.below(64),
            _ => rng.below(4097),
        } as usize;
        let b = match rng.below(5) {
            0 => 2,
            1 => (l.max(2)).min(64),          // L == b when L <= 64
            2 => 2 + rng.below(7) as usize,
            _ => 2 + rng.below(63) as usize,
        };
        let max_chunks = if thorough { 24 } else { 10 };
        let min_hop = (l / max_chunks).max(1);
        let h = match rng.below(5) {
            0 => min_hop,
            1 => b.max(min_hop),              // hop == bin
            2 => l + 1 + rng.below(4) as usize, // hop > L
            3 => (l.saturating_sub(b)).max(min_hop), // exactly two chunks when L > b
            _ => min_hop + rng.below(3 * min_hop as u64 + 1) as usize,
        };
        let fine = rng.chance(2, 3);
        let frames: Vec<Value> = (0..l)
            .map(|_| {
                Value::Array(
                    (0..ch)
                        .map(|_| {
                            let n = rng.range(-32768, 32767);
                            if fmt == "i16" || !fine {
                                json!(n)
                            } else {
                                let u = (rng.next() >> 11) as f64 / (1u64 << 53) as f64;
                                let x = (n as f64 + u) / 32768.0;
                                if fmt == "f32" { f32f(x as f32) } else { f64f(x) }
                            }
                        })
                        .collect(),
                )
            })
            .collect();
        let reset = json!({"ev":"reset","comp":"windower","cfg":{"kind":kind,"fmt":fmt,"ch":ch,"b":b,"h":h,"frames":frames}});
        let mut ex = vec![reset.clone()];
        // the driver just keeps asking, generously past any possible end (no chunk count is computed here)
        for _ in 0..(l / h + 3) {
            ex.push(json!({"ev":"size_hint","a":{}}));
            ex.push(json!({"ev":"next","a":{}}));
        }
        execs.push(ex);
        // the same windower advanced through nth / skip / step_by, mixed with next, a size hint after each.
        // `span` = how many hops fit between the first and the last possible chunk start: jumps of about that
        // size land on, just before and just past the last chunk (also the one that ends exactly at frame L)
        let span = (l.saturating_sub(b) / h) as u64;
        for v in 0..3u64 {
            let mut ex = vec![reset.clone(), json!({"ev":"size_hint","a":{}})];
            let mut left = span + 3;
            let mut first = true;
            while left > 0 {
                let jump = if first && v < 2 {
                    span.saturating_sub(v) // nth(span) / nth(span - 1) from the start
                } else {
                    match rng.below(4) {
                        0 => 0,
                        1 => left.saturating_sub(3), // onto the last chunk if nothing else was consumed
                        _ => rng.below(left.min(4) + 1),
                    }
                };
                let op = match (if first { v } else { rng.below(4) }, jump) {
                    (0, j) => json!({"ev":"nth","a":{"k":j}}),
                    (1, j) => json!({"ev":"skip","a":{"k":j}}),
                    (2, j) => json!({"ev":"step_by","a":{"s": 1 + rng.below(3), "m": 1 + j.min(4)}}),
                    _ => json!({"ev":"next","a":{}}),
                };
                first = false;
                ex.push(op);
                ex.push(json!({"ev":"size_hint","a":{}}));
                left = left.saturating_sub(jump + 1);
            }
            ex.push(json!({"ev":"next","a":{}}));
            ex.push(json!({"ev":"size_hint","a":{}}));
            execs.push(ex);
        }
    }
    // the window functions evaluated directly: the points k/24, i/(n-1), both ends, one ulp around them,
    // arbitrary phases in [0, 1]; the rectangle also well outside [0, 1]
    for (kind, fmt) in [("hann", "f64"), ("hann", "f32"), ("hann", "i16"), ("rect", "f64"), ("rect", "f32"), ("rect", "i16")] {
        let mut ex = vec![json!({"ev":"reset","comp":"winfn","cfg":{"kind":kind,"fmt":fmt}})];
        let ev = |num: i64, den: i64, ulps: i64| json!({"ev":"eval","a":{"num":num,"den":den,"ulps":ulps}});
        for &(n, d) in &[(0i64, 1i64), (1, 2), (1, 1)] {
            for u in -1..=1 {
                ex.push(ev(n, d, u));
            }
        }
        for _ in 0..(if thorough { 160 } else { 40 }) {
            let den = match rng.below(4) {
                0 => 24,
                1 => 1 + rng.below(48) as i64,
                2 => 1 << rng.below(12),
                _ => 1 + rng.below(4096) as i64,
            };
            let num = if kind == "rect" && rng.chance(1, 3) { rng.range(-2 * den, 3 * den) } else { rng.range(0, den) };
            ex.push(ev(num, den, if rng.chance(1, 4) { rng.range(-3, 3) } else { 0 }));
        }
        if fmt != "i16" {
            // full-precision phases in [0, 1) (and, for the rectangle, in [-2, 3))
            for _ in 0..(if thorough { 40 } else { 10 }) {
                let u = (rng.next() >> 11) as f64 / (1u64 << 53) as f64;
                let x = if kind == "rect" { 5.0 * u - 2.0 } else { u };
                let p = if fmt == "f32" { f32f(x as f32) } else { f64f(x) };
                ex.push(json!({"ev":"eval","a":{"p":p,"num":0,"den":0,"ulps":0}}));
            }
        }
        execs.push(ex);
    }
}
